//! C13 correspondence, NRD "recent kernel" index: the real `grin_chain::linked_list::MultiIndex<CommitPos>`
//! (`store::nrd_recent_kernel_index()`) over a real LMDB `ChainStore` / its `Batch`.
//!
//! Modes (first argument):
//!   ops    random operation histories on the real index: push (increasing and - malformed stream -
//!          non-increasing positions), pop, pop_back, rewind (below the tail / above the head / equal
//!          to an entry / between entries / 0 / u64::MAX), prune (`unimplemented!()`), a prune loop over
//!          the real pop_pos_back, clear; several excesses interleaved; top-level batches committed or
//!          dropped, nested child batches committed or dropped.  After every op: result, peek_pos,
//!          the list walked head->tail along `next`, tail->head along `prev`, the list record, and
//!          regularly every record of both key spaces (stale ones included).
//!   forks  block level: a tree of blocks with NRD kernels (few excesses, small relative heights, so
//!          that the rule fires one below / at / above the threshold); `apply_kernel_rules` /
//!          `rewind_single_block` (private in the crate) transliterated over the real peek_pos /
//!          push_pos / rewind; switches between forks (rewind to the fork point, apply the other
//!          branch), refused blocks dropped with their child batch, rebuild (clear + re-apply of a
//!          window); after every switch the lists are compared with the path search over the
//!          current path (`#ORACLE-FAIL C13` on deviation).
//!   corrupt  records written / deleted behind the index's back (dangling pointers, wrong variants,
//!          wrong list record), then single peek / push / pop / pop_back: the error branches of
//!          linked_list.rs against the model (the list specification does not apply there)
//!   chain  the real `Chain`: fork trees of real blocks with real NRD kernels delivered to a subject
//!          chain (reorganisations, refused blocks, restart = rebuild); after every delivery the
//!          index is read from the chain's store and compared.
//!
//! One line per operation / observation: `nrd <op> <args> => <answer>`; the Lean driver recomputes
//! every answer with the model of linked_list.rs and with the list specification
//! (lean/GrinVerif/Drv/NrdD.lean).  The specification is also evaluated here on a shadow, so a
//! violation is an `#ORACLE-FAIL C13` line independently of the driver.
use grin_chain::linked_list::{ListEntry, ListIndex, ListWrapper, PruneableListIndex, RewindableListIndex};
use grin_chain::store::{self as cstore, Batch, ChainStore};
use grin_chain::types::CommitPos;
use grin_core::core::pmmr;
use grin_core::core::KernelFeatures;
use grin_core::global::{self, ChainTypes};
use grin_core::ser::{self, DeserializationMode};
use grin_store::Error;
use grin_util::secp::pedersen::Commitment;
use gvharness::chainkit::{self, KSpec, Kit, Subject, TxSpec};
use gvharness::*;
use std::collections::BTreeMap;
use std::panic::AssertUnwindSafe;

type Spec = BTreeMap<String, Vec<(u64, u64)>>;

struct Cx {
	out: Out,
	rng: Rng,
	/// token -> commitment
	commits: Vec<(String, Commitment)>,
	/// specification shadow, one layer per open batch (innermost last); [0] = committed
	shadow: Vec<Spec>,
	stats: BTreeMap<String, u64>,
	oracle_fails: u64,
	history: Vec<String>,
}

fn err_name(e: &Error) -> String {
	match e {
		Error::OtherErr(s) => match s.as_str() {
			"pos must be increasing" => "PosNotIncreasing".to_string(),
			"expected head to be head variant" => "HeadNotHead".to_string(),
			"next was unexpected" => "NextUnexpected".to_string(),
			"next missing" => "NextMissing".to_string(),
			"expected tail to be tail variant" => "TailNotTail".to_string(),
			"prev was unexpected" => "PrevUnexpected".to_string(),
			"prev missing" => "PrevMissing".to_string(),
			o => format!("Other({})", o.replace(' ', "_")),
		},
		o => format!("{:?}", o).replace(' ', "_"),
	}
}

fn cp(p: &CommitPos) -> String {
	format!("{}:{}", p.pos, p.height)
}
fn opt_cp(r: Result<Option<CommitPos>, Error>) -> String {
	match r {
		Ok(None) => "none".to_string(),
		Ok(Some(p)) => cp(&p),
		Err(e) => format!("err:{}", err_name(&e)),
	}
}
fn unit(r: Result<(), Error>) -> String {
	match r {
		Ok(()) => "ok".to_string(),
		Err(e) => format!("err:{}", err_name(&e)),
	}
}
fn cp_list(v: &[(u64, u64)]) -> String {
	let parts: Vec<String> = v.iter().map(|(p, h)| format!("{}:{}", p, h)).collect();
	format!("[{}]", parts.join(","))
}

fn wrapper_str(w: &Option<ListWrapper<CommitPos>>) -> String {
	match w {
		None => "none".to_string(),
		Some(ListWrapper::Single { pos }) => format!("S({})", cp(pos)),
		Some(ListWrapper::Multi { head, tail }) => format!("M({},{})", head, tail),
	}
}
fn entry_str(e: &ListEntry<CommitPos>) -> String {
	match e {
		ListEntry::Head { pos, next } => format!("H({},{})", cp(pos), next),
		ListEntry::Tail { pos, prev } => format!("T({},{})", cp(pos), prev),
		ListEntry::Middle { pos, next, prev } => format!("M({},{},{})", cp(pos), next, prev),
	}
}

/// follow `next` from the head pointer (as the model's `abs`)
fn walk(batch: &Batch<'_>, c: Commitment) -> Vec<(u64, u64)> {
	let index = cstore::nrd_recent_kernel_index();
	let mut v = vec![];
	match index.get_list(batch, c) {
		Ok(Some(ListWrapper::Single { pos })) => v.push((pos.pos, pos.height)),
		Ok(Some(ListWrapper::Multi { head, .. })) => {
			let mut cur = head;
			for _ in 0..1000 {
				match index.get_entry(batch, c, cur) {
					Ok(Some(ListEntry::Head { pos, next })) | Ok(Some(ListEntry::Middle { pos, next, .. })) => {
						v.push((pos.pos, pos.height));
						cur = next;
					}
					Ok(Some(ListEntry::Tail { pos, .. })) => {
						v.push((pos.pos, pos.height));
						break;
					}
					_ => break,
				}
			}
		}
		_ => {}
	}
	v
}

/// follow `prev` from the tail pointer (as the model's `absBack`)
fn walk_back(batch: &Batch<'_>, c: Commitment) -> Vec<(u64, u64)> {
	let index = cstore::nrd_recent_kernel_index();
	let mut v = vec![];
	match index.get_list(batch, c) {
		Ok(Some(ListWrapper::Single { pos })) => v.push((pos.pos, pos.height)),
		Ok(Some(ListWrapper::Multi { tail, .. })) => {
			let mut cur = tail;
			for _ in 0..1000 {
				match index.get_entry(batch, c, cur) {
					Ok(Some(ListEntry::Tail { pos, prev })) | Ok(Some(ListEntry::Middle { pos, prev, .. })) => {
						v.push((pos.pos, pos.height));
						cur = prev;
					}
					Ok(Some(ListEntry::Head { pos, .. })) => {
						v.push((pos.pos, pos.height));
						break;
					}
					_ => break,
				}
			}
		}
		_ => {}
	}
	v
}

/// every record of both key spaces, sorted by (token, pos); (text, number of entry records)
fn raw(batch: &Batch<'_>, commits: &[(String, Commitment)]) -> (String, usize) {
	let tok = |k: &[u8]| -> String {
		for (t, c) in commits {
			if c.as_ref() == k {
				return t.clone();
			}
		}
		format!("?{}", hex(k))
	};
	let pv = batch.db.protocol_version();
	let mut ls: Vec<(String, String)> = vec![];
	if let Ok(it) = batch.db.iter(Some(cstore::NRD_KERNEL_LIST_PREFIX), |k, mut v| {
		let w: ListWrapper<CommitPos> =
			ser::deserialize(&mut v, pv, DeserializationMode::default()).map_err(Error::from)?;
		Ok((k.to_vec(), w))
	}) {
		for r in it {
			match r {
				Ok((k, w)) => ls.push((tok(&k), wrapper_str(&Some(w)))),
				Err(e) => ls.push(("!".to_string(), format!("{:?}", e))),
			}
		}
	}
	ls.sort();
	let mut es: Vec<(String, u64, String)> = vec![];
	if let Ok(it) = batch.db.iter(Some(cstore::NRD_KERNEL_ENTRY_PREFIX), |k, mut v| {
		let e: ListEntry<CommitPos> =
			ser::deserialize(&mut v, pv, DeserializationMode::default()).map_err(Error::from)?;
		Ok((k.to_vec(), e))
	}) {
		for r in it {
			match r {
				Ok((k, e)) => {
					let n = k.len();
					if n >= 8 {
						let mut b = [0u8; 8];
						b.copy_from_slice(&k[n - 8..]);
						es.push((tok(&k[..n - 8]), u64::from_be_bytes(b), entry_str(&e)));
					} else {
						es.push((format!("?{}", hex(&k)), 0, entry_str(&e)));
					}
				}
				Err(e) => es.push(("!".to_string(), 0, format!("{:?}", e))),
			}
		}
	}
	es.sort();
	let l: Vec<String> = ls.iter().map(|(t, w)| format!("{}={}", t, w)).collect();
	let e: Vec<String> = es.iter().map(|(t, p, s)| format!("{}@{}={}", t, p, s)).collect();
	(format!("K{{{}}} k{{{}}}", l.join(";"), e.join(";")), es.len())
}

impl Cx {
	fn new(seed: u64) -> Cx {
		Cx {
			out: Out::stdout(),
			rng: Rng::new(seed),
			commits: vec![],
			shadow: vec![Spec::new()],
			stats: BTreeMap::new(),
			oracle_fails: 0,
			history: vec![],
		}
	}
	fn stat(&mut self, k: &str) {
		*self.stats.entry(k.to_string()).or_insert(0) += 1;
	}
	fn stat_n(&mut self, k: &str, n: u64) {
		*self.stats.entry(k.to_string()).or_insert(0) += n;
	}
	fn line(&mut self, lhs: &str, rhs: &str) {
		self.out.line(lhs, rhs);
	}
	/// an op line (kept in the case history for oracle reports)
	fn op(&mut self, lhs: &str, rhs: &str) {
		self.history.push(format!("{} => {}", lhs, rhs));
		self.out.line(lhs, rhs);
	}
	fn commit_of(&self, t: &str) -> Commitment {
		self.commits.iter().find(|(x, _)| x == t).unwrap().1
	}
	fn top(&mut self) -> &mut Spec {
		self.shadow.last_mut().unwrap()
	}
	fn spec_list(&self, t: &str) -> Vec<(u64, u64)> {
		self.shadow.last().unwrap().get(t).cloned().unwrap_or_default()
	}
	fn oracle_fail(&mut self, what: &str) {
		self.oracle_fails += 1;
		let h = self.history.join(" | ");
		self.out.raw(&format!("#ORACLE-FAIL C13 nrd index: {}; history: {}", what, h));
	}
	fn new_case(&mut self, n_ex: usize, salt: u8) {
		self.commits.clear();
		for i in 0..n_ex {
			// 33-byte commitments differing in the first and the last byte
			let mut v = vec![0u8; 33];
			v[0] = 0x08 + (i as u8 % 2);
			v[1] = salt;
			v[32] = i as u8;
			self.commits.push((format!("e{}", i), Commitment::from_vec(v)));
		}
		self.shadow = vec![Spec::new()];
		self.history.clear();
		self.op("nrd new", "ok");
	}

	/// observations of one excess in the given batch + oracle against the shadow
	fn observe(&mut self, batch: &Batch<'_>, t: &str) {
		let c = self.commit_of(t);
		let index = cstore::nrd_recent_kernel_index();
		let want = self.spec_list(t);
		let peek = opt_cp(index.peek_pos(batch, c));
		self.line(&format!("nrd peek {}", t), &peek);
		let l = walk(batch, c);
		self.line(&format!("nrd list {}", t), &cp_list(&l));
		let mut b = walk_back(batch, c);
		self.line(&format!("nrd back {}", t), &cp_list(&b));
		let w = index.get_list(batch, c).unwrap_or(None);
		self.line(&format!("nrd wrapper {}", t), &wrapper_str(&w));
		b.reverse();
		let want_peek = match want.first() {
			None => "none".to_string(),
			Some((p, h)) => format!("{}:{}", p, h),
		};
		if l != want || b != want || peek != want_peek {
			self.oracle_fail(&format!(
				"excess {} expected {} got next-walk {} prev-walk(reversed) {} peek {}",
				t,
				cp_list(&want),
				cp_list(&l),
				cp_list(&b),
				peek
			));
		}
		let k = match want.len() {
			0 => "len0",
			1 => "len1",
			2 => "len2",
			3..=5 => "len3-5",
			_ => "len6+",
		};
		self.stat(&format!("obs:{}", k));
	}
	fn observe_raw_only(&mut self, batch: &Batch<'_>) {
		let (s, _) = raw(batch, &self.commits);
		self.line("nrd raw", &s);
		self.stat("raw:dumps");
	}
	fn observe_raw(&mut self, batch: &Batch<'_>) {
		let (s, n_entries) = raw(batch, &self.commits);
		self.line("nrd raw", &s);
		// records not reachable from any list (left by pop_pos / pop_pos_back on 2 -> 1)
		let reachable: usize = self
			.shadow
			.last()
			.unwrap()
			.values()
			.map(|v| if v.len() >= 2 { v.len() } else { 0 })
			.sum();
		if n_entries > reachable {
			self.stat_n("raw:stale-entry-records-seen", (n_entries - reachable) as u64);
		}
		self.stat("raw:dumps");
	}
}

// ---------------------------------------------------------------------------------------------
// mode ops

/// a position for a malformed push / a boundary for rewind and prune, relative to the list
fn boundary(rng: &mut Rng, l: &[(u64, u64)], next_pos: u64) -> u64 {
	match rng.below(10) {
		0 => 0,
		1 => u64::MAX,
		2 if !l.is_empty() => l[0].0,                                   // the head
		3 if !l.is_empty() => l[0].0.saturating_add(1),                 // above the head
		4 if !l.is_empty() => l[l.len() - 1].0,                         // the tail
		5 if !l.is_empty() => l[l.len() - 1].0.saturating_sub(1),       // below the tail
		6 if !l.is_empty() => l[rng.below(l.len() as u64) as usize].0,  // equal to an entry
		7 if !l.is_empty() => l[rng.below(l.len() as u64) as usize].0.saturating_sub(1), // between entries
		_ => rng.below(next_pos.saturating_add(3)),
	}
}

struct OpsGen {
	next_pos: u64,
	height: u64,
	/// positions near u64::MAX
	high: bool,
}

fn run_batch(cx: &mut Cx, g: &mut OpsGen, batch: &mut Batch<'_>, depth: usize, n_ops: usize) {
	let index = cstore::nrd_recent_kernel_index();
	for i in 0..n_ops {
		let n_ex = cx.commits.len() as u64;
		let t = format!("e{}", cx.rng.below(n_ex));
		let c = cx.commit_of(&t);
		let cur = cx.spec_list(&t);
		let r = cx.rng.below(100);
		if r < 44 {
			// valid push
			g.next_pos = g.next_pos.saturating_add(1 + cx.rng.below(3));
			if cx.rng.chance(1, 3) {
				g.height += cx.rng.below(3);
			}
			let ok_expected = cur.first().map(|(p, _)| g.next_pos > *p).unwrap_or(true);
			let res = unit(index.push_pos(batch, c, CommitPos { pos: g.next_pos, height: g.height }));
			cx.op(&format!("nrd push {} {} {}", t, g.next_pos, g.height), &res);
			if ok_expected {
				cx.top().entry(t.clone()).or_default().insert(0, (g.next_pos, g.height));
				let k = match cur.len() {
					0 => "push:none->single",
					1 => "push:single->multi",
					_ => "push:multi",
				};
				cx.stat(k);
				if res != "ok" {
					cx.oracle_fail(&format!("push of increasing pos {} on {} refused: {}", g.next_pos, t, res));
				}
			} else {
				cx.stat("push:saturated-not-increasing");
			}
		} else if r < 54 {
			// malformed stream: a position that is not above the head
			let p = match cur.first() {
				None => boundary(&mut cx.rng, &cur, g.next_pos),
				Some((hp, _)) => match cx.rng.below(4) {
					0 => *hp,
					1 => hp.saturating_sub(1),
					2 => cur[cx.rng.below(cur.len() as u64) as usize].0,
					_ => cx.rng.below(hp.saturating_add(1)),
				},
			};
			let h = cx.rng.below(g.height + 2);
			let ok_expected = cur.first().map(|(hp, _)| p > *hp).unwrap_or(true);
			let res = unit(index.push_pos(batch, c, CommitPos { pos: p, height: h }));
			cx.op(&format!("nrd push {} {} {}", t, p, h), &res);
			if ok_expected {
				cx.top().entry(t.clone()).or_default().insert(0, (p, h));
				if p > g.next_pos {
					g.next_pos = p;
				}
				cx.stat("push:onto-empty-any-pos");
				if res != "ok" {
					cx.oracle_fail(&format!("push onto empty list refused: {}", res));
				}
			} else {
				cx.stat("push:not-increasing");
				if res != "err:PosNotIncreasing" {
					cx.oracle_fail(&format!("push of pos {} not above the head of {} answered {}", p, t, res));
				}
			}
		} else if r < 64 {
			let res = opt_cp(index.pop_pos(batch, c));
			cx.op(&format!("nrd pop {}", t), &res);
			let l = cx.top().entry(t.clone()).or_default();
			if !l.is_empty() {
				l.remove(0);
			}
			let k = match cur.len() {
				0 => "pop:empty",
				1 => "pop:single->none",
				2 => "pop:multi->single",
				_ => "pop:multi",
			};
			cx.stat(k);
		} else if r < 72 {
			let res = opt_cp(index.pop_pos_back(batch, c));
			cx.op(&format!("nrd popback {}", t), &res);
			let l = cx.top().entry(t.clone()).or_default();
			l.pop();
			let k = match cur.len() {
				0 => "popback:empty",
				1 => "popback:single->none",
				2 => "popback:multi->single",
				_ => "popback:multi",
			};
			cx.stat(k);
		} else if r < 84 {
			let rp = boundary(&mut cx.rng, &cur, g.next_pos);
			let res = unit(index.rewind(batch, c, rp));
			cx.op(&format!("nrd rewind {} {}", t, rp), &res);
			let l = cx.top().entry(t.clone()).or_default();
			let before = l.len();
			while !l.is_empty() && l[0].0 > rp {
				l.remove(0);
			}
			let after = l.len();
			let k = if before == 0 {
				"rewind:empty-list"
			} else if after == before {
				"rewind:nothing-popped"
			} else if after == 0 {
				"rewind:emptied-the-list"
			} else if after == 1 {
				"rewind:multi->single"
			} else {
				"rewind:popped-some"
			};
			cx.stat(k);
			if res != "ok" {
				cx.oracle_fail(&format!("rewind of {} to {} answered {}", t, rp, res));
			}
		} else if r < 91 {
			// a prune built from the real pop_pos_back: pop from the back while the oldest pos < cutoff
			let cutoff = boundary(&mut cx.rng, &cur, g.next_pos);
			let mut res = "ok".to_string();
			let mut popped = 0;
			loop {
				let oldest = match index.get_list(batch, c) {
					Ok(None) => None,
					Ok(Some(ListWrapper::Single { pos })) => Some(pos),
					Ok(Some(ListWrapper::Multi { tail, .. })) => match index.get_entry(batch, c, tail) {
						Ok(Some(ListEntry::Tail { pos, .. })) => Some(pos),
						_ => {
							res = "err:TailNotTail".to_string();
							None
						}
					},
					Err(e) => {
						res = format!("err:{}", err_name(&e));
						None
					}
				};
				match oldest {
					Some(p) if p.pos < cutoff => match index.pop_pos_back(batch, c) {
						Ok(_) => popped += 1,
						Err(e) => {
							res = format!("err:{}", err_name(&e));
							break;
						}
					},
					_ => break,
				}
				if popped > 1_000_000 {
					res = "err:FuelOut".to_string();
					break;
				}
			}
			cx.op(&format!("nrd pruneback {} {}", t, cutoff), &res);
			let l = cx.top().entry(t.clone()).or_default();
			let before = l.len();
			while !l.is_empty() && l[l.len() - 1].0 < cutoff {
				l.pop();
			}
			let after = l.len();
			let k = if before == 0 {
				"pruneback:empty-list"
			} else if after == before {
				"pruneback:nothing-pruned"
			} else if after == 0 {
				"pruneback:emptied-the-list"
			} else if after == 1 {
				"pruneback:multi->single"
			} else {
				"pruneback:pruned-some"
			};
			cx.stat(k);
		} else if r < 92 {
			// the real prune: unimplemented!()
			let cutoff = boundary(&mut cx.rng, &cur, g.next_pos);
			let res = match catch(AssertUnwindSafe(|| index.prune(batch, c, cutoff))) {
				Ok(r) => unit(r),
				Err(_) => "panic".to_string(),
			};
			cx.op(&format!("nrd prune {} {}", t, cutoff), &res);
			cx.stat("prune:panic");
		} else if r < 93 {
			let res = unit(index.clear(batch));
			cx.op("nrd clear", &res);
			cx.top().clear();
			cx.stat("clear");
		} else if depth < 3 && i + 2 < n_ops {
			// nested batch
			let n_child = 1 + cx.rng.below(12) as usize;
			let commit = cx.rng.chance(3, 5);
			{
				let mut child = batch.child().expect("child batch");
				cx.op("nrd child", "ok");
				let top = cx.shadow.last().unwrap().clone();
				cx.shadow.push(top);
				run_batch(cx, g, &mut child, depth + 1, n_child);
				if commit {
					let r = child.commit();
					cx.op("nrd commit", if r.is_ok() { "ok" } else { "err" });
					let top = cx.shadow.pop().unwrap();
					*cx.shadow.last_mut().unwrap() = top;
					cx.stat("batch:child-commit");
				} else {
					drop(child);
					cx.op("nrd rollback", "ok");
					cx.shadow.pop();
					cx.stat("batch:child-rollback");
				}
			}
			// the enclosing batch sees the child's writes iff it was committed
			cx.observe_raw(batch);
			let toks: Vec<String> = cx.commits.iter().map(|(t, _)| t.clone()).collect();
			for t in toks {
				cx.observe(batch, &t);
			}
			continue;
		} else {
			continue;
		}
		cx.observe(batch, &t);
		if cx.rng.chance(1, 4) {
			let t2 = format!("e{}", cx.rng.below(n_ex));
			cx.observe(batch, &t2);
		}
		if cx.rng.chance(1, 5) {
			cx.observe_raw(batch);
		}
		let _ = g.high;
	}
}

fn mode_ops(work: &str, seed: u64, thorough: bool) {
	let mut cx = Cx::new(seed);
	let n_cases = if thorough { 900 } else { 220 };
	let root = format!("{}/nrd-ops", work);
	let _ = std::fs::remove_dir_all(&root);
	for case in 0..n_cases {
		let dir = format!("{}/c{}", root, case);
		let store = ChainStore::new(&dir, None).expect("ChainStore::new");
		let n_ex = 1 + cx.rng.below(4) as usize;
		cx.new_case(n_ex, (case % 251) as u8);
		let high = cx.rng.chance(1, 8);
		let mut g = OpsGen {
			next_pos: if high { u64::MAX - 600 - cx.rng.below(100_000) } else { cx.rng.below(5) },
			height: if high { u64::MAX - 3000 } else { cx.rng.below(3) },
			high,
		};
		if high {
			cx.stat("case:positions-near-u64-max");
		}
		let n_batches = 2 + cx.rng.below(4);
		for _ in 0..n_batches {
			let n_ops = 8 + cx.rng.below(30) as usize;
			let commit = cx.rng.chance(7, 10);
			let mut batch = store.batch().expect("batch");
			cx.op("nrd begin", "ok");
			let top = cx.shadow[0].clone();
			cx.shadow.push(top);
			// what the new batch sees of the committed state
			cx.observe_raw(&batch);
			run_batch(&mut cx, &mut g, &mut batch, 1, n_ops);
			cx.observe_raw(&batch);
			let toks: Vec<String> = cx.commits.iter().map(|(t, _)| t.clone()).collect();
			for t in &toks {
				cx.observe(&batch, t);
			}
			if commit {
				let r = batch.commit();
				cx.op("nrd commit", if r.is_ok() { "ok" } else { "err" });
				let top = cx.shadow.pop().unwrap();
				cx.shadow[0] = top;
				cx.stat("batch:commit");
			} else {
				drop(batch);
				cx.op("nrd rollback", "ok");
				cx.shadow.pop();
				cx.stat("batch:rollback");
			}
		}
		// final look through a fresh batch that is dropped
		{
			let batch = store.batch().expect("batch");
			cx.op("nrd begin", "ok");
			let top = cx.shadow[0].clone();
			cx.shadow.push(top);
			cx.observe_raw(&batch);
			let toks: Vec<String> = cx.commits.iter().map(|(t, _)| t.clone()).collect();
			for t in &toks {
				cx.observe(&batch, t);
			}
			drop(batch);
			cx.op("nrd rollback", "ok");
			cx.shadow.pop();
		}
		drop(store);
		let _ = std::fs::remove_dir_all(&dir);
	}
	let _ = std::fs::remove_dir_all(&root);
	finish(cx, "ops", n_cases);
}

fn finish(mut cx: Cx, mode: &str, n_cases: u64) {
	let parts: Vec<String> = cx.stats.iter().map(|(k, v)| format!("{}={}", k, v)).collect();
	cx.out.raw(&format!(
		"#STAT nrd {}: cases {}; lines {}; oracle failures {}; {}",
		mode,
		n_cases,
		cx.out.lines,
		cx.oracle_fails,
		parts.join(" ")
	));
	cx.out.flush();
}

// ---------------------------------------------------------------------------------------------
// mode forks

#[derive(Clone)]
struct FBlk {
	parent: Option<usize>,
	height: u64,
	/// kernel leaves in the kernel MMR before / after this block
	leaves_before: u64,
	/// (excess token, Some(relative height) for NRD, 1-based MMR position)
	kernels: Vec<(String, Option<u64>, u64)>,
}

impl FBlk {
	fn prev_size(&self) -> u64 {
		pmmr::insertion_to_pmmr_index(self.leaves_before)
	}
	fn size(&self) -> u64 {
		pmmr::insertion_to_pmmr_index(self.leaves_before + self.kernels.len() as u64)
	}
	fn args(&self) -> String {
		let ks: Vec<String> = self
			.kernels
			.iter()
			.map(|(t, r, p)| match r {
				Some(r) => format!("{}:{}:{}", t, r, p),
				None => format!("{}:-:{}", t, p),
			})
			.collect();
		format!("{} {} {} [{}]", self.height, self.prev_size(), self.size(), ks.join(","))
	}
}

/// `apply_kernel_rules` (private in grin_chain) over the real index
fn apply_kernel_rules(batch: &mut Batch<'_>, c: Commitment, rel: u64, pos: CommitPos) -> Result<(), String> {
	let index = cstore::nrd_recent_kernel_index();
	match index.peek_pos(batch, c) {
		Err(e) => return Err(err_name(&e)),
		Ok(Some(prev)) => {
			let diff = pos.height.saturating_sub(prev.height);
			if diff < rel {
				return Err("NRDRelativeHeight".to_string());
			}
		}
		Ok(None) => {}
	}
	index.push_pos(batch, c, pos).map_err(|e| err_name(&e))
}

fn path_of(blks: &[FBlk], tip: usize) -> Vec<usize> {
	let mut v = vec![tip];
	let mut cur = tip;
	while let Some(p) = blks[cur].parent {
		v.push(p);
		cur = p;
	}
	v.reverse();
	v
}

/// the path-search specification: occurrences of every excess along the path, most recent first;
/// `min_height`: only blocks at or above it (window)
fn path_spec(blks: &[FBlk], path: &[usize], min_height: u64) -> Spec {
	let mut s = Spec::new();
	for b in path {
		let b = &blks[*b];
		if b.height < min_height {
			continue;
		}
		for (t, r, p) in &b.kernels {
			if r.is_some() {
				s.entry(t.clone()).or_default().insert(0, (*p, b.height));
			}
		}
	}
	s
}

/// would the block be accepted on this path (NRD rule only)?  searched on the path, not the index
fn path_accepts(blks: &[FBlk], path: &[usize], b: &FBlk) -> bool {
	let mut s = path_spec(blks, path, 0);
	for (t, r, p) in &b.kernels {
		if let Some(rel) = r {
			let l = s.entry(t.clone()).or_default();
			if let Some((_, h)) = l.first() {
				if b.height.saturating_sub(*h) < *rel {
					return false;
				}
			}
			l.insert(0, (*p, b.height));
		}
	}
	true
}

fn gen_block(cx: &mut Cx, blks: &[FBlk], parent: usize) -> FBlk {
	let p = &blks[parent];
	let leaves_before = p.leaves_before + p.kernels.len() as u64;
	let n_k = 1 + cx.rng.below(4);
	let n_ex = cx.commits.len() as u64;
	let mut kernels = vec![];
	for i in 0..n_k {
		let pos = pmmr::insertion_to_pmmr_index(leaves_before + i) + 1;
		let t = format!("e{}", cx.rng.below(n_ex));
		let rel = if i == 0 || cx.rng.chance(1, 4) {
			None // coinbase / plain kernel
		} else {
			Some(match cx.rng.below(8) {
				0..=3 => 1,
				4..=5 => 2,
				6 => 3,
				_ => 4,
			})
		};
		kernels.push((t, rel, pos));
	}
	FBlk {
		parent: Some(parent),
		height: p.height + 1,
		leaves_before,
		kernels,
	}
}

fn check_against_path(cx: &mut Cx, batch: &Batch<'_>, blks: &[FBlk], path: &[usize], min_height: u64, what: &str) {
	let want = path_spec(blks, path, min_height);
	let toks: Vec<String> = cx.commits.iter().map(|(t, _)| t.clone()).collect();
	for t in toks {
		let c = cx.commit_of(&t);
		let got = walk(batch, c);
		let w = want.get(&t).cloned().unwrap_or_default();
		if got != w {
			cx.oracle_fail(&format!(
				"{}: excess {} index holds {} but the path search gives {}",
				what,
				t,
				cp_list(&got),
				cp_list(&w)
			));
		}
		cx.observe(batch, &t);
	}
	cx.observe_raw(batch);
}

fn mode_forks(work: &str, seed: u64, thorough: bool) {
	let mut cx = Cx::new(seed ^ 0x5151);
	let n_cases = if thorough { 1200 } else { 300 };
	let root = format!("{}/nrd-forks", work);
	let _ = std::fs::remove_dir_all(&root);
	let index = cstore::nrd_recent_kernel_index();
	for case in 0..n_cases {
		let dir = format!("{}/c{}", root, case);
		let store = ChainStore::new(&dir, None).expect("ChainStore::new");
		let n_ex = 1 + cx.rng.below(3) as usize;
		cx.new_case(n_ex, (case % 251) as u8);
		let mut blks = vec![FBlk {
			parent: None,
			height: 0,
			leaves_before: 0,
			kernels: vec![("e0".to_string(), None, 1)],
		}];
		let mut tip = 0usize;
		let mut batch = store.batch().expect("batch");
		cx.op("nrd begin", "ok");
		let top = cx.shadow[0].clone();
		cx.shadow.push(top);
		let n_steps = 15 + cx.rng.below(45);
		for _ in 0..n_steps {
			let r = cx.rng.below(100);
			if r < 72 {
				// extend the current tip by one block (inside a child batch, dropped when refused)
				let b = gen_block(&mut cx, &blks, tip);
				let path = path_of(&blks, tip);
				let expect_ok = path_accepts(&blks, &path, &b);
				let res;
				{
					let mut child = batch.child().expect("child");
					cx.op("nrd child", "ok");
					let top = cx.shadow.last().unwrap().clone();
					cx.shadow.push(top);
					let mut r: Result<(), String> = Ok(());
					for (t, rel, pos) in &b.kernels {
						if let Some(rel) = rel {
							let c = cx.commit_of(t);
							r = apply_kernel_rules(&mut child, c, *rel, CommitPos { pos: *pos, height: b.height });
							if r.is_err() {
								break;
							}
							cx.top().entry(t.clone()).or_default().insert(0, (*pos, b.height));
						}
					}
					res = match &r {
						Ok(()) => "ok".to_string(),
						Err(e) => format!("err:{}", e),
					};
					cx.op(&format!("nrd block-apply {}", b.args()), &res);
					if r.is_ok() {
						child.commit().expect("commit child");
						cx.op("nrd commit", "ok");
						let top = cx.shadow.pop().unwrap();
						*cx.shadow.last_mut().unwrap() = top;
					} else {
						drop(child);
						cx.op("nrd rollback", "ok");
						cx.shadow.pop();
					}
				}
				if (res == "ok") != expect_ok {
					cx.oracle_fail(&format!(
						"block at height {} on the path: index answered {} but the path search says {}",
						b.height,
						res,
						if expect_ok { "accept" } else { "NRDRelativeHeight" }
					));
				}
				if res == "ok" {
					blks.push(b);
					tip = blks.len() - 1;
					cx.stat("forks:block-accepted");
				} else {
					cx.stat(&format!("forks:block-refused:{}", &res[4..]));
				}
				let path = path_of(&blks, tip);
				check_against_path(&mut cx, &batch, &blks, &path, 0, "after block");
			} else if r < 90 {
				// switch: rewind to a fork point, grow another branch
				let path = path_of(&blks, tip);
				if path.len() < 2 {
					continue;
				}
				let keep = 1 + cx.rng.below(path.len() as u64 - 1) as usize; // blocks kept (>= genesis)
				for bi in path[keep..].iter().rev() {
					let b = blks[*bi].clone();
					let mut res = "ok".to_string();
					for (t, rel, _) in &b.kernels {
						if rel.is_some() {
							let c = cx.commit_of(t);
							if let Err(e) = index.rewind(&mut batch, c, b.prev_size()) {
								res = format!("err:{}", err_name(&e));
								break;
							}
							let l = cx.top().entry(t.clone()).or_default();
							while !l.is_empty() && l[0].0 > b.prev_size() {
								l.remove(0);
							}
						}
					}
					cx.op(&format!("nrd block-rewind {}", b.args()), &res);
					cx.stat("forks:block-rewound");
				}
				tip = path[keep - 1];
				cx.stat(&format!("forks:switch-depth-{}", std::cmp::min(path.len() - keep, 6)));
				let path = path_of(&blks, tip);
				check_against_path(&mut cx, &batch, &blks, &path, 0, "after rewind to the fork point");
			} else {
				// rebuild: clear + re-apply of the blocks of a window (what verify_kernel_pos_index does)
				let path = path_of(&blks, tip);
				let head_h = blks[tip].height;
				let window = cx.rng.below(head_h + 2);
				let cutoff = head_h.saturating_sub(window);
				let res = unit(index.clear(&mut batch));
				cx.op("nrd clear", &res);
				cx.top().clear();
				let mut all_ok = true;
				for bi in &path {
					let b = blks[*bi].clone();
					if b.height < cutoff {
						continue;
					}
					let mut r: Result<(), String> = Ok(());
					for (t, rel, pos) in &b.kernels {
						if let Some(rel) = rel {
							let c = cx.commit_of(t);
							r = apply_kernel_rules(&mut batch, c, *rel, CommitPos { pos: *pos, height: b.height });
							if r.is_err() {
								break;
							}
							cx.top().entry(t.clone()).or_default().insert(0, (*pos, b.height));
						}
					}
					let res = match &r {
						Ok(()) => "ok".to_string(),
						Err(e) => format!("err:{}", e),
					};
					if r.is_err() {
						all_ok = false;
					}
					cx.op(&format!("nrd block-apply {}", b.args()), &res);
					if r.is_err() {
						break;
					}
				}
				if !all_ok {
					cx.oracle_fail("rebuild over a window of a valid path refused a block");
				}
				cx.stat("forks:rebuild");
				check_against_path(&mut cx, &batch, &blks, &path, cutoff, "after rebuild over a window");
				// continue from a full rebuild so that later steps are again against the whole path
				let res = unit(index.clear(&mut batch));
				cx.op("nrd clear", &res);
				cx.top().clear();
				for bi in &path {
					let b = blks[*bi].clone();
					let mut r: Result<(), String> = Ok(());
					for (t, rel, pos) in &b.kernels {
						if let Some(rel) = rel {
							let c = cx.commit_of(t);
							r = apply_kernel_rules(&mut batch, c, *rel, CommitPos { pos: *pos, height: b.height });
							if r.is_err() {
								break;
							}
							cx.top().entry(t.clone()).or_default().insert(0, (*pos, b.height));
						}
					}
					let res = match &r {
						Ok(()) => "ok".to_string(),
						Err(e) => format!("err:{}", e),
					};
					cx.op(&format!("nrd block-apply {}", b.args()), &res);
				}
				check_against_path(&mut cx, &batch, &blks, &path, 0, "after full rebuild");
			}
		}
		batch.commit().expect("commit");
		cx.op("nrd commit", "ok");
		let top = cx.shadow.pop().unwrap();
		cx.shadow[0] = top;
		drop(store);
		let _ = std::fs::remove_dir_all(&dir);
	}
	let _ = std::fs::remove_dir_all(&root);
	finish(cx, "forks", n_cases);
}

// ---------------------------------------------------------------------------------------------
// mode chain: the real Chain

fn chain_blk_args(kit: &Kit, cx: &mut Cx, id: usize) -> String {
	let b = &kit.blks[id].block;
	let prev_size = match kit.blks[id].parent {
		Some(p) => kit.blks[p].block.header.kernel_mmr_size,
		None => 0,
	};
	let leaves_before = pmmr::n_leaves(prev_size);
	let mut ks = vec![];
	for (i, k) in b.kernels().iter().enumerate() {
		let pos = pmmr::insertion_to_pmmr_index(leaves_before + i as u64) + 1;
		let c = k.excess();
		let tok = format!("x{}", hex(&c.0[..8]));
		if !cx.commits.iter().any(|(t, _)| *t == tok) {
			cx.commits.push((tok.clone(), c));
		}
		match k.features {
			KernelFeatures::NoRecentDuplicate { relative_height, .. } => {
				ks.push(format!("{}:{}:{}", tok, u64::from(relative_height), pos))
			}
			_ => ks.push(format!("{}:-:{}", tok, pos)),
		}
	}
	format!(
		"{} {} {} [{}]",
		b.header.height,
		prev_size,
		b.header.kernel_mmr_size,
		ks.join(",")
	)
}

fn chain_path(kit: &Kit, tip: usize) -> Vec<usize> {
	let mut v = vec![tip];
	let mut cur = tip;
	while let Some(p) = kit.blks[cur].parent {
		v.push(p);
		cur = p;
	}
	v.reverse();
	v
}

/// the index as the subject chain's store holds it: raw records and the walk of every NRD excess
fn chain_observe(cx: &mut Cx, subj: &Subject, nrd_toks: &[String]) {
	let store = subj.c().store();
	let batch = store.batch().expect("batch on the chain store");
	cx.op("nrd begin", "ok");
	let (s, _) = raw(&batch, &cx.commits);
	cx.line("nrd raw", &s);
	let index = cstore::nrd_recent_kernel_index();
	for t in nrd_toks {
		let c = cx.commit_of(t);
		cx.line(&format!("nrd peek {}", t), &opt_cp(index.peek_pos(&batch, c)));
		cx.line(&format!("nrd list {}", t), &cp_list(&walk(&batch, c)));
		cx.line(&format!("nrd back {}", t), &cp_list(&walk_back(&batch, c)));
		cx.stat("chain:list-observations");
	}
	drop(batch);
	cx.op("nrd rollback", "ok");
}

struct ChainRun {
	kit: Kit,
	subj: Subject,
	/// best block delivered so far (the subject's head)
	delivered_tip: usize,
	nrd_toks: Vec<String>,
	n_slots: usize,
	/// coinbase outputs already used as an input by some built transaction
	used: Vec<usize>,
	tips: Vec<usize>,
}

impl ChainRun {
	/// deliver block `id` to the subject; reconstruct what `process_block` did to the index from the
	/// head movement (rewind to the fork point newest first, then apply the new branch) and observe
	fn deliver(&mut self, cx: &mut Cx, id: usize) -> String {
		let old_path = chain_path(&self.kit, self.delivered_tip);
		let res = self.subj.deliver_block(&self.kit.blks[id].block);
		cx.history.push(format!("deliver b{} => {}", id, res));
		let head = self.subj.c().head().unwrap().last_block_h;
		let new_tip = *self.kit.by_hash.get(&head).unwrap_or(&0);
		if new_tip != self.delivered_tip {
			let new_path = chain_path(&self.kit, new_tip);
			let mut common = 0;
			while common < old_path.len() && common < new_path.len() && old_path[common] == new_path[common] {
				common += 1;
			}
			cx.op("nrd begin", "ok");
			for bi in old_path[common..].iter().rev() {
				let a = chain_blk_args(&self.kit, cx, *bi);
				cx.op(&format!("nrd block-rewind {}", a), "ok");
				cx.stat("chain:block-rewound");
			}
			for bi in new_path[common..].iter() {
				let a = chain_blk_args(&self.kit, cx, *bi);
				cx.op(&format!("nrd block-apply {}", a), "ok");
				cx.stat("chain:block-applied");
			}
			cx.op("nrd commit", "ok");
			if old_path.len() > common {
				cx.stat(&format!("chain:reorg-depth-{}", std::cmp::min(old_path.len() - common, 8)));
			}
			self.delivered_tip = new_tip;
		} else {
			cx.stat(&format!("chain:delivery-without-head-change:{}", res));
		}
		chain_observe(cx, &self.subj, &self.nrd_toks);
		res
	}

	/// build a block on `parent` with 0-3 NRD transactions (each spending a mature coinbase of the
	/// parent's own path) and deliver it; a block the builder refuses is delivered as well
	fn extend(&mut self, cx: &mut Cx, parent: usize, diff: u64, max_tx: u64) -> Option<usize> {
		let ph = self.kit.blks[parent].height;
		let path = chain_path(&self.kit, parent);
		let mut specs = vec![];
		let n_tx = cx.rng.below(max_tx + 1);
		let mut used_slots = vec![];
		for _ in 0..n_tx {
			let cand: Vec<usize> = path
				.iter()
				.filter(|b| self.kit.blks[**b].height + 3 <= ph + 1 && self.kit.blks[**b].height >= 1)
				.filter_map(|b| {
					let blk = &self.kit.blks[*b].block;
					let cbo = blk.outputs().iter().find(|o| o.is_coinbase())?;
					self.kit.by_commit.get(&cbo.commitment()).cloned()
				})
				.filter(|o| !self.used.contains(o))
				.collect();
			if cand.is_empty() {
				cx.stat("chain:no-mature-coinbase-left");
				break;
			}
			let input = *cx.rng.pick(&cand);
			let slot = cx.rng.below(self.n_slots as u64) as usize;
			if used_slots.contains(&slot) && cx.rng.chance(3, 4) {
				continue;
			}
			used_slots.push(slot);
			let rel = match cx.rng.below(6) {
				0..=2 => 1,
				3..=4 => 2,
				_ => 3,
			};
			let v = self.kit.outs[input].value;
			self.used.push(input);
			specs.push(TxSpec {
				inputs: vec![input],
				outputs: vec![(v - 1, None)],
				kernel: KSpec::Nrd(1, rel, slot),
			});
		}
		match self.kit.new_block(parent, diff, &specs) {
			Ok(id) => {
				cx.stat(&format!("chain:built-block-with-{}-nrd", specs.len()));
				self.deliver(cx, id);
				self.tips.push(id);
				Some(id)
			}
			Err(e) => {
				cx.stat(&format!("chain:builder-refused:{}", e.replace(' ', "_")));
				let mut txs = vec![];
				for s in &specs {
					if let Ok(t) = self.kit.build_tx(s) {
						txs.push(t);
					}
				}
				if txs.len() == specs.len() {
					if let Ok(b) = self.kit.assemble(parent, diff, &txs, 0) {
						let res = self.subj.deliver_block(&b);
						cx.history.push(format!("deliver refused block on b{} => {}", parent, res));
						cx.stat(&format!("chain:refused-block-delivered:{}", res));
						let head = self.subj.c().head().unwrap().last_block_h;
						if *self.kit.by_hash.get(&head).unwrap_or(&0) != self.delivered_tip {
							cx.oracle_fail("a block the builder refused moved the subject's head");
						}
						chain_observe(cx, &self.subj, &self.nrd_toks);
					}
				}
				None
			}
		}
	}

	fn best(&self) -> usize {
		self.delivered_tip
	}
}

fn mode_chain(work: &str, seed: u64, thorough: bool) {
	chainkit::setup_globals();
	let mut cx = Cx::new(seed ^ 0xc4a1);
	let n_cases = if thorough { 14 } else { 4 };
	for case in 0..n_cases {
		let dir = format!("{}/nrd-chain-{}", work, case);
		let _ = std::fs::remove_dir_all(&dir);
		let kit = Kit::new(&format!("{}/builder", dir));
		let subj = Subject::new(&format!("{}/subject", dir), &kit.genesis);
		cx.commits.clear();
		cx.history.clear();
		cx.op("nrd new", "ok");
		let n_slots = 2 + cx.rng.below(2) as usize;
		let mut nrd_toks: Vec<String> = vec![];
		for s in 0..n_slots {
			use grin_keychain::Keychain;
			let tok = format!("x{}", chainkit::nrd_excess_tag(&kit.kc, s));
			let ex = chainkit::nrd_excess(&kit.kc, s);
			let skey = ex.secret_key(kit.kc.secp()).unwrap();
			let c = kit.kc.secp().commit(0, skey).unwrap();
			cx.commits.push((tok.clone(), c));
			nrd_toks.push(tok);
		}
		let mut run = ChainRun {
			kit,
			subj,
			delivered_tip: 0,
			nrd_toks,
			n_slots,
			used: vec![],
			tips: vec![],
		};
		// trunk up to the NRD era (header version 4 from height 9: a hard fork every 3 blocks)
		let mut tip = 0usize;
		for _ in 1..=9u64 {
			let id = run.kit.new_block(tip, 2, &[]).expect("trunk block");
			tip = id;
			run.deliver(&mut cx, id);
		}
		run.tips.push(tip);
		let n_steps = if thorough { 34 } else { 26 };
		for _ in 0..n_steps {
			let r = cx.rng.below(100);
			if r < 55 {
				let parent = run.best();
				let d = 1 + cx.rng.below(3);
				run.extend(&mut cx, parent, d, 3);
			} else if r < 82 {
				// a competing branch from a few blocks below the head, grown until it wins (or a few blocks)
				let path = chain_path(&run.kit, run.best());
				if path.len() < 12 {
					continue;
				}
				let back = 1 + cx.rng.below(std::cmp::min(6, path.len() as u64 - 10)) as usize;
				let mut cur = path[path.len() - 1 - back];
				let target = run.kit.blks[run.best()].work;
				cx.stat("chain:side-branch-started");
				for _ in 0..(back + 2) {
					let d = 2 + cx.rng.below(4);
					match run.extend(&mut cx, cur, d, 2) {
						Some(id) => cur = id,
						None => {}
					}
					if run.kit.blks[cur].work > target && cx.rng.chance(1, 2) {
						break;
					}
				}
			} else if r < 92 {
				// restart: Chain::init rebuilds the index (init_recent_kernel_pos_index -> verify_kernel_pos_index)
				match run.subj.reopen() {
					Ok(()) => {
						cx.history.push("reopen".to_string());
						cx.op("nrd begin", "ok");
						// verify_kernel_pos_index from the cutoff header (height 0: the window of two
						// weeks covers the whole test chain) over the kernel MMR, with its header walk
						let mut hdrs = vec![];
						let mut kers = vec![];
						for bi in chain_path(&run.kit, run.delivered_tip) {
							let hd = &run.kit.blks[bi].block.header;
							hdrs.push(format!("{}:{}", hd.height, hd.kernel_mmr_size));
							let a = chain_blk_args(&run.kit, &mut cx, bi);
							let inner = a.split('[').nth(1).unwrap().trim_end_matches(']').to_string();
							if !inner.is_empty() {
								kers.push(inner);
							}
						}
						cx.op(&format!("nrd rebuild-walk [{}] [{}]", hdrs.join(","), kers.join(",")), "ok");
						cx.op("nrd commit", "ok");
						cx.stat("chain:restart-rebuild");
						chain_observe(&mut cx, &run.subj, &run.nrd_toks);
					}
					Err(e) => cx.oracle_fail(&format!("reopen failed: {}", e)),
				}
			} else {
				// re-deliver a known block (an old fork block: rewind_and_apply_fork in a discarded extension)
				let id = *cx.rng.pick(&run.tips);
				run.deliver(&mut cx, id);
				cx.stat("chain:redelivery");
			}
		}
		// oracle on the final state: lists = path search over the head's own path
		{
			let path = chain_path(&run.kit, run.delivered_tip);
			let mut want = Spec::new();
			for bi in &path {
				let a = chain_blk_args(&run.kit, &mut cx, *bi);
				let h = run.kit.blks[*bi].block.header.height;
				let inner = a.split('[').nth(1).unwrap().trim_end_matches(']').to_string();
				for k in inner.split(',').filter(|s| !s.is_empty()) {
					let p: Vec<&str> = k.split(':').collect();
					if p[1] != "-" {
						want.entry(p[0].to_string()).or_default().insert(0, (p[2].parse().unwrap(), h));
					}
				}
			}
			let store = run.subj.c().store();
			let batch = store.batch().expect("batch");
			for t in &run.nrd_toks {
				let c = cx.commit_of(t);
				let got = walk(&batch, c);
				let w = want.get(t).cloned().unwrap_or_default();
				if got != w {
					cx.oracle_fail(&format!(
						"real chain: excess {} index holds {} but the head's path has {}",
						t,
						cp_list(&got),
						cp_list(&w)
					));
				}
				cx.stat(&format!("chain:final-list-len-{}", std::cmp::min(w.len(), 6)));
			}
		}
		drop(run);
		let _ = std::fs::remove_dir_all(&dir);
	}
	finish(cx, "chain", n_cases);
}


// ---------------------------------------------------------------------------------------------
// mode corrupt: records written / deleted behind the index's back, then single-step operations
// (the error branches of linked_list.rs: "expected head to be head variant", "next missing", ...)

fn entry_key(c: Commitment, pos: u64) -> Vec<u8> {
	let mut k = c.as_ref().to_vec();
	k.extend_from_slice(&pos.to_be_bytes());
	k
}

fn mode_corrupt(work: &str, seed: u64, thorough: bool) {
	let mut cx = Cx::new(seed ^ 0xbad5);
	let n_cases = if thorough { 2500 } else { 600 };
	let root = format!("{}/nrd-corrupt", work);
	let _ = std::fs::remove_dir_all(&root);
	let index = cstore::nrd_recent_kernel_index();
	let dir = format!("{}/store", root);
	let store = ChainStore::new(&dir, None).expect("ChainStore::new");
	for case in 0..n_cases {
		// one store for all cases: every case works in a batch that is dropped
		cx.new_case(2, (case % 251) as u8);
		let mut batch = store.batch().expect("batch");
		cx.op("nrd begin", "ok");
		// a valid starting state
		let mut pos = 1 + cx.rng.below(4);
		let n0 = cx.rng.below(5);
		let n1 = cx.rng.below(3);
		let mut lists: Vec<Vec<u64>> = vec![vec![], vec![]];
		for (ei, n) in [(0usize, n0), (1usize, n1)] {
			for _ in 0..n {
				let t = format!("e{}", ei);
				let c = cx.commit_of(&t);
				let res = unit(index.push_pos(&mut batch, c, CommitPos { pos, height: pos / 3 }));
				cx.op(&format!("nrd push {} {} {}", t, pos, pos / 3), &res);
				lists[ei].insert(0, pos);
				pos += 1 + cx.rng.below(3);
			}
		}
		cx.observe_raw_only(&batch);
		// 1-3 corruptions
		let n_corr = 1 + cx.rng.below(3);
		for _ in 0..n_corr {
			let ei = cx.rng.below(2) as usize;
			let t = format!("e{}", ei);
			let c = cx.commit_of(&t);
			let l = lists[ei].clone();
			let some_pos = |rng: &mut Rng| -> u64 {
				if !l.is_empty() && rng.chance(3, 4) {
					l[rng.below(l.len() as u64) as usize]
				} else {
					rng.below(pos + 3)
				}
			};
			match cx.rng.below(6) {
				0 => {
					// delete an entry record (dangling pointer)
					let p = some_pos(&mut cx.rng);
					let _ = batch.db.delete(Some(cstore::NRD_KERNEL_ENTRY_PREFIX), &entry_key(c, p));
					cx.op(&format!("nrd raw-del-entry {} {}", t, p), "ok");
					cx.stat("corrupt:entry-deleted");
				}
				1 | 2 => {
					// overwrite / add an entry record of an arbitrary variant
					let p = some_pos(&mut cx.rng);
					let cp = CommitPos { pos: if cx.rng.chance(3, 4) { p } else { some_pos(&mut cx.rng) }, height: cx.rng.below(9) };
					let a = some_pos(&mut cx.rng);
					let b = some_pos(&mut cx.rng);
					let (kind, en) = match cx.rng.below(3) {
						0 => ("H", ListEntry::Head { pos: cp, next: a }),
						1 => ("T", ListEntry::Tail { pos: cp, prev: b }),
						_ => ("M", ListEntry::Middle { pos: cp, next: a, prev: b }),
					};
					batch
						.db
						.put_ser(Some(cstore::NRD_KERNEL_ENTRY_PREFIX), &entry_key(c, p), &en)
						.expect("put_ser");
					cx.op(
						&format!("nrd raw-put-entry {} {} {} {} {} {} {}", t, p, kind, cp.pos, cp.height, a, b),
						"ok",
					);
					cx.stat(&format!("corrupt:entry-written-{}", kind));
				}
				3 | 4 => {
					// overwrite the list record
					let a = some_pos(&mut cx.rng);
					let b = some_pos(&mut cx.rng);
					if cx.rng.chance(1, 3) {
						let w: ListWrapper<CommitPos> = ListWrapper::Single { pos: CommitPos { pos: a, height: b } };
						batch.db.put_ser(Some(cstore::NRD_KERNEL_LIST_PREFIX), c.as_ref(), &w).expect("put_ser");
						cx.op(&format!("nrd raw-put-list {} S {} {}", t, a, b), "ok");
						cx.stat("corrupt:list-written-S");
					} else {
						let w: ListWrapper<CommitPos> = ListWrapper::Multi { head: a, tail: b };
						batch.db.put_ser(Some(cstore::NRD_KERNEL_LIST_PREFIX), c.as_ref(), &w).expect("put_ser");
						cx.op(&format!("nrd raw-put-list {} M {} {}", t, a, b), "ok");
						cx.stat("corrupt:list-written-M");
					}
				}
				_ => {
					let _ = batch.db.delete(Some(cstore::NRD_KERNEL_LIST_PREFIX), c.as_ref());
					cx.op(&format!("nrd raw-del-list {}", t), "ok");
					cx.stat("corrupt:list-deleted");
				}
			}
		}
		cx.observe_raw_only(&batch);
		// single-step operations on the malformed store (no loops: `rewind` on a malformed store
		// may not terminate in the real code)
		let n_ops = 2 + cx.rng.below(5);
		for _ in 0..n_ops {
			let ei = cx.rng.below(2) as usize;
			let t = format!("e{}", ei);
			let c = cx.commit_of(&t);
			let res;
			match cx.rng.below(5) {
				0 => {
					res = opt_cp(index.peek_pos(&batch, c));
					cx.line(&format!("nrd peek {}", t), &res);
				}
				1 | 2 => {
					let p = if cx.rng.chance(2, 3) { pos + cx.rng.below(4) } else { cx.rng.below(pos + 2) };
					res = unit(index.push_pos(&mut batch, c, CommitPos { pos: p, height: p / 3 }));
					cx.op(&format!("nrd push {} {} {}", t, p, p / 3), &res);
				}
				3 => {
					res = opt_cp(index.pop_pos(&mut batch, c));
					cx.op(&format!("nrd pop {}", t), &res);
				}
				_ => {
					res = opt_cp(index.pop_pos_back(&mut batch, c));
					cx.op(&format!("nrd popback {}", t), &res);
				}
			}
			let k = if res.starts_with("err:") { res[4..].to_string() } else { "no-error".to_string() };
			cx.stat(&format!("corrupt:op-result:{}", k));
			// walks (capped) and records
			let l = walk(&batch, c);
			cx.line(&format!("nrd list {}", t), &cp_list(&l));
			let b = walk_back(&batch, c);
			cx.line(&format!("nrd back {}", t), &cp_list(&b));
			cx.observe_raw_only(&batch);
		}
		drop(batch);
		cx.op("nrd rollback", "ok");
	}
	drop(store);
	let _ = std::fs::remove_dir_all(&root);
	finish(cx, "corrupt", n_cases);
}

fn main() {
	quiet_panics();
	global::set_local_chain_type(ChainTypes::AutomatedTesting);
	global::set_local_nrd_enabled(true);
	let work = std::env::var("VERIF_WORK").expect("VERIF_WORK must name a scratch directory");
	let seed = seed_from_env();
	let thorough = tier_thorough();
	let mode = std::env::args().nth(1).unwrap_or_else(|| "ops".to_string());
	match mode.as_str() {
		"ops" => mode_ops(&work, seed, thorough),
		"forks" => mode_forks(&work, seed, thorough),
		"chain" => mode_chain(&work, seed, thorough),
		"corrupt" => mode_corrupt(&work, seed, thorough),
		m => {
			eprintln!("unknown mode {}", m);
			std::process::exit(2);
		}
	}
}
