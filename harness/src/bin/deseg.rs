//! deseg: the receiving side's state machine (`chain/src/txhashset/desegmenter.rs`) driven step by
//! step on the REAL `Desegmenter`; every observable the model `Model/Deseg.lean` recomputes is
//! printed in the line protocol domain `deseg`:
//!
//!   deseg new <hB> <hO> <hR> <hK> <outSize> <kerSize> <gOut> <gKer> => <bitmap leaf count> <bitmap mmr size>
//!   deseg apply                       => <ok|err:Class|panic> <output size> <rangeproof size> <kernel size>
//!   deseg check                       => 0|1     (check_progress; synth: sizes equal and bitmap finalised)
//!   deseg want <max>                  => [kind:height:idx,...]   (next_desired_segments(max), as returned)
//!   deseg iscomplete                  => 0|1     (is_complete())
//!   deseg add <kind> <h> <idx> <valid> <jump> <extra> => ok|InvalidSegmentHeight|NonExistent|Invalid
//!
//! `valid` is the content-dependent verdict of validate / validate_with (taken from the real call when
//! it got that far, otherwise whether the copy is genuine); `jump` / `extra` are computed from the
//! segment's content (hash / leaf positions, number of chunks).  Which refusals the model must predict
//! on its own: wrong height, identifier outside the archive MMR (wrapped u64 arithmetic), duplicates.
//!
//! Runs:  synth  – synthetic serving side (VecBackend MMRs + bitmap accumulator + fabricated archive
//!                 header committing to them): archive sizes 1..~40 outputs / kernels and a few beyond the
//!                 1024-output chunk boundary, tiny segment heights (hook 19692181f), request sizes
//!                 1..15, random arrival orders, late / duplicate / withheld / unsolicited / foreign-height /
//!                 beyond-range / alias-index / tampered segments; final roots compared with the source's;
//!        chain  – a real serving chain (spends, compaction) + its Segmenter, real check_progress;
//!        probe  – two recorded observations that do not contradict the property (nothing wrong is ever finalised):
//!                 the redundant-trailing-chunk bitmap segment (one peer can stall the sync) and the request
//!                 budget of 1 (starves a tree; the server asks for 15); printed as `#STAT probe: …` lines, every
//!                 step still compared with the model.
//!
//! The harness itself evaluates the property's oracle (no stall under honest service, requested
//! identifiers are served and accepted, foreign / out-of-range / tampered segments refused, roots at
//! completion equal the source's) and prints `#ORACLE-FAIL C16 …` with the concrete input.

use croaring::Bitmap;
use grin_chain::pibd_params::verif_hooks::set_segment_heights;
use grin_chain::txhashset::{BitmapAccumulator, BitmapChunk, Desegmenter, Segmenter};
use grin_chain::types::SyncState;
use grin_core::core::hash::Hash;
use grin_core::core::pmmr::segment::{Segment, SegmentError, SegmentIdentifier, SegmentType};
use grin_core::core::pmmr::{self, ReadablePMMR, ReadonlyPMMR, VecBackend, PMMR};
use grin_core::core::{BlockHeader, KernelFeatures, OutputFeatures, OutputIdentifier, TxKernel};
use grin_core::ser::{PMMRIndexHashable, PMMRable};
use grin_util::secp::pedersen::{Commitment, RangeProof};
use gvharness::chainkit::{error_class, KSpec, Kit, Subject, TxSpec};
use gvharness::*;
use std::collections::{BTreeMap, BTreeSet};
use std::panic::AssertUnwindSafe;
use std::sync::Arc;
use std::time::Instant;

const TREE: [&str; 4] = ["bitmap", "output", "rangeproof", "kernel"];

#[derive(Default)]
struct Stats {
	c: BTreeMap<String, u64>,
}
impl Stats {
	fn inc(&mut self, k: &str) {
		*self.c.entry(k.to_string()).or_insert(0) += 1;
	}
	fn add(&mut self, k: &str, n: u64) {
		*self.c.entry(k.to_string()).or_insert(0) += n;
	}
	fn dump(&self, out: &mut Out, tag: &str) {
		let parts: Vec<String> = self.c.iter().map(|(k, v)| format!("{}={}", k, v)).collect();
		out.raw(&format!("#STAT [{}] {}", tag, parts.join(" ")));
	}
}

fn tree_no(t: &SegmentType) -> usize {
	match t {
		SegmentType::Bitmap => 0,
		SegmentType::Output => 1,
		SegmentType::RangeProof => 2,
		SegmentType::Kernel => 3,
	}
}

/// one segment to hand over, of any tree (bitmap: with the output PMMR root, output: with the bitmap root)
#[derive(Clone)]
enum Seg {
	Bitmap(Segment<BitmapChunk>, Hash),
	Output(Segment<OutputIdentifier>, Hash),
	Range(Segment<RangeProof>),
	Kernel(Segment<TxKernel>),
}

fn relabel_t<T>(s: &Segment<T>, id: SegmentIdentifier) -> Option<Segment<T>>
where
	T: Clone,
{
	let (_, hp, hs, lp, ld, proof) = s.clone().parts();
	catch(AssertUnwindSafe(move || Segment::from_parts(id, hp, hs, lp, ld, proof))).ok()
}

fn positions_t<T: Clone>(s: &Segment<T>) -> (Vec<u64>, Vec<u64>) {
	let (_, hp, _, lp, _, _) = s.clone().parts();
	(hp, lp)
}

/// exchange the data of two neighbouring leaves (or move a single leaf); `None` if nothing the
/// validation depends on can be touched this way
fn tamper_t<T: Clone>(s: &Segment<T>, rng: &mut Rng, required: &dyn Fn(u64) -> bool) -> Option<Segment<T>> {
	let (id, hp, hs, mut lp, mut ld, proof) = s.clone().parts();
	if ld.len() >= 2 {
		let i = rng.below(ld.len() as u64 - 1) as usize;
		if !(required(lp[i]) && required(lp[i + 1])) {
			return None;
		}
		ld.swap(i, i + 1);
	} else if ld.len() == 1 {
		if !required(lp[0]) {
			return None;
		}
		lp[0] += 1;
	} else {
		return None;
	}
	catch(AssertUnwindSafe(move || Segment::from_parts(id, hp, hs, lp, ld, proof))).ok()
}

impl Seg {
	fn tree(&self) -> usize {
		match self {
			Seg::Bitmap(..) => 0,
			Seg::Output(..) => 1,
			Seg::Range(..) => 2,
			Seg::Kernel(..) => 3,
		}
	}
	fn id(&self) -> SegmentIdentifier {
		match self {
			Seg::Bitmap(s, _) => s.identifier(),
			Seg::Output(s, _) => s.identifier(),
			Seg::Range(s) => s.identifier(),
			Seg::Kernel(s) => s.identifier(),
		}
	}
	/// the same content under another identifier
	fn relabel(&self, id: SegmentIdentifier) -> Option<Seg> {
		match self {
			Seg::Bitmap(s, r) => relabel_t(s, id).map(|x| Seg::Bitmap(x, *r)),
			Seg::Output(s, r) => relabel_t(s, id).map(|x| Seg::Output(x, *r)),
			Seg::Range(s) => relabel_t(s, id).map(Seg::Range),
			Seg::Kernel(s) => relabel_t(s, id).map(Seg::Kernel),
		}
	}
	fn positions(&self) -> (Vec<u64>, Vec<u64>) {
		match self {
			Seg::Bitmap(s, _) => positions_t(s),
			Seg::Output(s, _) => positions_t(s),
			Seg::Range(s) => positions_t(s),
			Seg::Kernel(s) => positions_t(s),
		}
	}
	fn tampered(&self, rng: &mut Rng, req_out: &dyn Fn(u64) -> bool) -> Option<Seg> {
		let all = |_p: u64| true;
		match self {
			Seg::Bitmap(s, _) => Some(Seg::Bitmap(s.clone(), Hash::from_vec(&rng.bytes(32)))),
			Seg::Output(s, r) => tamper_t(s, rng, req_out).map(|x| Seg::Output(x, *r)),
			Seg::Range(s) => tamper_t(s, rng, req_out).map(Seg::Range),
			Seg::Kernel(s) => tamper_t(s, rng, &all).map(Seg::Kernel),
		}
	}
}

fn add(d: &mut Desegmenter, s: Seg) -> Result<(), grin_chain::Error> {
	match s {
		Seg::Bitmap(s, r) => d.add_bitmap_segment(s, r),
		Seg::Output(s, r) => d.add_output_segment(s, Some(r)),
		Seg::Range(s) => d.add_rangeproof_segment(s),
		Seg::Kernel(s) => d.add_kernel_segment(s),
	}
}

/// canonical name of what `add_*_segment` returned
fn add_class(r: &Result<(), grin_chain::Error>) -> String {
	match r {
		Ok(()) => "ok".to_string(),
		Err(grin_chain::Error::InvalidSegmentHeight) => "InvalidSegmentHeight".to_string(),
		Err(grin_chain::Error::SegmentError { source }) => match source {
			SegmentError::NonExistent => "NonExistent".to_string(),
			_ => "Invalid".to_string(),
		},
		Err(e) => format!("Other:{}", error_class(e)),
	}
}

// ---------------------------------------------------------------------------------------------
// the serving side
// ---------------------------------------------------------------------------------------------

struct Src<'a> {
	fetch: Box<dyn Fn(usize, SegmentIdentifier) -> Option<Seg> + 'a>,
	/// leaves per tree at the archive header: chunks, outputs, outputs, kernels
	leaves: [u64; 4],
	/// whether validation depends on the data of the output / rangeproof leaf at pos0
	req_out: Box<dyn Fn(u64) -> bool + 'a>,
	/// (output pmmr root, bitmap root, rangeproof root, kernel root) when known
	roots: Option<(Hash, Hash, Hash, Hash)>,
	/// the source's unspent output leaf indices at the archive header, ascending, when known
	unspent: Option<Vec<u64>>,
	/// the source's output MMR peak hashes (diagnostics)
	out_peaks: Option<Vec<Hash>>,
}

/// synthetic MMRs over `n_out` outputs (+ range proofs) and `n_ker` kernels, a leaf set, the bitmap
/// accumulator over it, and an archive header committing to all of it.  Leaf 0 of every MMR is the
/// receiving chain's genesis element, so that the rebuilt MMRs have the roots of these.
struct Synth {
	n_out: u64,
	n_ker: u64,
	out_be: VecBackend<OutputIdentifier>,
	rp_be: VecBackend<RangeProof>,
	ker_be: VecBackend<TxKernel>,
	out_size: u64,
	ker_size: u64,
	acc: BitmapAccumulator,
	unspent: BTreeSet<u64>,
	roots: (Hash, Hash, Hash, Hash),
	header: BlockHeader,
}

fn push_all<T: PMMRable>(be: &mut VecBackend<T>, elems: &[T]) -> u64 {
	let mut size = 0u64;
	for e in elems {
		let mut p = PMMR::at(be, size);
		p.push(e).unwrap();
		size = p.size;
	}
	size
}

impl Synth {
	fn new(kit: &Kit, rng: &mut Rng, n_out: u64, n_ker: u64, leafset: &str) -> Synth {
		let g = &kit.genesis;
		let mut outs: Vec<OutputIdentifier> = vec![g.outputs()[0].identifier()];
		let mut rps: Vec<RangeProof> = vec![g.outputs()[0].proof];
		let mut kers: Vec<TxKernel> = vec![g.kernels()[0].clone()];
		for _ in 1..n_out {
			let mut c = rng.bytes(33);
			c[0] = 0x08 | (c[0] & 1);
			let feat = if rng.chance(1, 4) { OutputFeatures::Coinbase } else { OutputFeatures::Plain };
			outs.push(OutputIdentifier::new(feat, &Commitment::from_vec(c)));
			let mut rp = RangeProof::zero();
			rp.plen = 675;
			let b = rng.bytes(40);
			for (i, x) in b.iter().enumerate() {
				rp.proof[i] = *x;
			}
			rps.push(rp);
		}
		for _ in 1..n_ker {
			let mut k = TxKernel::with_features(KernelFeatures::Plain { fee: ((1 + rng.below(1000)) as u32).into() });
			let mut c = rng.bytes(33);
			c[0] = 0x08 | (c[0] & 1);
			k.excess = Commitment::from_vec(c);
			kers.push(k);
		}
		let mut out_be = VecBackend::<OutputIdentifier>::new();
		let mut rp_be = VecBackend::<RangeProof>::new();
		let mut ker_be = VecBackend::<TxKernel>::new();
		let out_size = push_all(&mut out_be, &outs);
		let rp_size = push_all(&mut rp_be, &rps);
		let ker_size = push_all(&mut ker_be, &kers);
		assert_eq!(out_size, rp_size);
		// the leaf set: the last output (created by the archive block) is unspent
		let mut unspent: BTreeSet<u64> = BTreeSet::new();
		for i in 0..n_out {
			let keep = match leafset {
				"dense" => rng.below(10) < 8,
				"sparse" => rng.below(8) == 0,
				"only-last" => false,
				"runs" => (i / 4) % 2 == 0,
				// a 1024-aligned run of 1024 (zero-run) / 2048 (zero-run2) outputs fully spent: all-zero
				// chunk(s) in the MIDDLE of the bitmap, unspent outputs before (if any) and after
				"zero-run" => {
					let c = ((n_out - 1) / 1024).saturating_sub(1);
					i / 1024 != c && rng.below(10) < 8
				}
				"zero-run2" => {
					let c = ((n_out - 1) / 1024).saturating_sub(2);
					i / 1024 != c && i / 1024 != c + 1 && rng.below(10) < 8
				}
				"zero-first" => i / 1024 != 0 && rng.below(10) < 8,
				_ => true,
			};
			if keep {
				unspent.insert(i);
			}
		}
		unspent.insert(n_out - 1);
		let mut acc = BitmapAccumulator::new();
		acc.init(unspent.iter().cloned(), n_out).unwrap();
		let pmmr_root = ReadonlyPMMR::at(&out_be, out_size).root().unwrap();
		let rp_root = ReadonlyPMMR::at(&rp_be, rp_size).root().unwrap();
		let ker_root = ReadonlyPMMR::at(&ker_be, ker_size).root().unwrap();
		let bitmap_root = acc.root();
		let mut h = BlockHeader::default();
		h.version = grin_core::core::block::HeaderVersion(5);
		h.height = 1000 + n_out * 64 + n_ker;
		h.output_mmr_size = out_size;
		h.kernel_mmr_size = ker_size;
		h.output_root = (pmmr_root, bitmap_root).hash_with_index(out_size);
		h.range_proof_root = rp_root;
		h.kernel_root = ker_root;
		Synth { n_out, n_ker, out_be, rp_be, ker_be, out_size, ker_size, acc, unspent, roots: (pmmr_root, bitmap_root, rp_root, ker_root), header: h }
	}

	fn src(&self) -> Src<'_> {
		let fetch = move |t: usize, id: SegmentIdentifier| -> Option<Seg> {
			let r = catch(AssertUnwindSafe(|| match t {
				0 => Segment::<BitmapChunk>::from_pmmr(id, &self.acc.readonly_pmmr(), false).ok().map(|s| Seg::Bitmap(s, self.roots.0)),
				1 => Segment::<OutputIdentifier>::from_pmmr(id, &ReadonlyPMMR::at(&self.out_be, self.out_size), true).ok().map(|s| Seg::Output(s, self.roots.1)),
				2 => Segment::<RangeProof>::from_pmmr(id, &ReadonlyPMMR::at(&self.rp_be, self.out_size), true).ok().map(Seg::Range),
				_ => Segment::<TxKernel>::from_pmmr(id, &ReadonlyPMMR::at(&self.ker_be, self.ker_size), false).ok().map(Seg::Kernel),
			}));
			r.ok().flatten()
		};
		let out_size = self.out_size;
		let req = move |pos0: u64| -> bool {
			let i = pmmr::n_leaves(pos0 + 1) - 1;
			self.unspent.contains(&i) || self.unspent.contains(&(i ^ 1)) || pos0 + 1 == out_size
		};
		Src { fetch: Box::new(fetch), leaves: [(self.n_out + 1023) / 1024, self.n_out, self.n_out, self.n_ker], req_out: Box::new(req), roots: Some(self.roots), unspent: Some(self.unspent.iter().cloned().collect()), out_peaks: None }
	}
}

// ---------------------------------------------------------------------------------------------
// one receiver, one archive header: the rounds of `StateSync::continue_pibd`
// ---------------------------------------------------------------------------------------------

#[derive(Clone, Copy, Debug, PartialEq)]
enum Order {
	AsAsked,
	Reverse,
	Shuffled,
}

#[derive(Clone, Debug)]
struct Plan {
	order: Order,
	/// n/12: a requested segment is held back for 1..3 rounds
	withhold: u64,
	/// n/12: a delivery is made twice
	dup: u64,
	/// unsolicited / malformed deliveries per round: 0..=junk
	junk: u64,
	/// `max_elements` of next_desired_segments
	max_el: usize,
}

fn shuffle_v<T>(rng: &mut Rng, v: &mut Vec<T>) {
	for i in (1..v.len()).rev() {
		let j = rng.below(i as u64 + 1) as usize;
		v.swap(i, j);
	}
}

struct Delivery {
	seg: Seg,
	/// what the harness knows about the copy
	what: &'static str,
	genuine: bool,
}

fn sizes_of(dest: &Subject) -> (u64, u64, u64) {
	let ts = dest.c().txhashset();
	let ts = ts.read();
	(ts.output_mmr_size(), ts.rangeproof_mmr_size(), ts.kernel_mmr_size())
}

/// returns whether the receiver completed
fn run_receiver(
	out: &mut Out,
	st: &mut Stats,
	rng: &mut Rng,
	tag: &str,
	dest: &Subject,
	ah: &BlockHeader,
	heights: [u8; 4],
	src: &Src,
	plan: &Plan,
	real_check: bool,
) -> bool {
	set_segment_heights(Some((heights[0], heights[1], heights[2], heights[3])));
	let deseg = match catch(AssertUnwindSafe(|| dest.c().desegmenter(ah))) {
		Ok(Ok(d)) => d,
		Ok(Err(e)) => {
			set_segment_heights(None);
			out.raw(&format!("#ORACLE-FAIL C16 deseg {}: Chain::desegmenter failed: {}", tag, error_class(&e)));
			return false;
		}
		Err(m) => {
			set_segment_heights(None);
			out.raw(&format!("#ORACLE-FAIL C16 deseg {}: Chain::desegmenter panicked: {}", tag, m));
			return false;
		}
	};
	set_segment_heights(None);
	let mut guard = deseg.write();
	let d = guard.as_mut().unwrap();
	let (g_out, g_rp, g_ker) = sizes_of(dest);
	if g_out != g_rp {
		out.raw(&format!("#ORACLE-FAIL C16 deseg {}: fresh receiver with output size {} and rangeproof size {}", tag, g_out, g_rp));
	}
	let bm_size = d.expected_bitmap_mmr_size();
	out.line(
		&format!("deseg new {} {} {} {} {} {} {} {}", heights[0], heights[1], heights[2], heights[3], ah.output_mmr_size, ah.kernel_mmr_size, g_out, g_ker),
		&format!("{} {}", pmmr::n_leaves(bm_size), bm_size),
	);
	let leaves = src.leaves;
	let totals: Vec<u64> = (0..4).map(|i| (leaves[i] + (1u64 << heights[i]) - 1) >> heights[i]).collect();
	for i in 0..4 {
		st.inc(&format!("segments-per-tree[{}]:{}", TREE[i], match totals[i] { 0 => "0", 1 => "1", 2..=4 => "2-4", 5..=16 => "5-16", _ => ">16" }));
	}
	st.inc(&format!("max_elements:{}", plan.max_el));
	st.inc(&format!("order:{:?}", plan.order));
	let total_segments: u64 = totals.iter().sum();
	let bound = 60 + 6 * total_segments;
	let mut rounds = 0u64;
	let mut complete = false;
	// (tree, id, due round)
	let mut withheld: Vec<(usize, SegmentIdentifier, u64)> = vec![];
	// honest deliveries accepted so far, per tree
	let mut delivered: [BTreeSet<u64>; 4] = Default::default();
	let mut log: Vec<String> = vec![];
	let mut finalised_seen = false;
	let mut idle_rounds = 0u32;
	let mut last_sizes = (0u64, 0u64, 0u64);
	while rounds < bound {
		rounds += 1;
		// --- apply_next_segments
		let ares = catch(AssertUnwindSafe(|| d.apply_next_segments()));
		let (so, sr, sk) = sizes_of(dest);
		let ares_s = match &ares {
			Ok(Ok(())) => "ok".to_string(),
			Ok(Err(e)) => format!("err:{}", error_class(e)),
			Err(_) => "panic".to_string(),
		};
		out.line("deseg apply", &format!("{} {} {} {}", ares_s, so, sr, sk));
		if ares_s != "ok" {
			st.inc(&format!("apply:{}", ares_s));
			out.raw(&format!(
				"#ORACLE-FAIL C16 deseg {}: apply_next_segments returned {} in round {} ({:?}); deliveries=[{}]",
				tag, ares_s, rounds, ares.as_ref().err(), &log.join(" ")[..log.join(" ").len().min(2500)]
			));
			return false;
		}
		// --- check_progress (as continue_pibd does, before asking)
		if real_check {
			complete = matches!(d.check_progress(Arc::new(SyncState::new())), Ok(true));
			out.line("deseg check", if complete { "1" } else { "0" });
			if complete {
				break;
			}
		}
		// --- next_desired_segments
		let wanted: Vec<(usize, SegmentIdentifier)> =
			d.next_desired_segments(plan.max_el).iter().map(|x| (tree_no(&x.segment_type), x.identifier)).collect();
		let toks: Vec<String> = wanted.iter().map(|(t, id)| format!("{}:{}:{}", t, id.height, id.idx)).collect();
		out.line(&format!("deseg want {}", plan.max_el), &format!("[{}]", toks.join(",")));
		let is_c = d.is_complete();
		out.line("deseg iscomplete", if is_c { "1" } else { "0" });
		st.add("requested", wanted.len() as u64);
		if wanted.iter().any(|(t, _)| *t != 0) || is_c {
			finalised_seen = true;
		}
		if !real_check {
			// the decision of check_progress on what can be observed from outside
			complete = (so, sr, sk) == (ah.output_mmr_size, ah.output_mmr_size, ah.kernel_mmr_size) && finalised_seen;
			out.line("deseg check", if complete { "1" } else { "0" });
			if complete {
				break;
			}
		}
		// oracle: requests have the asked height, lie inside the archive MMR and can be served
		for (t, id) in &wanted {
			if id.height != heights[*t] || id.idx >= totals[*t] {
				out.raw(&format!(
					"#ORACLE-FAIL C16 deseg {}: next_desired_segments({}) asks for {} segment ({},{}) — asked height {}, {} segments in the archive MMR",
					tag, plan.max_el, TREE[*t], id.height, id.idx, heights[*t], totals[*t]
				));
			}
		}
		// oracle: no stall — nothing asked for, nothing on its way, no MMR moved, not complete
		if wanted.is_empty() && withheld.is_empty() && (so, sr, sk) == last_sizes {
			idle_rounds += 1;
		} else {
			idle_rounds = 0;
		}
		last_sizes = (so, sr, sk);
		// (one cached bitmap segment is applied per round, invisibly from outside: allow for all of them)
		if idle_rounds as u64 >= 4 + totals[0] {
			st.inc("STALL-empty-request-list");
			out.raw(&format!(
				"#ORACLE-FAIL C16 deseg STALL {}: next_desired_segments({}) has returned an empty list for {} rounds in which no MMR grew (round {}), not complete: local sizes output={} rangeproof={} kernel={}, archive output={} kernel={}; deliveries=[{}]",
				tag, plan.max_el, idle_rounds, rounds, so, sr, sk, ah.output_mmr_size, ah.kernel_mmr_size, &log.join(" ")[..log.join(" ").len().min(2500)]
			));
			return false;
		}
		// --- this round's deliveries
		let mut base: Vec<(usize, SegmentIdentifier)> = vec![];
		let mut due: Vec<(usize, SegmentIdentifier)> = vec![];
		withheld.retain(|(t, id, r)| {
			if *r <= rounds {
				due.push((*t, *id));
				false
			} else {
				true
			}
		});
		for (t, id) in &wanted {
			if withheld.iter().any(|(t2, id2, _)| t2 == t && id2 == id) {
				continue;
			}
			if rng.below(12) < plan.withhold {
				withheld.push((*t, *id, rounds + 1 + rng.below(3)));
				st.inc("withheld");
				continue;
			}
			base.push((*t, *id));
		}
		base.extend(due);
		match plan.order {
			Order::AsAsked => {}
			Order::Reverse => base.reverse(),
			Order::Shuffled => shuffle_v(rng, &mut base),
		}
		let mut plan_d: Vec<Delivery> = vec![];
		for (t, id) in &base {
			match (src.fetch)(*t, *id) {
				Some(s) => {
					plan_d.push(Delivery { seg: s.clone(), what: "requested", genuine: true });
					if rng.below(12) < plan.dup {
						plan_d.push(Delivery { seg: s, what: "duplicate", genuine: true });
					}
				}
				None => {
					out.raw(&format!("#ORACLE-FAIL C16 deseg {}: the source cannot serve the requested {} segment ({},{})", tag, TREE[*t], id.height, id.idx));
				}
			}
		}
		// unsolicited / malformed
		for _ in 0..rng.below(plan.junk + 1) {
			let t = rng.below(4) as usize;
			let h = heights[t];
			if totals[t] == 0 {
				continue;
			}
			let kind = rng.below(8);
			let dl: Option<Delivery> = match kind {
				0 => {
					// another height (genuine segment of the source at that height)
					let oh = if h > 0 && rng.chance(1, 2) { h - 1 } else { h + 1 + rng.below(3) as u8 };
					let cnt = ((leaves[t] + (1u64 << oh) - 1) >> oh).max(1);
					(src.fetch)(t, SegmentIdentifier { height: oh, idx: rng.below(cnt) }).map(|s| Delivery { seg: s, what: "foreign-height", genuine: true })
				}
				1 => {
					// the asked height, an index beyond the archive MMR (content of a genuine segment)
					let idx = totals[t] + rng.below(3);
					(src.fetch)(t, SegmentIdentifier { height: h, idx: rng.below(totals[t]) })
						.and_then(|s| s.relabel(SegmentIdentifier { height: h, idx }))
						.map(|s| Delivery { seg: s, what: "beyond-range", genuine: false })
				}
				2 => {
					// an index whose leaf offset wraps around to a genuine segment's offset
					if h == 0 {
						None
					} else {
						let i0 = rng.below(totals[t]);
						let idx = i0 + (1u64 << (64 - h as u32)) * (1 + rng.below(3));
						(src.fetch)(t, SegmentIdentifier { height: h, idx: i0 })
							.and_then(|s| s.relabel(SegmentIdentifier { height: h, idx }))
							.map(|s| Delivery { seg: s, what: "alias-index", genuine: false })
					}
				}
				3 => {
					// tampered copy of something asked for (or of any segment)
					let id = wanted.iter().filter(|(t2, _)| *t2 == t).map(|(_, id)| *id).next().unwrap_or(SegmentIdentifier { height: h, idx: rng.below(totals[t]) });
					(src.fetch)(t, id).and_then(|s| s.tampered(rng, &src.req_out)).map(|s| Delivery { seg: s, what: "tampered", genuine: false })
				}
				4 | 5 => {
					// any genuine segment of the asked height: ahead of the requests, already applied, of a
					// finished tree, of a tree whose turn has not come (bitmap not finalised)
					(src.fetch)(t, SegmentIdentifier { height: h, idx: rng.below(totals[t]) }).map(|s| Delivery { seg: s, what: "unsolicited", genuine: true })
				}
				6 => {
					// the last segment again (what the output / rangeproof trees keep asking for)
					(src.fetch)(t, SegmentIdentifier { height: h, idx: totals[t] - 1 }).map(|s| Delivery { seg: s, what: "unsolicited", genuine: true })
				}
				_ => {
					// a segment that was applied long ago
					(src.fetch)(t, SegmentIdentifier { height: h, idx: 0 }).map(|s| Delivery { seg: s, what: "unsolicited", genuine: true })
				}
			};
			if let Some(x) = dl {
				let at = rng.below(plan_d.len() as u64 + 1) as usize;
				plan_d.insert(at, x);
			}
		}
		let main_phase = wanted.iter().any(|(t, _)| *t != 0);
		for dl in plan_d {
			let t = dl.seg.tree();
			let id = dl.seg.id();
			let h = heights[t];
			// content-derived parameters of the model
			let (hp, lp) = dl.seg.positions();
			let cap = 1u64 << h;
			let in_range = id.height == h && id.idx < totals[t];
			let mut jump = 0u64;
			let mut extra = 0u64;
			if in_range {
				let hi = ((id.idx + 1) * cap).min(leaves[t]);
				if t == 1 || t == 2 {
					let reach = hp.iter().chain(lp.iter()).map(|p| pmmr::n_leaves(p + 1)).max().unwrap_or(0).min(leaves[t]);
					if reach > hi {
						jump = (reach - hi + cap - 1) / cap;
					}
				}
				if t == 0 {
					extra = (lp.len() as u64).saturating_sub(hi - id.idx * cap);
				}
			}
			let r = catch(AssertUnwindSafe(|| add(d, dl.seg.clone())));
			let cls = match &r {
				Ok(x) => add_class(x),
				Err(_) => "panic".to_string(),
			};
			let valid = match cls.as_str() {
				"ok" => true,
				"Invalid" => false,
				_ => dl.genuine,
			};
			out.line(
				&format!("deseg add {} {} {} {} {} {}", t, id.height, id.idx, if valid { 1 } else { 0 }, jump, extra),
				&cls,
			);
			st.inc(&format!("add[{}]:{}:{}", TREE[t], dl.what, cls));
			if jump > 0 {
				st.inc(&format!("add[{}]:jump>0", TREE[t]));
			}
			log.push(format!("r{}:{}:{}:{}:{}:{}", rounds, t, id.height, id.idx, dl.what, cls));
			// --- oracles on the verdict
			let fail = |out: &mut Out, why: &str| {
				out.raw(&format!(
					"#ORACLE-FAIL C16 deseg {}: add_{}_segment({},{}) [{}] => {}: {} (round {}, asked heights {:?}, segments per tree {:?})",
					tag, TREE[t], id.height, id.idx, dl.what, cls, why, rounds, heights, totals
				));
			};
			if cls == "panic" || cls.starts_with("Other") {
				fail(out, "panic / unexpected error class");
			}
			match dl.what {
				"foreign-height" => {
					if cls != "InvalidSegmentHeight" {
						fail(out, "a segment of a height that was not asked for must be refused with InvalidSegmentHeight");
					}
				}
				"beyond-range" => {
					if cls == "ok" {
						fail(out, "a segment whose identifier lies beyond the archive MMR was accepted");
					}
				}
				"tampered" => {
					if cls == "ok" {
						fail(out, "a tampered segment was accepted");
					}
				}
				"requested" | "duplicate" => {
					if cls != "ok" {
						fail(out, "a requested segment, served genuinely, was refused: request and acceptance test disagree");
					} else {
						delivered[t].insert(id.idx);
					}
				}
				"unsolicited" => {
					// genuine, asked height, in range: accepted once the tree's validation context exists
					if cls != "ok" && (t == 0 || t == 3 || main_phase) {
						fail(out, "a genuine segment of the asked height was refused");
					}
				}
				_ => {}
			}
		}
	}
	st.add("rounds", rounds);
	if !complete {
		let want: Vec<String> = d.next_desired_segments(plan.max_el).iter().map(|x| format!("{}:{}:{}", tree_no(&x.segment_type), x.identifier.height, x.identifier.idx)).collect();
		let (so, sr, sk) = sizes_of(dest);
		st.inc("STALL");
		// the recorded observations of the `probe` run (a request budget of 1 starves a tree: latent, the
		// server asks for 15) are statistics, not violations: honest service with the server's budget completes
		let head = if tag.starts_with("[desegmenter-request-count-one-starvation] probe") { "#STAT probe: deseg STALL" } else { "#ORACLE-FAIL C16 deseg STALL" };
		out.raw(&format!(
			"{} {}: not complete after {} rounds; local sizes output={} rangeproof={} kernel={} archive output={} kernel={}; honestly delivered {:?} of {:?}; still asked for {:?}; deliveries=[{}]",
			head, tag, rounds, so, sr, sk, ah.output_mmr_size, ah.kernel_mmr_size, delivered.iter().map(|s| s.len()).collect::<Vec<_>>(), totals, want,
			&log.join(" ")[..log.join(" ").len().min(if head.starts_with("#STAT") { 400 } else { 3000 })]
		));
		return false;
	}
	st.inc("receivers-complete");
	// what StateSync does next: the leaf sets are brought in line with the bitmap derived from the
	// accumulator (`bitmap_cache`) — also for the genesis leaf, which the segment application skips
	if src.unspent.is_some() {
		match catch(AssertUnwindSafe(|| d.check_update_leaf_set_state())) {
			Ok(Ok(())) => {}
			Ok(Err(e)) => out.raw(&format!("#ORACLE-FAIL C16 deseg {}: check_update_leaf_set_state failed: {}", tag, error_class(&e))),
			Err(m) => out.raw(&format!("#ORACLE-FAIL C16 deseg {}: check_update_leaf_set_state panicked: {}", tag, m)),
		}
	}
	drop(guard);
	// --- the rebuilt MMRs are the source's
	if let Some((o, b, r, k)) = src.roots {
		// (the read guard must be gone before the diagnostics below take the write lock)
		let roots_res = { dest.c().txhashset().read().roots() };
		match roots_res {
			Ok(rs) => {
				if rs.output_roots.pmmr_root != o || rs.output_roots.bitmap_root != b || rs.rproof_root != r || rs.kernel_root != k {
					let peaks_dbg = match &src.out_peaks {
						Some(sp) => {
							let chain = dest.c();
							let hp = chain.header_pmmr();
							let ts = chain.txhashset();
							let mut header_pmmr = hp.write();
							let mut txhashset = ts.write();
							let rp = grin_chain::txhashset::extending_readonly(&mut header_pmmr, &mut txhashset, |ext, _b| Ok(ext.extension.output_readonly_pmmr().peaks()));
							match rp {
								Ok(rp) => format!(" output peaks equal: {:?} (peak positions {:?})", sp.iter().zip(rp.iter()).map(|(a, b)| a == b).collect::<Vec<_>>(), pmmr::peaks(ah.output_mmr_size)),
								Err(_) => " (receiver peaks unreadable)".to_string(),
							}
						}
						None => String::new(),
					};
					out.raw(&format!(
						"#ORACLE-FAIL C16 deseg {}: complete, but the rebuilt MMR roots differ from the source's (output {} bitmap {} rangeproof {} kernel {});{} deliveries=[{}]",
						tag, rs.output_roots.pmmr_root == o, rs.output_roots.bitmap_root == b, rs.rproof_root == r, rs.kernel_root == k, peaks_dbg,
						&log.join(" ")[..log.join(" ").len().min(3000)]
					));
				} else {
					st.inc("receivers-with-the-source's-roots");
				}
			}
			Err(e) => out.raw(&format!("#ORACLE-FAIL C16 deseg {}: roots() failed after completion: {}", tag, error_class(&e))),
		}
	}
	// --- the rebuilt UNSPENT SET is the source's: the output (and rangeproof) leaf set the receiver
	// ends with — built leaf by leaf from the bitmap derived from the accumulator (bitmap_cache) — and
	// the raw bitmap derived from the receiver's own accumulator, element by element
	if let Some(want) = &src.unspent {
		let chain = dest.c();
		let hp = chain.header_pmmr();
		let ts = chain.txhashset();
		let mut header_pmmr = hp.write();
		let mut txhashset = ts.write();
		let got = grin_chain::txhashset::extending_readonly(&mut header_pmmr, &mut txhashset, |ext, _batch| {
			let o: Vec<u64> = ext.extension.output_readonly_pmmr().leaf_idx_iter(0).collect();
			let r: Vec<u64> = ext.extension.rproof_readonly_pmmr().leaf_idx_iter(0).collect();
			let b: Vec<u64> = ext.extension.bitmap_accumulator().as_bitmap()?.iter().map(|x| x as u64).collect();
			Ok((o, r, b))
		});
		match got {
			Ok((o, r, b)) => {
				let diff = |a: &Vec<u64>| -> String {
					let sa: BTreeSet<u64> = a.iter().cloned().collect();
					let sw: BTreeSet<u64> = want.iter().cloned().collect();
					format!(
						"{} entries instead of {}; unspent at the receiver only {:?}; at the source only {:?}",
						a.len(),
						want.len(),
						sa.difference(&sw).take(6).collect::<Vec<_>>(),
						sw.difference(&sa).take(6).collect::<Vec<_>>()
					)
				};
				let mut ok = true;
				for (name, v) in [("output leaf set", &o), ("rangeproof leaf set", &r), ("bitmap derived from the accumulator (as_bitmap)", &b)] {
					if v != want {
						ok = false;
						out.raw(&format!(
							"#ORACLE-FAIL C16 deseg {}: complete, but the receiver's {} is not the source's unspent set: {}",
							tag, name, diff(v)
						));
					}
				}
				if ok {
					st.inc("receivers-with-the-source's-unspent-set");
					let nl = pmmr::n_leaves(ah.output_mmr_size);
					let zero_mid = (0..(nl / 1024)).any(|c| {
						want.iter().all(|x| *x / 1024 != c) && want.iter().any(|x| *x / 1024 > c)
					});
					if zero_mid {
						st.inc("receivers-with-the-source's-unspent-set:all-zero-chunk-before-unspent-outputs");
					}
				}
			}
			Err(e) => out.raw(&format!("#ORACLE-FAIL C16 deseg {}: reading the receiver's leaf sets after completion failed: {}", tag, error_class(&e))),
		}
	}
	true
}

fn random_plan(rng: &mut Rng, i: u64) -> Plan {
	let order = match i % 3 {
		0 => Order::AsAsked,
		1 => Order::Shuffled,
		_ => Order::Reverse,
	};
	// (max_elements = 1 starves the output tree once the rangeproof tree is complete with a partial last
	// segment: reported finding, exercised by the `probe` run only)
	let max_el = *rng.pick(&[15usize, 15, 15, 12, 9, 6, 5, 4, 3, 2, 2]);
	Plan { order, withhold: *rng.pick(&[0u64, 0, 3, 6]), dup: *rng.pick(&[0u64, 2, 6]), junk: *rng.pick(&[0u64, 2, 3, 4]), max_el }
}

// ---------------------------------------------------------------------------------------------
// synth
// ---------------------------------------------------------------------------------------------

fn synth_mode(out: &mut Out, rng: &mut Rng, thorough: bool) {
	let work = std::env::var("VERIF_WORK").expect("VERIF_WORK not set");
	let mut st = Stats::default();
	let kit = Kit::new(&format!("{}/deseg_synth_src", work));
	let t0 = Instant::now();
	// (outputs, kernels): every output count 1..=40 with some kernel count 1..=40, and the other way round;
	// a few beyond the 1024-output chunk boundary
	let mut sizes: Vec<(u64, u64)> = vec![];
	for n in 1..=40u64 {
		sizes.push((n, 1 + rng.below(40)));
	}
	for k in 1..=40u64 {
		sizes.push((1 + rng.below(40), k));
	}
	sizes.extend_from_slice(&[(1, 1), (2, 2), (1, 2), (2, 1), (3, 3), (4, 4), (5, 4), (8, 8), (9, 16), (16, 9), (17, 17), (32, 32), (33, 31)]);
	let big: Vec<(u64, u64)> = if thorough {
		vec![(1023, 5), (1024, 9), (1025, 3), (2047, 12), (2048, 7), (2049, 20), (3072, 33), (3073, 2), (4096, 11), (4097, 40), (5000, 64), (8193, 17)]
	} else {
		vec![(1023, 5), (1024, 9), (1025, 3), (2048, 7), (2049, 20), (3073, 2), (4097, 40)]
	};
	let n_small = sizes.len();
	sizes.extend_from_slice(&big);
	// all-zero chunks in the middle of the bitmap (the derived bitmap `as_bitmap()` feeds bitmap_cache)
	let zero_cases: Vec<(u64, u64, &str)> = if thorough {
		vec![(1025, 3, "zero-first"), (2049, 5, "zero-run"), (2050, 4, "zero-first"), (3073, 6, "zero-run"), (3500, 9, "zero-run2"), (4097, 7, "zero-run2"), (4200, 3, "zero-run"), (5121, 8, "zero-run2")]
	} else {
		vec![(1025, 3, "zero-first"), (2049, 5, "zero-run"), (3073, 6, "zero-run"), (3500, 9, "zero-run2")]
	};
	let n_plain = sizes.len();
	for (a, b, _) in &zero_cases {
		sizes.push((*a, *b));
	}
	let small_heights: [(u8, u8, u8, u8); 8] = [(0, 1, 1, 1), (0, 2, 2, 1), (1, 2, 2, 2), (0, 3, 3, 2), (1, 1, 2, 3), (2, 4, 4, 4), (0, 2, 1, 2), (0, 5, 3, 1)];
	let mut rcv = 0u64;
	for (si, (n_out, n_ker)) in sizes.iter().enumerate() {
		let leafset = if si >= n_plain { zero_cases[si - n_plain].2 } else { ["dense", "sparse", "only-last", "runs", "all"][si % 5] };
		let s = Synth::new(&kit, rng, *n_out, *n_ker, leafset);
		let src = s.src();
		let reps = if si < n_small { if thorough { 5 } else { 1 } } else if thorough { 2 } else { 1 };
		for rep in 0..reps {
			rcv += 1;
			let hs = if si >= n_small {
				// several bitmap chunks: bitmap height 0 or 1, the other trees at heights that keep the run short
				[(0u8, 7u8, 8u8, 3u8), (1, 9, 7, 2), (0, 8, 6, 4), (0, 9, 9, 1), (9, 11, 11, 11)][(si + 2 * rep) % 5]
			} else if (si + rep) % 9 == 8 {
				(9, 11, 11, 11)
			} else {
				small_heights[(si * 3 + rep * 5 + rng.below(2) as usize) % small_heights.len()]
			};
			let heights = [hs.0, hs.1, hs.2, hs.3];
			let plan = random_plan(rng, rcv);
			let tag = format!("synth outputs={} kernels={} leafset={} unspent={} heights={:?} plan={:?}", n_out, n_ker, leafset, s.unspent.len(), heights, plan);
			st.inc(&format!("outputs:{}", match *n_out { 1 => "1", 2..=8 => "2-8", 9..=40 => "9-40", _ => ">1000" }));
			st.inc(&format!("outputs%1024:{}", match *n_out % 1024 { 0 => "0", 1 => "1", 1023 => "1023", _ => "other" }));
			st.inc(&format!("kernels:{}", match *n_ker { 1 => "1", 2..=8 => "2-8", _ => "9+" }));
			st.inc(&format!("leafset:{}", leafset));
			let dest = Subject::new(&format!("{}/deseg_synth_dst_{}", work, rcv), &kit.genesis);
			run_receiver(out, &mut st, rng, &tag, &dest, &s.header, heights, &src, &plan, false);
			drop(dest);
			let _ = std::fs::remove_dir_all(format!("{}/deseg_synth_dst_{}", work, rcv));
		}
	}
	st.add("receivers", rcv);
	st.add("millis", t0.elapsed().as_millis() as u64);
	st.dump(out, "deseg synth");
}

// ---------------------------------------------------------------------------------------------
// chain
// ---------------------------------------------------------------------------------------------

/// a chain of `n` blocks: "small" = 0-2 small transactions per block, "big" = one 1-3-input 9-output
/// transaction per block
fn build_trunk(kit: &mut Kit, rng: &mut Rng, n_trunk: u64, style: &str) -> Vec<usize> {
	let mut tip = 0usize;
	let mut trunk = vec![0usize];
	let mut spendable: Vec<(usize, u64)> = vec![(0, 0)];
	for h in 1..=n_trunk {
		let mut specs = vec![];
		let cands = |spendable: &Vec<(usize, u64)>, kit: &Kit| -> Vec<usize> {
			spendable
				.iter()
				.enumerate()
				.filter(|(_, (o, c))| (!kit.outs[*o].coinbase || h >= *c + 3) && kit.outs[*o].value > 5000)
				.map(|(i, _)| i)
				.collect()
		};
		if h >= 4 && style == "small" {
			for _ in 0..rng.range(0, 2) {
				let cs = cands(&spendable, kit);
				if cs.is_empty() {
					break;
				}
				let pick = *rng.pick(&cs);
				let (o, _) = spendable.remove(pick);
				let v = kit.outs[o].value;
				let a = rng.range(1, v / 2);
				specs.push(TxSpec { inputs: vec![o], outputs: vec![(a, None), (v - a - 200, None)], kernel: KSpec::Plain(200) });
			}
		}
		if h >= 4 && style == "big" {
			let n_out = 9u64;
			let n_in = rng.range(1, 3) as usize;
			let mut ins = vec![];
			let mut total = 0u64;
			for k in 0..n_in {
				let cs = cands(&spendable, kit);
				if cs.is_empty() {
					break;
				}
				let pick = if k > 0 && rng.chance(1, 2) { cs[0] } else { *rng.pick(&cs) };
				let (o, _) = spendable.remove(pick);
				total += kit.outs[o].value;
				ins.push(o);
			}
			if !ins.is_empty() {
				let fee = 300u64;
				let each = (total - fee) / n_out;
				let mut outs: Vec<(u64, Option<usize>)> = (0..n_out - 1).map(|_| (each, None)).collect();
				outs.push((total - fee - each * (n_out - 1), None));
				specs.push(TxSpec { inputs: ins, outputs: outs, kernel: KSpec::Plain(fee) });
			}
		}
		let before = kit.outs.len();
		if let Ok(id) = kit.new_block(tip, 2, &specs) {
			tip = id;
			trunk.push(id);
			for o in before..kit.outs.len() {
				spendable.push((o, h));
			}
		}
	}
	trunk
}

fn chain_mode(out: &mut Out, rng: &mut Rng, thorough: bool) {
	let work = std::env::var("VERIF_WORK").expect("VERIF_WORK not set");
	let mut st = Stats::default();
	let t0 = Instant::now();
	let scenarios: Vec<(&str, u64, bool, &str)> = if thorough {
		vec![("small-compacted", 90, true, "small"), ("small-uncompacted", 46, false, "small"), ("big-compacted", 140, true, "big")]
	} else {
		vec![("small-compacted", 90, true, "small")]
	};
	for (name, n_trunk, compact, style) in scenarios {
		let mut kit = Kit::new(&format!("{}/deseg_chain_src_{}", work, name));
		let trunk = build_trunk(&mut kit, rng, n_trunk, style);
		let srcc = kit.builder();
		if compact {
			if let Err(e) = srcc.compact() {
				out.raw(&format!("#ORACLE-FAIL C16 deseg chain harness: source compaction failed: {}", error_class(&e)));
			}
		}
		let archive = match srcc.txhashset_archive_header() {
			Ok(a) if a.height > 0 => a,
			_ => {
				out.raw("#ORACLE-FAIL C16 deseg chain harness: no archive header above genesis");
				continue;
			}
		};
		let n_out = pmmr::n_leaves(archive.output_mmr_size);
		let n_ker = pmmr::n_leaves(archive.kernel_mmr_size);
		let n_chunks = (n_out + 1023) / 1024;
		st.add(&format!("{}:output-leaves", name), n_out);
		st.add(&format!("{}:kernel-leaves", name), n_ker);
		// the unspent leaf indices at the archive header (for the tamper oracle): a node that processed
		// every block up to it
		let twin = Subject::new(&format!("{}/deseg_chain_twin_{}", work, name), &kit.genesis);
		for i in &trunk[1..] {
			if kit.blks[*i].height <= archive.height {
				twin.deliver_block(&kit.blks[*i].block);
			}
		}
		let mut unspent_idx: BTreeSet<u64> = BTreeSet::new();
		for o in &kit.outs {
			if let Ok(Some((_, cp))) = twin.c().get_unspent(o.commit) {
				unspent_idx.insert(pmmr::n_leaves(cp.pos) - 1);
			}
		}
		let twin_roots = twin.c().txhashset().read().roots().ok();
		let headers: Vec<BlockHeader> = trunk[1..].iter().map(|i| kit.blks[*i].block.header.clone()).collect();
		let segmenter: Segmenter = srcc.segmenter().unwrap();
		let archive_out_size = archive.output_mmr_size;
		let height_sets: Vec<(u8, u8, u8, u8)> = if thorough {
			vec![(0, 2, 2, 1), (1, 3, 3, 2), (0, 1, 1, 1), (1, 4, 2, 3), (0, 5, 4, 3), (9, 11, 11, 11)]
		} else {
			vec![(0, 2, 2, 1), (1, 3, 3, 2), (0, 1, 1, 1), (9, 11, 11, 11)]
		};
		let mut rcv = 0u64;
		for hs in height_sets {
			let reps = if hs.0 == 9 { 1 } else if thorough { 4 } else { 1 };
			for _ in 0..reps {
				rcv += 1;
				let heights = [hs.0, hs.1, hs.2, hs.3];
				let plan = random_plan(rng, rcv);
				let tag = format!("chain {} outputs={} kernels={} heights={:?} plan={:?}", name, n_out, n_ker, heights, plan);
				let dest = Subject::new(&format!("{}/deseg_chain_dst_{}_{}", work, name, rcv), &kit.genesis);
				let r = dest.sync_headers(&headers);
				if r != "ok" {
					out.raw(&format!("#ORACLE-FAIL C16 deseg chain harness: header sync failed: {}", r));
					continue;
				}
				let ah = dest.c().txhashset_archive_header_header_only().unwrap();
				let sg = &segmenter;
				let ui = &unspent_idx;
				let fetch = move |t: usize, id: SegmentIdentifier| -> Option<Seg> {
					let r = catch(AssertUnwindSafe(|| match t {
						0 => sg.bitmap_segment(id).ok().map(|(s, r)| Seg::Bitmap(s, r)),
						1 => sg.output_segment(id).ok().map(|(s, r)| Seg::Output(s, r)),
						2 => sg.rangeproof_segment(id).ok().map(Seg::Range),
						_ => sg.kernel_segment(id).ok().map(Seg::Kernel),
					}));
					r.ok().flatten()
				};
				let req = move |pos0: u64| -> bool {
					let i = pmmr::n_leaves(pos0 + 1) - 1;
					ui.contains(&i) || ui.contains(&(i ^ 1)) || pos0 + 1 == archive_out_size
				};
				let src = Src {
					fetch: Box::new(fetch),
					leaves: [n_chunks, n_out, n_out, n_ker],
					req_out: Box::new(req),
					roots: twin_roots.as_ref().map(|r| (r.output_roots.pmmr_root, r.output_roots.bitmap_root, r.rproof_root, r.kernel_root)),
					unspent: Some({
						let mut v: Vec<u64> = unspent_idx.iter().cloned().collect();
						v.sort_unstable();
						v
					}),
					out_peaks: None,
				};
				run_receiver(out, &mut st, rng, &tag, &dest, &ah, heights, &src, &plan, true);
			}
		}
		st.add("receivers", rcv);
	}
	st.add("millis", t0.elapsed().as_millis() as u64);
	st.dump(out, "deseg chain");
}

// ---------------------------------------------------------------------------------------------
// probe: a bitmap segment with a redundant trailing chunk
// ---------------------------------------------------------------------------------------------

/// The final bitmap segment of the archive header with ONE more chunk appended to its leaf data (a
/// position beyond the bitmap MMR; `Segment::root` never looks at it, so validation succeeds;
/// over the wire `BitmapSegment` allows up to 2^height chunks whatever the MMR size).
/// `apply_bitmap_segment` appends every chunk: the accumulator gets one chunk too many.
fn probe_mode(out: &mut Out, rng: &mut Rng, _thorough: bool) {
	let work = std::env::var("VERIF_WORK").expect("VERIF_WORK not set");
	let mut st = Stats::default();
	let kit = Kit::new(&format!("{}/deseg_probe_src", work));
	for (n_out, n_ker, hs) in [(5u64, 3u64, (1u8, 2u8, 2u8, 1u8)), (1025, 4, (2, 9, 9, 2)), (2049, 6, (2, 9, 9, 2)), (37, 9, (9, 11, 11, 11))] {
		let s = Synth::new(&kit, rng, n_out, n_ker, "dense");
		let src = s.src();
		let heights = [hs.0, hs.1, hs.2, hs.3];
		let chunks = src.leaves[0];
		let cap = 1u64 << heights[0];
		let n_segs = (chunks + cap - 1) / cap;
		let last = n_segs - 1;
		let in_last = chunks - last * cap;
		let tag = format!("probe outputs={} kernels={} heights={:?} bitmap chunks={} last bitmap segment ({},{}) holds {} of {} chunks", n_out, n_ker, heights, chunks, heights[0], last, in_last, cap);
		if in_last == cap {
			out.raw(&format!("#STAT deseg probe skipped (last bitmap segment is full): {}", tag));
			continue;
		}
		let dest = Subject::new(&format!("{}/deseg_probe_dst_{}", work, n_out), &kit.genesis);
		set_segment_heights(Some(hs));
		let deseg = dest.c().desegmenter(&s.header).unwrap();
		set_segment_heights(None);
		let mut guard = deseg.write();
		let d = guard.as_mut().unwrap();
		let (g_out, _, g_ker) = sizes_of(&dest);
		let bm_size = d.expected_bitmap_mmr_size();
		out.line(
			&format!("deseg new {} {} {} {} {} {} {} {}", heights[0], heights[1], heights[2], heights[3], s.header.output_mmr_size, s.header.kernel_mmr_size, g_out, g_ker),
			&format!("{} {}", pmmr::n_leaves(bm_size), bm_size),
		);
		// the padded copy of the last bitmap segment
		let genuine = match (src.fetch)(0, SegmentIdentifier { height: heights[0], idx: last }) {
			Some(Seg::Bitmap(seg, r)) => (seg, r),
			_ => {
				out.raw(&format!("#ORACLE-FAIL C16 deseg probe harness: cannot build the last bitmap segment: {}", tag));
				continue;
			}
		};
		let padded = {
			let (id, hp, hsh, mut lp, mut ld, proof) = genuine.0.clone().parts();
			lp.push(pmmr::insertion_to_pmmr_index(chunks));
			let mut c = BitmapChunk::new();
			c.set(7, true);
			ld.push(c);
			catch(AssertUnwindSafe(move || Segment::from_parts(id, hp, hsh, lp, ld, proof))).ok()
		};
		let padded = match padded {
			Some(p) => p,
			None => {
				out.raw(&format!("#STAT deseg probe: from_parts refuses the padded segment: {}", tag));
				continue;
			}
		};
		// through the wire format, as a peer would send it
		let wire_ok = {
			use grin_chain::txhashset::BitmapSegment;
			use grin_core::ser::{self, DeserializationMode, ProtocolVersion};
			let bytes = ser::ser_vec(&BitmapSegment::from(padded.clone()), ProtocolVersion(1)).unwrap();
			let back: Result<BitmapSegment, _> = ser::deserialize(&mut &bytes[..], ProtocolVersion(1), DeserializationMode::default());
			match back.map(|b| b.into_segment()) {
				Ok(Ok(seg)) => seg.leaf_iter().count() == padded.leaf_iter().count(),
				_ => false,
			}
		};
		st.inc(if wire_ok { "padded-segment-survives-the-wire-format" } else { "padded-segment-refused-by-the-wire-format" });
		let mut rounds = 0;
		let mut poisoned = false;
		let mut complete = false;
		let mut finalised_seen = false;
		while rounds < 40 + 4 * (n_segs + 8) {
			rounds += 1;
			let ares = catch(AssertUnwindSafe(|| d.apply_next_segments()));
			let (so, sr, sk) = sizes_of(&dest);
			let ares_s = match &ares {
				Ok(Ok(())) => "ok".to_string(),
				Ok(Err(e)) => format!("err:{}", error_class(e)),
				Err(_) => "panic".to_string(),
			};
			out.line("deseg apply", &format!("{} {} {} {}", ares_s, so, sr, sk));
			let wanted: Vec<(usize, SegmentIdentifier)> = d.next_desired_segments(15).iter().map(|x| (tree_no(&x.segment_type), x.identifier)).collect();
			let toks: Vec<String> = wanted.iter().map(|(t, id)| format!("{}:{}:{}", t, id.height, id.idx)).collect();
			out.line("deseg want 15", &format!("[{}]", toks.join(",")));
			let is_c = d.is_complete();
			out.line("deseg iscomplete", if is_c { "1" } else { "0" });
			if wanted.iter().any(|(t, _)| *t != 0) || is_c {
				finalised_seen = true;
			}
			complete = (so, sr, sk) == (s.header.output_mmr_size, s.header.output_mmr_size, s.header.kernel_mmr_size) && finalised_seen;
			out.line("deseg check", if complete { "1" } else { "0" });
			if complete {
				break;
			}
			for (t, id) in wanted {
				// the adversarial peer answers the request for the last bitmap segment first
				if t == 0 && id.idx == last && !poisoned {
					let r = d.add_bitmap_segment(padded.clone(), genuine.1);
					let cls = add_class(&r);
					out.line(&format!("deseg add 0 {} {} {} 0 1", id.height, id.idx, if r.is_ok() { 1 } else { 0 }), &cls);
					st.inc(&format!("padded-bitmap-segment:{}", cls));
					if r.is_ok() {
						poisoned = true;
						continue;
					}
				}
				if let Some(sg) = (src.fetch)(t, id) {
					let r = add(d, sg);
					let cls = add_class(&r);
					out.line(&format!("deseg add {} {} {} {} 0 0", t, id.height, id.idx, if cls == "ok" || cls != "Invalid" { 1 } else { 0 }), &cls);
					st.inc(&format!("honest[{}]:{}", TREE[t], cls));
				}
			}
		}
		if poisoned && !complete {
			st.inc("STALL-after-padded-bitmap-segment");
			out.raw(&format!(
				"#STAT probe: deseg [desegmenter-redundant-bitmap-chunk-stall] {}: the last bitmap segment with one redundant trailing chunk passed add_bitmap_segment, apply_bitmap_segment appended all {} chunks; every later segment was served genuinely, the sync is not complete after {} rounds (survives the wire format: {})",
				tag, in_last + 1, rounds, wire_ok
			));
		} else if poisoned {
			st.inc("complete-despite-padded-bitmap-segment");
		} else {
			st.inc("padded-bitmap-segment-refused");
		}
	}
	// second probe: next_desired_segments(1).  Once the rangeproof tree is complete and its last
	// segment is not full, next_required_rangeproof_segment_index keeps naming that last segment; with a
	// single request slot `maybe_add_to_request` pops the output tree's request in favour of it, every
	// round: the output tree is never asked for again.  (No kernel left to ask for: the kernel request
	// would take the slot otherwise.)  Honest service, no junk.
	for (n_out, n_ker, hs) in [(3u64, 1u64, (0u8, 1u8, 1u8, 1u8)), (34, 35, (0, 5, 3, 1)), (11, 4, (0, 3, 2, 2))] {
		let s = Synth::new(&kit, rng, n_out, n_ker, "all");
		let src = s.src();
		let heights = [hs.0, hs.1, hs.2, hs.3];
		let plan = Plan { order: Order::AsAsked, withhold: 0, dup: 0, junk: 0, max_el: 1 };
		let tag = format!("[desegmenter-request-count-one-starvation] probe max_elements=1 outputs={} kernels={} heights={:?}", n_out, n_ker, heights);
		let dest = Subject::new(&format!("{}/deseg_probe1_dst_{}", work, n_out), &kit.genesis);
		let done = run_receiver(out, &mut st, rng, &tag, &dest, &s.header, heights, &src, &plan, false);
		st.inc(if done { "max_elements=1:complete" } else { "max_elements=1:STALL" });
	}
	st.dump(out, "deseg probe");
}


// ---------------------------------------------------------------------------------------------
// pruned: a serving side that REALLY prunes.  A real on-disk TxHashSet (prunable PMMRBackend for
// outputs and range proofs) filled through the real Extension::apply_block with synthetic blocks
// (leaf 0 = the receiving chain's genesis output), >= 1025 outputs, one or two 1024-aligned runs of
// outputs fully spent, then TxHashSet::compact at a horizon above the spending block, so that the
// spent runs are COMPACTED AWAY (neither data nor leaf hashes on file); served through the real
// Segmenter (bitmap / output / rangeproof segments; kernels from a synthetic kernel MMR) to the
// real Desegmenter of a fresh chain; final roots and unspent set compared with the source's.
// ---------------------------------------------------------------------------------------------

struct PSrc {
	_store: Arc<grin_chain::ChainStore>,
	txhs: Arc<grin_util::RwLock<grin_chain::txhashset::TxHashSet>>,
	header_pmmr: grin_chain::txhashset::PMMRHandle<BlockHeader>,
	headers: Vec<BlockHeader>,
	n: u64,
	unspent: BTreeSet<u64>,
	commits: Vec<Commitment>,
	feats: Vec<OutputFeatures>,
	counter: u64,
}

fn perr<T, E: std::fmt::Debug>(r: Result<T, E>, what: &str) -> T {
	match r {
		Ok(v) => v,
		Err(e) => {
			eprintln!("deseg pruned: {} failed: {:?}", what, e);
			std::process::exit(3);
		}
	}
}

impl PSrc {
	fn new(dir: &str) -> PSrc {
		use grin_chain::txhashset::{PMMRHandle, TxHashSet};
		use grin_chain::{ChainStore, Tip};
		let _ = std::fs::remove_dir_all(dir);
		perr(std::fs::create_dir_all(dir), "mkdir");
		let store = Arc::new(perr(ChainStore::new(dir, None), "ChainStore::new"));
		let txhs = perr(TxHashSet::open(dir.to_string(), store.clone(), None), "TxHashSet::open");
		let header_pmmr = perr(
			PMMRHandle::<BlockHeader>::new(std::path::Path::new(dir).join("header").join("header_head"), false, grin_core::ser::ProtocolVersion(1), None),
			"header PMMRHandle",
		);
		let genesis = BlockHeader::default();
		{
			let mut batch = perr(store.batch(), "batch");
			perr(batch.save_block_header(&genesis), "save genesis header");
			perr(batch.save_block(&grin_core::core::Block::with_header(genesis.clone())), "save genesis");
			let tip = Tip::from_header(&genesis);
			perr(batch.save_body_head(&tip), "body head");
			perr(batch.save_header_head(&tip), "header head");
			perr(batch.commit(), "commit");
		}
		PSrc { _store: store, txhs: Arc::new(grin_util::RwLock::new(txhs)), header_pmmr, headers: vec![genesis], n: 0, unspent: BTreeSet::new(), commits: vec![], feats: vec![], counter: 0 }
	}

	/// one block through the real Extension::apply_block: `first` (the receiver's genesis output) then
	/// k-1 / k fresh outputs, `spent` leaf indices spent
	fn block(&mut self, first: Option<grin_core::core::Output>, k: u64, spent: &[u64]) {
		use grin_core::core::{Block, Input, Inputs, Output, TransactionBody};
		use grin_chain::Tip;
		let proof = RangeProof { proof: [0; grin_util::secp::constants::MAX_PROOF_SIZE], plen: grin_util::secp::constants::MAX_PROOF_SIZE };
		let mut outputs: Vec<Output> = vec![];
		if let Some(o) = first {
			outputs.push(o);
		}
		while (outputs.len() as u64) < k {
			self.counter += 1;
			let mut v = vec![0u8; 33];
			v[0] = 0x09;
			v[1..9].copy_from_slice(&self.counter.to_be_bytes());
			v[32] = 1;
			outputs.push(Output::new(OutputFeatures::Plain, Commitment::from_vec(v), proof));
		}
		let inputs: Vec<Input> = spent.iter().map(|i| Input::new(self.feats[*i as usize], self.commits[*i as usize])).collect();
		let body = perr(TransactionBody::init(Inputs::from(&inputs[..]), &outputs, &[], false), "TransactionBody::init");
		let prev = self.headers.last().unwrap().clone();
		let mut header = BlockHeader::default();
		header.version = grin_core::core::block::HeaderVersion(5);
		header.height = prev.height + 1;
		header.prev_hash = grin_core::core::hash::Hashed::hash(&prev);
		self.counter += 1;
		header.pow.nonce = self.counter;
		*header.pow.proof.nonces.last_mut().unwrap() = self.counter;
		header.output_mmr_size = pmmr::insertion_to_pmmr_index(self.n + k);
		header.kernel_mmr_size = 0;
		let block = Block { header, body };
		// the MMR holds the outputs in the order the block lists them
		for o in block.outputs() {
			self.commits.push(o.commitment());
			self.feats.push(o.features());
		}
		for i in self.n..self.n + k {
			self.unspent.insert(i);
		}
		for x in spent {
			self.unspent.remove(x);
		}
		self.n += k;
		let store = self._store.clone();
		let mut batch = perr(store.batch(), "batch");
		perr(batch.save_block_header(&block.header), "save_block_header");
		perr(batch.save_block(&block), "save_block");
		{
			let mut t = self.txhs.write();
			perr(
				grin_chain::txhashset::extending(&mut self.header_pmmr, &mut t, &mut batch, |ext, batch| {
					ext.extension.apply_block(&block, ext.header_extension, batch)
				}),
				"extending/apply_block",
			);
		}
		let tip = Tip::from_header(&block.header);
		perr(batch.save_body_head(&tip), "body head");
		perr(batch.save_header_head(&tip), "header head");
		perr(batch.commit(), "commit");
		self.headers.push(block.header.clone());
	}
}

fn pruned_mode(out: &mut Out, rng: &mut Rng, thorough: bool) {
	let work = std::env::var("VERIF_WORK").expect("VERIF_WORK not set");
	let mut st = Stats::default();
	let kit = Kit::new(&format!("{}/deseg_pruned_kit", work));
	let t0 = Instant::now();
	// (outputs at the archive header, spent aligned chunks, compact?)
	let cases: Vec<(u64, Vec<u64>, bool)> = if thorough {
		vec![(1030, vec![0], true), (2100, vec![0], true), (2100, vec![1], true), (3100, vec![1], true), (3300, vec![0, 1], true), (3300, vec![1, 2], true), (4200, vec![1, 2], true), (2100, vec![1], false), (4200, vec![0, 2], true)]
	} else {
		vec![(1030, vec![0], true), (2100, vec![1], true), (3300, vec![0, 1], true), (2100, vec![1], false)]
	};
	let mut rcv = 0u64;
	for (ci, (n_target, zero_chunks, compact)) in cases.iter().enumerate() {
		let dir = format!("{}/deseg_pruned_src_{}", work, ci);
		// the source is built on its own thread under the Mainnet parameters (LMDB allocation chunk and
		// block weight for blocks of hundreds of outputs); chain parameters are thread-local
		let g_out = kit.genesis.outputs()[0].clone();
		let seed = rng.next();
		let (n_target_c, zero_chunks_c, compact_c, dir_c) = (*n_target, zero_chunks.clone(), *compact, dir.clone());
		let built = std::thread::spawn(move || {
			grin_core::global::set_local_chain_type(grin_core::global::ChainTypes::Mainnet);
			let mut rng = Rng::new(seed);
			let rng = &mut rng;
			let n_target = &n_target_c;
			let zero_chunks = &zero_chunks_c;
			let compact = &compact_c;
			let mut compacted = false;
			let mut ps = PSrc::new(&dir_c);
			// growth: leaf 0 is the receiver's genesis output
			// its own block: TransactionBody::init sorts the outputs of a block by commitment, and leaf 0
			// must be exactly the receiver's genesis leaf (the receiver never re-pushes position 0)
			ps.block(Some(g_out), 1, &[]);
			ps.block(None, rng.range(300, 600), &[]);
			let grow_to = *n_target - 40;
			while ps.n < grow_to {
				let k = rng.range(300, 600).min(grow_to - ps.n);
				// some scattered spends outside the runs
				let cands: Vec<u64> = ps.unspent.iter().cloned().filter(|x| *x + 1 < ps.n && !zero_chunks.contains(&(*x / 1024)) && rng.chance(1, 12)).collect();
				ps.block(None, k.max(1), &cands);
			}
			// the spending blocks: every output of the aligned runs
			for c in zero_chunks {
				let run: Vec<u64> = ps.unspent.range(c * 1024..(c + 1) * 1024).cloned().collect();
				ps.block(None, rng.range(1, 4), &run);
			}
			let spend_height = ps.headers.len() - 1;
			// blocks above the horizon, a few spends in them (kept by compaction: inside the horizon)
			while ps.n < *n_target {
				let k = rng.range(2, 9).min(*n_target - ps.n);
				let cands: Vec<u64> = ps.unspent.iter().cloned().filter(|x| *x + 1 < ps.n && !zero_chunks.contains(&(*x / 1024)) && rng.chance(1, 200)).collect();
				ps.block(None, k.max(1), &cands);
			}
			if *compact {
				// horizon: the block right after the spending blocks (or that block itself)
				let hh = ps.headers[(spend_height + rng.below(2) as usize).min(ps.headers.len() - 1)].clone();
				let store = ps._store.clone();
				let batch = perr(store.batch(), "batch");
				perr(ps.txhs.write().compact(&hh, &batch), "TxHashSet::compact");
				compacted = true;
			}
			(ps, compacted)
		})
		.join();
		let (mut ps, compacted) = match built {
			Ok(x) => x,
			Err(_) => {
				eprintln!("deseg pruned: building the source panicked");
				std::process::exit(3);
			}
		};
		if compacted {
			st.inc("sources-compacted");
		}
		// the archive header: the head, committing to the source's roots and to a synthetic kernel MMR
		let n_ker = rng.range(2, 40);
		let ks = Synth::new(&kit, rng, 1, n_ker, "all");
		let (roots, acc, src_peaks) = {
			let mut t = ps.txhs.write();
			perr(
				grin_chain::txhashset::extending_readonly(&mut ps.header_pmmr, &mut t, |ext, _b| {
					Ok((ext.extension.roots()?, ext.extension.bitmap_accumulator(), ext.extension.output_readonly_pmmr().peaks()))
				}),
				"roots",
			)
		};
		let src_hashes: Vec<Option<Hash>> = {
			let mut t = ps.txhs.write();
			let osz = ps.headers.last().unwrap().output_mmr_size;
			perr(
				grin_chain::txhashset::extending_readonly(&mut ps.header_pmmr, &mut t, |ext, _b| {
					let p = ext.extension.output_readonly_pmmr();
					Ok((0..osz).map(|x| p.get_from_file(x)).collect())
				}),
				"source hashes",
			)
		};
		// which side is the defining construction: the output MMR recomputed from the element list alone
		{
			let elems: Vec<OutputIdentifier> = (0..ps.n as usize).map(|i| OutputIdentifier::new(ps.feats[i], &ps.commits[i])).collect();
			let mut vb = VecBackend::<OutputIdentifier>::new();
			let sz = push_all(&mut vb, &elems);
			let rr = ReadonlyPMMR::at(&vb, sz).root().unwrap();
			st.inc(if rr == roots.output_roots.pmmr_root { "source-output-root:equals-the-MMR-of-its-element-list" } else { "source-output-root:DIFFERS-from-the-MMR-of-its-element-list" });
		}
		let mut ah = ps.headers.last().unwrap().clone();
		ah.height = 100000 + ci as u64;
		ah.kernel_mmr_size = ks.ker_size;
		ah.kernel_root = ks.roots.3;
		ah.range_proof_root = roots.rproof_root;
		ah.output_root = (roots.output_roots.pmmr_root, roots.output_roots.bitmap_root).hash_with_index(ah.output_mmr_size);
		let segmenter = Segmenter::new(ps.txhs.clone(), Arc::new(acc), ah.clone());
		let n_out = ps.n;
		let unspent_v: Vec<u64> = ps.unspent.iter().cloned().collect();
		let zero_mid = zero_chunks.iter().any(|c| ps.unspent.iter().any(|x| *x / 1024 > *c));
		let hsets: Vec<(u8, u8, u8, u8)> = if thorough { vec![(0, 7, 8, 3), (1, 9, 7, 2), (9, 11, 11, 11), (0, 10, 10, 4)] } else { vec![(0, 7, 8, 3), (9, 11, 11, 11)] };
		for hs in hsets {
			rcv += 1;
			let heights = [hs.0, hs.1, hs.2, hs.3];
			let plan = random_plan(rng, rcv);
			let tag = format!("pruned outputs={} kernels={} spent-chunks={:?} compacted={} unspent={} heights={:?} plan={:?}", n_out, n_ker, zero_chunks, compact, unspent_v.len(), heights, plan);
			let sg = &segmenter;
			let kss = &ks;
			let ui = &ps.unspent;
			let out_size = ah.output_mmr_size;
			let fetch = move |t: usize, id: SegmentIdentifier| -> Option<Seg> {
				let r = catch(AssertUnwindSafe(|| match t {
					0 => sg.bitmap_segment(id).ok().map(|(s, r)| Seg::Bitmap(s, r)),
					1 => sg.output_segment(id).ok().map(|(s, r)| Seg::Output(s, r)),
					2 => sg.rangeproof_segment(id).ok().map(Seg::Range),
					_ => Segment::<TxKernel>::from_pmmr(id, &ReadonlyPMMR::at(&kss.ker_be, kss.ker_size), false).ok().map(Seg::Kernel),
				}));
				r.ok().flatten()
			};
			let req = move |pos0: u64| -> bool {
				let i = pmmr::n_leaves(pos0 + 1) - 1;
				ui.contains(&i) || ui.contains(&(i ^ 1)) || pos0 + 1 == out_size
			};
			let src = Src {
				fetch: Box::new(fetch),
				leaves: [(n_out + 1023) / 1024, n_out, n_out, n_ker],
				req_out: Box::new(req),
				roots: Some((roots.output_roots.pmmr_root, roots.output_roots.bitmap_root, roots.rproof_root, ks.roots.3)),
				unspent: Some(unspent_v.clone()),
				out_peaks: Some(src_peaks.clone()),
			};
			// how much the serving side really left out
			if let Some(Seg::Output(s, _)) = (src.fetch)(1, SegmentIdentifier { height: heights[1], idx: 0 }) {
				let (hp, lp) = positions_t(&s);
				st.add("first-output-segment:leaves", lp.len() as u64);
				st.add("first-output-segment:hashes", hp.len() as u64);
			}
			let dest = Subject::new(&format!("{}/deseg_pruned_dst_{}", work, rcv), &kit.genesis);
			let ok = run_receiver(out, &mut st, rng, &tag, &dest, &ah, heights, &src, &plan, false);
			if std::env::var("VERIF_PRUNED_DEBUG").is_ok() {
				let chain = dest.c();
				let hp = chain.header_pmmr();
				let ts = chain.txhashset();
				let mut header_pmmr = hp.write();
				let mut txhashset = ts.write();
				let osz = ah.output_mmr_size;
				let dh: Vec<Option<Hash>> = perr(
					grin_chain::txhashset::extending_readonly(&mut header_pmmr, &mut txhashset, |ext, _b| {
						let p = ext.extension.output_readonly_pmmr();
						Ok((0..osz).map(|x| p.get_from_file(x)).collect())
					}),
					"receiver hashes",
				);
				let mut diff: Vec<String> = vec![];
				let mut only_src = 0u64;
				let mut only_dst = 0u64;
				for x in 0..osz as usize {
					match (&src_hashes[x], &dh[x]) {
						(Some(a), Some(b)) if a != b => diff.push(format!("{}(h{})", x, pmmr::bintree_postorder_height(x as u64))),
						(Some(_), None) => only_src += 1,
						(None, Some(_)) => only_dst += 1,
						_ => {}
					}
				}
				eprintln!("PRUNED-DEBUG {}: positions with different hashes ({}): {:?}; on file at the source only {} at the receiver only {}", tag, diff.len(), &diff[..diff.len().min(30)], only_src, only_dst);
				for x in [0usize, 1, 2, 2046, 2047, 2048, 2049, 3069, 3070, 4092, 4093, 4094] {
					if x < osz as usize {
						eprintln!("PRUNED-DEBUG   pos {} src {:?} dst {:?}", x, src_hashes[x].map(|h| hex(h.as_bytes())[..8].to_string()), dh[x].map(|h| hex(h.as_bytes())[..8].to_string()));
					}
				}
			}
			if ok && zero_mid {
				st.inc("receivers-complete:source-with-compacted-all-zero-chunk-before-unspent-outputs");
			}
			drop(dest);
			let _ = std::fs::remove_dir_all(format!("{}/deseg_pruned_dst_{}", work, rcv));
		}
		drop(segmenter);
		drop(ps);
		let _ = std::fs::remove_dir_all(&dir);
	}
	st.add("receivers", rcv);
	st.add("millis", t0.elapsed().as_millis() as u64);
	st.dump(out, "deseg pruned");
}

fn main() {
	quiet_panics();
	gvharness::chainkit::setup_globals();
	let args: Vec<String> = std::env::args().collect();
	let mode = args.get(1).map(|s| s.as_str()).unwrap_or("synth");
	let mut out = Out::stdout();
	let mut rng = Rng::new(seed_from_env());
	let thorough = tier_thorough();
	match mode {
		"synth" => synth_mode(&mut out, &mut rng, thorough),
		"chain" => chain_mode(&mut out, &mut rng, thorough),
		"probe" => probe_mode(&mut out, &mut rng, thorough),
		"pruned" => pruned_mode(&mut out, &mut rng, thorough),
		_ => {
			eprintln!("usage: deseg synth|chain|probe");
			std::process::exit(2);
		}
	}
	out.flush();
}

#[allow(dead_code)]
fn _unused(_: Bitmap) {}
