//! C17 (session 9, increment 2) — two schedule classes that independent seeded changes showed the
//! check reported only as broken obligations, without a concrete failing input.
//!
//! Mode `torn` (a read that combines a look-up OUTSIDE the txhashset lock with a look-up inside it, torn
//! across a writer's critical section).  History: trunk P1..P6; two transactions ta (-> output A) and tb
//! (-> output B); branch X = [X1: ta][X2: tb], branch Y = [Y1: tb][Y2: ta] on the common parent P6 - the
//! SAME commitments A and B exist on both branches at DIFFERENT output-MMR positions; then X3, Y3, X4, Y4,
//! … each one block heavier than the other branch's tip: every delivery is a reorg that rewinds to P6 and
//! re-applies the other branch.  Single-threaded prefix: P1..P6, X1, X2, Y1 (fork), Y2 (reorg): from here
//! on A and B are unspent in EVERY committed state.  Concurrent part: one writer delivers X3, Y3, X4, … ;
//! 4 readers (thorough 6) poll, for A and B: get_unspent, get_output_pos, get_header_for_output,
//! get_merkle_proof_for_pos, get_merkle_proof (header of a block of either branch above X2 / Y2),
//! get_unspent_output_at (the four positions), validate_inputs / validate_tx of a transaction spending A
//! and B.  Oracle: every answer must be the answer in SOME committed state - here: the answer of the
//! reference node at X2 or of the reference node at Y2 (positions and creating blocks do not change
//! above them); "absent", "spent", another output, a wrong header = `#ORACLE-FAIL C17 torn …` with the
//! delivery history so far and both committed answers.  Reachability of the window is MEASURED, not
//! assumed: one poll in eight is the seeded read emulated from the public API (position from
//! get_output_pos under one lock hold, output from get_unspent_output_at under the next) - a mismatch is
//! counted in `#STAT torn … emulated_torn_hits=` (a caller combining two views; not a failure).
//!
//! Mode `hdrmono` (header-sync chunks of a LIGHTER fork racing readers): main chain M1..M12 (difficulty 3
//! per block), fork L5..L14 on M4 (difficulty 1 per block).  Node preloaded with M1..M6.  Threads:
//! sync_block_headers chunks (2-3 headers) of the main headers; the same for the fork's headers (each chunk
//! with the sync_head the thread tracks, as header_sync.rs does); process_block of M7..M12; readers
//! polling header_head() and head().  Oracle per reader: total difficulty of successively observed header
//! heads never decreases, same for heads; every header head names a stored header; under
//! header_pmmr.read() the MMR head hash is the db header head.  After the join: header head = M12.
use grin_chain::Options;
use grin_core::core::hash::{Hash, Hashed};
use grin_core::core::{Block, BlockHeader, Transaction};
use grin_util::secp::pedersen::Commitment;
use gvharness::chainkit::*;
use gvharness::*;
use std::collections::BTreeMap;
use std::panic::AssertUnwindSafe;
use std::sync::atomic::{AtomicBool, AtomicU64, AtomicUsize, Ordering};
use std::sync::{Arc, Mutex};
use std::time::{Duration, Instant};

const FEE: u64 = 60_000_000;

fn cls<T, E: std::fmt::Debug>(r: &Result<T, E>) -> String {
	match r {
		Ok(_) => "ok".into(),
		Err(e) => {
			let s = format!("{:?}", e);
			let s: String = s.chars().take_while(|c| c.is_alphanumeric() || *c == '_').collect();
			format!("err:{}", if s.is_empty() { "other".to_string() } else { s })
		}
	}
}

fn perturb(rng: &mut Rng) {
	match rng.below(8) {
		0 | 1 => std::thread::yield_now(),
		2 => std::thread::sleep(Duration::from_micros(5 + rng.below(300))),
		3 => {
			let n = rng.below(2000);
			let mut x = 0u64;
			for i in 0..n {
				x = x.wrapping_add(i * i);
			}
			std::hint::black_box(x);
		}
		_ => {}
	}
}

fn add_block(kit: &mut Kit, parent: usize, diff: u64, txs: &[Transaction]) -> Result<usize, String> {
	let b = kit.assemble(parent, diff, txs, 0)?;
	match kit.builder().process_block(b.clone(), Options::SKIP_POW) {
		Ok(_) => Ok(kit.record(b, parent, vec![], true)),
		Err(e) => Err(format!("builder rejected: {}", error_class(&e))),
	}
}

/// what a node answers about one commitment (everything the readers poll), canonical strings
#[derive(Clone, Debug, PartialEq)]
struct Answers {
	unspent: String,
	pos: String,
	header: String,
}

fn answers(c: &grin_chain::Chain, commit: Commitment) -> Answers {
	Answers {
		unspent: match c.get_unspent(commit) {
			Ok(Some((oid, p))) => format!("some:{}:{}:{}", if oid.commit == commit { "same" } else { "OTHER" }, p.pos, p.height),
			Ok(None) => "none".into(),
			Err(e) => format!("err:{:?}", e).chars().take(40).collect(),
		},
		pos: match c.get_output_pos(&commit) {
			Ok(p) => format!("{}", p),
			Err(e) => format!("err:{:?}", e).chars().take(40).collect(),
		},
		header: match c.get_header_for_output(commit) {
			Ok(h) => format!("{}", h.hash()),
			Err(e) => format!("err:{:?}", e).chars().take(40).collect(),
		},
	}
}

fn at_pos(c: &grin_chain::Chain, pos0: u64) -> String {
	match c.get_unspent_output_at(pos0) {
		Ok(o) => format!("out:{}", hex(&o.commitment().0[..6])),
		Err(e) => format!("err:{:?}", e).chars().take_while(|c| c.is_alphanumeric() || *c == ':' || *c == '_').collect(),
	}
}

/// the chain under test behind an Arc (the api objects take a Weak<Chain>); same helpers as chainkit::Subject
struct Subj {
	chain: Arc<grin_chain::Chain>,
}
impl Subj {
	fn new(dir: &str, genesis: &Block) -> Subj {
		let _ = std::fs::remove_dir_all(dir);
		Subj { chain: Arc::new(init_chain(dir, genesis.clone()).unwrap()) }
	}
	fn c(&self) -> &grin_chain::Chain {
		&self.chain
	}
	fn deliver_block(&self, b: &Block) -> String {
		match self.c().process_block(b.clone(), Options::SKIP_POW) {
			Ok(Some(_)) => "ok:head".to_string(),
			Ok(None) => "ok:fork".to_string(),
			Err(e) => format!("err:{}", error_class(&e)),
		}
	}
	fn head_str(&self, kit: &Kit) -> String {
		let h = self.c().head().unwrap();
		let hh = self.c().header_head().unwrap();
		format!("head={} hhead={}", kit.bid(&h.last_block_h), kit.bid(&hh.last_block_h))
	}
	fn utxo(&self, kit: &Kit) -> Vec<usize> {
		kit.outs.iter().filter(|o| matches!(self.c().get_unspent(o.commit), Ok(Some(_)))).map(|o| o.id).collect()
	}
	fn obs(&self, kit: &Kit) -> String {
		let u: Vec<String> = self.utxo(kit).iter().map(|i| format!("o{}", i)).collect();
		format!("{} utxo=[{}]", self.head_str(kit), u.join(","))
	}
	fn roots(&self) -> String {
		let ts = self.c().txhashset();
		let ts = ts.read();
		let r = ts.roots().unwrap();
		format!(
			"{}:{}:{}:{}",
			hex(&r.output_roots.pmmr_root.as_bytes()[..8]),
			hex(&r.output_roots.bitmap_root.as_bytes()[..8]),
			hex(&r.rproof_root.as_bytes()[..8]),
			hex(&r.kernel_root.as_bytes()[..8])
		)
	}
}

fn run_torn(out: &mut Out, work: &str, seed: u64, thorough: bool) {
	let rounds = if thorough { 4 } else { 2 };
	let nreaders = if thorough { 6 } else { 4 };
	let overtakes = if thorough { 24 } else { 14 };
	let stall = if thorough { 120 } else { 60 };
	for (op, v) in [("get_unspent", 1), ("get_output_pos", 1), ("get_header_for_output", 1), ("get_merkle_proof_for_pos", 1),
		("get_merkle_proof", 1), ("get_unspent_output_at", 1), ("validate_inputs", 1)] {
		out.line(&format!("conc views {}", op), &format!("{}", v));
	}
	for round in 0..rounds {
		let mut rng = Rng::new(seed.wrapping_mul(7919).wrapping_add(round as u64));
		let mut kit = Kit::new(&format!("{}/torn_builder{}", work, round));
		let res: Result<(), String> = (|| {
			// trunk
			let mut parent = 0usize;
			let mut trunk = vec![0usize];
			// odd rounds: a trunk long enough (82) for compact() to really prune while the readers run (body tail 1 +
			// horizon 20 + 60); its blocks at heights 7..10 spend the coinbases of heights 3..6, so the compaction has
			// leaves to remove BELOW the outputs the readers poll (their data-file offsets move, their MMR positions do not)
			let trunk_len = if round % 2 == 1 { 82 } else { 6 };
			let cb_early = |kit: &Kit, id: usize| -> Option<usize> {
				kit.blks[id].block.outputs().iter().find(|o| o.is_coinbase()).and_then(|o| kit.by_commit.get(&o.commitment()).cloned())
			};
			for h in 1..=trunk_len {
				let mut specs = vec![];
				if trunk_len > 10 && (7..=10).contains(&h) {
					if let Some(oid) = cb_early(&kit, trunk[h - 4]) {
						let v = kit.outs[oid].value - FEE;
						specs.push(TxSpec { inputs: vec![oid], outputs: vec![(v, None)], kernel: KSpec::Plain(FEE) });
					}
				}
				parent = kit.new_block(parent, 2, &specs)?;
				trunk.push(parent);
			}
			let cb_of = |kit: &Kit, id: usize| -> Result<usize, String> {
				for o in kit.blks[id].block.outputs() {
					if o.is_coinbase() {
						if let Some(x) = kit.by_commit.get(&o.commitment()) {
							return Ok(*x);
						}
					}
				}
				Err("coinbase not registered".into())
			};
			let c1 = cb_of(&kit, trunk[1])?;
			let c2 = cb_of(&kit, trunk[2])?;
			let va = kit.outs[c1].value - FEE;
			let vb = kit.outs[c2].value - FEE;
			let a_id = kit.outs.len();
			let ta = kit.build_tx(&TxSpec { inputs: vec![c1], outputs: vec![(va, None)], kernel: KSpec::Plain(FEE) })?;
			let b_id = kit.outs.len();
			let tb = kit.build_tx(&TxSpec { inputs: vec![c2], outputs: vec![(vb, None)], kernel: KSpec::Plain(FEE) })?;
			let spend = kit.build_tx(&TxSpec { inputs: vec![a_id, b_id], outputs: vec![(va + vb - FEE, None)], kernel: KSpec::Plain(FEE) })?;
			let (ca, cb) = (kit.outs[a_id].commit, kit.outs[b_id].commit);
			let p = trunk[trunk_len];
			// X = [ta][tb], Y = [tb][ta]; works: X1 +2, X2 +2 (4); Y1 +1 (1), Y2 +4 (5); then +2 alternately
			let x1 = add_block(&mut kit, p, 2, &[ta.clone()])?;
			let x2 = add_block(&mut kit, x1, 2, &[tb.clone()])?;
			let y1 = add_block(&mut kit, p, 1, &[tb.clone()])?;
			let y2 = add_block(&mut kit, y1, 4, &[ta.clone()])?;
			let (mut xt, mut yt) = (x2, y2);
			let mut later: Vec<(usize, char)> = vec![];
			for k in 0..overtakes {
				if k % 2 == 0 {
					xt = kit.new_block(xt, 2, &[])?;
					later.push((xt, 'X'));
				} else {
					yt = kit.new_block(yt, 2, &[])?;
					later.push((yt, 'Y'));
				}
			}
			// one more block on the branch that loses the last round: its HEADER alone is delivered at the end
			// (deterministic single-thread observation, see below)
			let (loser, loser_name) = if overtakes % 2 == 0 { (xt, 'X') } else { (yt, 'Y') };
			let extra = kit.new_block(loser, 4, &[])?;
			let blk = |kit: &Kit, id: usize| kit.blks[id].block.clone();
			// reference nodes
			let refx = Subject::new(&format!("{}/torn_refx{}", work, round), &kit.genesis);
			let refy = Subject::new(&format!("{}/torn_refy{}", work, round), &kit.genesis);
			for id in trunk[1..].iter() {
				refx.deliver_block(&blk(&kit, *id));
				refy.deliver_block(&blk(&kit, *id));
			}
			refx.deliver_block(&blk(&kit, x1));
			refx.deliver_block(&blk(&kit, x2));
			refy.deliver_block(&blk(&kit, y1));
			refy.deliver_block(&blk(&kit, y2));
			let commits = vec![("A", ca), ("B", cb)];
			let mut committed: BTreeMap<&str, (Answers, Answers)> = BTreeMap::new();
			let mut positions: Vec<u64> = vec![];
			for (n, c) in &commits {
				let ax = answers(refx.c(), *c);
				let ay = answers(refy.c(), *c);
				if !ax.unspent.starts_with("some:same") || !ay.unspent.starts_with("some:same") {
					return Err(format!("reference nodes do not hold {} unspent: {:?} {:?}", n, ax, ay));
				}
				if ax.pos == ay.pos {
					return Err(format!("{} has the same position on both branches", n));
				}
				positions.push(ax.pos.parse().unwrap());
				positions.push(ay.pos.parse().unwrap());
				committed.insert(*n, (ax, ay));
			}
			// `get_header_for_output` maps the output's height through the HEADER MMR: while the header chain is on
			// the other branch than the body (header step of process_block done, body step not yet; or a
			// header-first delivery) it answers the other branch's block at that height - a block that does
			// NOT contain the output (observation of session 9, candidate finding; counted, not failed, until
			// it is recorded)
			let hh = |id: usize| format!("{}", kit.blks[id].block.hash());
			let mut mixed: BTreeMap<&str, Vec<String>> = BTreeMap::new();
			mixed.insert("A", vec![hh(y1), hh(x2)]);
			mixed.insert("B", vec![hh(y2), hh(x1)]);
			let pos_answers: Vec<(u64, String, String)> = positions.iter().map(|p| (*p, at_pos(refx.c(), *p), at_pos(refy.c(), *p))).collect();
			out.raw(&format!(
				"#STAT torn round={} A: X-state {:?} Y-state {:?}; B: X-state {:?} Y-state {:?}",
				round, committed["A"].0, committed["A"].1, committed["B"].0, committed["B"].1
			));
			// subject
			let subject = Arc::new(Subj::new(&format!("{}/torn_subject{}", work, round), &kit.genesis));
			let subject_chain = subject.chain.clone();
			let mut history: Vec<String> = vec![];
			for id in trunk[1..].iter().chain([x1, x2, y1, y2].iter()) {
				let r = subject.deliver_block(&blk(&kit, *id));
				history.push(format!("b{}:{}", id, r));
			}
			let hist = Arc::new(Mutex::new(history));
			let steps = Arc::new(AtomicU64::new(0));
			let done = Arc::new(AtomicBool::new(false));
			let fails: Arc<Mutex<Vec<String>>> = Arc::new(Mutex::new(vec![]));
			let torn_hits = Arc::new(AtomicUsize::new(0));
			let polls = Arc::new(AtomicUsize::new(0));
			let hdr_mixed = Arc::new(AtomicUsize::new(0));
			let writer_ix = Arc::new(AtomicUsize::new(0));
			let pruned = Arc::new(AtomicBool::new(false));
			let stats: Arc<Mutex<BTreeMap<String, u64>>> = Arc::new(Mutex::new(BTreeMap::new()));
			let later_blocks: Vec<(usize, char, Block)> = later.iter().map(|(id, w)| (*id, *w, blk(&kit, *id))).collect();
			let proof_headers: Vec<BlockHeader> = [x2, y2].iter().chain(later.iter().map(|(id, _)| id)).map(|id| kit.blks[*id].block.header.clone()).collect();
			let out_ids: Vec<grin_core::core::OutputIdentifier> = commits
				.iter()
				.map(|(_, c)| refx.c().get_unspent(*c).unwrap().unwrap().0)
				.collect();
			let mut handles = vec![];
			// writer
			{
				let (subject, hist, steps, done, fails, writer_ix) = (subject.clone(), hist.clone(), steps.clone(), done.clone(), fails.clone(), writer_ix.clone());
				let wseed = rng.next();
				handles.push(std::thread::spawn(move || {
					setup_globals();
					let mut r = Rng::new(wseed);
					for (id, w, b) in &later_blocks {
						perturb(&mut r);
						let res = std::panic::catch_unwind(AssertUnwindSafe(|| subject.deliver_block(b)));
						match res {
							Ok(s) => {
								if s != "ok:head" {
									fails.lock().unwrap().push(format!("delivery of {}-branch block b{} (one block heavier than the head) answered {}", w, id, s));
								}
								hist.lock().unwrap().push(format!("b{}{}:{}", id, w, s));
							}
							Err(_) => fails.lock().unwrap().push(format!("process_block(b{}) panicked", id)),
						}
						writer_ix.fetch_add(1, Ordering::SeqCst);
						steps.fetch_add(1, Ordering::SeqCst);
					}
					done.store(true, Ordering::SeqCst);
				}));
			}
			// service thread: compaction, state archive, fast validation racing the reorgs and the readers
			{
				let (subject, steps, done, fails, stats, pruned) = (subject.clone(), steps.clone(), done.clone(), fails.clone(), stats.clone(), pruned.clone());
				let sseed = rng.next();
				handles.push(std::thread::spawn(move || {
					setup_globals();
					let mut r = Rng::new(sseed);
					let c = subject.c();
					let mut local: BTreeMap<String, u64> = BTreeMap::new();
					let mut k = 0u64;
					while !done.load(Ordering::SeqCst) {
						perturb(&mut r);
						let res = std::panic::catch_unwind(AssertUnwindSafe(|| match k % 3 {
							0 => {
								let before = c.tail().map(|t| t.height).unwrap_or(0);
								let r = c.compact();
								let after = c.tail().map(|t| t.height).unwrap_or(0);
								if after > before.max(1) {
									pruned.store(true, Ordering::SeqCst);
								}
								format!("compact:{}{}", cls(&r), if after > before.max(1) { ":pruned" } else { "" })
							}
							1 => match c.txhashset_archive_header() {
								Ok(h) => format!("txhashset_read:{}", cls(&c.txhashset_read(h.hash()))),
								Err(e) => format!("txhashset_archive_header:err:{}", error_class(&e)),
							},
							_ => {
								let r = c.validate(true);
								if r.is_err() {
									fails.lock().unwrap().push(format!("validate(fast) failed mid-run: {}", cls(&r)));
								}
								format!("validate_fast:{}", cls(&r))
							}
						}));
						match res {
							Ok(n) => *local.entry(n).or_insert(0) += 1,
							Err(_) => fails.lock().unwrap().push(format!("service call {} panicked (0 compact, 1 txhashset_read, 2 validate)", k % 3)),
						}
						k += 1;
						steps.fetch_add(1, Ordering::SeqCst);
						std::thread::sleep(Duration::from_millis(2 + r.below(6)));
					}
					let mut s = stats.lock().unwrap();
					for (k, v) in local {
						*s.entry(k).or_insert(0) += v;
					}
				}));
			}
			// api thread (increment 4): the Foreign API (api/src/foreign.rs -> handlers) on the same Chain: paging of the
			// unspent outputs (get_unspent_outputs, pages of 4), get_outputs by commitment, get_header by commitment,
			// get_tip.  Per call: no commitment twice, indices increasing, A / B reported unspent at their branch-X or
			// branch-Y position (an api call combines several views: a mixture within one call is counted, not failed);
			// over one page sequence the same (commitment, position) never twice; get_tip work never decreases.
			{
				let (steps, done, fails, stats, hist) = (steps.clone(), done.clone(), fails.clone(), stats.clone(), hist.clone());
				let chain_arc: Arc<grin_chain::Chain> = subject_chain.clone();
				let committed = committed.clone();
				let commits = commits.clone();
				let aseed = rng.next();
				handles.push(std::thread::spawn(move || {
					setup_globals();
					let mut r = Rng::new(aseed);
					let foreign: grin_api::Foreign<grin_servers::common::adapters::PoolToChainAdapter, grin_servers::common::adapters::PoolToNetAdapter> =
						grin_api::Foreign::new(Arc::downgrade(&chain_arc), std::sync::Weak::new(), std::sync::Weak::new());
					let mut local: BTreeMap<String, u64> = BTreeMap::new();
					let report = |what: String| {
						let h = hist.lock().unwrap().join(",");
						let mut f = fails.lock().unwrap();
						if f.len() < 12 {
							f.push(format!("api: {}; deliveries so far [{}]", what, h));
						}
					};
					let pos_ok = |name: &str, p: u64| -> Option<char> {
						let (ax, ay) = &committed[name];
						let px: u64 = ax.pos.parse::<u64>().unwrap() + 1;
						let py: u64 = ay.pos.parse::<u64>().unwrap() + 1;
						if p == px { Some('X') } else if p == py { Some('Y') } else { None }
					};
					let mut last_tip = 0u64;
					let mut extra = 0;
					loop {
						if done.load(Ordering::SeqCst) {
							extra += 1;
							if extra > 3 { break; }
						}
						perturb(&mut r);
						let res = std::panic::catch_unwind(AssertUnwindSafe(|| {
							// one page sequence
							let mut start = 1u64;
							let mut seen: std::collections::BTreeSet<(Vec<u8>, u64)> = std::collections::BTreeSet::new();
							let mut pages = 0;
							// An entry listed twice in one page sequence: legitimate when the head moved while the sequence ran
							// (paging is by insertion index; after a reorg to a branch where the output sits further right it is
							// listed again, and its reported position comes from a look-up of its own, possibly made after the
							// reorg: the same (commitment, position) twice).  First oracle of increment 4 failed this - a false
							// alarm of the oracle, repaired: a duplicate is a failure only when the head did NOT move.
							let head_before = chain_arc.head().map(|t| t.last_block_h).ok();
							let mut dups: Vec<(String, u64)> = vec![];
							loop {
								let page = match foreign.get_unspent_outputs(start, None, 4, Some(false)) {
									Ok(p) => p,
									Err(e) => { *local.entry(format!("page_err:{:?}", e).chars().take(30).collect()).or_insert(0) += 1; break; }
								};
								pages += 1;
								let mut call_commits = std::collections::BTreeSet::new();
								let mut branches = std::collections::BTreeSet::new();
								for o in &page.outputs {
									if !call_commits.insert(o.commit.0.to_vec()) {
										report(format!("get_unspent_outputs(start {}) lists commitment {} twice in one call", start, hex(&o.commit.0[..6])));
									}
									for (name, c) in &commits {
										if *c == o.commit {
											if o.spent {
												*local.entry("page_output_spent_flag_after_listing".into()).or_insert(0) += 1;
											} else {
												match pos_ok(name, o.mmr_index) {
													Some(b) => { branches.insert(b); }
													None => report(format!("get_unspent_outputs lists {} at mmr_index {} - committed: X {} / Y {} (1-based)", name, o.mmr_index, committed[*name].0.pos, committed[*name].1.pos)),
												}
											}
										}
									}
									if !o.spent && !seen.insert((o.commit.0.to_vec(), o.mmr_index)) {
										dups.push((hex(&o.commit.0[..6]), o.mmr_index));
									}
								}
								if branches.len() > 1 {
									*local.entry("page_call_mixed_branches".into()).or_insert(0) += 1;
								}
								if page.last_retrieved_index >= page.highest_index || page.outputs.is_empty() || pages > 60 {
									break;
								}
								start = page.last_retrieved_index + 1;
							}
							let head_after = chain_arc.head().map(|t| t.last_block_h).ok();
							if !dups.is_empty() {
								if head_before == head_after {
									report(format!("page sequence lists {:?} twice although the head did not move while it ran", dups));
								} else {
									*local.entry("page_sequence_duplicates_across_a_reorg".into()).or_insert(0) += dups.len() as u64;
								}
							}
							*local.entry("page_sequences".into()).or_insert(0) += 1;
							*local.entry("pages".into()).or_insert(0) += pages;
							// by commitment
							for (name, c) in &commits {
								let hexc = hex(&c.0);
								match foreign.get_outputs(Some(vec![hexc.clone()]), None, None, Some(false), Some(false)) {
									Ok(v) => {
										if v.len() != 1 || v[0].spent || pos_ok(name, v[0].mmr_index).is_none() {
											report(format!("get_outputs([{}]) answered {} entries, spent={:?}, mmr_index={:?} although {} is unspent in every committed state", name, v.len(), v.get(0).map(|x| x.spent), v.get(0).map(|x| x.mmr_index), name));
										}
									}
									Err(e) => report(format!("get_outputs([{}]) failed: {:?}", name, e)),
								}
								match foreign.get_header(None, None, Some(hexc)) {
									Ok(_) => *local.entry("get_header_by_commit:ok".into()).or_insert(0) += 1,
									Err(e) => *local.entry(format!("get_header_by_commit:{:?}", e).chars().take(40).collect()).or_insert(0) += 1,
								}
							}
							if let Ok(t) = foreign.get_tip() {
								if t.total_difficulty < last_tip {
									report(format!("get_tip total difficulty went down: {} after {}", t.total_difficulty, last_tip));
								}
								last_tip = t.total_difficulty;
							}
						}));
						if res.is_err() {
							report("an api call panicked".into());
						}
						steps.fetch_add(1, Ordering::SeqCst);
					}
					let mut s = stats.lock().unwrap();
					for (k, v) in local {
						*s.entry(format!("api_{}", k)).or_insert(0) += v;
					}
				}));
			}
			for rid in 0..nreaders {
				let (subject, hist, steps, done, fails, torn_hits, polls, stats) =
					(subject.clone(), hist.clone(), steps.clone(), done.clone(), fails.clone(), torn_hits.clone(), polls.clone(), stats.clone());
				let commits = commits.clone();
				let committed = committed.clone();
				let mixed = mixed.clone();
				let hdr_mixed = hdr_mixed.clone();
				let writer_ix = writer_ix.clone();
				let pos_answers = pos_answers.clone();
				let proof_headers = proof_headers.clone();
				let out_ids = out_ids.clone();
				let spend = spend.clone();
				let rseed = rng.next();
				handles.push(std::thread::spawn(move || {
					setup_globals();
					let mut r = Rng::new(rseed);
					let c = subject.c();
					let mut local: BTreeMap<String, u64> = BTreeMap::new();
					let report = |what: String| {
						let h = hist.lock().unwrap().join(",");
						let mut f = fails.lock().unwrap();
						if f.len() < 12 {
							f.push(format!("reader {}: {}; deliveries so far [{}]", rid, what, h));
						}
					};
					let mut extra = 0;
					// interleavings reached: which branch's state answered, and how often it changed between two
					// successive polls of this reader / within how many distinct writer positions the polls fell
					let mut last_branch = ' ';
					let mut seen_ix: std::collections::BTreeSet<usize> = std::collections::BTreeSet::new();
					loop {
						if done.load(Ordering::SeqCst) {
							extra += 1;
							if extra > 20 { break; }
						}
						perturb(&mut r);
						seen_ix.insert(writer_ix.load(Ordering::SeqCst));
						let k = r.below(commits.len() as u64) as usize;
						let (name, commit) = commits[k];
						let (ax, ay) = &committed[name];
						let op = r.below(11);
						let res = std::panic::catch_unwind(AssertUnwindSafe(|| match op {
							0 | 1 => {
								let a = match c.get_unspent(commit) {
									Ok(Some((oid, p))) => format!("some:{}:{}:{}", if oid.commit == commit { "same" } else { "OTHER" }, p.pos, p.height),
									Ok(None) => "none".into(),
									Err(e) => format!("err:{:?}", e).chars().take(40).collect(),
								};
								let br = if a == ax.unspent { 'X' } else if a == ay.unspent { 'Y' } else { '?' };
								if last_branch != ' ' && br != last_branch {
									*local.entry("branch_switch_between_polls".into()).or_insert(0) += 1;
								}
								last_branch = br;
								*local.entry(format!("answered_from_{}", br)).or_insert(0) += 1;
								if a != ax.unspent && a != ay.unspent {
									report(format!("get_unspent({}) answered {} - in every committed state it is {} (branch X) or {} (branch Y)", name, a, ax.unspent, ay.unspent));
								}
								"get_unspent"
							}
							2 => {
								let a = match c.get_output_pos(&commit) {
									Ok(p) => format!("{}", p),
									Err(e) => format!("err:{:?}", e).chars().take(40).collect(),
								};
								if a != ax.pos && a != ay.pos {
									report(format!("get_output_pos({}) answered {} - committed: {} or {}", name, a, ax.pos, ay.pos));
								}
								"get_output_pos"
							}
							3 => {
								let a = match c.get_header_for_output(commit) {
									Ok(h) => format!("{}", h.hash()),
									Err(e) => format!("err:{:?}", e).chars().take(40).collect(),
								};
								if mixed[name].contains(&a) {
									hdr_mixed.fetch_add(1, Ordering::SeqCst);
								} else if a != ax.header && a != ay.header {
									report(format!("get_header_for_output({}) answered {} - committed: {} or {}", name, a, ax.header, ay.header));
								}
								"get_header_for_output"
							}
							4 => {
								let a = c.get_merkle_proof_for_pos(commit);
								if a.is_err() {
									report(format!("get_merkle_proof_for_pos({}) answered {} although {} is unspent in every committed state", name, cls(&a), name));
								}
								"get_merkle_proof_for_pos"
							}
							5 => {
								let h = &proof_headers[r.below(proof_headers.len() as u64) as usize];
								// only headers the node already has (the writer may not have delivered it yet)
								if c.get_block_header(&h.hash()).is_ok() && c.block_exists(h.hash()).unwrap_or(false) {
									let a = c.get_merkle_proof(&out_ids[k], h);
									if a.is_err() {
										report(format!("get_merkle_proof({}, header at height {}) answered {}", name, h.height, cls(&a)));
									}
								}
								"get_merkle_proof"
							}
							6 => {
								let (p, px, py) = &pos_answers[r.below(pos_answers.len() as u64) as usize];
								let a = at_pos(c, *p);
								if &a != px && &a != py {
									report(format!("get_unspent_output_at(pos {}) answered {} - committed: {} or {}", p, a, px, py));
								}
								"get_unspent_output_at"
							}
							7 => {
								let a = if r.chance(1, 2) { c.validate_inputs(&spend.inputs()).map(|_| ()) } else { c.validate_tx(&spend) };
								if a.is_err() {
									report(format!("validate_inputs / validate_tx of the transaction spending A and B answered {} although both are unspent in every committed state", cls(&a)));
								}
								"validate"
							}
							9 | 10 => {
								// scheduler perturbation AT a lock point the harness controls: take the guard through the Arc,
								// keep it for a seeded time (writers and compaction queue behind it; with a writer queued new
								// readers queue too), read under it, release
								let us = r.below(1500);
								if op == 9 {
									let ts = c.txhashset();
									let g = ts.read();
									std::thread::sleep(Duration::from_micros(us));
									let a = match g.get_unspent(commit) {
										Ok(Some((oid, _))) if oid.commit == commit => true,
										_ => false,
									};
									drop(g);
									if !a {
										report(format!("under a held txhashset.read() get_unspent({}) is not Some although it is unspent in every committed state", name));
									}
									"hold_ts_read"
								} else {
									let hp = c.header_pmmr();
									let g = hp.read();
									std::thread::sleep(Duration::from_micros(us));
									let mh = g.head_hash();
									let dh = c.header_head();
									drop(g);
									if let (Ok(m), Ok(d)) = (&mh, &dh) {
										if *m != d.last_block_h {
											report(format!("under a held header_pmmr.read(): MMR head {} but db header head {}", m, d.last_block_h));
										}
									}
									"hold_hp_read"
								}
							}
							_ => {
								// the seeded read, emulated from outside: position under one lock hold, data under the next
								if let Ok(p) = c.get_output_pos(&commit) {
									let torn = match c.get_unspent_output_at(p) {
										Ok(o) => o.commitment() != commit,
										Err(_) => true,
									};
									if torn {
										torn_hits.fetch_add(1, Ordering::SeqCst);
									}
								}
								"emulated"
							}
						}));
						match res {
							Ok(n) => *local.entry(n.to_string()).or_insert(0) += 1,
							Err(_) => report(format!("a read of {} panicked (op {})", name, op)),
						}
						polls.fetch_add(1, Ordering::SeqCst);
						steps.fetch_add(1, Ordering::SeqCst);
					}
					*local.entry("distinct_writer_positions_seen".into()).or_insert(0) += seen_ix.len() as u64;
					let mut s = stats.lock().unwrap();
					for (k, v) in local {
						*s.entry(k).or_insert(0) += v;
					}
				}));
			}
			// watchdog on progress
			let mut last = 0u64;
			let mut last_change = Instant::now();
			loop {
				if handles.iter().all(|h| h.is_finished()) {
					break;
				}
				let s = steps.load(Ordering::SeqCst);
				if s != last {
					last = s;
					last_change = Instant::now();
				} else if last_change.elapsed() > Duration::from_secs(stall) {
					out.raw(&format!("#ORACLE-FAIL C17 deadlock torn round={} seed={}: no call completed for {} s; deliveries so far [{}]", round, seed, stall, hist.lock().unwrap().join(",")));
					out.line(&format!("conc torn round={} overtakes={} readers={} seed={}", round, overtakes, nreaders, seed), "stalled");
					out.flush();
					std::process::exit(0);
				}
				std::thread::sleep(Duration::from_millis(10));
			}
			for h in handles {
				let _ = h.join();
			}
			let mut fl = fails.lock().unwrap().clone();
			// final state
			// ---- deterministic, single thread: header chain ahead of the body on the OTHER branch
			{
				let c = subject.c();
				let hdr_of = |commit: Commitment| match c.get_header_for_output(commit) {
					Ok(h) => format!("{}", h.hash()),
					Err(e) => format!("err:{:?}", e).chars().take(40).collect::<String>(),
				};
				let before = hdr_of(ca);
				let eh = kit.blks[extra].block.header.clone();
				let r = c.process_block_header(&eh, Options::SKIP_POW);
				let during = hdr_of(ca);
				let creates_a = |h: &str| h == committed["A"].0.header || h == committed["A"].1.header;
				out.raw(&format!(
					"#STAT torn round={} observation get_header_for_output-follows-header-fork: body head on branch {} ; header of b{} (branch {}, heavier) delivered alone: {}; get_header_for_output(A) before = {} (creates A: {}), while the header chain is ahead on the other branch = {} (creates A: {}){}",
					round, if loser_name == 'X' { 'Y' } else { 'X' }, extra, loser_name, cls(&r), before, creates_a(&before), during, creates_a(&during),
					if !creates_a(&during) && mixed["A"].contains(&during) { " REPRODUCED: the header answered is the block at A's height on the header chain, which does not contain A" } else { "" }
				));
				let s = subject.deliver_block(&blk(&kit, extra));
				let after = hdr_of(ca);
				if s != "ok:head" || !creates_a(&after) {
					fl.push(format!("after the block b{} itself was delivered ({}) get_header_for_output(A) = {} is not a block creating A", extra, s, after));
				}
			}
			let want = kit.blks[extra].block.hash();
			match subject.c().head() {
				Ok(h) if h.last_block_h == want => {}
				Ok(h) => fl.push(format!("final head {} is not the last delivered (heaviest) block {}", h.last_block_h, want)),
				Err(_) => fl.push("head() failed".into()),
			}
			let v = subject.c().validate(false);
			if v.is_err() {
				fl.push(format!("full validation after the run: {}", cls(&v)));
			}
			// the property's last sentence: the state is the one a sequential ordering of the submitted operations
			// produces - a twin fed the same deliveries in order, one thread, no readers, no compaction
			{
				let twin = Subject::new(&format!("{}/torn_twin{}", work, round), &kit.genesis);
				// the same history through the chain model (`chain` domain): tree, the twin's sequential deliveries,
				// its final observation, and the CONCURRENTLY used node's final observation against the model's state
				let tname = format!("tt{}", round);
				out.raw("chain reset");
				for l in kit.out_lines(0) {
					out.raw(&l);
				}
				for id in 0..kit.blks.len() {
					out.raw(&kit.blk_line(id));
				}
				out.raw(&format!("chain new {}", tname));
				for id in trunk[1..].iter().chain([x1, x2, y1, y2].iter()).chain(later.iter().map(|(id, _)| id)) {
					let r = twin.deliver_block(&blk(&kit, *id));
					out.line(&format!("chain deliver {} b{}", tname, id), &r);
				}
				let r = twin.deliver_header(&kit.blks[extra].block.header);
				out.line(&format!("chain hdr {} b{}", tname, extra), &r);
				let r = twin.deliver_block(&blk(&kit, extra));
				out.line(&format!("chain deliver {} b{}", tname, extra), &r);
				out.line(&format!("chain obs {}", tname), &twin.obs(&kit));
				out.line(&format!("chain obs {}", tname), &subject.obs(&kit));
				let (a, b) = (format!("{} roots={} utxo={:?}", subject.head_str(&kit), subject.roots(), subject.utxo(&kit)), format!("{} roots={} utxo={:?}", twin.head_str(&kit), twin.roots(), twin.utxo(&kit)));
				if a != b {
					fl.push(format!("final state differs from the sequential twin: {} vs twin {}", a, b));
				}
				let tv = twin.c().validate(false);
				if tv.is_err() {
					fl.push(format!("the twin fails full validation: {}", cls(&tv)));
				}
			}
			for f in &fl {
				out.raw(&format!("#ORACLE-FAIL C17 torn round={} seed={}: history trunk P1..P{}, X=[b{}:ta->A][b{}:tb->B], Y=[b{}:tb->B][b{}:ta->A], then alternately one block heavier: {}", round, seed, trunk_len, x1, x2, y1, y2, f));
			}
			let st = stats.lock().unwrap();
			let mut s = String::new();
			for (k, v) in st.iter() {
				s.push_str(&format!(" {}={}", k, v));
			}
			out.raw(&format!(
				"#STAT torn round={} trunk={} compaction_pruned={} reorgs={} polls={} emulated_torn_hits={} header_for_output_on_other_fork={}{}",
				round, trunk_len, pruned.load(Ordering::SeqCst), overtakes, polls.load(Ordering::SeqCst), torn_hits.load(Ordering::SeqCst), hdr_mixed.load(Ordering::SeqCst), s
			));
			out.line(
				&format!("conc torn round={} trunk={} overtakes={} readers={} seed={}", round, trunk_len, overtakes, nreaders, seed),
				if fl.is_empty() { "ok" } else { "failed" },
			);
			Ok(())
		})();
		if let Err(e) = res {
			out.raw(&format!("#STAT torn round={} scenario not built: {}", round, e));
		}
	}
}

fn run_hdrmono(out: &mut Out, work: &str, seed: u64, thorough: bool) {
	let rounds = if thorough { 8 } else { 3 };
	let nreaders = if thorough { 4 } else { 3 };
	let stall = if thorough { 120 } else { 60 };
	for round in 0..rounds {
		let mut rng = Rng::new(seed.wrapping_mul(104729).wrapping_add(round as u64));
		let mut kit = Kit::new(&format!("{}/hdr_builder{}", work, round));
		let res: Result<(), String> = (|| {
			let mut main = vec![0usize];
			let mut parent = 0usize;
			let mlen = 12 + rng.below(4) as usize;
			for _ in 0..mlen {
				parent = kit.new_block(parent, 3, &[])?;
				main.push(parent);
			}
			let fork_at = 3 + rng.below(2) as usize;
			let mut fork = vec![];
			let mut fp = main[fork_at];
			let flen = 8 + rng.below(4) as usize;
			for _ in 0..flen {
				fp = kit.new_block(fp, 1, &[])?;
				fork.push(fp);
			}
			let pre = 6usize;
			let subject = Arc::new(Subject::new(&format!("{}/hdr_subject{}", work, round), &kit.genesis));
			for id in &main[1..=pre] {
				subject.deliver_block(&kit.blks[*id].block);
			}
			let hdr = |id: usize| kit.blks[id].block.header.clone();
			let main_h: Vec<BlockHeader> = main[pre + 1..].iter().map(|i| hdr(*i)).collect();
			let fork_h: Vec<BlockHeader> = fork.iter().map(|i| hdr(*i)).collect();
			let main_b: Vec<Block> = main[pre + 1..].iter().map(|i| kit.blks[*i].block.clone()).collect();
			let best: Hash = kit.blks[*main.last().unwrap()].block.hash();
			let best_work = kit.blks[*main.last().unwrap()].work;
			let fork_work = kit.blks[*fork.last().unwrap()].work;
			let steps = Arc::new(AtomicU64::new(0));
			let writers_left = Arc::new(AtomicUsize::new(3));
			let fails: Arc<Mutex<Vec<String>>> = Arc::new(Mutex::new(vec![]));
			let hist: Arc<Mutex<Vec<String>>> = Arc::new(Mutex::new(vec![]));
			let stats: Arc<Mutex<BTreeMap<String, u64>>> = Arc::new(Mutex::new(BTreeMap::new()));
			let mut handles = vec![];
			// two header syncers
			for (which, hs) in [("main", main_h.clone()), ("light", fork_h.clone())] {
				let (subject, steps, writers_left, fails, hist, stats) = (subject.clone(), steps.clone(), writers_left.clone(), fails.clone(), hist.clone(), stats.clone());
				let wseed = rng.next();
				handles.push(std::thread::spawn(move || {
					setup_globals();
					let mut r = Rng::new(wseed);
					let c = subject.c();
					let mut sync_head = c.header_head().unwrap();
					let mut i = 0;
					while i < hs.len() {
						perturb(&mut r);
						let n = (2 + r.below(2) as usize).min(hs.len() - i);
						let chunk = &hs[i..i + n];
						let res = std::panic::catch_unwind(AssertUnwindSafe(|| c.sync_block_headers(chunk, sync_head, Options::SKIP_POW)));
						match res {
							Ok(Ok(t)) => {
								if let Some(t) = t {
									sync_head = t;
								}
								*stats.lock().unwrap().entry(format!("sync_{}:ok", which)).or_insert(0) += 1;
								hist.lock().unwrap().push(format!("{}[{}..{}]:ok", which, chunk[0].height, chunk[n - 1].height));
							}
							Ok(Err(e)) => {
								fails.lock().unwrap().push(format!("sync_block_headers of valid {} headers {}..{} failed: {}", which, chunk[0].height, chunk[n - 1].height, error_class(&e)));
							}
							Err(_) => fails.lock().unwrap().push(format!("sync_block_headers({}) panicked", which)),
						}
						i += n;
						steps.fetch_add(1, Ordering::SeqCst);
					}
					writers_left.fetch_sub(1, Ordering::SeqCst);
				}));
			}
			// body
			{
				let (subject, steps, writers_left, hist, stats) = (subject.clone(), steps.clone(), writers_left.clone(), hist.clone(), stats.clone());
				let wseed = rng.next();
				handles.push(std::thread::spawn(move || {
					setup_globals();
					let mut r = Rng::new(wseed);
					for b in &main_b {
						perturb(&mut r);
						let s = subject.deliver_block(b);
						*stats.lock().unwrap().entry(format!("block:{}", s)).or_insert(0) += 1;
						hist.lock().unwrap().push(format!("block{}:{}", b.header.height, s));
						steps.fetch_add(1, Ordering::SeqCst);
					}
					writers_left.fetch_sub(1, Ordering::SeqCst);
				}));
			}
			for rid in 0..nreaders {
				let (subject, steps, writers_left, fails, hist, stats) = (subject.clone(), steps.clone(), writers_left.clone(), fails.clone(), hist.clone(), stats.clone());
				let rseed = rng.next();
				handles.push(std::thread::spawn(move || {
					setup_globals();
					let mut r = Rng::new(rseed);
					let c = subject.c();
					let (mut last_hh, mut last_h) = (0u64, 0u64);
					let (mut n, mut distinct) = (0u64, 0u64);
					let mut extra = 0;
					let report = |what: String| {
						let h = hist.lock().unwrap().join(",");
						let mut f = fails.lock().unwrap();
						if f.len() < 10 {
							f.push(format!("reader {}: {}; operations completed so far [{}]", rid, what, h));
						}
					};
					loop {
						if writers_left.load(Ordering::SeqCst) == 0 {
							extra += 1;
							if extra > 10 { break; }
						}
						perturb(&mut r);
						match r.below(3) {
							0 => {
								if let Ok(t) = c.header_head() {
									let w = t.total_difficulty.to_num();
									if w < last_hh {
										report(format!("header_head() total difficulty went DOWN: {} after {} (header {} at height {})", w, last_hh, t.last_block_h, t.height));
									}
									if w != last_hh { distinct += 1; }
									last_hh = w;
									if c.get_block_header(&t.last_block_h).is_err() {
										report(format!("header_head() names {} which is not a stored header", t.last_block_h));
									}
								}
							}
							1 => {
								if let Ok(t) = c.head() {
									let w = t.total_difficulty.to_num();
									if w < last_h {
										report(format!("head() total difficulty went DOWN: {} after {}", w, last_h));
									}
									last_h = w;
								}
							}
							_ => {
								let hp = c.header_pmmr();
								let g = hp.read();
								let mh = g.head_hash();
								let dh = c.header_head();
								if let (Ok(m), Ok(d)) = (&mh, &dh) {
									if *m != d.last_block_h {
										report(format!("under header_pmmr.read(): MMR head {} but db header head {} (height {})", m, d.last_block_h, d.height));
									}
								}
							}
						}
						n += 1;
						steps.fetch_add(1, Ordering::SeqCst);
					}
					let mut s = stats.lock().unwrap();
					*s.entry("reads".into()).or_insert(0) += n;
					*s.entry("distinct_header_heads_seen".into()).or_insert(0) += distinct;
				}));
			}
			let mut last = 0u64;
			let mut last_change = Instant::now();
			loop {
				if handles.iter().all(|h| h.is_finished()) {
					break;
				}
				let s = steps.load(Ordering::SeqCst);
				if s != last {
					last = s;
					last_change = Instant::now();
				} else if last_change.elapsed() > Duration::from_secs(stall) {
					out.raw(&format!("#ORACLE-FAIL C17 deadlock hdrmono round={} seed={}: no call completed for {} s; [{}]", round, seed, stall, hist.lock().unwrap().join(",")));
					out.line(&format!("conc hdrmono round={} main={} light={} seed={}", round, mlen, flen, seed), "stalled");
					out.flush();
					std::process::exit(0);
				}
				std::thread::sleep(Duration::from_millis(10));
			}
			for h in handles {
				let _ = h.join();
			}
			let mut fl = fails.lock().unwrap().clone();
			match subject.c().header_head() {
				Ok(t) if t.last_block_h == best => {}
				Ok(t) => fl.push(format!("final header head {} (work {}) is not the heaviest header (work {})", t.last_block_h, t.total_difficulty.to_num(), best_work)),
				Err(_) => fl.push("header_head() failed".into()),
			}
			match subject.c().head() {
				Ok(t) if t.last_block_h == best => {}
				Ok(t) => fl.push(format!("final head at height {} is not the main tip", t.height)),
				Err(_) => fl.push("head() failed".into()),
			}
			let v = subject.c().validate(false);
			if v.is_err() {
				fl.push(format!("full validation after the run: {}", cls(&v)));
			}
			// sequential twin: same operations, one thread (main headers, fork headers, blocks)
			{
				let twin = Subject::new(&format!("{}/hdr_twin{}", work, round), &kit.genesis);
				let tname = format!("ht{}", round);
				out.raw("chain reset");
				for l in kit.out_lines(0) {
					out.raw(&l);
				}
				for id in 0..kit.blks.len() {
					out.raw(&kit.blk_line(id));
				}
				out.raw(&format!("chain new {}", tname));
				for id in &main[1..=pre] {
					let r = twin.deliver_block(&kit.blks[*id].block);
					out.line(&format!("chain deliver {} b{}", tname, id), &r);
				}
				let ids = |v: &[usize]| v.iter().map(|i| format!("b{}", i)).collect::<Vec<_>>().join(",");
				let r = twin.sync_headers(&main_h);
				out.line(&format!("chain hdrs {} [{}]", tname, ids(&main[pre + 1..])), &r);
				let r = twin.sync_headers(&fork_h);
				out.line(&format!("chain hdrs {} [{}]", tname, ids(&fork)), &r);
				for id in &main[pre + 1..] {
					let r = twin.deliver_block(&kit.blks[*id].block);
					out.line(&format!("chain deliver {} b{}", tname, id), &r);
				}
				out.line(&format!("chain obs {}", tname), &twin.obs(&kit));
				out.line(&format!("chain obs {}", tname), &subject.obs(&kit));
				let (a, b) = (format!("{} roots={}", subject.head_str(&kit), subject.roots()), format!("{} roots={}", twin.head_str(&kit), twin.roots()));
				if a != b {
					fl.push(format!("final state differs from the sequential twin: {} vs twin {}", a, b));
				}
				// every fork header is stored on both (a refused lighter chunk still stores its headers)
				for h in &fork_h {
					let (x, y) = (subject.c().get_block_header(&h.hash()).is_ok(), twin.c().get_block_header(&h.hash()).is_ok());
					if x != y {
						fl.push(format!("fork header at height {} stored on the subject: {} on the twin: {}", h.height, x, y));
					}
				}
			}
			for f in &fl {
				out.raw(&format!("#ORACLE-FAIL C17 hdrmono round={} seed={}: main chain of {} blocks (difficulty 3 each, {} preloaded), lighter fork of {} headers on height {} (difficulty 1 each, tip work {} < {}): {}", round, seed, mlen, pre, flen, fork_at, fork_work, best_work, f));
			}
			let st = stats.lock().unwrap();
			let mut s = String::new();
			for (k, v) in st.iter() {
				s.push_str(&format!(" {}={}", k, v));
			}
			out.raw(&format!("#STAT hdrmono round={}{}", round, s));
			out.line(&format!("conc hdrmono round={} main={} light={} seed={}", round, mlen, flen, seed), if fl.is_empty() { "ok" } else { "failed" });
			Ok(())
		})();
		if let Err(e) = res {
			out.raw(&format!("#STAT hdrmono round={} scenario not built: {}", round, e));
		}
	}
}

fn main() {
	if std::env::var("VERIF_LOUD").is_err() {
		quiet_panics();
	}
	let seed = seed_from_env();
	let thorough = tier_thorough();
	let work = std::env::var("VERIF_WORK").unwrap_or_else(|_| "/verif/work/conctorn".to_string());
	let _ = std::fs::create_dir_all(&work);
	let mut out = Out::stdout();
	setup_globals();
	let mode = std::env::args().nth(1).unwrap_or_else(|| "torn".into());
	match mode.as_str() {
		"torn" => run_torn(&mut out, &work, seed, thorough),
		"hdrmono" => run_hdrmono(&mut out, &work, seed, thorough),
		_ => out.raw("#STAT unknown mode"),
	}
	out.flush();
}
