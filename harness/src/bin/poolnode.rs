//! The glue between block acceptance and the transaction pool as a running node has it (C14):
//! a real `Chain` whose adapter IS `servers::common::adapters::ChainToPoolAndNetAdapter`, a real
//! `TransactionPool` over the real `PoolToChainAdapter`, a `p2p::Peers` object without peers.
//! Nobody calls `reconcile_block` here: the pool hears of a block only through
//! `ChainAdapter::block_accepted`, for every `Options` value the block is processed with (NONE,
//! SYNC as body sync does, MINE) and every `BlockStatus` (Next, Fork, Reorg).
//!
//! History: submissions to txpool and stempool (spends of unspent outputs, children of pooled
//! outputs), blocks that confirm pooled transactions / double-spend their inputs / are unrelated,
//! side branches that first stay behind (Fork) and then overtake (Reorg).  After EVERY processed
//! block (and every submission) the property's oracle is evaluated on the implementation, from the
//! pool's entries and the chain only: aggregate(txpool) validates on the head (`Chain::validate_tx`),
//! every input of every entry is unspent on the head or created by another entry, stempool +
//! txpool likewise, and the block built from `prepare_mineable_transactions` is accepted by a
//! chain.  Violations are `#ORACLE-FAIL C14 …` lines with the concrete history step.
use grin_chain::types::{BlockStatus, Options};
use grin_chain::Chain;
use grin_core::core::hash::Hashed;
use grin_core::core::transaction::{self, FeeFields};
use grin_core::core::{Block, CommitWrapper, KernelFeatures, Transaction, Weighting};
use grin_core::global;
use grin_core::pow;
use grin_keychain::{Identifier, Keychain, SwitchCommitmentType};
use grin_pool::types::{PoolAdapter, PoolConfig, PoolEntry, PoolError, TxSource};
use grin_pool::TransactionPool;
use grin_chain::{SyncState, SyncStatus};
use grin_p2p::ChainAdapter as P2pChainAdapter;
use grin_pool::DandelionConfig;
use grin_servers::common::adapters::{ChainToPoolAndNetAdapter, DandelionAdapter, NetToChainAdapter, PoolToChainAdapter, PoolToNetAdapter};
use grin_servers::common::hooks::ChainEvents;
use grin_servers::verif_export::{get_block, monitor_transactions, verif_process_expired_entries, verif_process_fluff_phase};
use grin_util::RwLock;
use gvharness::chainkit::*;
use gvharness::*;
use std::collections::{BTreeMap, BTreeSet, HashMap};
use std::sync::atomic::{AtomicBool, Ordering};
use std::sync::{Arc, Mutex};

const MATURITY: u64 = 3;
const FEE_BASE: u64 = 2;

/// Dandelion relay of the pool: takes the stem transaction unless told otherwise
struct PAdapter {
	stem_ok: Arc<AtomicBool>,
}
impl PoolAdapter for PAdapter {
	fn tx_accepted(&self, _entry: &PoolEntry) {}
	fn stem_tx_accepted(&self, _entry: &PoolEntry) -> Result<(), PoolError> {
		if self.stem_ok.load(Ordering::SeqCst) {
			Ok(())
		} else {
			Err(PoolError::DandelionError)
		}
	}
}

/// hook of the real adapter (the webhook / logging slot): records the status the chain reported
struct StatusHook {
	last: Arc<Mutex<Option<&'static str>>>,
}
impl ChainEvents for StatusHook {
	fn on_block_accepted(&self, _b: &Block, status: BlockStatus) {
		*self.last.lock().unwrap() = Some(match status {
			BlockStatus::Next { .. } => "next",
			BlockStatus::Fork { .. } => "fork",
			BlockStatus::Reorg { .. } => "reorg",
		});
	}
}

struct Node<P: PoolAdapter + 'static = PAdapter> {
	kit: Kit,
	node: Arc<Chain>,
	pool: Arc<RwLock<TransactionPool<PoolToChainAdapter, P>>>,
	peers: Arc<grin_p2p::Peers>,
	_chain_adapter: Arc<ChainToPoolAndNetAdapter<PoolToChainAdapter, P>>,
	last_status: Arc<Mutex<Option<&'static str>>>,
	stem_ok: Arc<AtomicBool>,
	/// kit id of the node's head
	head: usize,
	/// unspent output ids after each kit block (to build valid side branches)
	states: BTreeMap<usize, BTreeMap<usize, (u64, bool)>>,
	stats: BTreeMap<String, u64>,
	name: String,
	out: String,
	last_probe: String,
	/// protocol mode (run `monitor`): transactions described to the model, kernel ids, outputs described
	reg: Vec<Transaction>,
	kers: HashMap<grin_core::core::hash::Hash, usize>,
	outs_described: usize,
	max_pool: usize,
	max_stem: usize,
	verdict_key: String,
	verdict: bool,
	/// run `miner`: the recorded finding C14-reorg-lower-height-keeps-locked-tx is being reproduced on
	/// purpose: a mineable set refused for its lock height is that finding, not a new failure
	known_lower: bool,
}

impl Node<PAdapter> {
	fn new(work: &str, name: &str) -> Node<PAdapter> {
		let stem_ok = Arc::new(AtomicBool::new(true));
		let mut n = Node::with_adapter(work, name, 50, 50, |_peers| Arc::new(PAdapter { stem_ok: stem_ok.clone() }));
		n.stem_ok = stem_ok;
		n
	}
}

impl<P: PoolAdapter + 'static> Node<P> {
	/// `mk_adapter` gets the `Peers` object (created before the pool, as server.rs does for the
	/// pool-to-net adapter via `init`)
	fn with_adapter(
		work: &str,
		name: &str,
		max_pool: usize,
		max_stem: usize,
		mk_adapter: impl FnOnce(&Arc<grin_p2p::Peers>) -> Arc<P>,
	) -> Node<P> {
		let kit = Kit::new(&format!("{}/builder_{}", work, name));
		global::set_local_accept_fee_base(FEE_BASE);
		let dir = format!("{}/node_{}", work, name);
		let _ = std::fs::remove_dir_all(&dir);
		let stem_ok = Arc::new(AtomicBool::new(true));
		let pool_adapter = Arc::new(PoolToChainAdapter::new());
		// a Peers object without peers, as servers/src/grin/server.rs hands it to the adapters
		let store = grin_p2p::store::PeerStore::new(&format!("{}/peers", dir)).unwrap();
		let peers = Arc::new(grin_p2p::Peers::new(store, Arc::new(grin_p2p::DummyAdapter {}), grin_p2p::P2PConfig::default()));
		let pool = Arc::new(RwLock::new(TransactionPool::new(
			PoolConfig {
				accept_fee_base: FEE_BASE,
				reorg_cache_period: 30,
				max_pool_size: max_pool,
				max_stempool_size: max_stem,
				mineable_max_weight: 250,
			},
			pool_adapter.clone(),
			mk_adapter(&peers),
		)));
		let last_status = Arc::new(Mutex::new(None));
		let chain_adapter = Arc::new(ChainToPoolAndNetAdapter::new(
			pool.clone(),
			vec![Box::new(StatusHook { last: last_status.clone() })],
		));
		let node = Arc::new(
			Chain::init(dir.clone(), chain_adapter.clone(), kit.genesis.clone(), pow::verify_size, false, None).unwrap(),
		);
		pool_adapter.set_chain(node.clone());
		chain_adapter.init(peers.clone());
		let mut states = BTreeMap::new();
		let mut s0 = BTreeMap::new();
		s0.insert(0, (0, true));
		states.insert(0, s0);
		Node {
			kit,
			node,
			pool,
			peers,
			_chain_adapter: chain_adapter,
			last_status,
			stem_ok,
			head: 0,
			states,
			stats: BTreeMap::new(),
			name: name.to_string(),
			out: String::new(),
			last_probe: String::new(),
			reg: vec![],
			kers: HashMap::new(),
			outs_described: 0,
			max_pool,
			max_stem,
			verdict_key: String::new(),
			verdict: false,
			known_lower: false,
		}
	}

	fn raw(&mut self, s: &str) {
		self.out.push_str(s);
		self.out.push('\n');
	}
	fn stat(&mut self, k: &str) {
		*self.stats.entry(k.to_string()).or_insert(0) += 1;
	}

	fn oid(&self, c: &grin_util::secp::pedersen::Commitment) -> usize {
		self.kit.by_commit.get(c).cloned().unwrap_or(999_999)
	}
	fn tx_ins(&self, tx: &Transaction) -> Vec<usize> {
		let v: Vec<CommitWrapper> = tx.inputs().into();
		v.iter().map(|i| self.oid(&i.commitment())).collect()
	}
	fn tx_outs(&self, tx: &Transaction) -> Vec<usize> {
		tx.outputs().iter().map(|o| self.oid(&o.commitment())).collect()
	}
	fn sig(&self, tx: &Transaction) -> String {
		let mut i = self.tx_ins(tx);
		i.sort();
		let mut o = self.tx_outs(tx);
		o.sort();
		format!(
			"{}:{:?}->{:?}",
			tx.kernels().iter().map(|k| hex(&k.hash().as_bytes()[..3])).collect::<Vec<_>>().join("+"),
			i,
			o
		)
	}

	fn unspent(&self, o: usize) -> bool {
		match self.kit.outs.get(o) {
			Some(r) => matches!(self.node.get_unspent(r.commit), Ok(Some(_))),
			None => false,
		}
	}

	fn entries(&self) -> (Vec<Transaction>, Vec<Transaction>) {
		let p = self.pool.read();
		(
			p.txpool.entries.iter().map(|e| e.tx.clone()).collect(),
			p.stempool.entries.iter().map(|e| e.tx.clone()).collect(),
		)
	}

	fn pool_spent(&self) -> BTreeSet<usize> {
		let (t, s) = self.entries();
		t.iter().chain(s.iter()).flat_map(|x| self.tx_ins(x)).collect()
	}

	/// unspent on the head, mature for the next block, not spent by a pool entry
	fn free_utxo(&self) -> Vec<usize> {
		let spent = self.pool_spent();
		let nh = self.node.head().unwrap().height + 1;
		let mut v = vec![];
		for o in &self.kit.outs {
			if spent.contains(&o.id) {
				continue;
			}
			if let Ok(Some((oi, pos))) = self.node.get_unspent(o.commit) {
				if !oi.features.is_coinbase() || nh >= pos.height + MATURITY {
					v.push(o.id);
				}
			}
		}
		v
	}

	fn spend(&mut self, inputs: &[usize], nout: usize, fee: u64) -> Option<Transaction> {
		self.spend_f(inputs, nout, fee, None)
	}

	/// unspent coinbases that are NOT yet mature for the next block and that no pool entry spends
	fn young_coinbases(&self) -> Vec<usize> {
		let spent = self.pool_spent();
		let nh = self.node.head().unwrap().height + 1;
		let mut v = vec![];
		for o in &self.kit.outs {
			if spent.contains(&o.id) {
				continue;
			}
			if let Ok(Some((oi, pos))) = self.node.get_unspent(o.commit) {
				if oi.features.is_coinbase() && nh < pos.height + MATURITY {
					v.push(o.id);
				}
			}
		}
		v
	}

	/// Is the transaction inadmissible at the height of the next block on the BODY head: a kernel
	/// locked beyond it, or a coinbase output of the chain spent before its maturity?  (Asked of the
	/// chain's unspent set directly, not of anything the pool or its adapter computed.)
	fn too_early(&self, tx: &Transaction) -> Option<String> {
		let next = self.node.head().map(|t| t.height).unwrap_or(0) + 1;
		if tx.lock_height() > next {
			return Some(format!("lock height {} > next block height {}", tx.lock_height(), next));
		}
		let (t, s) = self.entries();
		let created: BTreeSet<usize> = t.iter().chain(s.iter()).flat_map(|x| self.tx_outs(x)).collect();
		for i in self.tx_ins(tx) {
			if created.contains(&i) {
				continue;
			}
			if let Some(r) = self.kit.outs.get(i) {
				if let Ok(Some((oi, pos))) = self.node.get_unspent(r.commit) {
					if oi.features.is_coinbase() && next < pos.height + MATURITY {
						return Some(format!("coinbase o{} created at height {} matures at {} > next block height {}", i, pos.height, pos.height + MATURITY, next));
					}
				}
			}
		}
		None
	}

	fn spend_f(&mut self, inputs: &[usize], nout: usize, fee: u64, features: Option<KernelFeatures>) -> Option<Transaction> {
		let total: u64 = inputs.iter().map(|i| self.kit.outs[*i].value).sum();
		if total <= fee + nout as u64 {
			return None;
		}
		let ins: Vec<(u64, Identifier, bool)> = inputs
			.iter()
			.map(|i| {
				let o = &self.kit.outs[*i];
				(o.value, o.key_id.clone(), o.coinbase)
			})
			.collect();
		let rest = total - fee;
		let each = rest / nout as u64;
		let mut new_outs = vec![];
		for k in 0..nout {
			let v = if k + 1 == nout { rest - each * (nout as u64 - 1) } else { each };
			new_outs.push((v, self.kit.fresh_key()));
		}
		let features = match features {
			Some(f) => f,
			None => KernelFeatures::Plain { fee: FeeFields::new(0, fee).ok()? },
		};
		let tx = make_tx(&self.kit.kc, &ins, &new_outs, features).ok()?;
		for (v, key) in new_outs {
			let commit = self.kit.kc.commit(v, &key, SwitchCommitmentType::Regular).ok()?;
			if !self.kit.by_commit.contains_key(&commit) {
				let id = self.kit.outs.len();
				self.kit.outs.push(OutRec { id, commit, value: v, key_id: key, coinbase: false });
				self.kit.by_commit.insert(commit, id);
			}
		}
		Some(tx)
	}

	// ------------------------------------------------------------------------------------------
	// the oracle

	fn validate_set(&self, txs: &[Transaction]) -> Result<(), String> {
		if txs.is_empty() {
			return Ok(());
		}
		let agg = transaction::aggregate(txs).map_err(|e| format!("aggregate:{:?}", e))?;
		agg.validate(Weighting::NoLimit).map_err(|e| format!("validate:{:?}", e))?;
		self.node.validate_tx(&agg).map_err(|e| format!("chain:{}", error_class(&e)))?;
		Ok(())
	}

	/// (entry, input) pairs whose input is neither unspent on the head nor created by an entry
	fn dangling(&self, txs: &[Transaction]) -> Vec<String> {
		let created: BTreeSet<usize> = txs.iter().flat_map(|t| self.tx_outs(t)).collect();
		let mut v = vec![];
		for t in txs {
			for i in self.tx_ins(t) {
				if !created.contains(&i) && !self.unspent(i) {
					v.push(format!("{} spends o{}", self.sig(t), i));
				}
			}
		}
		v
	}

	fn oracle(&mut self, ctx: &str) {
		let (txs, stem) = self.entries();
		let head = self.node.head().unwrap();
		let hh = self.node.head_header().unwrap();
		let here = format!(
			"hist={} after [{}] (head height {} {}, txpool {} stempool {})",
			self.name,
			ctx,
			head.height,
			hex(&hh.hash().as_bytes()[..4]),
			txs.len(),
			stem.len()
		);
		// every entry - txpool, stempool, reorg cache - pays the minimum fee for its weight, is within
		// the weight limit and passes standalone validation
		let cache: Vec<Transaction> = self.pool.read().reorg_cache.read().iter().map(|e| e.tx.clone()).collect();
		for (place, list) in [("txpool", &txs), ("stempool", &stem), ("reorg-cache", &cache)] {
			for t in list.iter() {
				let min = t.weight() * FEE_BASE;
				if t.shifted_fee() < min {
					let sig = self.sig(t);
					self.raw(&format!(
						"#ORACLE-FAIL C14 node-pool-entry-pays-less-than-minimum-fee {}: {} entry {} pays fee {} (shifted {}) for weight {}, minimum {}",
						here, place, sig, t.fee(), t.shifted_fee(), t.weight(), min
					));
				}
				if t.weight() > global::max_tx_weight() {
					let sig = self.sig(t);
					self.raw(&format!("#ORACLE-FAIL C14 node-pool-entry-over-weight-limit {}: {} entry {} weight {}", here, place, sig, t.weight()));
				}
			}
		}
		let d = self.dangling(&txs);
		if !d.is_empty() {
			self.raw(&format!(
				"#ORACLE-FAIL C14 node-pool-entry-input-spent-or-missing {}: {:?}; txpool = {:?}",
				here,
				d,
				txs.iter().map(|t| self.sig(t)).collect::<Vec<_>>()
			));
		}
		if let Err(e) = self.validate_set(&txs) {
			self.raw(&format!(
				"#ORACLE-FAIL C14 node-pool-not-jointly-valid {}: aggregate(txpool) does not validate on the head ({}); txpool = {:?}",
				here,
				e,
				txs.iter().map(|t| self.sig(t)).collect::<Vec<_>>()
			));
		}
		if !stem.is_empty() {
			let mut both = stem.clone();
			both.extend(txs.clone());
			let d = self.dangling(&both);
			let v = self.validate_set(&both);
			if !d.is_empty() || v.is_err() {
				self.raw(&format!(
					"#ORACLE-FAIL C14 node-stempool-not-jointly-valid {}: stempool + txpool: {:?} {:?}; stempool = {:?}; txpool = {:?}",
					here,
					v.err(),
					d,
					stem.iter().map(|t| self.sig(t)).collect::<Vec<_>>(),
					txs.iter().map(|t| self.sig(t)).collect::<Vec<_>>()
				));
			}
		}
		// the mineable set as a block on the head
		let mine = self.pool.read().prepare_mineable_transactions();
		match mine {
			Err(e) => self.raw(&format!("#ORACLE-FAIL C14 node-mineable-set-rejected {}: prepare_mineable_transactions failed: {:?}", here, e)),
			Ok(set) => {
				let key = format!("{}|{:?}", self.head, set.iter().map(|t| self.sig(t)).collect::<Vec<_>>());
				if key != self.last_probe && !set.is_empty() {
					let parent = self.head;
					let verdict = match self.kit.assemble(parent, 1, &set, 0) {
						Err(e) => Err(format!("assemble:{}", e)),
						Ok(b) => match self.kit.builder().process_block(b.clone(), Options::SKIP_POW) {
							Ok(_) => {
								let st = self.state_after(parent, &b);
								let id = self.kit.record(b, parent, vec!["probe".into()], true);
								self.states.insert(id, st);
								Ok(())
							}
							Err(e) => Err(format!("process_block:{}", error_class(&e))),
						},
					};
					self.stat("mine-oracle:blocks-built");
					match verdict {
						Ok(()) => self.last_probe = key,
						Err(e) if self.known_lower && e.contains("LockHeight") => self.raw(&format!(
							"#KNOWN-PROBE C14 reorg-to-lower-height-keeps-immature-tx: {}: the block built on the head from the mineable set {:?} is rejected: {}",
							here,
							set.iter().map(|t| self.sig(t)).collect::<Vec<_>>(),
							e
						)),
						Err(e) => self.raw(&format!(
							"#ORACLE-FAIL C14 node-mineable-set-rejected {}: the block built on the head from the mineable set {:?} is rejected: {}",
							here,
							set.iter().map(|t| self.sig(t)).collect::<Vec<_>>(),
							e
						)),
					}
				}
			}
		}
		let m = self.stats.entry("max-txpool".into()).or_insert(0);
		*m = (*m).max(txs.len() as u64);
		let m = self.stats.entry("max-stempool".into()).or_insert(0);
		*m = (*m).max(stem.len() as u64);
	}

	// ------------------------------------------------------------------------------------------
	// operations

	fn submit(&mut self, tx: Transaction, src: TxSource, stem: bool, stem_ok: bool, kind: &str) -> bool {
		self.stem_ok.store(stem_ok, Ordering::SeqCst);
		let header = self.node.head_header().unwrap();
		let pool = self.pool.clone();
		let early = self.too_early(&tx);
		let r = catch(std::panic::AssertUnwindSafe(|| pool.write().add_to_pool(src, tx.clone(), stem, &header)));
		if let (Some(why), Ok(Ok(()))) = (&early, &r) {
			let sig = self.sig(&tx);
			self.raw(&format!(
				"#ORACLE-FAIL C14 node-transaction-admitted-before-its-height hist={} submit {} {} stem={} through the real PoolToChainAdapter: {}",
				self.name, kind, sig, stem, why
			));
		}
		let res = match &r {
			Ok(Ok(())) => "ok".to_string(),
			Ok(Err(e)) => format!("err:{:?}", e).chars().take_while(|c| c.is_alphanumeric() || *c == ':').collect(),
			Err(p) => format!("panic:{}", p),
		};
		self.stat(&format!("submit:{}:{}:{}", kind, if stem { "stem" } else { "fluff" }, res));
		if res.starts_with("panic") {
			let sig = self.sig(&tx);
			self.raw(&format!("#ORACLE-FAIL C14 node-pool-panicked hist={} submit {} => {}", self.name, sig, res));
		}
		let ctx = format!("submit {} {} stem={}", kind, self.sig(&tx), stem);
		self.oracle(&ctx);
		res == "ok"
	}

	fn state_after(&self, parent: usize, b: &Block) -> BTreeMap<usize, (u64, bool)> {
		let mut s = self.states[&parent].clone();
		let ins: Vec<CommitWrapper> = b.inputs().into();
		for i in ins {
			if let Some(id) = self.kit.by_commit.get(&i.commitment()) {
				s.remove(id);
			}
		}
		for o in b.outputs() {
			if let Some(id) = self.kit.by_commit.get(&o.commitment()) {
				s.insert(*id, (b.header.height, o.is_coinbase()));
			}
		}
		s
	}

	/// build a block on `parent` on the builder chain; None if it does not apply there
	fn build_block(&mut self, parent: usize, diff: u64, txs: &[Transaction]) -> Option<usize> {
		let b = self.kit.assemble(parent, diff, txs, 0).ok()?;
		match self.kit.builder().process_block(b.clone(), Options::SKIP_POW) {
			Ok(_) => {
				let st = self.state_after(parent, &b);
				let id = self.kit.record(b, parent, vec![], true);
				self.states.insert(id, st);
				Some(id)
			}
			Err(e) => {
				self.stat(&format!("generator:builder-rejected:{}", error_class(&e)));
				None
			}
		}
	}

	/// hand the block to the node's chain with the given options: the pool is told (or not) by
	/// the real adapter only
	fn deliver(&mut self, bid: usize, opts: Options, what: &str) -> String {
		let b = self.kit.blks[bid].block.clone();
		*self.last_status.lock().unwrap() = None;
		let node = self.node.clone();
		let r = catch(std::panic::AssertUnwindSafe(|| node.process_block(b.clone(), opts | Options::SKIP_POW)));
		let status = self.last_status.lock().unwrap().take();
		let oname = if opts.contains(Options::SYNC) {
			"SYNC"
		} else if opts.contains(Options::MINE) {
			"MINE"
		} else {
			"NONE"
		};
		let res = match (&r, status) {
			(Ok(Ok(_)), Some(s)) => s.to_string(),
			(Ok(Ok(_)), None) => "accepted-without-event".to_string(),
			(Ok(Err(e)), _) => format!("rejected:{}", error_class(e)),
			(Err(p), _) => format!("panic:{}", p),
		};
		self.stat(&format!("deliver:{}:{}:{}", what, oname, res));
		self.stat(&format!("block:{}:{}", oname, res));
		if res.starts_with("panic") {
			self.raw(&format!("#ORACLE-FAIL C14 node-block-acceptance-panicked hist={} block b{} ({}) opts={} => {}", self.name, bid, what, oname, res));
		}
		let hh = self.node.head_header().unwrap();
		if let Some(id) = self.kit.by_hash.get(&hh.hash()) {
			self.head = *id;
		}
		let (ins, kers) = {
			let v: Vec<CommitWrapper> = b.inputs().into();
			(v.iter().map(|i| self.oid(&i.commitment())).collect::<Vec<_>>(), b.kernels().len())
		};
		let ctx = format!(
			"process_block b{} height {} ({}; spends {:?}, {} kernels) opts={} => {}",
			bid, b.header.height, what, ins, kers, oname, res
		);
		self.oracle(&ctx);
		res
	}
}

fn pick_opts(rng: &mut Rng) -> Options {
	match rng.below(3) {
		0 => Options::NONE,
		1 => Options::SYNC,
		_ => Options::MINE,
	}
}

fn pick_src(rng: &mut Rng) -> TxSource {
	match rng.below(4) {
		0 => TxSource::PushApi,
		1 => TxSource::Broadcast,
		2 => TxSource::Fluff,
		_ => TxSource::EmbargoExpired,
	}
}

fn fee_for(rng: &mut Rng, nin: usize, nout: usize) -> u64 {
	let w = nin as u64 + 21 * nout as u64 + 3;
	w * FEE_BASE * rng.range(1, 4) + rng.below(w)
}

/// a few submissions: spends of unspent outputs and children of pooled outputs, stem and fluff
fn fill_pool(n: &mut Node, rng: &mut Rng, count: usize) {
	for _ in 0..count {
		let free = n.free_utxo();
		let (txs, stem) = n.entries();
		let spent = n.pool_spent();
		let stem_path = rng.chance(2, 5);
		// outputs created in the txpool (and, for a stem submission, in the stempool) and not spent
		let mut pool_outs: Vec<usize> = txs.iter().flat_map(|t| n.tx_outs(t)).filter(|o| !spent.contains(o)).collect();
		if stem_path {
			pool_outs.extend(stem.iter().flat_map(|t| n.tx_outs(t)).filter(|o| !spent.contains(o)));
		}
		// now and then a transaction that is too early for the next block (through the real
		// PoolToChainAdapter::verify_coinbase_maturity / verify_tx_lock_height): must never get in
		if rng.chance(1, 6) {
			let nh = n.node.head().unwrap().height + 1;
			let young = n.young_coinbases();
			let tx = if !young.is_empty() && rng.chance(1, 2) {
				let o = *rng.pick(&young);
				n.spend(&[o], 1, fee_for(rng, 1, 1)).map(|t| (t, "immature-coinbase"))
			} else if !free.is_empty() {
				let o = *rng.pick(&free);
				let fee = fee_for(rng, 1, 1);
				let lock = nh + rng.below(3);
				let f = KernelFeatures::HeightLocked { fee: FeeFields::new(0, fee).unwrap(), lock_height: lock };
				n.spend_f(&[o], 1, fee, Some(f)).map(|t| (t, if lock > nh { "locked-beyond-next-block" } else { "locked-at-next-block" }))
			} else {
				None
			};
			if let Some((tx, label)) = tx {
				let src = pick_src(rng);
				n.submit(tx, src, stem_path, true, label);
			}
			continue;
		}
		let child = !pool_outs.is_empty() && rng.chance(1, 3);
		let (ins, kind) = if child {
			let mut v = vec![*rng.pick(&pool_outs)];
			if !free.is_empty() && rng.chance(1, 4) {
				v.push(*rng.pick(&free));
			}
			(v, "child")
		} else if !free.is_empty() {
			let mut v = vec![*rng.pick(&free)];
			if free.len() >= 2 && rng.chance(1, 4) {
				let o = *rng.pick(&free);
				if o != v[0] {
					v.push(o);
				}
			}
			(v, "spend")
		} else {
			continue;
		};
		let nout = rng.range(1, 2) as usize;
		// now and then below the minimum fee for the weight: must never get in
		let low = rng.chance(1, 8);
		let fee = if low {
			((ins.len() as u64 + 21 * nout as u64 + 3) * FEE_BASE).saturating_sub(1 + rng.below(5))
		} else {
			fee_for(rng, ins.len(), nout)
		};
		if let Some(tx) = n.spend(&ins, nout, fee) {
			let src = pick_src(rng);
			let relay_ok = !rng.chance(1, 6);
			let label = if low { format!("low-fee-{}", kind) } else { kind.to_string() };
			n.submit(tx, src, stem_path, relay_ok, &label);
		}
	}
}

/// the content of a block on top of `parent` relative to the pool: (txs, label)
fn block_content<P: PoolAdapter + 'static>(n: &mut Node<P>, rng: &mut Rng, parent: usize) -> (Vec<Transaction>, &'static str) {
	let (txs, stem) = n.entries();
	let st = n.states[&parent].clone();
	let h = n.kit.blks[parent].height + 1;
	let applies = |n: &Node<P>, t: &Transaction, extra: &BTreeSet<usize>| n.tx_ins(t).iter().all(|i| st.contains_key(i) || extra.contains(i));
	match rng.below(10) {
		0..=3 => {
			// confirm a subset of the pool (txpool and stempool), parents before children
			let mut chosen = vec![];
			let mut created = BTreeSet::new();
			for t in txs.iter().chain(stem.iter()) {
				if rng.chance(3, 5) && applies(n, t, &created) {
					created.extend(n.tx_outs(t));
					chosen.push(t.clone());
				}
			}
			(chosen, "confirms-pool-txs")
		}
		4..=6 => {
			// double-spend an input that a pooled transaction takes from the chain, maybe next to
			// some pool transactions
			let cands: Vec<usize> = n
				.pool_spent()
				.into_iter()
				.filter(|o| match st.get(o) {
					Some((c, cb)) => !*cb || h >= *c + MATURITY,
					None => false,
				})
				.collect();
			if cands.is_empty() {
				return (vec![], "unrelated-empty");
			}
			let o = *rng.pick(&cands);
			let mut chosen = vec![];
			if let Some(x) = n.spend(&[o], 1, 11) {
				let mut created = BTreeSet::new();
				for t in txs.iter().chain(stem.iter()) {
					if rng.chance(1, 3) && !n.tx_ins(t).contains(&o) && applies(n, t, &created) {
						created.extend(n.tx_outs(t));
						chosen.push(t.clone());
					}
				}
				chosen.push(x);
			}
			(chosen, "conflicts-with-pool-txs")
		}
		7..=8 => {
			// unrelated: an independent spend of an output the pool does not touch
			let spent = n.pool_spent();
			let cands: Vec<usize> = st
				.iter()
				.filter(|(o, (c, cb))| !spent.contains(o) && (!*cb || h >= *c + MATURITY))
				.map(|(o, _)| *o)
				.collect();
			if cands.is_empty() {
				return (vec![], "unrelated-empty");
			}
			let o = *rng.pick(&cands);
			match n.spend(&[o], 2, 13) {
				Some(x) => (vec![x], "unrelated-spend"),
				None => (vec![], "unrelated-empty"),
			}
		}
		_ => (vec![], "unrelated-empty"),
	}
}

fn build_with_fallback<P: PoolAdapter + 'static>(n: &mut Node<P>, parent: usize, diff: u64, mut txs: Vec<Transaction>) -> Option<usize> {
	let mut id = n.build_block(parent, diff, &txs);
	while id.is_none() && !txs.is_empty() {
		txs.pop();
		id = n.build_block(parent, diff, &txs);
	}
	id
}

fn run_history(work: &str, hist: usize, seed: u64, rounds: usize) -> (String, BTreeMap<String, u64>) {
	let mut rng = Rng::new(seed.wrapping_mul(1_000_003).wrapping_add(50_021 * (hist as u64 + 1)));
	let mut n = Node::new(work, &format!("n{}", hist));
	// warm up: every Options value from the start
	for k in 0..8 {
		let parent = n.head;
		let mut txs = vec![];
		if k >= 4 {
			let free = n.free_utxo();
			if let Some(o) = free.first().cloned() {
				if let Some(t) = n.spend(&[o], 3, 5) {
					txs.push(t);
				}
			}
		}
		if let Some(id) = build_with_fallback(&mut n, parent, 1, txs) {
			let opts = pick_opts(&mut rng);
			n.deliver(id, opts, "warm-up");
		}
	}
	for _ in 0..rounds {
		let count = rng.range(2, 4) as usize;
		fill_pool(&mut n, &mut rng, count);
		if rng.chance(7, 10) {
			// the next block
			let parent = n.head;
			let (txs, what) = block_content(&mut n, &mut rng, parent);
			if let Some(id) = build_with_fallback(&mut n, parent, rng.range(1, 3), txs) {
				let opts = pick_opts(&mut rng);
				n.deliver(id, opts, what);
			}
		} else {
			// a side branch from an ancestor: blocks that stay behind (Fork), then one that overtakes
			let depth = rng.range(1, 2) as usize;
			let mut anc = n.head;
			let mut old = 0;
			for _ in 0..depth {
				if let Some(p) = n.kit.blks[anc].parent {
					anc = p;
					old += 1;
				}
			}
			if old == 0 {
				continue;
			}
			let need = n.kit.blks[n.head].work - n.kit.blks[anc].work;
			let mut tip = anc;
			let mut ids = vec![];
			// `old` blocks of difficulty 1 stay behind or tie; the last one carries what is missing
			let nblocks = old + rng.below(2) as usize;
			for k in 0..nblocks.max(1) {
				let last = k + 1 == nblocks.max(1);
				let done = n.kit.blks[tip].work - n.kit.blks[anc].work;
				let diff = if last { need.saturating_sub(done) + 1 } else { 1 };
				let (txs, what) = block_content(&mut n, &mut rng, tip);
				match build_with_fallback(&mut n, tip, diff.max(1), txs) {
					Some(id) => {
						ids.push((id, what));
						tip = id;
					}
					None => break,
				}
			}
			n.stat("op:side-branch");
			for (id, what) in ids {
				let opts = pick_opts(&mut rng);
				n.deliver(id, opts, &format!("branch:{}", what));
				// submissions between the blocks of the branch
				if rng.chance(1, 2) {
					fill_pool(&mut n, &mut rng, 1);
				}
			}
		}
	}
	// drain: blocks from the mineable set until the txpool is empty
	for _ in 0..4 {
		let set = n.pool.read().prepare_mineable_transactions().unwrap_or_default();
		if set.is_empty() {
			break;
		}
		let parent = n.head;
		if let Some(id) = build_with_fallback(&mut n, parent, 1, set) {
			let opts = pick_opts(&mut rng);
			n.deliver(id, opts, "mineable-set");
		}
	}
	let Node { out, stats, .. } = n;
	(out, stats)
}

// ------------------------------------------------------------------------------------------
// run `monitor`: the node-side callers of the pool with the real net-side adapters, described to
// the Lean model in the line protocol of the `pool` domain (Model/PoolNode.lean, Drv/PoolD.lean)
//
// * `NetToChainAdapter::transaction_received` (real; sync state NoSync / syncing),
// * `PoolToNetAdapter::stem_tx_accepted` + `DandelionEpoch` (real; a `Peers` object without peers,
//   so a stem epoch finds no relay and the pool falls back to fluff; a fluff epoch keeps the
//   transaction in the stempool for the monitor),
// * the Dandelion monitor (`servers/src/grin/dandelion_monitor.rs`): the whole stempool
//   re-validated on top of the txpool (`validate_raw_txs` with an extra transaction), aggregated,
//   submitted as ONE fluff transaction; embargo expiry one by one,
// * the miner's block builder (`servers/src/mining/mine_block.rs`).

/// the epoch as the monitor sees it: `is_stem` / `next_epoch` are the real adapter's; `is_expired`
/// can be forced (the real one is a clock comparison: start of the epoch + epoch_secs < now)
struct MonAdapter {
	inner: Arc<PoolToNetAdapter>,
	force_expired: AtomicBool,
	/// passes of the monitor loop started (it asks `is_stem` first)
	passes: std::sync::atomic::AtomicUsize,
}
impl DandelionAdapter for MonAdapter {
	fn is_stem(&self) -> bool {
		self.passes.fetch_add(1, Ordering::SeqCst);
		self.inner.is_stem()
	}
	fn is_expired(&self) -> bool {
		self.force_expired.load(Ordering::SeqCst) || self.inner.is_expired()
	}
	fn next_epoch(&self) {
		self.inner.next_epoch()
	}
}

fn perr(e: &PoolError) -> String {
	let alnum = |s: String| -> String { s.chars().take_while(|c| c.is_alphanumeric()).collect() };
	match e {
		PoolError::InvalidTx(t) => format!("InvalidTx:{}", alnum(format!("{:?}", t))),
		PoolError::LowFeeTransaction(_) => "LowFee".into(),
		PoolError::Other(_) => "Other".into(),
		e => alnum(format!("{:?}", e)),
	}
}

fn src_letter(s: TxSource) -> &'static str {
	match s {
		TxSource::PushApi => "P",
		TxSource::Broadcast => "B",
		TxSource::Fluff => "F",
		TxSource::EmbargoExpired => "E",
		TxSource::Deaggregate => "D",
	}
}

fn idlist(v: &[usize], p: &str, sep: &str) -> String {
	let mut v = v.to_vec();
	v.sort();
	v.iter().map(|i| format!("{}{}", p, i)).collect::<Vec<_>>().join(sep)
}

impl<P: PoolAdapter + 'static> Node<P> {
	fn kid(&mut self, k: &grin_core::core::TxKernel) -> usize {
		let h = k.hash();
		let n = self.kers.len();
		*self.kers.entry(h).or_insert(n)
	}
	fn psig(&mut self, tx: &Transaction) -> String {
		let ks: Vec<usize> = tx.kernels().iter().map(|k| self.kid(k)).collect();
		format!("{}/{}/{}", idlist(&ks, "k", "."), idlist(&self.tx_ins(tx), "o", "."), idlist(&self.tx_outs(tx), "o", "."))
	}
	fn p_describe_outs(&mut self) {
		let lines: Vec<String> = self.kit.outs[self.outs_described..]
			.iter()
			.map(|o| format!("pool out o{} cb={} v={}", o.id, if o.coinbase { 1 } else { 0 }, o.value))
			.collect();
		for l in lines {
			self.raw(&l);
		}
		self.outs_described = self.kit.outs.len();
	}
	/// describe a transaction to the model; returns its id
	fn p_tx(&mut self, tx: &Transaction) -> usize {
		self.p_describe_outs();
		let id = self.reg.len();
		let mut kd: Vec<(usize, String)> = vec![];
		for k in tx.kernels() {
			let kid = self.kid(k);
			let d = match k.features {
				KernelFeatures::Coinbase => format!("k{}:cb", kid),
				KernelFeatures::Plain { fee } => format!("k{}:p:{}:{}", kid, fee.fee(), fee.fee_shift()),
				KernelFeatures::HeightLocked { fee, lock_height } => format!("k{}:hl:{}:{}:{}", kid, fee.fee(), fee.fee_shift(), lock_height),
				KernelFeatures::NoRecentDuplicate { fee, relative_height } => format!(
					"k{}:nrd:{}:{}:{}:{}",
					kid,
					fee.fee(),
					fee.fee_shift(),
					u64::from(relative_height),
					hex(&k.excess.0[..8])
				),
			};
			kd.push((kid, d));
		}
		kd.sort();
		let l = format!(
			"pool tx t{} ins=[{}] outs=[{}] kers=[{}] tags=[]",
			id,
			idlist(&self.tx_ins(tx), "o", ","),
			idlist(&self.tx_outs(tx), "o", ","),
			kd.iter().map(|x| x.1.clone()).collect::<Vec<_>>().join(",")
		);
		self.raw(&l);
		self.reg.push(tx.clone());
		id
	}
	/// id of a registered transaction with these kernels (pool entries are stored in converted form)
	fn reg_id(&self, tx: &Transaction) -> Option<usize> {
		self.reg.iter().position(|r| r.kernels() == tx.kernels())
	}
	fn p_cfg(&mut self) {
		self.raw("pool reset");
		let l = format!(
			"pool cfg max_pool={} max_stem={} mine_w=250 fee_base={} max_tx_w={} max_block_w={} maturity={}",
			self.max_pool,
			self.max_stem,
			FEE_BASE,
			global::max_tx_weight(),
			global::max_block_weight(),
			MATURITY
		);
		self.raw(&l);
	}
	fn p_head(&mut self) {
		self.p_describe_outs();
		let hh = self.node.head_header().unwrap();
		let id = *self.kit.by_hash.get(&hh.hash()).expect("node head known to the kit");
		self.head = id;
		let mut u = vec![];
		for o in &self.kit.outs {
			if let Ok(Some((oi, pos))) = self.node.get_unspent(o.commit) {
				u.push(format!("o{}:{}:{}", o.id, pos.height, if oi.features.is_coinbase() { 1 } else { 0 }));
			}
		}
		let l = format!("pool head b{} h={} ver={} utxo=[{}] nrd=[]", id, hh.height, hh.version.0, u.join(","));
		self.raw(&l);
	}
	fn orphan_list(&mut self, txs: &[Transaction]) -> String {
		let created: BTreeSet<usize> = txs.iter().flat_map(|t| self.tx_outs(t)).collect();
		let mut items = vec![];
		for t in txs {
			let mut ins = self.tx_ins(t);
			ins.sort();
			for i in ins {
				if !created.contains(&i) && !self.unspent(i) {
					let sig = self.psig(t);
					items.push(format!("{}@o{}", sig, i));
				}
			}
		}
		format!("[{}]", items.join(","))
	}
	/// the state of the three pools + the property's oracle, in the format of `pool obs`
	fn p_obs(&mut self, ctx: &str) {
		self.oracle(ctx);
		let (te, se, ce): (Vec<PoolEntry>, Vec<PoolEntry>, Vec<PoolEntry>) = {
			let p = self.pool.read();
			let c = p.reorg_cache.read().iter().cloned().collect();
			(p.txpool.entries.clone(), p.stempool.entries.clone(), c)
		};
		let mut show = |n: &mut Node<P>, v: &Vec<PoolEntry>| -> String {
			v.iter().map(|e| format!("{}:{}", n.psig(&e.tx), src_letter(e.src))).collect::<Vec<_>>().join(",")
		};
		let t = show(self, &te);
		let s = show(self, &se);
		let c = show(self, &ce);
		let txs: Vec<Transaction> = te.iter().map(|e| e.tx.clone()).collect();
		let mut both: Vec<Transaction> = se.iter().map(|e| e.tx.clone()).collect();
		both.extend(txs.clone());
		let av = self.orphan_list(&txs);
		let avs = self.orphan_list(&both);
		let jv = if self.validate_set(&txs).is_ok() { "ok" } else { "bad" };
		let jvs = if self.validate_set(&both).is_ok() { "ok" } else { "bad" };
		let mineable = self.pool.read().prepare_mineable_transactions();
		let mine = match mineable {
			Err(e) => format!("err:{}", perr(&e)),
			Ok(set) => {
				let sigs: Vec<String> = set.iter().map(|t| self.psig(t)).collect();
				let key = format!("{}|{}", self.head, sigs.join(","));
				let verdict = if key == self.verdict_key {
					self.verdict
				} else {
					let v = match self.kit.assemble(self.head, 1, &set, 0) {
						Err(_) => false,
						// a scratch chain decides
						Ok(b) => self.kit.builder().process_block(b, Options::SKIP_POW).is_ok(),
					};
					self.verdict_key = key;
					self.verdict = v;
					v
				};
				format!("[{}]:{}", sigs.join(","), if verdict { "ok" } else { "rejected" })
			}
		};
		let l = format!("pool obs => tx=[{}] stem=[{}] cache=[{}] jv={} jvs={} av={} avs={} mine={}", t, s, c, jv, jvs, av, avs, mine);
		self.raw(&l);
	}
	/// deliver a block through the node's chain (the real adapter reconciles the pool) and describe it
	fn p_deliver(&mut self, bid: usize, opts: Options, what: &str) -> String {
		self.p_deliver_t(bid, opts, what, |_| Some(None))
	}
	/// `trunc`: given the clock reading after the delivery, the line describing the truncation of the
	/// reorg cache inside `block_accepted` (run `clock`)
	/// (`None`: the reading slipped - nothing more is printed for this block)
	fn p_deliver_t(&mut self, bid: usize, opts: Options, what: &str, trunc: impl FnOnce(i64) -> Option<Option<String>>) -> String {
		let b = self.kit.blks[bid].block.clone();
		let res = self.deliver(bid, opts, what);
		let after = chrono::Utc::now().timestamp_millis();
		if res == "next" || res == "reorg" {
			let tline = match trunc(after) {
				Some(t) => t,
				None => return res,
			};
			let ins: Vec<CommitWrapper> = b.inputs().into();
			let ins: Vec<usize> = ins.iter().map(|i| self.oid(&i.commitment())).collect();
			let ks: Vec<usize> = b.kernels().iter().map(|k| self.kid(k)).collect();
			self.p_head();
			// (the adapter drops the result of reconcile_block: `let _ = ...`)
			let l = format!("pool reconcile_block b{} ins=[{}] kers=[{}] => ok", bid, idlist(&ins, "o", ","), idlist(&ks, "k", ","));
			self.raw(&l);
			if let Some(t) = tline {
				self.raw(&t);
			}
			if res == "reorg" {
				let l = format!("pool reconcile_reorg_cache b{} => ok", bid);
				self.raw(&l);
			}
			self.p_obs(&format!("block b{} {}", bid, res));
		}
		res
	}
}

struct Mon {
	n: Node<PoolToNetAdapter>,
	net: Arc<PoolToNetAdapter>,
	mon: Arc<MonAdapter>,
	recv: NetToChainAdapter<PoolToChainAdapter, PoolToNetAdapter>,
	sync: Arc<SyncState>,
	dcfg: DandelionConfig,
}

/// far beyond anything the run itself can age: the timers only fire for backdated entries
const AGG_SECS: u16 = 3000;
const EMBARGO_SECS: u16 = 6000;

impl Mon {
	fn new(work: &str, name: &str, stem_probability: u8, always_stem_our_txs: bool, max_pool: usize, max_stem: usize) -> Mon {
		let dcfg = DandelionConfig {
			epoch_secs: 60_000,
			embargo_secs: EMBARGO_SECS,
			aggregation_secs: AGG_SECS,
			stem_probability,
			always_stem_our_txs,
		};
		Mon::with_cfg(work, name, dcfg, max_pool, max_stem)
	}

	fn with_cfg(work: &str, name: &str, dcfg: DandelionConfig, max_pool: usize, max_stem: usize) -> Mon {
		let mut net_slot: Option<Arc<PoolToNetAdapter>> = None;
		let n: Node<PoolToNetAdapter> = Node::with_adapter(work, name, max_pool, max_stem, |peers| {
			let a = Arc::new(PoolToNetAdapter::new(dcfg.clone()));
			a.init(peers.clone());
			net_slot = Some(a.clone());
			a
		});
		let net = net_slot.unwrap();
		let sync = Arc::new(SyncState::new());
		sync.update(SyncStatus::NoSync);
		let recv = NetToChainAdapter::new(sync.clone(), n.node.clone(), n.pool.clone(), grin_servers::ServerConfig::default(), vec![]);
		recv.init(n.peers.clone());
		let mon = Arc::new(MonAdapter { inner: net.clone(), force_expired: AtomicBool::new(false), passes: std::sync::atomic::AtomicUsize::new(0) });
		Mon { n, net, mon, recv, sync, dcfg }
	}

	fn epoch_args(&self) -> String {
		format!(
			"stemepoch={} expired={} always={} relay=none",
			if self.net.is_stem() { 1 } else { 0 },
			if self.mon.is_expired() { 1 } else { 0 },
			if self.dcfg.always_stem_our_txs { 1 } else { 0 }
		)
	}

	/// a transaction from a peer: the real `NetToChainAdapter::transaction_received`
	fn receive(&mut self, tx: Transaction, stem: bool, syncing: bool, kind: &str) -> bool {
		let t = self.n.p_tx(&tx);
		if syncing {
			self.sync.update(SyncStatus::AwaitingPeers(true));
		}
		let ep = self.epoch_args();
		let early = self.n.too_early(&tx);
		let r = catch(std::panic::AssertUnwindSafe(|| self.recv.transaction_received(tx.clone(), stem)));
		if let (Some(why), Ok(Ok(true)), false) = (&early, &r, syncing) {
			let sig = self.n.sig(&tx);
			self.n.raw(&format!(
				"#ORACLE-FAIL C14 node-transaction-admitted-before-its-height hist={} transaction_received {} {} stem={}: {}",
				self.n.name, kind, sig, stem, why
			));
		}
		self.sync.update(SyncStatus::NoSync);
		let res = match &r {
			Ok(Ok(b)) => format!("{}", b),
			Ok(Err(e)) => format!("err:{}", error_class(e)),
			Err(p) => format!("panic:{}", p.replace(' ', "_")),
		};
		let lhs = format!("pool recv t{} syncing={} stem={} {} form=v3", t, if syncing { 1 } else { 0 }, if stem { 1 } else { 0 }, ep);
		self.n.raw(&format!("{} => {}", lhs, res));
		self.n.stat(&format!("recv:{}:{}:{}:{}", kind, if stem { "stem" } else { "fluff" }, if syncing { "syncing" } else { "nosync" }, res));
		if res.starts_with("panic") {
			self.n.raw(&format!("#ORACLE-FAIL C14 node-transaction-received-panicked hist={} {} => {}", self.n.name, lhs, res));
		}
		self.n.p_obs(&lhs);
		res == "true" && !syncing
	}

	/// a transaction pushed through the API (`src`), straight into `add_to_pool`
	fn push(&mut self, tx: Transaction, src: TxSource, stem: bool, kind: &str) -> bool {
		let t = self.n.p_tx(&tx);
		let ep = self.epoch_args();
		let header = self.n.node.head_header().unwrap();
		let pool = self.n.pool.clone();
		let early = self.n.too_early(&tx);
		let r = catch(std::panic::AssertUnwindSafe(|| pool.write().add_to_pool(src, tx.clone(), stem, &header)));
		if let (Some(why), Ok(Ok(()))) = (&early, &r) {
			let sig = self.n.sig(&tx);
			self.n.raw(&format!(
				"#ORACLE-FAIL C14 node-transaction-admitted-before-its-height hist={} push {} {} stem={}: {}",
				self.n.name, kind, sig, stem, why
			));
		}
		let res = match &r {
			Ok(Ok(())) => "ok".to_string(),
			Ok(Err(e)) => format!("err:{}", perr(e)),
			Err(p) => format!("panic:{}", p.replace(' ', "_")),
		};
		let lhs = format!("pool push t{} src={} stem={} {} form=v3", t, src_letter(src), if stem { 1 } else { 0 }, ep);
		self.n.raw(&format!("{} => {}", lhs, res));
		self.n.stat(&format!("push:{}:{}:{}:{}", kind, src_letter(src), if stem { "stem" } else { "fluff" }, res));
		if res.starts_with("panic") {
			self.n.raw(&format!("#ORACLE-FAIL C14 node-pool-panicked hist={} {} => {}", self.n.name, lhs, res));
		}
		self.n.p_obs(&lhs);
		res == "ok"
	}

	/// the real `PoolToNetAdapter::stem_tx_accepted` asked directly
	fn probe_relay(&mut self, src: TxSource) {
		let ep = self.epoch_args();
		let e = match self.n.pool.read().stempool.entries.first().cloned() {
			Some(e) => PoolEntry { src, ..e },
			None => return,
		};
		let r = self.net.stem_tx_accepted(&e).is_ok();
		self.n.raw(&format!("pool stem_accepted src={} {} => {}", src_letter(src), ep, r));
		self.n.stat(&format!("relay:{}:{}:{}", src_letter(src), if self.net.is_stem() { "stem-epoch" } else { "fluff-epoch" }, r));
	}

	/// "time passes": the stem entries at the given positions get older by `secs`
	fn age(&mut self, which: &[usize], secs: i64) {
		let mut p = self.n.pool.write();
		for i in which {
			if let Some(e) = p.stempool.entries.get_mut(*i) {
				e.tx_at = e.tx_at - chrono::Duration::seconds(secs);
			}
		}
	}

	/// stem entries older than `secs` (as `select_txs_cutoff` decides), as registered transaction ids
	fn older_than(&self, secs: i64) -> Vec<usize> {
		let cutoff = chrono::Utc::now().timestamp() - secs;
		let p = self.n.pool.read();
		p.stempool.entries.iter().filter(|e| e.tx_at.timestamp() < cutoff).filter_map(|e| self.n.reg_id(&e.tx)).collect()
	}

	/// One pass of the loop of `monitor_transactions`, phase by phase through the verification hook
	/// (`grin_servers::verif_export`: thin wrappers around the private `process_fluff_phase` /
	/// `process_expired_entries`), so that the outcome of each phase is compared with the model.
	fn monitor_pass(&mut self, force_expired: bool) {
		self.mon.force_expired.store(force_expired, Ordering::SeqCst);
		let adapter: Arc<dyn DandelionAdapter> = self.mon.clone();
		let fluff_epoch = !adapter.is_stem();
		let expired = adapter.is_expired();
		let (stem_before, tx_before) = {
			let p = self.n.pool.read();
			(p.stempool.size(), p.txpool.size())
		};
		let old_agg = self.older_than(AGG_SECS as i64);
		if fluff_epoch {
			let pool = self.n.pool.clone();
			let cfg = self.dcfg.clone();
			let r = catch(std::panic::AssertUnwindSafe(|| verif_process_fluff_phase(&cfg, &pool, &adapter)));
			let res = match &r {
				Ok(Ok(())) => "ok".to_string(),
				Ok(Err(e)) => format!("err:{}", perr(e)),
				Err(p) => format!("panic:{}", p.replace(' ', "_")),
			};
			let lhs = format!("pool fluff_phase expired={} anyold={}", if expired { 1 } else { 0 }, if old_agg.is_empty() { 0 } else { 1 });
			self.n.raw(&format!("{} => {}", lhs, res));
			if res.starts_with("panic") {
				self.n.raw(&format!("#ORACLE-FAIL C14 node-dandelion-monitor-panicked hist={} {} => {}", self.n.name, lhs, res));
			}
			let (stem_after, tx_after) = {
				let p = self.n.pool.read();
				(p.stempool.size(), p.txpool.size())
			};
			self.n.stat(&format!(
				"fluff-phase:{}:stempool={}:agg-old={}:{}:{}",
				if expired { "epoch-expired" } else { "epoch-running" },
				stem_before.min(4),
				old_agg.len().min(3),
				res,
				if tx_after > tx_before { format!("fluffed-{}-stem-entries", (stem_before - stem_after.min(stem_before)).min(4)) } else { "nothing-fluffed".to_string() }
			));
			self.n.p_obs(&lhs);
		}
		// (embargo_secs + a random 0..30 s: entries are either fresh or far older than both)
		let old_emb = self.older_than(EMBARGO_SECS as i64 + 31);
		{
			let pool = self.n.pool.clone();
			let cfg = self.dcfg.clone();
			let (stem0, tx0) = {
				let p = self.n.pool.read();
				(p.stempool.size(), p.txpool.size())
			};
			let r = catch(std::panic::AssertUnwindSafe(|| verif_process_expired_entries(&cfg, &pool)));
			let res = match &r {
				Ok(Ok(())) => "ok".to_string(),
				Ok(Err(e)) => format!("err:{}", perr(e)),
				Err(p) => format!("panic:{}", p.replace(' ', "_")),
			};
			let lhs = format!("pool expire old=[{}]", idlist(&old_emb, "t", ","));
			self.n.raw(&format!("{} => {}", lhs, res));
			if res.starts_with("panic") {
				self.n.raw(&format!("#ORACLE-FAIL C14 node-dandelion-monitor-panicked hist={} {} => {}", self.n.name, lhs, res));
			}
			let tx1 = self.n.pool.read().txpool.size();
			self.n.stat(&format!("embargo:stempool={}:expired-entries={}:moved-to-txpool={}", stem0.min(4), old_emb.len().min(4), tx1.saturating_sub(tx0).min(4)));
			if !old_emb.is_empty() {
				self.n.p_obs(&lhs);
			}
		}
		if adapter.is_expired() {
			adapter.next_epoch();
		}
		self.mon.force_expired.store(false, Ordering::SeqCst);
	}

	/// the real monitor thread for one pass of its loop (it runs at once, then sleeps a second and
	/// sees the stop flag): covers the glue of `monitor_transactions` itself
	fn monitor_thread_pass(&mut self) {
		let ep = self.epoch_args();
		let old_agg = self.older_than(AGG_SECS as i64);
		let old_emb = self.older_than(EMBARGO_SECS as i64 + 31);
		let adapter: Arc<dyn DandelionAdapter> = self.mon.clone();
		let stop = Arc::new(grin_util::StopState::new());
		let before = self.mon.passes.load(Ordering::SeqCst);
		match monitor_transactions(self.dcfg.clone(), self.n.pool.clone(), adapter, stop.clone()) {
			Ok(h) => {
				// the loop runs its first pass at once; once it has started (it asks `is_stem` first)
				// the stop flag is set: the thread finishes the pass, sleeps a second, sees the flag
				let t0 = std::time::Instant::now();
				while self.mon.passes.load(Ordering::SeqCst) == before && t0.elapsed().as_secs() < 60 {
					std::thread::sleep(std::time::Duration::from_millis(20));
				}
				if self.mon.passes.load(Ordering::SeqCst) == before {
					self.n.raw("#ORACLE-FAIL C14 node-dandelion-monitor-thread-never-ran: monitor_transactions did not start a pass within 60 s");
				}
				stop.stop();
				let _ = h.join();
			}
			Err(e) => {
				self.n.raw(&format!("#STAT monitor-thread:not-started:{:?}", e));
				return;
			}
		}
		let lhs = format!("pool monitor {} oldagg=[{}] oldemb=[{}]", ep, idlist(&old_agg, "t", ","), idlist(&old_emb, "t", ","));
		self.n.raw(&format!("{} => ok", lhs));
		self.n.stat("monitor-thread:passes");
		self.n.p_obs(&lhs);
	}

	/// the miner: the real `mine_block::get_block` (through the verification hook) on the node's
	/// chain and pool; a scratch chain decides whether the block is acceptable, then the node gets it
	fn mine_block(&mut self, opts: Options, header_first: bool) -> Option<usize> {
		if header_first {
			// header-first propagation: the node knows the HEADER of a competing next block (built on
			// the scratch chain) but not the block: the miner must still build on the BODY head
			let parent = self.n.head;
			if let Ok(b) = self.n.kit.assemble(parent, 1, &[], 0) {
				if self.n.kit.builder().process_block(b.clone(), Options::SKIP_POW).is_ok() {
					let st = self.n.state_after(parent, &b);
					let id = self.n.kit.record(b.clone(), parent, vec!["header-only".into()], true);
					self.n.states.insert(id, st);
					let r = self.n.node.process_block_header(&b.header, Options::SKIP_POW);
					let hh = self.n.node.header_head().map(|t| t.height).unwrap_or(0);
					let bh = self.n.node.head().map(|t| t.height).unwrap_or(0);
					self.n.stat(&format!("miner:header-first:header-accepted={}:header_head-ahead-by={}", r.is_ok(), hh.saturating_sub(bh)));
					self.n.p_obs("header of a competing next block accepted");
				}
			}
		}
		let set = self.n.pool.read().prepare_mineable_transactions().unwrap_or_default();
		let sigs: Vec<String> = set.iter().map(|t| self.n.psig(t)).collect();
		let (txc, rxc) = std::sync::mpsc::channel();
		let chain = self.n.node.clone();
		let pool = self.n.pool.clone();
		// (get_block retries for ever when the builder fails: never wait for it without a limit)
		std::thread::spawn(move || {
			setup_globals();
			global::set_local_accept_fee_base(FEE_BASE);
			let r = catch(std::panic::AssertUnwindSafe(|| get_block(&chain, &pool, None, None)));
			let _ = txc.send(r);
		});
		let parent = self.n.head;
		let here = format!("hist={} head b{} mineable set [{}]", self.n.name, parent, sigs.join(","));
		let b = match rxc.recv_timeout(std::time::Duration::from_secs(20)) {
			Ok(Ok((b, fees))) => {
				let want: u64 = set.iter().map(|t| t.fee()).sum();
				if fees.fees != want || fees.height != self.n.kit.blks[parent].height + 1 {
					self.n.raw(&format!(
						"#ORACLE-FAIL C14 node-miner-block-fees {}: get_block reports fees {} at height {}, the mineable set pays {} and the next height is {}",
						here, fees.fees, fees.height, want, self.n.kit.blks[parent].height + 1
					));
				}
				b
			}
			Ok(Err(p)) => {
				self.n.raw(&format!("#ORACLE-FAIL C14 node-miner-panicked {}: get_block panicked: {}", here, p));
				self.n.raw("pool build_block => panic");
				return None;
			}
			Err(_) => {
				self.n.raw(&format!(
					"#ORACLE-FAIL C14 node-miner-cannot-build-a-block {}: mine_block::get_block did not return within 20 s (build_block keeps failing and is retried for ever)",
					here
				));
				self.n.raw(&format!("pool build_block => [{}]:rejected", sigs.join(",")));
				return None;
			}
		};
		// what the miner adds: a solution of the proof of work (the block hash is the hash of the
		// proof; `Block::new` of the test code does the same)
		let mut b = b;
		b.header.pow.proof = pow::Proof::random(global::proofsize());
		// the block holds exactly the kernels of the mineable set plus the coinbase kernel
		let mut want_k: Vec<grin_core::core::hash::Hash> = set.iter().flat_map(|t| t.kernels().iter().map(|k| k.hash())).collect();
		want_k.sort();
		let mut got_k: Vec<grin_core::core::hash::Hash> =
			b.kernels().iter().filter(|k| !matches!(k.features, KernelFeatures::Coinbase)).map(|k| k.hash()).collect();
		got_k.sort();
		if want_k != got_k || b.kernels().len() != got_k.len() + 1 {
			self.n.raw(&format!(
				"#ORACLE-FAIL C14 node-miner-block-content {}: the block built by get_block holds {} kernels ({} non-coinbase), the mineable set has {}",
				here,
				b.kernels().len(),
				got_k.len(),
				want_k.len()
			));
		}
		if b.header.prev_hash != self.n.kit.blks[parent].block.hash() {
			self.n.raw(&format!("#ORACLE-FAIL C14 node-miner-block-parent {}: get_block built on {:?}, not on the body head", here, b.header.prev_hash));
		}
		let limit = global::max_block_weight().min(250);
		let verdict = if b.body.weight() > limit {
			Err(format!("weight {} over the limit {}", b.body.weight(), limit))
		} else {
			self.n.kit.builder().process_block(b.clone(), Options::SKIP_POW).map(|_| ()).map_err(|e| format!("process_block:{}", error_class(&e)))
		};
		self.n.stat(&format!("miner:get_block:txs={}:{}", set.len().min(5), if verdict.is_ok() { "accepted" } else { "REJECTED" }));
		match verdict {
			Ok(()) => {
				self.n.raw(&format!("pool build_block => [{}]:ok", sigs.join(",")));
				let st = self.n.state_after(parent, &b);
				let id = self.n.kit.record(b, parent, vec!["mined".into()], true);
				self.n.states.insert(id, st);
				self.n.p_deliver(id, opts, "mined-by-get_block");
				Some(id)
			}
			Err(e) => {
				self.n.raw(&format!("#ORACLE-FAIL C14 node-miner-block-rejected {}: the block built by mine_block::get_block is rejected by a chain: {}", here, e));
				self.n.raw(&format!("pool build_block => [{}]:rejected", sigs.join(",")));
				None
			}
		}
	}
}

/// The reorg cache replays a transaction that conflicts with a stem transaction, with the pool
/// driven by the real `ChainToPoolAndNetAdapter::block_accepted` only (reconcile_block, then on a
/// reorg reconcile_reorg_cache): the txpool (max_pool_size 3) goes over capacity and evicts its
/// cheapest transaction X (X stays in the reorg cache); a block brings it back under capacity; a
/// stem transaction S on the output X spends, an unrelated stem transaction U and a stem child V of
/// a pooled output are accepted; a sibling block with more work arrives (Reorg).  The oracle runs
/// after every step; after the reorg S must be gone, U and V must still be there.
fn run_replay_history(work: &str, variant: usize) -> (String, BTreeMap<String, u64>) {
	let stem_ok = Arc::new(AtomicBool::new(true));
	let so = stem_ok.clone();
	let mut n: Node<PAdapter> = Node::with_adapter(work, &format!("replay{}", variant), 3, 5, move |_| Arc::new(PAdapter { stem_ok: so }));
	n.stem_ok = stem_ok;
	let mut rng = Rng::new(4242 + variant as u64);
	for k in 0..10 {
		let parent = n.head;
		let mut txs = vec![];
		if k >= 4 {
			if let Some(o) = n.free_utxo().first().cloned() {
				if let Some(t) = n.spend(&[o], 3, 5) {
					txs.push(t);
				}
			}
		}
		if let Some(id) = build_with_fallback(&mut n, parent, 1, txs) {
			let opts = pick_opts(&mut rng);
			n.deliver(id, opts, "warm-up");
		}
	}
	let fork_point = n.head;
	let free = n.free_utxo();
	if free.len() < 7 {
		n.raw(&format!("#STAT replay{}:not-enough-outputs={}", variant, free.len()));
		let Node { out, stats, .. } = n;
		return (out, stats);
	}
	let w11 = 25 * FEE_BASE;
	let a = n.spend(&[free[0]], 1, w11 * 6).unwrap();
	let b = n.spend(&[free[1]], 1, w11 * 7).unwrap();
	let c = n.spend(&[free[2]], 1, w11 * 8).unwrap();
	let x = n.spend(&[free[3]], 1, w11).unwrap();
	let d = n.spend(&[free[4]], 1, w11 * 9).unwrap();
	n.submit(a.clone(), TxSource::Broadcast, false, true, "replay:A");
	n.submit(b.clone(), TxSource::Broadcast, false, true, "replay:B");
	n.submit(c, TxSource::Broadcast, false, true, "replay:C");
	if variant == 1 {
		n.submit(d.clone(), TxSource::Broadcast, false, true, "replay:D");
		n.submit(x.clone(), TxSource::Broadcast, false, true, "replay:X-cheapest-arrives-last");
	} else {
		n.submit(x.clone(), TxSource::Broadcast, false, true, "replay:X-cheapest");
		n.submit(d.clone(), TxSource::Broadcast, false, true, "replay:D-evicting");
	}
	let has = |n: &Node<PAdapter>, t: &Transaction, stem: bool| -> bool {
		let p = n.pool.read();
		let pool = if stem { &p.stempool } else { &p.txpool };
		pool.entries.iter().any(|e| e.tx.kernels() == t.kernels())
	};
	let x_evicted = !has(&n, &x, false);
	let x_cached = n.pool.read().reorg_cache.read().iter().any(|e| e.tx.kernels() == x.kernels());
	n.raw(&format!("#STAT replay{}:X-evicted={}:X-in-reorg-cache={}", variant, x_evicted, x_cached));
	if let Some(id) = build_with_fallback(&mut n, fork_point, 1, vec![a, b]) {
		n.deliver(id, Options::NONE, "confirms-A-B");
	}
	let s_tx = n.spend(&[free[3]], 1, w11 * 5).unwrap();
	let u_tx = n.spend(&[free[5]], 1, w11 * 5).unwrap();
	let od = n.tx_outs(&d)[0];
	let v_tx = n.spend(&[od], 1, w11 * 5).unwrap();
	n.submit(s_tx.clone(), TxSource::PushApi, true, true, "replay:S-stem-conflicts-with-X");
	n.submit(u_tx.clone(), TxSource::PushApi, true, true, "replay:U-stem-unrelated");
	n.submit(v_tx.clone(), TxSource::PushApi, true, true, "replay:V-stem-child-of-D");
	let before = (has(&n, &s_tx, true), has(&n, &u_tx, true), has(&n, &v_tx, true));
	// the competing branch
	let branch = if variant == 2 { vec![x.clone()] } else { vec![] };
	let mut res = String::new();
	if let Some(id) = build_with_fallback(&mut n, fork_point, 10, branch) {
		res = n.deliver(id, if variant == 1 { Options::SYNC } else { Options::NONE }, "competing-branch");
	}
	let after = (has(&n, &s_tx, true), has(&n, &u_tx, true), has(&n, &v_tx, true));
	let x_back = has(&n, &x, false);
	n.raw(&format!(
		"#STAT replay{}:competing-block={}:X-back-in-txpool={}:stempool-S-U-V-before={:?}:after={:?}",
		variant, res, x_back, before, after
	));
	if res == "reorg" && before == (true, true, true) {
		if after.0 {
			n.raw(&format!(
				"#ORACLE-FAIL C14 node-stem-transaction-conflicting-with-replayed-transaction-kept hist=replay{}: after the reorg the reorg cache put X ({}) back into the txpool = {}, and the stem transaction S ({}) spending the same output is still in the stempool",
				variant,
				n.sig(&x),
				x_back,
				n.sig(&s_tx)
			));
		}
		if !after.1 || !after.2 {
			n.raw(&format!(
				"#ORACLE-FAIL C14 node-unrelated-stem-transaction-lost-in-reorg hist=replay{}: U ({}) still pooled: {}, V ({}) still pooled: {}",
				variant,
				n.sig(&u_tx),
				after.1,
				n.sig(&v_tx),
				after.2
			));
		}
	}
	for _ in 0..2 {
		let set = n.pool.read().prepare_mineable_transactions().unwrap_or_default();
		let parent = n.head;
		if let Some(id) = build_with_fallback(&mut n, parent, 1, set) {
			n.deliver(id, Options::MINE, "mineable-set");
		}
	}
	let Node { out, stats, .. } = n;
	(out, stats)
}

// ---------------------------------------------------------------------------------------------
// run `clock`: the clock arithmetic around the pool (Model/PoolTime.lean) on the real code.
// The code reads `Utc::now()` itself; the harness sets `tx_at` of pool entries (a public field)
// relative to its own reading, makes the call within the same wall-clock second (Dandelion
// compares whole seconds) and checks afterwards that the second has not changed.  A history whose
// reading slipped is abandoned (`#STAT clock:slipped`), never evaluated.

/// a reading with at least 450 ms left in its second (milliseconds since the epoch)
fn aligned_now() -> i64 {
	loop {
		let now = chrono::Utc::now();
		if now.timestamp_subsec_millis() < 550 {
			return now.timestamp_millis();
		}
		std::thread::sleep(std::time::Duration::from_millis(15));
	}
}

fn same_second(now_ms: i64) -> bool {
	chrono::Utc::now().timestamp() == now_ms.div_euclid(1000)
}

fn at_ms(ms: i64) -> chrono::DateTime<chrono::Utc> {
	use chrono::TimeZone;
	chrono::Utc.timestamp_millis_opt(ms).unwrap()
}

impl Mon {
	/// `ats=[t<id>:<tx_at ms>,..]` of the stem entries
	fn stem_clock(&self) -> String {
		let p = self.n.pool.read();
		let v: Vec<String> = p
			.stempool
			.entries
			.iter()
			.map(|e| format!("t{}:{}", self.n.reg_id(&e.tx).map(|i| i as i64).unwrap_or(-1), e.tx_at.timestamp_millis()))
			.collect();
		format!("ats=[{}]", v.join(","))
	}

	fn set_stem_at(&mut self, idx: usize, ms: i64) {
		if let Some(e) = self.n.pool.write().stempool.entries.get_mut(idx) {
			e.tx_at = at_ms(ms);
		}
	}

	fn slipped(&mut self, what: &str) -> bool {
		self.n.stat(&format!("clock:slipped:{}", what));
		self.n.raw(&format!("# clock history {} abandoned: the wall clock moved to the next second during {}", self.n.name, what));
		false
	}

	/// `DandelionEpoch::is_expired` through the real adapter
	fn t_epoch_expired(&mut self, label: &str) -> bool {
		let now = aligned_now();
		let r = self.net.is_expired();
		if !same_second(now) {
			return self.slipped("is_expired");
		}
		self.n.raw(&format!("pool tepoch_expired now={} => {}", now, r));
		self.n.stat(&format!("clock:is_expired:{}:{}", label, r));
		true
	}

	/// `DandelionEpoch::next_epoch` through the real adapter
	fn t_epoch_next(&mut self) -> Option<i64> {
		let now = aligned_now();
		self.net.next_epoch();
		let stem = self.net.is_stem();
		if !same_second(now) {
			self.slipped("next_epoch");
			return None;
		}
		self.n.raw(&format!("pool tepoch_next now={} => stem={}", now, if stem { 1 } else { 0 }));
		self.n.stat(&format!("clock:next_epoch:stem_probability={}:stem={}", self.dcfg.stem_probability, stem));
		Some(now)
	}

	/// the stem entries get `tx_at = (start of the reading's second) + offs[i]` (ms) - the reading
	/// itself is some milliseconds into its second, so ages in whole seconds (`timestamp()`) and in
	/// milliseconds differ -, then one real fluff phase
	fn t_fluff(&mut self, offs: &[i64], label: &str) -> bool {
		let now = aligned_now();
		let base = now.div_euclid(1000) * 1000;
		for (i, o) in offs.iter().enumerate() {
			self.set_stem_at(i, base + o);
		}
		let ats = self.stem_clock();
		let adapter: Arc<dyn DandelionAdapter> = self.mon.clone();
		let pool = self.n.pool.clone();
		let cfg = self.dcfg.clone();
		let (stem0, tx0) = {
			let p = self.n.pool.read();
			(p.stempool.size(), p.txpool.size())
		};
		let r = catch(std::panic::AssertUnwindSafe(|| verif_process_fluff_phase(&cfg, &pool, &adapter)));
		if !same_second(now) {
			return self.slipped("process_fluff_phase");
		}
		let res = match &r {
			Ok(Ok(())) => "ok".to_string(),
			Ok(Err(e)) => format!("err:{}", perr(e)),
			Err(p) => format!("panic:{}", p.replace(' ', "_")),
		};
		let lhs = format!("pool tfluff_phase now={} {}", now, ats);
		self.n.raw(&format!("{} => {}", lhs, res));
		if res.starts_with("panic") {
			self.n.raw(&format!("#ORACLE-FAIL C14 node-dandelion-monitor-panicked hist={} {} => {}", self.n.name, lhs, res));
		}
		let (stem1, tx1) = {
			let p = self.n.pool.read();
			(p.stempool.size(), p.txpool.size())
		};
		self.n.stat(&format!(
			"clock:fluff-phase:{}:stempool={}:{}:{}",
			label,
			stem0,
			res,
			if tx1 > tx0 { format!("fluffed-{}-stem-entries", stem0 - stem1.min(stem0)) } else { "nothing-fluffed".to_string() }
		));
		self.n.p_obs(&lhs);
		true
	}

	/// the stem entries get `tx_at = (start of the reading's second) + offs[i]` (ms), then one real
	/// embargo pass
	fn t_expire(&mut self, offs: &[i64], label: &str) -> bool {
		let now = aligned_now();
		let base = now.div_euclid(1000) * 1000;
		for (i, o) in offs.iter().enumerate() {
			self.set_stem_at(i, base + o);
		}
		let ats = self.stem_clock();
		let pool = self.n.pool.clone();
		let cfg = self.dcfg.clone();
		let (stem0, tx0) = {
			let p = self.n.pool.read();
			(p.stempool.size(), p.txpool.size())
		};
		let r = catch(std::panic::AssertUnwindSafe(|| verif_process_expired_entries(&cfg, &pool)));
		if !same_second(now) {
			return self.slipped("process_expired_entries");
		}
		let res = match &r {
			Ok(Ok(())) => "ok".to_string(),
			Ok(Err(e)) => format!("err:{}", perr(e)),
			Err(p) => format!("panic:{}", p.replace(' ', "_")),
		};
		let lhs = format!("pool texpire now={} {}", now, ats);
		self.n.raw(&format!("{} => {}", lhs, res));
		if res.starts_with("panic") {
			self.n.raw(&format!("#ORACLE-FAIL C14 node-dandelion-monitor-panicked hist={} {} => {}", self.n.name, lhs, res));
		}
		let tx1 = self.n.pool.read().txpool.size();
		self.n.stat(&format!("clock:embargo:{}:stempool={}:moved-to-txpool={}", label, stem0, tx1.saturating_sub(tx0)));
		self.n.p_obs(&lhs);
		true
	}

	/// one pass of the REAL monitor thread (fluff phase unless stem epoch, embargo, epoch change),
	/// all of it within the second of the reading
	fn t_monitor_thread(&mut self, offs: &[i64], label: &str) -> bool {
		let now = aligned_now();
		for (i, o) in offs.iter().enumerate() {
			self.set_stem_at(i, now + o);
		}
		let ats = self.stem_clock();
		let adapter: Arc<dyn DandelionAdapter> = self.mon.clone();
		let stop = Arc::new(grin_util::StopState::new());
		let before = self.mon.passes.load(Ordering::SeqCst);
		let h = match monitor_transactions(self.dcfg.clone(), self.n.pool.clone(), adapter, stop.clone()) {
			Ok(h) => h,
			Err(e) => {
				self.n.raw(&format!("#STAT monitor-thread:not-started:{:?}", e));
				return false;
			}
		};
		let t0 = std::time::Instant::now();
		while self.mon.passes.load(Ordering::SeqCst) == before && t0.elapsed().as_secs() < 60 {
			std::thread::sleep(std::time::Duration::from_millis(2));
		}
		// the pass holds the pool's write lock during each phase; the epoch change comes last:
		// wait for the thread to reach its one-second sleep (it then sees the stop flag)
		stop.stop();
		let _ = h.join();
		// (the join includes the thread's one-second sleep: the pass itself must have finished within
		// the second of the reading - the epoch's start time tells)
		let stem = self.net.is_stem();
		let expired = self.net.is_expired();
		let lhs = format!("pool tmonitor now={} {}", now, ats);
		self.n.raw(&format!("{} => stem={},expired={}", lhs, if stem { 1 } else { 0 }, expired));
		self.n.stat(&format!("clock:monitor-thread:{}:stem-after={}:expired-after={}", label, stem, expired));
		self.n.p_obs(&lhs);
		true
	}

	/// a block through the real `block_accepted` while the reorg cache holds entries of the given
	/// ages (ms before the reading; entry i of the cache gets `now - ages[i]`)
	fn t_block(&mut self, period_min: u32, ages: &[i64], rng: &mut Rng, label: &str) -> bool {
		let parent = self.n.head;
		let (txs, what) = block_content(&mut self.n, rng, parent);
		let id = match build_with_fallback(&mut self.n, parent, 1, txs) {
			Some(id) => id,
			None => return true,
		};
		self.t_deliver(id, period_min, ages, what, label)
	}

	/// deliver block `id` through the real `block_accepted`; cache entry i gets `now - ages[i]` first
	fn t_deliver(&mut self, id: usize, period_min: u32, ages: &[i64], what: &str, label: &str) -> bool {
		self.n.pool.write().config.reorg_cache_period = period_min;
		let before = chrono::Utc::now().timestamp_millis();
		{
			let p = self.n.pool.write();
			let mut c = p.reorg_cache.write();
			for (i, a) in ages.iter().enumerate() {
				if let Some(e) = c.get_mut(i) {
					e.tx_at = at_ms(before - a);
				}
			}
		}
		let ats: Vec<i64> = self.n.pool.read().reorg_cache.read().iter().map(|e| e.tx_at.timestamp_millis()).collect();
		let n0 = ats.len();
		let period_ms = period_min as i64 * 60_000;
		let mut unstable = false;
		let ats2 = ats.clone();
		let res = self.n.p_deliver_t(id, Options::NONE, what, |after| {
			// every entry on the same side of the cutoff at both readings (2 ms for the sub-millisecond part)
			if ats2.iter().any(|a| (*a < before - period_ms - 2) != (*a < after - period_ms + 2)) {
				unstable = true;
				return None;
			}
			Some(Some(format!(
				"pool tblock_truncate now={} period={} ats=[{}] => ok",
				before,
				period_min,
				ats2.iter().map(|a| a.to_string()).collect::<Vec<_>>().join(",")
			)))
		});
		if unstable {
			return self.slipped("block_accepted");
		}
		let n1 = self.n.pool.read().reorg_cache.read().len();
		let old = ats.iter().filter(|a| **a < before - period_ms).count();
		let sorted = ats.windows(2).all(|w| w[0] <= w[1]);
		self.n.stat(&format!(
			"clock:block-truncate:{}:period={}min:{}:cache={}:older-than-cutoff={}:removed={}:{}",
			label,
			period_min,
			res,
			n0.min(6),
			old.min(6),
			n0.saturating_sub(n1).min(6),
			if sorted { "cache-in-time-order" } else { "cache-out-of-time-order" }
		));
		true
	}
}

const CLK_EPOCH: u16 = 4;
const CLK_AGG: u16 = 20;
const CLK_EMBARGO: u16 = 100;

fn run_clock_history(work: &str, hist: usize, seed: u64) -> (String, BTreeMap<String, u64>) {
	let mut rng = Rng::new(seed.wrapping_mul(9_000_011).wrapping_add(70_001 * (hist as u64 + 1)));
	// stem_probability 0: the epoch after the first is a fluff epoch (stem entries stay in the
	// stempool: the timers matter); 100: stem epochs only (no relay: nothing stays in the stempool)
	let stem_probability = if hist % 2 == 0 { 0 } else { 100 };
	let dcfg = DandelionConfig {
		epoch_secs: CLK_EPOCH,
		embargo_secs: CLK_EMBARGO,
		aggregation_secs: CLK_AGG,
		stem_probability,
		always_stem_our_txs: hist % 4 < 2,
	};
	let mut m = Mon::with_cfg(work, &format!("c{}", hist), dcfg.clone(), 50, 50);
	m.n.p_cfg();
	m.n.raw(&format!(
		"pool dcfg epoch={} embargo={} agg={} prob={} always={}",
		dcfg.epoch_secs,
		dcfg.embargo_secs,
		dcfg.aggregation_secs,
		dcfg.stem_probability,
		if dcfg.always_stem_our_txs { 1 } else { 0 }
	));
	for k in 0..9 {
		let parent = m.n.head;
		let mut txs = vec![];
		if k >= 4 {
			let free = m.n.free_utxo();
			if let Some(o) = free.first().cloned() {
				if let Some(t) = m.n.spend(&[o], 3, 5) {
					txs.push(t);
				}
			}
		}
		if let Some(id) = build_with_fallback(&mut m.n, parent, 1, txs) {
			m.n.p_deliver(id, Options::NONE, "warm-up");
		}
	}
	let finish = |m: Mon| {
		let Mon { n, .. } = m;
		let Node { out, stats, .. } = n;
		(out, stats)
	};
	// a new epoch object: no start time, expired
	if !m.t_epoch_expired("fresh-epoch-object") {
		return finish(m);
	}
	let start = match m.t_epoch_next() {
		Some(t) => t,
		None => return finish(m),
	};
	if !m.t_epoch_expired("same-second-as-next_epoch") {
		return finish(m);
	}
	let sec = 1000i64;
	let push_stem = |m: &mut Mon, rng: &mut Rng, count: usize| {
		for _ in 0..count {
			let free = m.n.free_utxo();
			if free.is_empty() {
				break;
			}
			let o = *rng.pick(&free);
			let fee = fee_for(rng, 1, 1);
			if let Some(tx) = m.n.spend(&[o], 1, fee) {
				m.push(tx, TxSource::Broadcast, true, "clock-stem");
			}
		}
	};
	if stem_probability == 0 {
		// --- aggregation timer, inside the running epoch (whole seconds: timestamp() floors) ---
		push_stem(&mut m, &mut rng, 2);
		// youngest that could be old: exactly aggregation_secs whole seconds back (not `<`), and one
		// a fraction of a second short of it
		let agg = CLK_AGG as i64 * sec;
		// (tx_at at the very start of the second aggregation_secs back: some milliseconds OLDER than
		// aggregation_secs, yet not old - whole seconds are compared)
		if !m.t_fluff(&[-agg, -agg + 400], "oldest-entry-exactly-aggregation_secs-old") {
			return finish(m);
		}
		// one millisecond earlier: one whole second more on the clock's second count
		if !m.t_fluff(&[-agg - 1, -agg + 400], "one-entry-one-millisecond-more:one-second-past-aggregation_secs") {
			return finish(m);
		}
		// --- embargo: the draw is 0..=30 s: exactly embargo_secs old is never expired, 31 s more always ---
		push_stem(&mut m, &mut rng, 3);
		let emb = CLK_EMBARGO as i64 * sec;
		if !m.t_expire(&[-emb, -emb - 31 * sec, -emb + sec], "ages-embargo/embargo+31/embargo-1") {
			return finish(m);
		}
		if !m.t_expire(&[-emb - 31 * sec], "remaining-entry-embargo+31") {
			return finish(m);
		}
		push_stem(&mut m, &mut rng, 2);
	}
	// --- the epoch runs for exactly epoch_secs seconds of timestamp() ---
	let wait_until = |ms: i64| {
		let now = chrono::Utc::now().timestamp_millis();
		if ms > now {
			std::thread::sleep(std::time::Duration::from_millis((ms - now) as u64));
		}
	};
	let start_sec = start.div_euclid(1000) * 1000;
	wait_until(start_sec + CLK_EPOCH as i64 * sec + 20);
	if chrono::Utc::now().timestamp() == start.div_euclid(1000) + CLK_EPOCH as i64 {
		if !m.t_epoch_expired("epoch_secs-after-next_epoch") {
			return finish(m);
		}
	} else {
		m.n.stat("clock:is_expired:boundary-probe-missed");
	}
	wait_until(start_sec + (CLK_EPOCH as i64 + 1) * sec + 20);
	if !m.t_epoch_expired("epoch_secs+1-after-next_epoch") {
		return finish(m);
	}
	// --- the real monitor thread at the end of the epoch: fluffs whatever the ages, embargo, then
	// the next epoch ---
	// (every stem entry younger than both timers: they are fluffed only because the epoch has run
	// out, i.e. the phases still see the OLD, expired epoch - the epoch changes after them)
	if !m.t_monitor_thread(&[-3 * sec, -5 * sec, -2 * sec], "epoch-expired-all-entries-young") {
		return finish(m);
	}
	if !m.t_epoch_expired("after-the-monitor-changed-the-epoch") {
		return finish(m);
	}
	// --- observation (statistics only, the draw is random): embargo_secs within 30 of u16::MAX -
	// `embargo_secs + gen_range(0, 31)` is a u16 sum: this (release) build wraps, a debug build
	// panics in the monitor thread.  A stem entry 30 s old runs into its "embargo" as soon as the
	// draw is 6 or more (theorem embargo_cutoff_wraps) ---
	if stem_probability == 0 && hist == 0 {
		push_stem(&mut m, &mut rng, 1);
		let n0 = m.n.pool.read().stempool.size();
		if n0 > 0 {
			let cfg = DandelionConfig { embargo_secs: 65_530, ..m.dcfg.clone() };
			let mut passes = 0;
			let mut outcome = "still-in-stempool".to_string();
			while passes < 40 {
				passes += 1;
				let now = chrono::Utc::now().timestamp_millis();
				m.set_stem_at(n0 - 1, now - 30_000);
				let before: Vec<Transaction> = m.n.pool.read().stempool.entries.iter().map(|e| e.tx.clone()).collect();
				let pool = m.n.pool.clone();
				let r = catch(std::panic::AssertUnwindSafe(|| verif_process_expired_entries(&cfg, &pool)));
				if r.is_err() {
					outcome = "panicked(overflow-checks-on)".to_string();
					break;
				}
				let after: Vec<Transaction> = m.n.pool.read().stempool.entries.iter().map(|e| e.tx.clone()).collect();
				if after.len() < before.len() {
					// the model is told which entries ran into the (wrapped) embargo: the ones that left
					let left: Vec<usize> = before.iter().filter(|t| !after.contains(t)).filter_map(|t| m.n.reg_id(t)).collect();
					let lhs = format!("pool expire old=[{}]", idlist(&left, "t", ","));
					m.n.raw(&format!("{} => ok", lhs));
					m.n.p_obs(&lhs);
					outcome = "expired-within-40-passes".to_string();
					break;
				}
			}
			m.n.stat(&format!("clock:embargo-u16-wrap:embargo_secs=65530:stem-entry-30s-old:{}", outcome));
		}
	}
	// --- reorg cache: block_accepted truncates at now - reorg_cache_period minutes ---
	for round in 0..3 {
		for _ in 0..3 {
			let free = m.n.free_utxo();
			if free.is_empty() {
				break;
			}
			let o = *rng.pick(&free);
			let fee = fee_for(&mut rng, 1, 2);
			if let Some(tx) = m.n.spend(&[o], 2, fee) {
				m.push(tx, TxSource::Broadcast, false, "clock-cache");
			}
		}
		let (period, label): (u32, &str) = match (hist + round) % 3 {
			0 => (30, "default-period"),
			1 => (1, "one-minute"),
			_ => (0, "zero-period"),
		};
		let p = period as i64 * 60_000;
		let ages: Vec<i64> = match round {
			// in time order: two past the cutoff by 1 h / 20 s, the rest 20 s short of it
			0 => vec![p + 3_600_000, p + 20_000, p - 20_000],
			// out of time order: an old entry behind a young one stays
			1 => vec![p + 20_000, p - 20_000, p + 20_000],
			// everything young
			_ => vec![p - 20_000, p - 60_000],
		};
		if !m.t_block(period, &ages, &mut rng, label) {
			return finish(m);
		}
	}
	// --- a reorganisation deeper than the reorg-cache period: T1 (admitted before the cutoff) and T2
	// (after it) are confirmed on branch A; the heavier branch B confirms neither: the replay brings T2
	// back, T1 is lost (theorem deep_reorg_replays_only_recent); T3 never left the txpool ---
	{
		let mut made: Vec<Transaction> = vec![];
		for _ in 0..3 {
			let free = m.n.free_utxo();
			if free.is_empty() {
				break;
			}
			let o = *rng.pick(&free);
			let fee = fee_for(&mut rng, 1, 1);
			if let Some(tx) = m.n.spend(&[o], 1, fee) {
				if m.push(tx.clone(), TxSource::Broadcast, false, "deep-reorg") {
					made.push(tx);
				}
			}
		}
		if made.len() == 3 {
			let parent = m.n.head;
			let a = m.n.build_block(parent, 1, &made[0..2].to_vec());
			let b1 = m.n.build_block(parent, 1, &[]);
			let b2 = b1.and_then(|b1| m.n.build_block(b1, 4, &[]));
			if let (Some(a), Some(b1), Some(b2)) = (a, b1, b2) {
				// every cache entry up to and including T1 is older than the period, T2 and T3 are not
				let n = m.n.pool.read().reorg_cache.read().len();
				let p = 30i64 * 60_000;
				let ages: Vec<i64> = (0..n).map(|i| if i + 3 <= n { p + 20_000 + (n - i) as i64 * 1000 } else { p - 20_000 - i as i64 * 1000 }).collect();
				if !m.t_deliver(a, 30, &ages, "confirms-T1-T2", "deep-reorg:branch-A") {
					return finish(m);
				}
				let in_pool = |m: &Mon, t: &Transaction| m.n.pool.read().txpool.entries.iter().any(|e| e.tx.kernels() == t.kernels());
				let in_cache = |m: &Mon, t: &Transaction| m.n.pool.read().reorg_cache.read().iter().any(|e| e.tx.kernels() == t.kernels());
				m.n.stat(&format!(
					"clock:deep-reorg:after-branch-A:T1-old-in-cache={}:T2-young-in-cache={}:T3-in-txpool={}",
					in_cache(&m, &made[0]),
					in_cache(&m, &made[1]),
					in_pool(&m, &made[2])
				));
				m.n.p_deliver(b1, Options::NONE, "deep-reorg:B1-stays-behind");
				let n2 = m.n.pool.read().reorg_cache.read().len();
				let ages2: Vec<i64> = (0..n2).map(|i| p - 40_000 - i as i64 * 1000).collect();
				if !m.t_deliver(b2, 30, &ages2, "heavier-empty-branch", "deep-reorg:branch-B") {
					return finish(m);
				}
				let (t1, t2, t3) = (in_pool(&m, &made[0]), in_pool(&m, &made[1]), in_pool(&m, &made[2]));
				m.n.stat(&format!("clock:deep-reorg:after-the-reorg:T1-older-than-the-period-replayed={}:T2-replayed={}:T3-kept={}", t1, t2, t3));
				if t1 {
					m.n.raw(&format!("#ORACLE-FAIL C14 node-reorg-replayed-an-entry-older-than-the-cache-period hist={}", m.n.name));
				}
				if !t2 || !t3 {
					m.n.raw(&format!("#ORACLE-FAIL C14 node-reorg-lost-a-recent-transaction hist={}: T2 replayed={} T3 kept={}", m.n.name, t2, t3));
				}
			}
		}
	}
	finish(m)
}

// ---------------------------------------------------------------------------------------------
// run `relay`: the relay-peer branch of the stem path with REAL `p2p::Peer` objects in the real
// `Peers` map: each fake remote is a local TCP socket that answers the real handshake
// (`Peer::connect` -> outbound peer; `Peer::accept` -> inbound peer) and is then read by the harness:
// a stem transaction handed to the relay arrives there as a `StemTransaction` frame (type 14).

struct FakePeer {
	id: usize,
	peer: Arc<grin_p2p::Peer>,
	remote: Option<std::net::TcpStream>,
	outbound: bool,
	banned: bool,
	alive: bool,
	/// the last stem transaction that was relayed arrived here
	last_frame: bool,
}

fn wire_msg(msg: &grin_p2p::msg::Msg) -> Vec<u8> {
	let mut v: Vec<u8> = Vec::new();
	grin_p2p::msg::write_message(&mut v, msg, Arc::new(grin_p2p::verif_export::Tracker::new())).unwrap();
	v
}

/// one frame from the socket within `ms`: its type byte
fn read_frame_type(s: &mut std::net::TcpStream, ms: u64) -> Option<u8> {
	use std::io::Read;
	let _ = s.set_read_timeout(Some(std::time::Duration::from_millis(ms)));
	let mut head = [0u8; 11];
	let mut got = 0;
	while got < 11 {
		match s.read(&mut head[got..]) {
			Ok(0) => return None,
			Ok(n) => got += n,
			Err(_) => {
				if got == 0 {
					return None;
				}
				let _ = s.set_read_timeout(Some(std::time::Duration::from_secs(10)));
			}
		}
	}
	let mut l = [0u8; 8];
	l.copy_from_slice(&head[3..11]);
	let mut body = vec![0u8; (u64::from_be_bytes(l) as usize).min(1 << 22)];
	let _ = s.set_read_timeout(Some(std::time::Duration::from_secs(10)));
	if s.read_exact(&mut body).is_err() {
		return None;
	}
	Some(head[2])
}

fn make_fake_peer(id: usize, genesis: grin_core::core::hash::Hash, outbound: bool) -> Option<FakePeer> {
	use grin_core::pow::Difficulty;
	use grin_core::ser::ProtocolVersion;
	use grin_p2p::handshake::Handshake;
	use grin_p2p::msg::{Hand, Msg, Shake, Type};
	use grin_p2p::types::{Capabilities, P2PConfig, PeerAddr};
	use std::io::Write;
	let listener = std::net::TcpListener::bind("127.0.0.1:0").ok()?;
	let laddr = listener.local_addr().ok()?;
	let adapter = Arc::new(grin_p2p::DummyAdapter {});
	if outbound {
		let t = std::thread::spawn(move || {
			setup_globals();
			let hs = Handshake::new(genesis, P2PConfig::default());
			let conn = std::net::TcpStream::connect(laddr).ok()?;
			grin_p2p::Peer::connect(conn, Capabilities::default(), Difficulty::from_num(1), PeerAddr("127.0.0.1:3415".parse().unwrap()), &hs, adapter).ok()
		});
		let (mut remote, _) = listener.accept().ok()?;
		let _ = remote.set_nodelay(true);
		read_frame_type(&mut remote, 10_000)?;
		let shake = Shake {
			version: ProtocolVersion::local(),
			capabilities: Capabilities::default(),
			genesis,
			total_difficulty: Difficulty::from_num(5),
			user_agent: "verif/relay".to_string(),
		};
		let _ = remote.write_all(&wire_msg(&Msg::new(Type::Shake, shake, ProtocolVersion(1)).ok()?));
		let peer = t.join().ok()??;
		Some(FakePeer { id, peer: Arc::new(peer), remote: Some(remote), outbound: true, banned: false, alive: true, last_frame: false })
	} else {
		let mut client = std::net::TcpStream::connect(laddr).ok()?;
		let _ = client.set_nodelay(true);
		let (server, _) = listener.accept().ok()?;
		let t = std::thread::spawn(move || {
			setup_globals();
			let hs = Handshake::new(genesis, P2PConfig::default());
			grin_p2p::Peer::accept(server, Capabilities::default(), Difficulty::from_num(1), &hs, adapter).ok()
		});
		let hand = Hand {
			version: ProtocolVersion::local(),
			capabilities: Capabilities::default(),
			nonce: 0x5eed_0000 + id as u64,
			genesis,
			total_difficulty: Difficulty::from_num(5),
			sender_addr: PeerAddr(format!("127.0.0.1:{}", 3500 + id).parse().unwrap()),
			receiver_addr: PeerAddr(laddr),
			user_agent: "verif/relay".to_string(),
		};
		let _ = client.write_all(&wire_msg(&Msg::new(Type::Hand, hand, ProtocolVersion(1)).ok()?));
		read_frame_type(&mut client, 10_000)?;
		let peer = t.join().ok()??;
		Some(FakePeer { id, peer: Arc::new(peer), remote: Some(client), outbound: false, banned: false, alive: true, last_frame: false })
	}
}

struct RelayRun {
	m: Mon,
	fakes: Vec<FakePeer>,
}

impl RelayRun {
	fn world(&mut self) {
		let members: Vec<bool> = self
			.fakes
			.iter()
			.map(|f| self.m.n.peers.iter().into_iter().any(|p| Arc::ptr_eq(&p, &f.peer)))
			.collect();
		let v: Vec<String> = self
			.fakes
			.iter()
			.zip(members.iter())
			.map(|(f, mem)| format!("{}:{}:{}:{}:{}", f.id, f.banned as u8, f.alive as u8, f.outbound as u8, *mem as u8))
			.collect();
		self.m.n.raw(&format!("pool rworld peers=[{}]", v.join(",")));
	}

	fn add_peer(&mut self, outbound: bool) -> bool {
		let id = self.fakes.len() + 1;
		let g = self.m.n.kit.genesis.hash();
		match make_fake_peer(id, g, outbound) {
			Some(f) => {
				let r = self.m.n.peers.add_connected(f.peer.clone());
				self.m.n.stat(&format!("relay:peer-added:{}:{}", if outbound { "outbound" } else { "inbound" }, if r.is_ok() { "ok" } else { "err" }));
				self.fakes.push(f);
				self.world();
				true
			}
			None => {
				self.m.n.stat("relay:fake-peer-not-built");
				false
			}
		}
	}

	/// the remote end goes away; wait until the peer's connection has noticed (sends fail)
	fn kill(&mut self, idx: usize) {
		if let Some(s) = self.fakes[idx].remote.take() {
			let _ = s.shutdown(std::net::Shutdown::Both);
		}
		let t0 = std::time::Instant::now();
		let mut dead = false;
		while t0.elapsed().as_secs() < 20 {
			if self.fakes[idx].peer.send_ping(grin_core::pow::Difficulty::from_num(1), 0).is_err() {
				dead = true;
				break;
			}
			std::thread::sleep(std::time::Duration::from_millis(50));
		}
		self.fakes[idx].alive = !dead;
		let connected = self.fakes[idx].peer.is_connected();
		// the server's housekeeping (`Peers::check_all`, run with every ping round): the dead peer leaves the
		// `Peers` map - the epoch still holds it
		let before = self.m.n.peers.iter().count();
		self.m.n.peers.check_all(grin_core::pow::Difficulty::from_num(1), 0);
		let after = self.m.n.peers.iter().count();
		self.m.n.stat(&format!(
			"relay:remote-end-closed:sends-fail={}:is_connected-still={}:check_all-removed-{}-of-{}-peers",
			dead,
			connected,
			before - after.min(before),
			before
		));
		self.world();
	}

	fn ban(&mut self, idx: usize) {
		self.fakes[idx].peer.set_banned();
		self.fakes[idx].banned = true;
		self.m.n.stat("relay:peer-banned");
		self.world();
	}

	/// a stem submission; afterwards the sockets tell which fake peer got a StemTransaction frame
	fn push(&mut self, rng: &mut Rng, src: TxSource, label: &str) {
		let free = self.m.n.free_utxo();
		if free.is_empty() {
			return;
		}
		let o = *rng.pick(&free);
		let fee = fee_for(rng, 1, 1);
		let tx = match self.m.n.spend(&[o], 1, fee) {
			Some(t) => t,
			None => return,
		};
		let t = self.m.n.p_tx(&tx);
		let header = self.m.n.node.head_header().unwrap();
		let pool = self.m.n.pool.clone();
		let stem_epoch = self.m.net.is_stem();
		let r = catch(std::panic::AssertUnwindSafe(|| pool.write().add_to_pool(src, tx.clone(), true, &header)));
		let res = match &r {
			Ok(Ok(())) => "ok".to_string(),
			Ok(Err(e)) => format!("err:{}", perr(e)),
			Err(p) => format!("panic:{}", p.replace(' ', "_")),
		};
		let lhs = format!(
			"pool rpush t{} src={} stem=1 stemepoch={} always={} form=v3",
			t,
			src_letter(src),
			if stem_epoch { 1 } else { 0 },
			if self.m.dcfg.always_stem_our_txs { 1 } else { 0 }
		);
		self.m.n.raw(&format!("{} => {}", lhs, res));
		if res.starts_with("panic") {
			self.m.n.raw(&format!("#ORACLE-FAIL C14 node-pool-panicked hist={} {} => {}", self.m.n.name, lhs, res));
		}
		// who got it?
		let mut got: Vec<usize> = vec![];
		for f in self.fakes.iter_mut() {
			if let Some(s) = f.remote.as_mut() {
				// (pings of the liveness probe may sit in front)
				let mut n = 0;
				while let Some(ty) = read_frame_type(s, 150) {
					if ty == 14 {
						got.push(f.id);
					}
					n += 1;
					if n > 8 {
						break;
					}
				}
			}
		}
		let in_stem = self.m.n.pool.read().stempool.entries.iter().any(|e| e.tx.kernels() == tx.kernels());
		let in_tx = self.m.n.pool.read().txpool.entries.iter().any(|e| e.tx.kernels() == tx.kernels());
		self.m.n.stat(&format!(
			"relay:{}:{}:{}:{}:frames-at={:?}:{}",
			label,
			src_letter(src),
			if stem_epoch { "stem-epoch" } else { "fluff-epoch" },
			res,
			got,
			if in_stem { "kept-in-stempool" } else if in_tx { "fluffed" } else { "not-pooled" }
		));
		if got.len() > 1 {
			self.m.n.raw(&format!("#ORACLE-FAIL C14 node-stem-transaction-sent-to-several-peers hist={} {}: {:?}", self.m.n.name, lhs, got));
		}
		if !got.is_empty() && !in_stem {
			self.m.n.raw(&format!("#ORACLE-FAIL C14 node-stem-transaction-relayed-and-fluffed hist={} {}: relayed to {:?} but not kept in the stempool", self.m.n.name, lhs, got));
		}
		if let Some(id) = got.first() {
			self.m.n.raw(&format!("pool rcur => p{}", id));
			let cands = self.fakes.iter().filter(|f| f.outbound && !f.banned).count();
			self.m.n.stat(&format!("relay:frame-at-p{}:outbound-unbanned-peers={}", id, cands));
			for f in self.fakes.iter_mut() {
				f.last_frame = f.id == *id;
			}
		}
		self.m.n.p_obs(&lhs);
	}
}

fn run_relay_history(work: &str, hist: usize, seed: u64) -> (String, BTreeMap<String, u64>) {
	let mut rng = Rng::new(seed.wrapping_mul(11_000_027).wrapping_add(30_011 * (hist as u64 + 1)));
	let stem_probability = if hist % 2 == 0 { 100 } else { 0 };
	let dcfg = DandelionConfig { epoch_secs: 60_000, embargo_secs: EMBARGO_SECS, aggregation_secs: AGG_SECS, stem_probability, always_stem_our_txs: true };
	let m = Mon::with_cfg(work, &format!("r{}", hist), dcfg.clone(), 50, 50);
	let mut r = RelayRun { m, fakes: vec![] };
	r.m.n.p_cfg();
	r.m.n.raw(&format!("pool dcfg epoch={} embargo={} agg={} prob={} always=1", dcfg.epoch_secs, dcfg.embargo_secs, dcfg.aggregation_secs, dcfg.stem_probability));
	for k in 0..9 {
		let parent = r.m.n.head;
		let mut txs = vec![];
		if k >= 4 {
			let free = r.m.n.free_utxo();
			if let Some(o) = free.first().cloned() {
				if let Some(t) = r.m.n.spend(&[o], 3, 5) {
					txs.push(t);
				}
			}
		}
		if let Some(id) = build_with_fallback(&mut r.m.n, parent, 1, txs) {
			r.m.n.p_deliver(id, Options::NONE, "warm-up");
		}
	}
	r.world();
	if hist % 2 == 1 {
		// a fluff epoch: only our own (pushed) transactions ask the relay
		if r.m.t_epoch_next().is_none() {
			let RelayRun { m, .. } = r;
			let Mon { n, .. } = m;
			let Node { out, stats, .. } = n;
			return (out, stats);
		}
	}
	// no peer at all; an inbound peer only
	r.push(&mut rng, TxSource::Broadcast, "no-peers");
	r.push(&mut rng, TxSource::PushApi, "no-peers");
	r.add_peer(false);
	r.push(&mut rng, TxSource::PushApi, "inbound-peer-only");
	// the first outbound peer becomes the relay
	r.add_peer(true);
	r.push(&mut rng, TxSource::PushApi, "one-outbound-peer");
	r.push(&mut rng, TxSource::Broadcast, "one-outbound-peer");
	// a second outbound peer: the relay does not change
	r.add_peer(true);
	r.push(&mut rng, TxSource::PushApi, "second-outbound-peer-added");
	// the relay's remote end goes away: the peer still counts as connected, sends fail -> fluff;
	// the second, live peer is not used
	let relay_idx = 1;
	r.kill(relay_idx);
	r.push(&mut rng, TxSource::PushApi, "relay-connection-gone");
	r.push(&mut rng, TxSource::Broadcast, "relay-connection-gone");
	// only a ban makes relay_peer choose again
	r.ban(relay_idx);
	r.push(&mut rng, TxSource::PushApi, "relay-banned");
	r.push(&mut rng, TxSource::Broadcast, "relay-banned");
	// the next epoch chooses among the outbound connected peers
	if r.m.t_epoch_next().is_some() {
		r.push(&mut rng, TxSource::PushApi, "after-next-epoch");
	}
	// several candidates: `choose_random` may take ANY outbound, unbanned member - the socket that
	// receives the frame tells which one it was (specification: membership)
	for _ in 0..3 {
		r.add_peer(true);
	}
	for round in 0..4 {
		if r.m.t_epoch_next().is_none() {
			break;
		}
		r.push(&mut rng, TxSource::PushApi, "several-candidates:after-next-epoch");
		r.push(&mut rng, TxSource::PushApi, "several-candidates:same-epoch-again");
		if round == 1 {
			// the relay in use is banned in the middle of the epoch: a new random choice among the rest
			let cur: Option<usize> = r.fakes.iter().position(|f| f.outbound && !f.banned && f.alive && f.remote.is_some() && f.last_frame);
			if let Some(idx) = cur {
				r.ban(idx);
				r.push(&mut rng, TxSource::PushApi, "several-candidates:relay-banned-mid-epoch");
			}
		}
	}
	// a block from the mineable set
	let set = r.m.n.pool.read().prepare_mineable_transactions().unwrap_or_default();
	let parent = r.m.n.head;
	if let Some(id) = build_with_fallback(&mut r.m.n, parent, 1, set) {
		r.m.n.p_deliver(id, Options::NONE, "mineable-set");
	}
	for f in r.fakes.iter() {
		f.peer.stop();
	}
	let RelayRun { m, .. } = r;
	let Mon { n, .. } = m;
	let Node { out, stats, .. } = n;
	(out, stats)
}

// ---------------------------------------------------------------------------------------------
// run `miner`: what `mine_block::get_block` does when the pool offers a set the chain refuses.
// The only way known to get there is the recorded finding C14-reorg-lower-height-keeps-locked-tx: a
// height-locked transaction admitted at height h+2 stays pooled after a reorganisation onto a heavier
// branch of height h+1.  `build_block` then fails (`Block::validate`: KernelLockHeight), `get_block`
// retries - with no key id (no wallet: the reward is burnt) without any pause - and returns only once
// the chain has grown (by somebody else's block) to the lock height.

fn run_miner_history(work: &str, hist: usize, seed: u64) -> (String, BTreeMap<String, u64>) {
	let mut rng = Rng::new(seed.wrapping_mul(13_000_003).wrapping_add(10_007 * (hist as u64 + 1)));
	let mut m = Mon::new(work, &format!("g{}", hist), 0, true, 50, 50);
	m.n.p_cfg();
	for k in 0..10 {
		let parent = m.n.head;
		let mut txs = vec![];
		if k >= 4 {
			let free = m.n.free_utxo();
			if let Some(o) = free.first().cloned() {
				if let Some(t) = m.n.spend(&[o], 3, 5) {
					txs.push(t);
				}
			}
		}
		if let Some(id) = build_with_fallback(&mut m.n, parent, 1, txs) {
			m.n.p_deliver(id, Options::NONE, "warm-up");
		}
	}
	let finish = |m: Mon| {
		let Mon { n, .. } = m;
		let Node { out, stats, .. } = n;
		(out, stats)
	};
	// a healthy pool first: get_block returns at once
	m.mine_block(Options::MINE, false);
	let p = m.n.head;
	let hp = m.n.kit.blks[p].height;
	// branch A: two blocks; branch B: ONE heavier block, and its successor (somebody else's)
	let a1 = m.n.build_block(p, 1, &[]);
	let a2 = a1.and_then(|a| m.n.build_block(a, 1, &[]));
	let b1 = m.n.build_block(p, 7, &[]);
	let b2 = b1.and_then(|b| m.n.build_block(b, 1, &[]));
	let (a1, a2, b1, b2) = match (a1, a2, b1, b2) {
		(Some(a), Some(b), Some(c), Some(d)) => (a, b, c, d),
		_ => return finish(m),
	};
	m.n.p_deliver(a1, Options::NONE, "branch-A");
	m.n.p_deliver(a2, Options::NONE, "branch-A");
	// L: locked at the next height on branch A (p+3): admitted
	let free: Vec<usize> = m.n.free_utxo().into_iter().filter(|o| !m.n.kit.outs[*o].coinbase).collect();
	let (o1, o2) = match (free.get(0), free.get(1)) {
		(Some(a), Some(b)) => (*a, *b),
		_ => return finish(m),
	};
	let fee = fee_for(&mut rng, 1, 1);
	let f = KernelFeatures::HeightLocked { fee: FeeFields::new(0, fee).unwrap(), lock_height: hp + 3 };
	let l = match m.n.spend_f(&[o1], 1, fee, Some(f)) {
		Some(t) => t,
		None => return finish(m),
	};
	let fee2 = fee_for(&mut rng, 1, 1);
	let plain = m.n.spend(&[o2], 1, fee2);
	m.push(l.clone(), TxSource::Broadcast, false, "locked-at-the-next-height-of-branch-A");
	if let Some(t) = plain {
		m.push(t, TxSource::Broadcast, false, "plain-bystander");
	}
	// the heavier, SHORTER branch: head p+1, next p+2 < lock
	m.n.known_lower = true;
	let r = m.n.p_deliver(b1, Options::NONE, "heavier-shorter-branch-B");
	let still = m.n.pool.read().txpool.entries.iter().any(|e| e.tx.kernels() == l.kernels());
	m.n.stat(&format!("miner:reorg-to-lower-height:{}:locked-transaction-still-pooled={}", r, still));
	// the miner
	let set = m.n.pool.read().prepare_mineable_transactions().unwrap_or_default();
	let sigs: Vec<String> = set.iter().map(|t| m.n.psig(t)).collect();
	let (txc, rxc) = std::sync::mpsc::channel();
	let calls = Arc::new(std::sync::atomic::AtomicUsize::new(0));
	let chain = m.n.node.clone();
	let pool = m.n.pool.clone();
	let t0 = std::time::Instant::now();
	std::thread::spawn(move || {
		setup_globals();
		global::set_local_accept_fee_base(FEE_BASE);
		let r = catch(std::panic::AssertUnwindSafe(|| get_block(&chain, &pool, None, None)));
		let _ = txc.send((r, t0.elapsed()));
	});
	let _ = calls;
	let first = rxc.recv_timeout(std::time::Duration::from_secs(3));
	let stuck = first.is_err();
	m.n.stat(&format!("miner:get_block-on-a-refused-mineable-set:{}", if stuck { "does-not-return-within-3s(retry-loop)" } else { "returned" }));
	if stuck {
		m.n.raw(&format!(
			"#KNOWN-PROBE C14 reorg-to-lower-height-keeps-immature-tx: hist={} head height {} mineable set [{}]: mine_block::get_block does not return (build_block fails on the kernel lock height {} and is retried without pause: no key id); nothing is mined, not even an empty block",
			m.n.name,
			hp + 1,
			sigs.join(","),
			hp + 3
		));
		m.n.raw(&format!("pool build_block => [{}]:rejected", sigs.join(",")));
	} else if still {
		m.n.raw(&format!("#ORACLE-FAIL C14 node-miner-returned-a-block-with-a-locked-kernel hist={} mineable set [{}]", m.n.name, sigs.join(",")));
	}
	// somebody else's block arrives: height p+2, next p+3 = lock: the waiting get_block returns by itself
	m.n.known_lower = false;
	m.n.p_deliver(b2, Options::NONE, "next-block-by-somebody-else");
	if stuck {
		match rxc.recv_timeout(std::time::Duration::from_secs(20)) {
			Ok((Ok((b, _fees)), dt)) => {
				let has_l = b.kernels().iter().any(|k| l.kernels().contains(k));
				m.n.stat(&format!("miner:get_block-returned-after-the-next-block:block-height={}:contains-the-locked-transaction={}", b.header.height - hp, has_l));
				let _ = dt;
				let mut b = b;
				b.header.pow.proof = pow::Proof::random(global::proofsize());
				let set2 = m.n.pool.read().prepare_mineable_transactions().unwrap_or_default();
				let sigs2: Vec<String> = set2.iter().map(|t| m.n.psig(t)).collect();
				let ok = m.n.kit.builder().process_block(b.clone(), Options::SKIP_POW).is_ok();
				m.n.raw(&format!("pool build_block => [{}]:{}", sigs2.join(","), if ok { "ok" } else { "rejected" }));
				if !ok || !has_l {
					m.n.raw(&format!("#ORACLE-FAIL C14 node-miner-did-not-recover hist={}: block accepted by a chain={} contains the locked transaction={}", m.n.name, ok, has_l));
				}
				if ok {
					let parent = m.n.head;
					let st = m.n.state_after(parent, &b);
					let id = m.n.kit.record(b, parent, vec!["mined".into()], true);
					m.n.states.insert(id, st);
					m.n.p_deliver(id, Options::MINE, "mined-after-recovery");
				}
			}
			_ => {
				m.n.raw(&format!("#ORACLE-FAIL C14 node-miner-did-not-recover hist={}: get_block still has not returned 20 s after the chain reached the lock height", m.n.name));
			}
		}
	}
	finish(m)
}

fn run_monitor_history(work: &str, hist: usize, seed: u64, rounds: usize) -> (String, BTreeMap<String, u64>) {
	let mut rng = Rng::new(seed.wrapping_mul(7_000_003).wrapping_add(90_001 * (hist as u64 + 1)));
	// stem_probability 0: every epoch after the first is a fluff epoch (the stempool fills up and
	// the monitor fluffs it); 100: stem epochs only (no relay peer: every stem submission is fluffed
	// at once, the monitor only handles the embargo)
	let stem_probability = if hist % 3 == 2 { 100 } else { 0 };
	let always = hist % 2 == 0;
	let (max_pool, max_stem) = if hist % 4 == 1 { (3, 2) } else { (50, 50) };
	let mut m = Mon::new(work, &format!("m{}", hist), stem_probability, always, max_pool, max_stem);
	m.n.p_cfg();
	m.n.raw(&format!(
		"# monitor history m{}: stem_probability={} always_stem_our_txs={} max_pool_size={} max_stempool_size={}",
		hist, stem_probability, always, max_pool, max_stem
	));
	for k in 0..8 {
		let parent = m.n.head;
		let mut txs = vec![];
		if k >= 4 {
			let free = m.n.free_utxo();
			if let Some(o) = free.first().cloned() {
				if let Some(t) = m.n.spend(&[o], 3, 5) {
					txs.push(t);
				}
			}
		}
		if let Some(id) = build_with_fallback(&mut m.n, parent, 1, txs) {
			m.n.p_deliver(id, Options::NONE, "warm-up");
		}
	}
	// the first pass of a fresh node: stem epoch whose start time is unset (expired): the monitor
	// only moves on to the next epoch
	m.monitor_pass(false);
	for round in 0..rounds {
		let count = rng.range(2, 4) as usize;
		for _ in 0..count {
			let free = m.n.free_utxo();
			let (txs, stem) = m.n.entries();
			let spent = m.n.pool_spent();
			let stem_path = rng.chance(7, 10);
			let mut pool_outs: Vec<usize> = txs.iter().flat_map(|t| m.n.tx_outs(t)).filter(|o| !spent.contains(o)).collect();
			if stem_path {
				pool_outs.extend(stem.iter().flat_map(|t| m.n.tx_outs(t)).filter(|o| !spent.contains(o)));
			}
			if rng.chance(1, 7) {
				// too early for the next block: an immature coinbase, a kernel locked beyond it (or at it)
				let nh = m.n.node.head().unwrap().height + 1;
				let young = m.n.young_coinbases();
				let made = if !young.is_empty() && rng.chance(1, 2) {
					let o = *rng.pick(&young);
					let fee = fee_for(&mut rng, 1, 1);
					m.n.spend(&[o], 1, fee).map(|t| (t, "immature-coinbase"))
				} else if !free.is_empty() {
					let o = *rng.pick(&free);
					let fee = fee_for(&mut rng, 1, 1);
					let lock = nh + rng.below(3);
					let f = KernelFeatures::HeightLocked { fee: FeeFields::new(0, fee).unwrap(), lock_height: lock };
					m.n.spend_f(&[o], 1, fee, Some(f)).map(|t| (t, if lock > nh { "locked-beyond-next-block" } else { "locked-at-next-block" }))
				} else {
					None
				};
				if let Some((tx, label)) = made {
					if rng.chance(1, 2) {
						m.receive(tx, stem_path, false, label);
					} else {
						m.push(tx, TxSource::PushApi, stem_path, label);
					}
				}
				continue;
			}
			let roll = rng.below(10);
			let (ins, kind): (Vec<usize>, &str) = if roll < 3 && !pool_outs.is_empty() {
				(vec![*rng.pick(&pool_outs)], "child")
			} else if roll == 3 && !stem.is_empty() && !stem_path {
				// a fluff transaction double-spending an input a stem entry takes from the chain
				let cands: Vec<usize> = stem.iter().flat_map(|t| m.n.tx_ins(t)).filter(|i| m.n.unspent(*i)).collect();
				if cands.is_empty() {
					continue;
				}
				(vec![*rng.pick(&cands)], "conflicts-with-stem-entry")
			} else if !free.is_empty() {
				let mut v = vec![*rng.pick(&free)];
				if free.len() >= 2 && rng.chance(1, 4) {
					let o = *rng.pick(&free);
					if o != v[0] {
						v.push(o);
					}
				}
				(v, "spend")
			} else {
				continue;
			};
			let nout = rng.range(1, 3) as usize;
			let low = rng.chance(1, 10);
			let fee = if low {
				((ins.len() as u64 + 21 * nout as u64 + 3) * FEE_BASE).saturating_sub(1 + rng.below(5))
			} else {
				fee_for(&mut rng, ins.len(), nout)
			};
			let label = if low { format!("low-fee-{}", kind) } else { kind.to_string() };
			if let Some(tx) = m.n.spend(&ins, nout, fee) {
				if rng.chance(1, 2) {
					let syncing = rng.chance(1, 8);
					m.receive(tx, stem_path, syncing, &label);
				} else {
					let src = if rng.chance(3, 4) { TxSource::PushApi } else { pick_src(&mut rng) };
					m.push(tx, src, stem_path, &label);
				}
			}
		}
		if stem_probability == 0 && max_stem > 10 && rng.chance(1, 3) {
			// a stempool too heavy to be fluffed as ONE transaction (max_tx_weight): the fluff phase
			// fails, the entries stay until their embargo runs out and are then fluffed one by one
			for _ in 0..5 {
				let free = m.n.free_utxo();
				if free.is_empty() {
					break;
				}
				let o = *rng.pick(&free);
				let fee = fee_for(&mut rng, 1, 2);
				if let Some(tx) = m.n.spend(&[o], 2, fee) {
					m.push(tx, TxSource::PushApi, true, "stuffing-the-stempool");
				}
			}
		}
		if rng.chance(1, 3) {
			m.probe_relay(if rng.chance(1, 2) { TxSource::PushApi } else { TxSource::Broadcast });
		}
		// time passes for some of the stem entries: past the aggregation timer, or past the embargo too
		let nstem = m.n.pool.read().stempool.size();
		if nstem > 0 {
			match rng.below(5) {
				0 => {}
				1 | 2 => {
					let i = rng.below(nstem as u64) as usize;
					m.age(&[i], AGG_SECS as i64 + 500);
				}
				3 => {
					let all: Vec<usize> = (0..nstem).collect();
					m.age(&all, EMBARGO_SECS as i64 + 5000);
				}
				_ => {
					let i = rng.below(nstem as u64) as usize;
					m.age(&[i], EMBARGO_SECS as i64 + 5000);
				}
			}
		}
		// the epoch timer has run out in one round of four (the fluff epoch then fluffs whatever
		// the age of the entries)
		m.monitor_pass(rng.chance(1, 4));
		if round % 2 == 1 || rng.chance(1, 3) {
			// the next block: what the miner builds from the pool, or a block that confirms / conflicts
			let parent = m.n.head;
			if rng.chance(1, 2) {
				let opts = pick_opts(&mut rng);
				let gap = rng.chance(1, 3);
				m.mine_block(opts, gap);
			} else {
				let (txs, what) = block_content(&mut m.n, &mut rng, parent);
				if let Some(id) = build_with_fallback(&mut m.n, parent, 1, txs) {
					m.n.p_deliver(id, pick_opts(&mut rng), what);
				}
			}
		}
	}
	// everything still in the stempool runs into its embargo
	let nstem = m.n.pool.read().stempool.size();
	let all: Vec<usize> = (0..nstem).collect();
	m.age(&all, EMBARGO_SECS as i64 + 5000);
	if hist == 0 {
		m.monitor_thread_pass();
	} else {
		m.monitor_pass(false);
	}
	m.mine_block(Options::MINE, true);
	let Mon { n, .. } = m;
	let Node { out, stats, .. } = n;
	(out, stats)
}

fn main() {
	quiet_panics();
	setup_globals();
	global::set_local_accept_fee_base(FEE_BASE);
	let work = std::env::var("VERIF_WORK").unwrap_or_else(|_| "/verif/work/poolnode.d".to_string());
	let _ = std::fs::create_dir_all(&work);
	let seed = seed_from_env();
	let thorough = tier_thorough();
	let args: Vec<String> = std::env::args().collect();
	let clock = args.get(1).map(|s| s == "clock").unwrap_or(false);
	let relay = args.get(1).map(|s| s == "relay").unwrap_or(false);
	let miner = args.get(1).map(|s| s == "miner").unwrap_or(false);
	let monitor = clock || relay || miner || args.get(1).map(|s| s == "monitor").unwrap_or(false);
	if monitor {
		// `monitor_transactions` spawns its own thread: it reads the process-wide parameters, as
		// in a running node (the worker threads of this harness set the same values thread-locally)
		global::init_global_chain_type(global::ChainTypes::AutomatedTesting);
		global::init_global_nrd_enabled(true);
		global::init_global_accept_fee_base(FEE_BASE);
	}
	let args: Vec<String> = if monitor { args[1..].to_vec() } else { args };
	let nh: usize = args.get(1).and_then(|s| s.parse().ok()).unwrap_or(if miner { 1 } else if relay { 2 } else if clock { if thorough { 6 } else { 2 } } else if monitor { if thorough { 12 } else { 3 } } else if thorough { 10 } else { 3 });
	let rounds: usize = args.get(2).and_then(|s| s.parse().ok()).unwrap_or(if monitor { if thorough { 20 } else { 6 } } else if thorough { 30 } else { 10 });
	// `monitor <histories> <rounds> <first>`: histories first .. first+histories-1 (the thorough tier is
	// registered as six runs of two histories: the process-wide secp lock serialises threads)
	let first: usize = args.get(3).and_then(|s| s.parse().ok()).unwrap_or(0);
	// `monitor <histories> <rounds> <first> <stride>`: histories first, first+stride, ..
	let stride: usize = args.get(4).and_then(|s| s.parse().ok()).unwrap_or(1);
	// the regular run ends with the scripted reorg-replay histories
	const NREPLAY: usize = 3;
	let nh = if monitor { nh } else { nh + NREPLAY };
	let nthreads = std::env::var("VERIF_THREADS").ok().and_then(|s| s.parse().ok()).unwrap_or(4usize).max(1).min(nh.max(1));
	let next = Mutex::new(0usize);
	let results: Mutex<Vec<Option<(String, BTreeMap<String, u64>)>>> = Mutex::new((0..nh).map(|_| None).collect());
	thread_local! { static LAST_PANIC: std::cell::RefCell<String> = std::cell::RefCell::new(String::new()); }
	std::panic::set_hook(Box::new(|info| {
		let text = format!("{}", info).replace('\n', " ");
		LAST_PANIC.with(|p| *p.borrow_mut() = text);
	}));
	std::thread::scope(|scope| {
		for _ in 0..nthreads {
			scope.spawn(|| {
				setup_globals();
				global::set_local_accept_fee_base(FEE_BASE);
				loop {
					let h = {
						let mut g = next.lock().unwrap_or_else(|e| e.into_inner());
						let h = *g;
						*g += 1;
						h
					};
					if h >= nh {
						break;
					}
					let dir = format!("{}/n{}", work, h);
					let _ = std::fs::create_dir_all(&dir);
					let r = std::panic::catch_unwind(std::panic::AssertUnwindSafe(|| {
						if miner {
							run_miner_history(&dir, h, seed)
						} else if relay {
							run_relay_history(&dir, h, seed)
						} else if clock {
							run_clock_history(&dir, h, seed)
						} else if monitor {
							run_monitor_history(&dir, first + h * stride, seed, rounds)
						} else if h >= nh - NREPLAY {
							run_replay_history(&dir, h - (nh - NREPLAY))
						} else {
							run_history(&dir, h, seed, rounds)
						}
					}));
					let res = match r {
						Ok(x) => x,
						Err(_) => {
							let msg = LAST_PANIC.with(|p| p.borrow().clone());
							(format!("#ORACLE-FAIL C14 poolnode-harness-history-panicked hist=n{}: {}\n", h, msg), BTreeMap::new())
						}
					};
					let _ = std::fs::remove_dir_all(&dir);
					results.lock().unwrap_or_else(|e| e.into_inner())[h] = Some(res);
				}
			});
		}
	});
	use std::io::Write;
	let stdout = std::io::stdout();
	let mut lock = stdout.lock();
	let mut total: BTreeMap<String, u64> = BTreeMap::new();
	writeln!(
		lock,
		"#STAT poolnode{}: real Chain + servers::ChainToPoolAndNetAdapter + TransactionPool over PoolToChainAdapter{}, Peers without peers; {} histories of {} rounds{}; accept_fee_base {}",
		if miner { " miner (mine_block::get_block on a mineable set the chain refuses)" } else if relay { " relay (real p2p::Peer objects over local sockets in the real Peers map: DandelionEpoch::relay_peer / send_stem_transaction)" } else if clock { " clock (tx_at of stem / reorg-cache entries set around the timers' boundaries, calls made within one wall-clock second: epoch_secs 4, aggregation_secs 20, embargo_secs 100, reorg_cache_period 30 / 1 / 0 min)" } else if monitor { " monitor" } else { "" },
		if monitor { " and PoolToNetAdapter; NetToChainAdapter::transaction_received, dandelion_monitor phases and mine_block::get_block through grin_servers::verif_export" } else { "" },
		nh,
		rounds,
		if monitor { "; (max_pool_size,max_stempool_size) (50,50) or (3,2); aggregation_secs 3000, embargo_secs 6000 (timers fire for backdated entries only)" } else { " (the last 3 histories are the scripted reorg-replay histories, max_pool_size 3); max_pool_size 50" },
		FEE_BASE
	)
	.unwrap();
	for (h, r) in results.into_inner().unwrap().into_iter().enumerate() {
		match r {
			Some((text, stats)) => {
				lock.write_all(text.as_bytes()).unwrap();
				for (k, v) in stats {
					if k.starts_with("max-") {
						let e = total.entry(k).or_insert(0);
						*e = (*e).max(v);
					} else {
						*total.entry(k).or_insert(0) += v;
					}
				}
			}
			None => writeln!(lock, "#ORACLE-FAIL C14 poolnode-harness-history-lost hist=n{}", h).unwrap(),
		}
	}
	for (k, v) in total {
		writeln!(lock, "#STAT {}={}", k, v).unwrap();
	}
	lock.flush().unwrap();
}
