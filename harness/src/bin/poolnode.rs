//! The glue between block acceptance and the transaction pool as a running node has it (C14):
//! a real `Chain` whose adapter IS `servers::common::adapters::ChainToPoolAndNetAdapter`, a real
//! `TransactionPool` over the real `PoolToChainAdapter`, a `p2p::Peers` object without peers.
//! Nobody calls `reconcile_block` here: the pool hears of a block only through
//! `ChainAdapter::block_accepted`, for every `Options` value the block is processed with (NONE,
//! SYNC as body sync does, MINE) and every `BlockStatus` (Next, Fork, Reorg).
//!
//! History: submissions to txpool and stempool (spends of unspent outputs, children of pooled
//! outputs), blocks that confirm pooled transactions / double-spend their inputs / are unrelated,
//! side branches that first stay behind (Fork) and then overtake (Reorg).  After EVERY processed
//! block (and every submission) the property's oracle is evaluated on the implementation, from the
//! pool's entries and the chain only: aggregate(txpool) validates on the head (`Chain::validate_tx`),
//! every input of every entry is unspent on the head or created by another entry, stempool +
//! txpool likewise, and the block built from `prepare_mineable_transactions` is accepted by a
//! chain.  Violations are `#ORACLE-FAIL C14 …` lines with the concrete history step.
use grin_chain::types::{BlockStatus, Options};
use grin_chain::Chain;
use grin_core::core::hash::Hashed;
use grin_core::core::transaction::{self, FeeFields};
use grin_core::core::{Block, CommitWrapper, KernelFeatures, Transaction, Weighting};
use grin_core::global;
use grin_core::pow;
use grin_keychain::{Identifier, Keychain, SwitchCommitmentType};
use grin_pool::types::{PoolAdapter, PoolConfig, PoolEntry, PoolError, TxSource};
use grin_pool::TransactionPool;
use grin_servers::common::adapters::{ChainToPoolAndNetAdapter, PoolToChainAdapter};
use grin_servers::common::hooks::ChainEvents;
use grin_util::RwLock;
use gvharness::chainkit::*;
use gvharness::*;
use std::collections::{BTreeMap, BTreeSet};
use std::sync::atomic::{AtomicBool, Ordering};
use std::sync::{Arc, Mutex};

const MATURITY: u64 = 3;
const FEE_BASE: u64 = 2;

/// Dandelion relay of the pool: takes the stem transaction unless told otherwise
struct PAdapter {
	stem_ok: Arc<AtomicBool>,
}
impl PoolAdapter for PAdapter {
	fn tx_accepted(&self, _entry: &PoolEntry) {}
	fn stem_tx_accepted(&self, _entry: &PoolEntry) -> Result<(), PoolError> {
		if self.stem_ok.load(Ordering::SeqCst) {
			Ok(())
		} else {
			Err(PoolError::DandelionError)
		}
	}
}

/// hook of the real adapter (the webhook / logging slot): records the status the chain reported
struct StatusHook {
	last: Arc<Mutex<Option<&'static str>>>,
}
impl ChainEvents for StatusHook {
	fn on_block_accepted(&self, _b: &Block, status: BlockStatus) {
		*self.last.lock().unwrap() = Some(match status {
			BlockStatus::Next { .. } => "next",
			BlockStatus::Fork { .. } => "fork",
			BlockStatus::Reorg { .. } => "reorg",
		});
	}
}

type Pool = TransactionPool<PoolToChainAdapter, PAdapter>;

struct Node {
	kit: Kit,
	node: Arc<Chain>,
	pool: Arc<RwLock<Pool>>,
	_peers: Arc<grin_p2p::Peers>,
	_chain_adapter: Arc<ChainToPoolAndNetAdapter<PoolToChainAdapter, PAdapter>>,
	last_status: Arc<Mutex<Option<&'static str>>>,
	stem_ok: Arc<AtomicBool>,
	/// kit id of the node's head
	head: usize,
	/// unspent output ids after each kit block (to build valid side branches)
	states: BTreeMap<usize, BTreeMap<usize, (u64, bool)>>,
	stats: BTreeMap<String, u64>,
	name: String,
	out: String,
	last_probe: String,
}

impl Node {
	fn new(work: &str, name: &str) -> Node {
		let kit = Kit::new(&format!("{}/builder_{}", work, name));
		global::set_local_accept_fee_base(FEE_BASE);
		let dir = format!("{}/node_{}", work, name);
		let _ = std::fs::remove_dir_all(&dir);
		let stem_ok = Arc::new(AtomicBool::new(true));
		let pool_adapter = Arc::new(PoolToChainAdapter::new());
		let pool = Arc::new(RwLock::new(TransactionPool::new(
			PoolConfig {
				accept_fee_base: FEE_BASE,
				reorg_cache_period: 30,
				max_pool_size: 50,
				max_stempool_size: 50,
				mineable_max_weight: 250,
			},
			pool_adapter.clone(),
			Arc::new(PAdapter { stem_ok: stem_ok.clone() }),
		)));
		let last_status = Arc::new(Mutex::new(None));
		let chain_adapter = Arc::new(ChainToPoolAndNetAdapter::new(
			pool.clone(),
			vec![Box::new(StatusHook { last: last_status.clone() })],
		));
		let node = Arc::new(
			Chain::init(dir.clone(), chain_adapter.clone(), kit.genesis.clone(), pow::verify_size, false, None).unwrap(),
		);
		pool_adapter.set_chain(node.clone());
		// a Peers object without peers, as servers/src/grin/server.rs hands it to the adapter
		let store = grin_p2p::store::PeerStore::new(&format!("{}/peers", dir)).unwrap();
		let peers = Arc::new(grin_p2p::Peers::new(store, Arc::new(grin_p2p::DummyAdapter {}), grin_p2p::P2PConfig::default()));
		chain_adapter.init(peers.clone());
		let mut states = BTreeMap::new();
		let mut s0 = BTreeMap::new();
		s0.insert(0, (0, true));
		states.insert(0, s0);
		Node {
			kit,
			node,
			pool,
			_peers: peers,
			_chain_adapter: chain_adapter,
			last_status,
			stem_ok,
			head: 0,
			states,
			stats: BTreeMap::new(),
			name: name.to_string(),
			out: String::new(),
			last_probe: String::new(),
		}
	}

	fn raw(&mut self, s: &str) {
		self.out.push_str(s);
		self.out.push('\n');
	}
	fn stat(&mut self, k: &str) {
		*self.stats.entry(k.to_string()).or_insert(0) += 1;
	}

	fn oid(&self, c: &grin_util::secp::pedersen::Commitment) -> usize {
		self.kit.by_commit.get(c).cloned().unwrap_or(999_999)
	}
	fn tx_ins(&self, tx: &Transaction) -> Vec<usize> {
		let v: Vec<CommitWrapper> = tx.inputs().into();
		v.iter().map(|i| self.oid(&i.commitment())).collect()
	}
	fn tx_outs(&self, tx: &Transaction) -> Vec<usize> {
		tx.outputs().iter().map(|o| self.oid(&o.commitment())).collect()
	}
	fn sig(&self, tx: &Transaction) -> String {
		let mut i = self.tx_ins(tx);
		i.sort();
		let mut o = self.tx_outs(tx);
		o.sort();
		format!(
			"{}:{:?}->{:?}",
			tx.kernels().iter().map(|k| hex(&k.hash().as_bytes()[..3])).collect::<Vec<_>>().join("+"),
			i,
			o
		)
	}

	fn unspent(&self, o: usize) -> bool {
		match self.kit.outs.get(o) {
			Some(r) => matches!(self.node.get_unspent(r.commit), Ok(Some(_))),
			None => false,
		}
	}

	fn entries(&self) -> (Vec<Transaction>, Vec<Transaction>) {
		let p = self.pool.read();
		(
			p.txpool.entries.iter().map(|e| e.tx.clone()).collect(),
			p.stempool.entries.iter().map(|e| e.tx.clone()).collect(),
		)
	}

	fn pool_spent(&self) -> BTreeSet<usize> {
		let (t, s) = self.entries();
		t.iter().chain(s.iter()).flat_map(|x| self.tx_ins(x)).collect()
	}

	/// unspent on the head, mature for the next block, not spent by a pool entry
	fn free_utxo(&self) -> Vec<usize> {
		let spent = self.pool_spent();
		let nh = self.node.head().unwrap().height + 1;
		let mut v = vec![];
		for o in &self.kit.outs {
			if spent.contains(&o.id) {
				continue;
			}
			if let Ok(Some((oi, pos))) = self.node.get_unspent(o.commit) {
				if !oi.features.is_coinbase() || nh >= pos.height + MATURITY {
					v.push(o.id);
				}
			}
		}
		v
	}

	fn spend(&mut self, inputs: &[usize], nout: usize, fee: u64) -> Option<Transaction> {
		let total: u64 = inputs.iter().map(|i| self.kit.outs[*i].value).sum();
		if total <= fee + nout as u64 {
			return None;
		}
		let ins: Vec<(u64, Identifier, bool)> = inputs
			.iter()
			.map(|i| {
				let o = &self.kit.outs[*i];
				(o.value, o.key_id.clone(), o.coinbase)
			})
			.collect();
		let rest = total - fee;
		let each = rest / nout as u64;
		let mut new_outs = vec![];
		for k in 0..nout {
			let v = if k + 1 == nout { rest - each * (nout as u64 - 1) } else { each };
			new_outs.push((v, self.kit.fresh_key()));
		}
		let tx = make_tx(&self.kit.kc, &ins, &new_outs, KernelFeatures::Plain { fee: FeeFields::new(0, fee).ok()? }).ok()?;
		for (v, key) in new_outs {
			let commit = self.kit.kc.commit(v, &key, SwitchCommitmentType::Regular).ok()?;
			if !self.kit.by_commit.contains_key(&commit) {
				let id = self.kit.outs.len();
				self.kit.outs.push(OutRec { id, commit, value: v, key_id: key, coinbase: false });
				self.kit.by_commit.insert(commit, id);
			}
		}
		Some(tx)
	}

	// ------------------------------------------------------------------------------------------
	// the oracle

	fn validate_set(&self, txs: &[Transaction]) -> Result<(), String> {
		if txs.is_empty() {
			return Ok(());
		}
		let agg = transaction::aggregate(txs).map_err(|e| format!("aggregate:{:?}", e))?;
		agg.validate(Weighting::NoLimit).map_err(|e| format!("validate:{:?}", e))?;
		self.node.validate_tx(&agg).map_err(|e| format!("chain:{}", error_class(&e)))?;
		Ok(())
	}

	/// (entry, input) pairs whose input is neither unspent on the head nor created by an entry
	fn dangling(&self, txs: &[Transaction]) -> Vec<String> {
		let created: BTreeSet<usize> = txs.iter().flat_map(|t| self.tx_outs(t)).collect();
		let mut v = vec![];
		for t in txs {
			for i in self.tx_ins(t) {
				if !created.contains(&i) && !self.unspent(i) {
					v.push(format!("{} spends o{}", self.sig(t), i));
				}
			}
		}
		v
	}

	fn oracle(&mut self, ctx: &str) {
		let (txs, stem) = self.entries();
		let head = self.node.head().unwrap();
		let hh = self.node.head_header().unwrap();
		let here = format!(
			"hist={} after [{}] (head height {} {}, txpool {} stempool {})",
			self.name,
			ctx,
			head.height,
			hex(&hh.hash().as_bytes()[..4]),
			txs.len(),
			stem.len()
		);
		// every entry - txpool, stempool, reorg cache - pays the minimum fee for its weight, is within
		// the weight limit and passes standalone validation
		let cache: Vec<Transaction> = self.pool.read().reorg_cache.read().iter().map(|e| e.tx.clone()).collect();
		for (place, list) in [("txpool", &txs), ("stempool", &stem), ("reorg-cache", &cache)] {
			for t in list.iter() {
				let min = t.weight() * FEE_BASE;
				if t.shifted_fee() < min {
					let sig = self.sig(t);
					self.raw(&format!(
						"#ORACLE-FAIL C14 node-pool-entry-pays-less-than-minimum-fee {}: {} entry {} pays fee {} (shifted {}) for weight {}, minimum {}",
						here, place, sig, t.fee(), t.shifted_fee(), t.weight(), min
					));
				}
				if t.weight() > global::max_tx_weight() {
					let sig = self.sig(t);
					self.raw(&format!("#ORACLE-FAIL C14 node-pool-entry-over-weight-limit {}: {} entry {} weight {}", here, place, sig, t.weight()));
				}
			}
		}
		let d = self.dangling(&txs);
		if !d.is_empty() {
			self.raw(&format!(
				"#ORACLE-FAIL C14 node-pool-entry-input-spent-or-missing {}: {:?}; txpool = {:?}",
				here,
				d,
				txs.iter().map(|t| self.sig(t)).collect::<Vec<_>>()
			));
		}
		if let Err(e) = self.validate_set(&txs) {
			self.raw(&format!(
				"#ORACLE-FAIL C14 node-pool-not-jointly-valid {}: aggregate(txpool) does not validate on the head ({}); txpool = {:?}",
				here,
				e,
				txs.iter().map(|t| self.sig(t)).collect::<Vec<_>>()
			));
		}
		if !stem.is_empty() {
			let mut both = stem.clone();
			both.extend(txs.clone());
			let d = self.dangling(&both);
			let v = self.validate_set(&both);
			if !d.is_empty() || v.is_err() {
				self.raw(&format!(
					"#ORACLE-FAIL C14 node-stempool-not-jointly-valid {}: stempool + txpool: {:?} {:?}; stempool = {:?}; txpool = {:?}",
					here,
					v.err(),
					d,
					stem.iter().map(|t| self.sig(t)).collect::<Vec<_>>(),
					txs.iter().map(|t| self.sig(t)).collect::<Vec<_>>()
				));
			}
		}
		// the mineable set as a block on the head
		let mine = self.pool.read().prepare_mineable_transactions();
		match mine {
			Err(e) => self.raw(&format!("#ORACLE-FAIL C14 node-mineable-set-rejected {}: prepare_mineable_transactions failed: {:?}", here, e)),
			Ok(set) => {
				let key = format!("{}|{:?}", self.head, set.iter().map(|t| self.sig(t)).collect::<Vec<_>>());
				if key != self.last_probe && !set.is_empty() {
					let parent = self.head;
					let verdict = match self.kit.assemble(parent, 1, &set, 0) {
						Err(e) => Err(format!("assemble:{}", e)),
						Ok(b) => match self.kit.builder().process_block(b.clone(), Options::SKIP_POW) {
							Ok(_) => {
								let st = self.state_after(parent, &b);
								let id = self.kit.record(b, parent, vec!["probe".into()], true);
								self.states.insert(id, st);
								Ok(())
							}
							Err(e) => Err(format!("process_block:{}", error_class(&e))),
						},
					};
					self.stat("mine-oracle:blocks-built");
					match verdict {
						Ok(()) => self.last_probe = key,
						Err(e) => self.raw(&format!(
							"#ORACLE-FAIL C14 node-mineable-set-rejected {}: the block built on the head from the mineable set {:?} is rejected: {}",
							here,
							set.iter().map(|t| self.sig(t)).collect::<Vec<_>>(),
							e
						)),
					}
				}
			}
		}
		let m = self.stats.entry("max-txpool".into()).or_insert(0);
		*m = (*m).max(txs.len() as u64);
		let m = self.stats.entry("max-stempool".into()).or_insert(0);
		*m = (*m).max(stem.len() as u64);
	}

	// ------------------------------------------------------------------------------------------
	// operations

	fn submit(&mut self, tx: Transaction, src: TxSource, stem: bool, stem_ok: bool, kind: &str) -> bool {
		self.stem_ok.store(stem_ok, Ordering::SeqCst);
		let header = self.node.head_header().unwrap();
		let pool = self.pool.clone();
		let r = catch(std::panic::AssertUnwindSafe(|| pool.write().add_to_pool(src, tx.clone(), stem, &header)));
		let res = match &r {
			Ok(Ok(())) => "ok".to_string(),
			Ok(Err(e)) => format!("err:{:?}", e).chars().take_while(|c| c.is_alphanumeric() || *c == ':').collect(),
			Err(p) => format!("panic:{}", p),
		};
		self.stat(&format!("submit:{}:{}:{}", kind, if stem { "stem" } else { "fluff" }, res));
		if res.starts_with("panic") {
			let sig = self.sig(&tx);
			self.raw(&format!("#ORACLE-FAIL C14 node-pool-panicked hist={} submit {} => {}", self.name, sig, res));
		}
		let ctx = format!("submit {} {} stem={}", kind, self.sig(&tx), stem);
		self.oracle(&ctx);
		res == "ok"
	}

	fn state_after(&self, parent: usize, b: &Block) -> BTreeMap<usize, (u64, bool)> {
		let mut s = self.states[&parent].clone();
		let ins: Vec<CommitWrapper> = b.inputs().into();
		for i in ins {
			if let Some(id) = self.kit.by_commit.get(&i.commitment()) {
				s.remove(id);
			}
		}
		for o in b.outputs() {
			if let Some(id) = self.kit.by_commit.get(&o.commitment()) {
				s.insert(*id, (b.header.height, o.is_coinbase()));
			}
		}
		s
	}

	/// build a block on `parent` on the builder chain; None if it does not apply there
	fn build_block(&mut self, parent: usize, diff: u64, txs: &[Transaction]) -> Option<usize> {
		let b = self.kit.assemble(parent, diff, txs, 0).ok()?;
		match self.kit.builder().process_block(b.clone(), Options::SKIP_POW) {
			Ok(_) => {
				let st = self.state_after(parent, &b);
				let id = self.kit.record(b, parent, vec![], true);
				self.states.insert(id, st);
				Some(id)
			}
			Err(e) => {
				self.stat(&format!("generator:builder-rejected:{}", error_class(&e)));
				None
			}
		}
	}

	/// hand the block to the node's chain with the given options: the pool is told (or not) by
	/// the real adapter only
	fn deliver(&mut self, bid: usize, opts: Options, what: &str) -> String {
		let b = self.kit.blks[bid].block.clone();
		*self.last_status.lock().unwrap() = None;
		let node = self.node.clone();
		let r = catch(std::panic::AssertUnwindSafe(|| node.process_block(b.clone(), opts | Options::SKIP_POW)));
		let status = self.last_status.lock().unwrap().take();
		let oname = if opts.contains(Options::SYNC) {
			"SYNC"
		} else if opts.contains(Options::MINE) {
			"MINE"
		} else {
			"NONE"
		};
		let res = match (&r, status) {
			(Ok(Ok(_)), Some(s)) => s.to_string(),
			(Ok(Ok(_)), None) => "accepted-without-event".to_string(),
			(Ok(Err(e)), _) => format!("rejected:{}", error_class(e)),
			(Err(p), _) => format!("panic:{}", p),
		};
		self.stat(&format!("deliver:{}:{}:{}", what, oname, res));
		self.stat(&format!("block:{}:{}", oname, res));
		if res.starts_with("panic") {
			self.raw(&format!("#ORACLE-FAIL C14 node-block-acceptance-panicked hist={} block b{} ({}) opts={} => {}", self.name, bid, what, oname, res));
		}
		let hh = self.node.head_header().unwrap();
		if let Some(id) = self.kit.by_hash.get(&hh.hash()) {
			self.head = *id;
		}
		let (ins, kers) = {
			let v: Vec<CommitWrapper> = b.inputs().into();
			(v.iter().map(|i| self.oid(&i.commitment())).collect::<Vec<_>>(), b.kernels().len())
		};
		let ctx = format!(
			"process_block b{} height {} ({}; spends {:?}, {} kernels) opts={} => {}",
			bid, b.header.height, what, ins, kers, oname, res
		);
		self.oracle(&ctx);
		res
	}
}

fn pick_opts(rng: &mut Rng) -> Options {
	match rng.below(3) {
		0 => Options::NONE,
		1 => Options::SYNC,
		_ => Options::MINE,
	}
}

fn pick_src(rng: &mut Rng) -> TxSource {
	match rng.below(4) {
		0 => TxSource::PushApi,
		1 => TxSource::Broadcast,
		2 => TxSource::Fluff,
		_ => TxSource::EmbargoExpired,
	}
}

fn fee_for(rng: &mut Rng, nin: usize, nout: usize) -> u64 {
	let w = nin as u64 + 21 * nout as u64 + 3;
	w * FEE_BASE * rng.range(1, 4) + rng.below(w)
}

/// a few submissions: spends of unspent outputs and children of pooled outputs, stem and fluff
fn fill_pool(n: &mut Node, rng: &mut Rng, count: usize) {
	for _ in 0..count {
		let free = n.free_utxo();
		let (txs, stem) = n.entries();
		let spent = n.pool_spent();
		let stem_path = rng.chance(2, 5);
		// outputs created in the txpool (and, for a stem submission, in the stempool) and not spent
		let mut pool_outs: Vec<usize> = txs.iter().flat_map(|t| n.tx_outs(t)).filter(|o| !spent.contains(o)).collect();
		if stem_path {
			pool_outs.extend(stem.iter().flat_map(|t| n.tx_outs(t)).filter(|o| !spent.contains(o)));
		}
		let child = !pool_outs.is_empty() && rng.chance(1, 3);
		let (ins, kind) = if child {
			let mut v = vec![*rng.pick(&pool_outs)];
			if !free.is_empty() && rng.chance(1, 4) {
				v.push(*rng.pick(&free));
			}
			(v, "child")
		} else if !free.is_empty() {
			let mut v = vec![*rng.pick(&free)];
			if free.len() >= 2 && rng.chance(1, 4) {
				let o = *rng.pick(&free);
				if o != v[0] {
					v.push(o);
				}
			}
			(v, "spend")
		} else {
			continue;
		};
		let nout = rng.range(1, 2) as usize;
		// now and then below the minimum fee for the weight: must never get in
		let low = rng.chance(1, 8);
		let fee = if low {
			((ins.len() as u64 + 21 * nout as u64 + 3) * FEE_BASE).saturating_sub(1 + rng.below(5))
		} else {
			fee_for(rng, ins.len(), nout)
		};
		if let Some(tx) = n.spend(&ins, nout, fee) {
			let src = pick_src(rng);
			let relay_ok = !rng.chance(1, 6);
			let label = if low { format!("low-fee-{}", kind) } else { kind.to_string() };
			n.submit(tx, src, stem_path, relay_ok, &label);
		}
	}
}

/// the content of a block on top of `parent` relative to the pool: (txs, label)
fn block_content(n: &mut Node, rng: &mut Rng, parent: usize) -> (Vec<Transaction>, &'static str) {
	let (txs, stem) = n.entries();
	let st = n.states[&parent].clone();
	let h = n.kit.blks[parent].height + 1;
	let applies = |n: &Node, t: &Transaction, extra: &BTreeSet<usize>| n.tx_ins(t).iter().all(|i| st.contains_key(i) || extra.contains(i));
	match rng.below(10) {
		0..=3 => {
			// confirm a subset of the pool (txpool and stempool), parents before children
			let mut chosen = vec![];
			let mut created = BTreeSet::new();
			for t in txs.iter().chain(stem.iter()) {
				if rng.chance(3, 5) && applies(n, t, &created) {
					created.extend(n.tx_outs(t));
					chosen.push(t.clone());
				}
			}
			(chosen, "confirms-pool-txs")
		}
		4..=6 => {
			// double-spend an input that a pooled transaction takes from the chain, maybe next to
			// some pool transactions
			let cands: Vec<usize> = n
				.pool_spent()
				.into_iter()
				.filter(|o| match st.get(o) {
					Some((c, cb)) => !*cb || h >= *c + MATURITY,
					None => false,
				})
				.collect();
			if cands.is_empty() {
				return (vec![], "unrelated-empty");
			}
			let o = *rng.pick(&cands);
			let mut chosen = vec![];
			if let Some(x) = n.spend(&[o], 1, 11) {
				let mut created = BTreeSet::new();
				for t in txs.iter().chain(stem.iter()) {
					if rng.chance(1, 3) && !n.tx_ins(t).contains(&o) && applies(n, t, &created) {
						created.extend(n.tx_outs(t));
						chosen.push(t.clone());
					}
				}
				chosen.push(x);
			}
			(chosen, "conflicts-with-pool-txs")
		}
		7..=8 => {
			// unrelated: an independent spend of an output the pool does not touch
			let spent = n.pool_spent();
			let cands: Vec<usize> = st
				.iter()
				.filter(|(o, (c, cb))| !spent.contains(o) && (!*cb || h >= *c + MATURITY))
				.map(|(o, _)| *o)
				.collect();
			if cands.is_empty() {
				return (vec![], "unrelated-empty");
			}
			let o = *rng.pick(&cands);
			match n.spend(&[o], 2, 13) {
				Some(x) => (vec![x], "unrelated-spend"),
				None => (vec![], "unrelated-empty"),
			}
		}
		_ => (vec![], "unrelated-empty"),
	}
}

fn build_with_fallback(n: &mut Node, parent: usize, diff: u64, mut txs: Vec<Transaction>) -> Option<usize> {
	let mut id = n.build_block(parent, diff, &txs);
	while id.is_none() && !txs.is_empty() {
		txs.pop();
		id = n.build_block(parent, diff, &txs);
	}
	id
}

fn run_history(work: &str, hist: usize, seed: u64, rounds: usize) -> (String, BTreeMap<String, u64>) {
	let mut rng = Rng::new(seed.wrapping_mul(1_000_003).wrapping_add(50_021 * (hist as u64 + 1)));
	let mut n = Node::new(work, &format!("n{}", hist));
	// warm up: every Options value from the start
	for k in 0..8 {
		let parent = n.head;
		let mut txs = vec![];
		if k >= 4 {
			let free = n.free_utxo();
			if let Some(o) = free.first().cloned() {
				if let Some(t) = n.spend(&[o], 3, 5) {
					txs.push(t);
				}
			}
		}
		if let Some(id) = build_with_fallback(&mut n, parent, 1, txs) {
			let opts = pick_opts(&mut rng);
			n.deliver(id, opts, "warm-up");
		}
	}
	for _ in 0..rounds {
		let count = rng.range(2, 4) as usize;
		fill_pool(&mut n, &mut rng, count);
		if rng.chance(7, 10) {
			// the next block
			let parent = n.head;
			let (txs, what) = block_content(&mut n, &mut rng, parent);
			if let Some(id) = build_with_fallback(&mut n, parent, rng.range(1, 3), txs) {
				let opts = pick_opts(&mut rng);
				n.deliver(id, opts, what);
			}
		} else {
			// a side branch from an ancestor: blocks that stay behind (Fork), then one that overtakes
			let depth = rng.range(1, 2) as usize;
			let mut anc = n.head;
			let mut old = 0;
			for _ in 0..depth {
				if let Some(p) = n.kit.blks[anc].parent {
					anc = p;
					old += 1;
				}
			}
			if old == 0 {
				continue;
			}
			let need = n.kit.blks[n.head].work - n.kit.blks[anc].work;
			let mut tip = anc;
			let mut ids = vec![];
			// `old` blocks of difficulty 1 stay behind or tie; the last one carries what is missing
			let nblocks = old + rng.below(2) as usize;
			for k in 0..nblocks.max(1) {
				let last = k + 1 == nblocks.max(1);
				let done = n.kit.blks[tip].work - n.kit.blks[anc].work;
				let diff = if last { need.saturating_sub(done) + 1 } else { 1 };
				let (txs, what) = block_content(&mut n, &mut rng, tip);
				match build_with_fallback(&mut n, tip, diff.max(1), txs) {
					Some(id) => {
						ids.push((id, what));
						tip = id;
					}
					None => break,
				}
			}
			n.stat("op:side-branch");
			for (id, what) in ids {
				let opts = pick_opts(&mut rng);
				n.deliver(id, opts, &format!("branch:{}", what));
				// submissions between the blocks of the branch
				if rng.chance(1, 2) {
					fill_pool(&mut n, &mut rng, 1);
				}
			}
		}
	}
	// drain: blocks from the mineable set until the txpool is empty
	for _ in 0..4 {
		let set = n.pool.read().prepare_mineable_transactions().unwrap_or_default();
		if set.is_empty() {
			break;
		}
		let parent = n.head;
		if let Some(id) = build_with_fallback(&mut n, parent, 1, set) {
			let opts = pick_opts(&mut rng);
			n.deliver(id, opts, "mineable-set");
		}
	}
	let Node { out, stats, .. } = n;
	(out, stats)
}

fn main() {
	quiet_panics();
	setup_globals();
	global::set_local_accept_fee_base(FEE_BASE);
	let work = std::env::var("VERIF_WORK").unwrap_or_else(|_| "/verif/work/poolnode.d".to_string());
	let _ = std::fs::create_dir_all(&work);
	let seed = seed_from_env();
	let thorough = tier_thorough();
	let args: Vec<String> = std::env::args().collect();
	let nh: usize = args.get(1).and_then(|s| s.parse().ok()).unwrap_or(if thorough { 10 } else { 3 });
	let rounds: usize = args.get(2).and_then(|s| s.parse().ok()).unwrap_or(if thorough { 30 } else { 10 });
	let nthreads = std::env::var("VERIF_THREADS").ok().and_then(|s| s.parse().ok()).unwrap_or(4usize).max(1).min(nh.max(1));
	let next = Mutex::new(0usize);
	let results: Mutex<Vec<Option<(String, BTreeMap<String, u64>)>>> = Mutex::new((0..nh).map(|_| None).collect());
	thread_local! { static LAST_PANIC: std::cell::RefCell<String> = std::cell::RefCell::new(String::new()); }
	std::panic::set_hook(Box::new(|info| {
		let text = format!("{}", info).replace('\n', " ");
		LAST_PANIC.with(|p| *p.borrow_mut() = text);
	}));
	std::thread::scope(|scope| {
		for _ in 0..nthreads {
			scope.spawn(|| {
				setup_globals();
				global::set_local_accept_fee_base(FEE_BASE);
				loop {
					let h = {
						let mut g = next.lock().unwrap_or_else(|e| e.into_inner());
						let h = *g;
						*g += 1;
						h
					};
					if h >= nh {
						break;
					}
					let dir = format!("{}/n{}", work, h);
					let _ = std::fs::create_dir_all(&dir);
					let r = std::panic::catch_unwind(std::panic::AssertUnwindSafe(|| run_history(&dir, h, seed, rounds)));
					let res = match r {
						Ok(x) => x,
						Err(_) => {
							let msg = LAST_PANIC.with(|p| p.borrow().clone());
							(format!("#ORACLE-FAIL C14 poolnode-harness-history-panicked hist=n{}: {}\n", h, msg), BTreeMap::new())
						}
					};
					let _ = std::fs::remove_dir_all(&dir);
					results.lock().unwrap_or_else(|e| e.into_inner())[h] = Some(res);
				}
			});
		}
	});
	use std::io::Write;
	let stdout = std::io::stdout();
	let mut lock = stdout.lock();
	let mut total: BTreeMap<String, u64> = BTreeMap::new();
	writeln!(
		lock,
		"#STAT poolnode: real Chain + servers::ChainToPoolAndNetAdapter + TransactionPool over PoolToChainAdapter, Peers without peers; {} histories of {} rounds; max_pool_size 50, accept_fee_base {}",
		nh, rounds, FEE_BASE
	)
	.unwrap();
	for (h, r) in results.into_inner().unwrap().into_iter().enumerate() {
		match r {
			Some((text, stats)) => {
				lock.write_all(text.as_bytes()).unwrap();
				for (k, v) in stats {
					if k.starts_with("max-") {
						let e = total.entry(k).or_insert(0);
						*e = (*e).max(v);
					} else {
						*total.entry(k).or_insert(0) += v;
					}
				}
			}
			None => writeln!(lock, "#ORACLE-FAIL C14 poolnode-harness-history-lost hist=n{}", h).unwrap(),
		}
	}
	for (k, v) in total {
		writeln!(lock, "#STAT {}={}", k, v).unwrap();
	}
	lock.flush().unwrap();
}
