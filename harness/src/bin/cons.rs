//! C04 correspondence: header rules and difficulty retarget.
//!
//! `cons diff`  — pure functions of consensus.rs / global.rs / pow/types.rs on random and
//!                adversarial inputs (all four chain types, every hard-fork era).
//! `cons chain` — a real `Chain` in `$VERIF_WORK` under AutomatedTesting with real PoW: a valid
//!                chain across all header versions, and every single-field mutation of the next
//!                header delivered through the real pipeline.
use grin_core::consensus::{self, HeaderDifficultyInfo};
use grin_core::core::block::HeaderVersion;
use grin_core::core::hash::Hashed;
use grin_core::global::{self, ChainTypes};
use grin_core::pow::{Difficulty, Proof, ProofOfWork};
use chrono::{DateTime, Duration, Utc};
use grin_chain::types::NoopAdapter;
use grin_chain::{Chain, Options};
use grin_core::core::block::UntrustedBlockHeader;
use grin_core::core::hash::Hash;
use grin_core::core::{Block, BlockHeader};
use grin_core::ser::{self, DeserializationMode, ProtocolVersion};
use grin_core::{genesis, libtx, pow};
use grin_keychain::{ExtKeychain, ExtKeychainPath, Keychain};
use gvharness::*;
use std::collections::BTreeMap;
use std::panic::AssertUnwindSafe;
use std::sync::Arc;

pub const CTS: [(ChainTypes, &str); 4] = [
	(ChainTypes::Mainnet, "main"),
	(ChainTypes::Testnet, "test"),
	(ChainTypes::AutomatedTesting, "auto"),
	(ChainTypes::UserTesting, "user"),
];

pub fn hdi(ts: u64, diff: u64, scaling: u32, sec: bool) -> HeaderDifficultyInfo {
	let d = if diff == 0 {
		Difficulty::zero()
	} else {
		Difficulty::from_num(diff)
	};
	HeaderDifficultyInfo::new(None, ts, d, scaling, sec)
}

pub fn show_hdi(h: &HeaderDifficultyInfo) -> String {
	format!(
		"{}:{}:{}:{}",
		h.timestamp,
		h.difficulty.to_num(),
		h.secondary_scaling,
		if h.is_secondary { 1 } else { 0 }
	)
}

pub fn show_window(w: &[HeaderDifficultyInfo]) -> String {
	let parts: Vec<String> = w.iter().map(show_hdi).collect();
	format!("[{}]", parts.join(","))
}

pub struct Stats(pub BTreeMap<String, u64>);
impl Stats {
	pub fn hit(&mut self, k: &str) {
		*self.0.entry(k.to_string()).or_insert(0) += 1;
	}
	pub fn dump(&self, out: &mut Out, title: &str) {
		let parts: Vec<String> = self.0.iter().map(|(k, v)| format!("{}={}", k, v)).collect();
		out.raw(&format!("#STAT {}: {}", title, parts.join(" ")));
	}
}

fn pc<R>(f: impl FnOnce() -> R) -> Option<R> {
	catch(AssertUnwindSafe(f)).ok()
}

/// interesting heights for a chain type: around every hard fork, the u16 wrap of the interval
/// count, the C31 phase-out, secondary-ratio steps, and the u64 edge.
fn heights(ct: ChainTypes, rng: &mut Rng, n_random: usize) -> Vec<u64> {
	let mut v: Vec<u64> = vec![];
	let mut around = |x: u64| {
		for d in 0..=2u64 {
			v.push(x.saturating_sub(2).saturating_add(d));
			v.push(x.saturating_add(d));
		}
	};
	around(0);
	match ct {
		ChainTypes::Mainnet => {
			for k in 1..=6u64 {
				around(k * consensus::HARD_FORK_INTERVAL);
			}
			around(65535 * consensus::HARD_FORK_INTERVAL);
			around(65536 * consensus::HARD_FORK_INTERVAL);
		}
		ChainTypes::Testnet => {
			around(consensus::TESTNET_FIRST_HARD_FORK);
			around(consensus::TESTNET_SECOND_HARD_FORK);
			around(consensus::TESTNET_THIRD_HARD_FORK);
			around(consensus::TESTNET_FOURTH_HARD_FORK);
		}
		_ => {
			for k in 1..=6u64 {
				around(k * consensus::TESTING_HARD_FORK_INTERVAL);
			}
			around(65535 * consensus::TESTING_HARD_FORK_INTERVAL);
			around(65536 * consensus::TESTING_HARD_FORK_INTERVAL);
		}
	}
	around(consensus::YEAR_HEIGHT);
	around(consensus::YEAR_HEIGHT + 30 * consensus::WEEK_HEIGHT);
	around(consensus::YEAR_HEIGHT + 31 * consensus::WEEK_HEIGHT);
	around(2 * consensus::YEAR_HEIGHT);
	let step = 2 * consensus::YEAR_HEIGHT / 90;
	around(step);
	around(45 * step);
	around(89 * step);
	around(90 * step);
	around(u64::MAX);
	around(1 << 32);
	for _ in 0..n_random {
		let bits = rng.range(1, 64);
		v.push(rng.next() >> (64 - bits));
	}
	v
}

struct WinGen;
impl WinGen {
	/// one difficulty window, latest first
	fn window(rng: &mut Rng, ct_weight: u32, stats: &mut Stats) -> Vec<HeaderDifficultyInfo> {
		let len = match rng.below(10) {
			0 => rng.below(4),
			1 => rng.range(4, 59),
			2 => 59 + rng.below(4),
			3 => rng.range(63, 130),
			4 => 2,
			_ => 61,
		} as usize;
		stats.hit(match len {
			0 => "len0",
			1 => "len1",
			2 => "len2",
			3..=60 => "len3-60",
			61 => "len61",
			_ => "len>61",
		});
		let ts_kind = rng.below(9);
		let diff_kind = rng.below(7);
		let sc_kind = rng.below(5);
		let sec_kind = rng.below(5);
		stats.hit(&format!("ts{}", ts_kind));
		stats.hit(&format!("diff{}", diff_kind));
		let mut ts: u64 = match rng.below(5) {
			0 => rng.below(5000),
			1 => u64::MAX - rng.below(100_000),
			2 => 1 << 63,
			_ => 1_500_000_000 + rng.below(200_000_000),
		};
		let const_gap = rng.range(1, 7200);
		let const_diff = match rng.below(3) {
			0 => rng.range(1, 100),
			1 => rng.next() >> rng.range(1, 63),
			_ => u64::MAX / 3600 + rng.below(1000) - 500,
		};
		let sec_p = rng.below(101);
		let mut w = vec![];
		for i in 0..len {
			let diff = match diff_kind {
				0 => rng.range(0, 5),
				1 => rng.range(1, 1 << 20),
				2 => const_diff,
				3 => u64::MAX / 60 / 60 + rng.below(1 << 40),
				4 => u64::MAX - rng.below(3),
				5 => rng.next() >> rng.range(0, 63),
				_ => 1_000_000 + rng.below(1000),
			};
			let scaling: u32 = match sc_kind {
				0 => ct_weight,
				1 => rng.next() as u32,
				2 => u32::MAX - rng.below(3) as u32,
				3 => rng.below(30) as u32,
				_ => ct_weight.wrapping_add(rng.below(200) as u32),
			};
			let sec = match sec_kind {
				0 => true,
				1 => false,
				_ => rng.below(100) < sec_p,
			};
			w.push(hdi(ts, diff, scaling, sec));
			// next (older) timestamp
			ts = match ts_kind {
				0 => ts.wrapping_sub(60),
				1 => ts,
				2 => ts.wrapping_add(rng.range(1, 100)),
				3 => ts.wrapping_sub(rng.range(0, 1 << 40)),
				4 => ts.wrapping_sub(const_gap),
				5 => ts.wrapping_sub(rng.range(1, 120)),
				6 => {
					if i == 0 {
						// the divisor of the wtema step wraps to zero at this gap
						ts.wrapping_add(consensus::WTEMA_HALF_LIFE - consensus::BLOCK_TIME_SEC)
					} else {
						ts.wrapping_sub(60)
					}
				}
				7 => ts.saturating_sub(rng.range(0, 7200)),
				_ => rng.next() >> rng.range(0, 63),
			};
		}
		w
	}
}

fn run_diff(out: &mut Out, rng: &mut Rng, thorough: bool) {
	let mut stats = Stats(BTreeMap::new());
	// damp / clamp / secondary_pow_ratio
	let n = if thorough { 20000 } else { 3000 };
	let edge_vals: Vec<u64> = vec![
		0,
		1,
		2,
		3,
		12,
		13,
		59,
		60,
		61,
		1799,
		1800,
		1801,
		3599,
		3600,
		3601,
		5400,
		7199,
		7200,
		7201,
		10800,
		u64::MAX,
		u64::MAX - 1,
		u64::MAX / 2,
		u64::MAX / 3,
		u64::MAX / 13,
		u64::MAX - 7200,
		1 << 32,
		1 << 63,
	];
	let pick = |rng: &mut Rng| -> u64 {
		match rng.below(3) {
			0 => *rng.pick(&edge_vals),
			1 => rng.next() >> rng.range(0, 63),
			_ => rng.below(20000),
		}
	};
	for i in 0..n {
		let a = pick(rng);
		let (g, f) = match i % 4 {
			0 => (consensus::BLOCK_TIME_WINDOW, consensus::DMA_DAMP_FACTOR),
			1 => (rng.below(5401), consensus::AR_SCALE_DAMP_FACTOR),
			2 => (pick(rng), rng.below(5)),
			_ => (pick(rng), pick(rng)),
		};
		let r = pc(|| consensus::damp(a, g, f));
		out.line(
			&format!("cons damp {} {} {}", a, g, f),
			&r.map(|x| x.to_string()).unwrap_or("panic".into()),
		);
		let f2 = if i % 4 < 2 { consensus::CLAMP_FACTOR } else { f };
		let r = pc(|| consensus::clamp(a, g, f2));
		out.line(
			&format!("cons clamp {} {} {}", a, g, f2),
			&r.map(|x| x.to_string()).unwrap_or("panic".into()),
		);
	}
	// per chain type: parameters, header versions, graph weights, secondary ratio
	for (ct, cn) in CTS.iter() {
		global::set_local_chain_type(*ct);
		out.line(
			&format!("cons params {}", cn),
			&format!(
				"{} {} {} {} {}",
				global::min_edge_bits(),
				global::base_edge_bits(),
				global::max_block_weight(),
				global::initial_graph_weight(),
				global::min_wtema_graph_weight()
			),
		);
		let hs = heights(*ct, rng, if thorough { 3000 } else { 400 });
		for &h in &hs {
			out.line(
				&format!("cons ratio {}", h),
				&consensus::secondary_pow_ratio(h).to_string(),
			);
			let hv = consensus::header_version(h).0;
			stats.hit(&format!("hv_{}_{}", cn, hv));
			out.line(&format!("cons hv {} {}", cn, h), &hv.to_string());
			for v in [hv.wrapping_sub(1), hv, hv.wrapping_add(1), rng.below(8) as u16] {
				out.line(
					&format!("cons vhv {} {} {}", cn, h, v),
					&consensus::valid_header_version(h, HeaderVersion(v)).to_string(),
				);
			}
			for eb in [
				0u8,
				1,
				9,
				10,
				11,
				15,
				23,
				24,
				29,
				30,
				31,
				32,
				33,
				63,
				64,
				88,
				255,
				rng.below(256) as u8,
			] {
				let r = pc(|| consensus::graph_weight(h, eb));
				out.line(
					&format!("cons gw {} {} {}", cn, h, eb),
					&r.map(|x| x.to_string()).unwrap_or("panic".into()),
				);
			}
		}
		for eb in 0..=255u8 {
			let pw = ProofOfWork {
				total_difficulty: Difficulty::min_dma(),
				secondary_scaling: 1,
				nonce: 0,
				proof: Proof {
					edge_bits: eb,
					nonces: vec![],
				},
			};
			out.line(
				&format!("cons edge {} {}", cn, eb),
				&format!("{} {}", pw.is_primary(), pw.is_secondary()),
			);
		}
		// to_difficulty on real proof hashes
		let nt = if thorough { 3000 } else { 400 };
		for _ in 0..nt {
			let eb = match rng.below(4) {
				0 => 29u8,
				1 => global::min_edge_bits(),
				_ => rng.range(1, 63) as u8,
			};
			let nonces: Vec<u64> = (0..global::proofsize())
				.map(|_| rng.next() & ((1u64 << eb) - 1))
				.collect();
			let proof = Proof {
				edge_bits: eb,
				nonces,
			};
			let scaling = match rng.below(4) {
				0 => 0u32,
				1 => u32::MAX,
				2 => global::initial_graph_weight(),
				_ => rng.next() as u32,
			};
			let h = *rng.pick(&hs);
			let hash64 = match pc(|| proof.hash().to_u64()) {
				Some(x) => x,
				None => continue,
			};
			let pw = ProofOfWork {
				total_difficulty: Difficulty::min_dma(),
				secondary_scaling: scaling,
				nonce: 0,
				proof,
			};
			let r = pc(|| pw.to_difficulty(h).to_num());
			out.line(
				&format!("cons todiff {} {} {} {} {}", cn, h, eb, scaling, hash64),
				&r.map(|x| x.to_string()).unwrap_or("panic".into()),
			);
			out.line(
				&format!("cons unscaled {}", hash64),
				&pw.to_unscaled_difficulty().to_num().to_string(),
			);
		}
		// windows
		let nw = if thorough { 12000 } else { 5000 };
		let w0 = global::initial_graph_weight();
		for i in 0..nw {
			let w = WinGen::window(rng, w0, &mut stats);
			let h = if i % 3 == 0 {
				rng.below(40)
			} else {
				*rng.pick(&hs)
			};
			let ws = show_window(&w);
			let show_res = |r: Option<HeaderDifficultyInfo>| -> String {
				r.map(|x| show_hdi(&x)).unwrap_or("panic".into())
			};
			let r = pc(|| consensus::next_difficulty(h, w.clone()));
			let era = if consensus::header_version(h) < HeaderVersion(5) {
				"dma"
			} else {
				"wtema"
			};
			match &r {
				None => stats.hit(&format!("nd_{}_panic", era)),
				Some(x) => {
					stats.hit(&format!("nd_{}_ok", era));
					let min = if era == "dma" {
						consensus::MIN_DMA_DIFFICULTY
					} else {
						global::min_wtema_graph_weight()
					};
					if x.difficulty.to_num() < min {
						out.raw(&format!(
							"#ORACLE-FAIL C04 next_difficulty below the minimum {}: chain={} height={} window={} result={}",
							min, cn, h, ws, show_hdi(x)
						));
					}
					if x.difficulty.to_num() == min {
						stats.hit(&format!("nd_{}_at_min", era));
					}
					// determinism: same answer when asked again
					let again = pc(|| consensus::next_difficulty(h, w.clone()));
					if again.as_ref() != Some(x) {
						out.raw(&format!(
							"#ORACLE-FAIL C04 next_difficulty not deterministic: chain={} height={} window={}",
							cn, h, ws
						));
					}
				}
			}
			out.line(&format!("cons nd {} {} {}", cn, h, ws), &show_res(r));
			match i % 4 {
				0 => {
					let r = pc(|| consensus::next_dma_difficulty(h, w.clone()));
					out.line(&format!("cons ndma {} {} {}", cn, h, ws), &show_res(r));
				}
				1 => {
					let r = pc(|| consensus::next_wtema_difficulty(h, w.clone()));
					out.line(&format!("cons nwtema {} {}", cn, ws), &show_res(r));
				}
				2 => {
					let r = pc(|| global::difficulty_data_to_vector(w.clone()));
					out.line(
						&format!("cons ddv {} {}", cn, ws),
						&r.map(|x| show_window(&x)).unwrap_or("panic".into()),
					);
				}
				_ => {
					let r = pc(|| consensus::secondary_pow_scaling(h, &w));
					if let Some(x) = r {
						if (x as u64) < consensus::MIN_AR_SCALE {
							stats.hit("sps_truncated_below_min");
						}
					}
					out.line(
						&format!("cons sps {} {}", h, ws),
						&r.map(|x| x.to_string()).unwrap_or("panic".into()),
					);
					out.line(
						&format!("cons arcount {}", ws),
						&consensus::ar_count(h, &w).to_string(),
					);
				}
			}
		}
	}
	// crafted: the `as u32` truncation of secondary_pow_scaling landing below MIN_AR_SCALE
	global::set_local_chain_type(ChainTypes::Mainnet);
	for _ in 0..(if thorough { 400 } else { 60 }) {
		let step = 2 * consensus::YEAR_HEIGHT / 90;
		let h = rng.below(89) * step + rng.below(step);
		let pct = consensus::secondary_pow_ratio(h);
		if pct == 0 {
			continue;
		}
		let nsec = rng.below(61);
		let target = consensus::DMA_WINDOW * pct;
		let adj = consensus::clamp(
			consensus::damp(100 * nsec, target, consensus::AR_SCALE_DAMP_FACTOR),
			target,
			consensus::CLAMP_FACTOR,
		)
		.max(1);
		let want = (1u64 << 32) + rng.below(20);
		let sum = (want * adj + pct - 1) / pct;
		if sum > 60 * (u32::MAX as u64) {
			continue;
		}
		let mut w = vec![];
		let mut left = sum;
		for i in 0..60u64 {
			let s = if i == 59 { left } else { (sum / 60).min(left) };
			if s > u32::MAX as u64 {
				break;
			}
			left -= s;
			w.push(hdi(1_600_000_000 - 60 * i, 1000, s as u32, i < nsec));
		}
		if w.len() != 60 {
			continue;
		}
		let r = pc(|| consensus::secondary_pow_scaling(h, &w));
		if let Some(x) = r {
			if (x as u64) < consensus::MIN_AR_SCALE {
				stats.hit("sps_truncated_below_min");
			}
		}
		out.line(
			&format!("cons sps {} {}", h, show_window(&w)),
			&r.map(|x| x.to_string()).unwrap_or("panic".into()),
		);
	}
	stats.dump(out, "diff");
}

// ---------------------------------------------------------------------------------------------
// chain mode
// ---------------------------------------------------------------------------------------------

fn chain_err_class(e: &grin_chain::Error) -> String {
	use grin_chain::Error as E;
	match e {
		E::StoreErr(se, _) => {
			let d = format!("{:?}", se);
			if d.contains("NotFound") {
				"Orphan".to_string()
			} else {
				"StoreErr".to_string()
			}
		}
		E::Orphan => "Orphan".to_string(),
		_ => {
			let d = format!("{:?}", e);
			if d.contains("TooHeavy") {
				"TooHeavy".to_string()
			} else {
				d.chars().take_while(|c| c.is_alphanumeric()).collect()
			}
		}
	}
}

fn show_hdr(h: &BlockHeader) -> String {
	let h64 = pc(|| h.pow.proof.hash().to_u64()).unwrap_or(0);
	format!(
		"{}:{}:{}:{}:{}:{}:{}:{}:{}",
		h.height,
		h.timestamp.timestamp(),
		h.version.0,
		h.pow.total_difficulty.to_num(),
		h.pow.secondary_scaling,
		h.pow.proof.edge_bits,
		h64,
		h.output_mmr_size,
		h.kernel_mmr_size
	)
}

fn set_ts(h: &mut BlockHeader, ts: i64) {
	h.timestamp = DateTime::<Utc>::from_timestamp(ts, 0).unwrap();
}

/// re-mine the header so that its PoW is valid for its (mutated) contents; returns false if
/// mining is impossible for these contents (e.g. edge bits the solver cannot handle)
fn remine(h: &mut BlockHeader) -> bool {
	let ts = h.timestamp;
	let eb = global::min_edge_bits();
	h.pow.proof.edge_bits = eb;
	let r = pc(|| {
		let mut hh = h.clone();
		pow::pow_size(&mut hh, Difficulty::from_num(1), global::proofsize(), eb).map(|_| hh)
	});
	match r {
		Some(Ok(hh)) => {
			*h = hh;
			h.timestamp == ts
		}
		_ => false,
	}
}

struct Mutant {
	kind: String,
	h: BlockHeader,
	/// a rule other than the cycle verification itself is violated, so the header must be
	/// rejected whatever the verifier says (a header whose PoW does not verify must be rejected
	/// in any case; the oracle adds that from the verifier's own answer)
	must_reject: bool,
}

/// every single-field mutation of a valid next header `v` (parent `prev`, grand-parent hash `gp`)
fn mutants(v: &BlockHeader, prev: &BlockHeader, gp: Option<Hash>, rng: &mut Rng) -> Vec<Mutant> {
	let mut out: Vec<Mutant> = vec![];
	let mut add = |kind: &str, f: &dyn Fn(&mut BlockHeader), remined: bool, must_reject: bool| {
		let mut h = v.clone();
		f(&mut h);
		if remined {
			if !remine(&mut h) {
				return;
			}
		}
		out.push(Mutant {
			kind: format!("{}{}", kind, if remined { "+pow" } else { "" }),
			h,
			must_reject,
		});
	};
	let pts = prev.timestamp.timestamp();
	let far = Utc::now().timestamp() + 86_400 * 365;
	let big = rng.range(1 << 20, 1 << 40);
	let rnd_hash = Hash::from_vec(&rng.bytes(32));
	let rnd_hash2 = Hash::from_vec(&rng.bytes(32));
	for remined in [false, true] {
		add("height+1", &|h| h.height += 1, remined, true);
		add("height-1", &|h| h.height = h.height.wrapping_sub(1), remined, true);
		add("height+3", &|h| h.height += 3, remined, true);
		add("ts=prev", &|h| set_ts(h, pts), remined, true);
		add("ts=prev-1", &|h| set_ts(h, pts - 1), remined, true);
		add("ts=prev-14340", &|h| set_ts(h, pts - 14340), remined, true);
		add("ts=0", &|h| set_ts(h, 0), remined, true);
		// a far-future timestamp is not a pipeline rule (only the network decode checks it)
		add("ts=far-future", &|h| set_ts(h, far), remined, false);
		// a different later timestamp with fresh PoW is simply another valid header
		add("ts+1", &|h| set_ts(h, h.timestamp.timestamp() + 1), remined, false);
		add("version+1", &|h| h.version = HeaderVersion(h.version.0 + 1), remined, true);
		add(
			"version-1",
			&|h| h.version = HeaderVersion(h.version.0.wrapping_sub(1)),
			remined,
			true,
		);
		add("prev_hash=random", &|h| h.prev_hash = rnd_hash, remined, true);
		if let Some(g) = gp {
			add("prev_hash=grandparent", &|h| h.prev_hash = g, remined, true);
		}
		add("prev_root=random", &|h| h.prev_root = rnd_hash2, remined, true);
		add(
			"total_difficulty+1",
			&|h| h.pow.total_difficulty = Difficulty::from_num(h.pow.total_difficulty.to_num() + 1),
			remined,
			true,
		);
		add(
			"total_difficulty-1",
			&|h| h.pow.total_difficulty = Difficulty::from_num(h.pow.total_difficulty.to_num() - 1),
			remined,
			true,
		);
		add(
			"total_difficulty=prev",
			&|h| h.pow.total_difficulty = prev.pow.total_difficulty,
			remined,
			true,
		);
		add(
			"total_difficulty+big",
			&|h| h.pow.total_difficulty = Difficulty::from_num(h.pow.total_difficulty.to_num() + big),
			remined,
			true,
		);
		// after the last hard fork the scaling field is free (extra nonce bits)
		let sc_must = v.version.0 < 5;
		add(
			"secondary_scaling+1",
			&|h| h.pow.secondary_scaling = h.pow.secondary_scaling.wrapping_add(1),
			remined,
			sc_must,
		);
		add(
			"secondary_scaling-1",
			&|h| h.pow.secondary_scaling = h.pow.secondary_scaling.wrapping_sub(1),
			remined,
			sc_must,
		);
		add(
			"output_mmr_size=prev",
			&|h| h.output_mmr_size = prev.output_mmr_size,
			remined,
			true,
		);
		add(
			"kernel_mmr_size=prev",
			&|h| h.kernel_mmr_size = prev.kernel_mmr_size,
			remined,
			true,
		);
		// size-1 is not a valid MMR size but may still count more leaves than the parent's:
		// header-level validation only requires the leaf counts to grow
		let k1_grows = grin_core::core::pmmr::n_leaves(v.kernel_mmr_size.saturating_sub(1))
			> grin_core::core::pmmr::n_leaves(prev.kernel_mmr_size);
		add(
			"kernel_mmr_size-1",
			&|h| h.kernel_mmr_size = h.kernel_mmr_size.saturating_sub(1),
			remined,
			!k1_grows,
		);
		add("output_mmr_size=0", &|h| h.output_mmr_size = 0, remined, true);
		// more outputs than a block can carry
		add(
			"output_mmr_size+heavy",
			&|h| h.output_mmr_size = grin_core::core::pmmr::insertion_to_pmmr_index(
				grin_core::core::pmmr::n_leaves(h.output_mmr_size) + 40,
			),
			remined,
			true,
		);
	}
	// fields outside the pre-PoW bytes / PoW itself: no re-mining variant
	// (with 8-cycles on 2^10 edges the same nonces form a cycle in the next graph size about
	// once in 256 headers; then the header simply has a valid proof of work)
	add("nonce+1", &|h| h.pow.nonce = h.pow.nonce.wrapping_add(1), false, false);
	add(
		"edge_bits+1",
		&|h| h.pow.proof.edge_bits += 1,
		false,
		false,
	);
	add("edge_bits-1", &|h| h.pow.proof.edge_bits -= 1, false, true);
	add("edge_bits=29", &|h| h.pow.proof.edge_bits = 29, false, false);
	let k = rng.below(v.pow.proof.nonces.len() as u64) as usize;
	add(
		"proof_nonce^1",
		&|h| h.pow.proof.nonces[k] ^= 1,
		false,
		false,
	);
	add(
		"proof_nonce_swap",
		&|h| h.pow.proof.nonces.swap(0, 1),
		false,
		false,
	);
	out
}

struct Node {
	chain: Chain,
}

fn open_chain(dir: &str, genesis: &Block) -> Node {
	let chain = Chain::init(
		dir.to_string(),
		Arc::new(NoopAdapter {}),
		genesis.clone(),
		pow::verify_size,
		false,
		None,
	)
	.unwrap();
	Node { chain }
}

fn build_next(chain: &Chain, kc: &ExtKeychain, n: u32, gap: i64) -> Block {
	let prev = chain.head_header().unwrap();
	let next = consensus::next_difficulty(prev.height + 1, chain.difficulty_iter().unwrap());
	let pk = ExtKeychainPath::new(1, n, 0, 0, 0).to_identifier();
	let reward = libtx::reward::output(kc, &libtx::ProofBuilder::new(kc), &pk, 0, false).unwrap();
	let mut b = Block::new(&prev, &[], next.difficulty, reward).unwrap();
	b.header.timestamp = prev.timestamp + Duration::seconds(gap);
	b.header.pow.secondary_scaling = next.secondary_scaling;
	chain.set_txhashset_roots(&mut b).unwrap();
	let eb = global::min_edge_bits();
	b.header.pow.proof.edge_bits = eb;
	pow::pow_size(&mut b.header, next.difficulty, global::proofsize(), eb).unwrap();
	b
}

/// the window `validate_header` would compute for a header whose parent hash is `prev_hash`
fn window_at(chain: &Chain, prev_hash: Hash) -> Vec<HeaderDifficultyInfo> {
	grin_chain::store::DifficultyIter::from(prev_hash, chain.store()).collect()
}

fn deliver_line(
	out: &mut Out,
	stats: &mut Stats,
	subject: &Chain,
	m: &Mutant,
	valid: &BlockHeader,
	via: &str,
	skip_pow: bool,
	body: Option<&Block>,
) {
	let h = &m.h;
	let prev = subject.get_block_header(&h.prev_hash).ok();
	let window = window_at(subject, h.prev_hash);
	let powok = pc(|| pow::verify_size(h).is_ok()).unwrap_or(false);
	let rootok = h.prev_hash == valid.prev_hash && h.prev_root == valid.prev_root;
	let opts = if skip_pow { Options::SKIP_POW } else { Options::NONE };
	let res = match via {
		"pbh" => pc(|| subject.process_block_header(h, opts).map(|_| ())),
		"sync" => pc(|| {
			let sync_head = subject.header_head().unwrap();
			subject.sync_block_headers(&[h.clone()], sync_head, opts).map(|_| ())
		}),
		_ => pc(|| {
			let mut b = body.unwrap().clone();
			b.header = h.clone();
			subject.process_block(b, opts).map(|_| ())
		}),
	};
	let class = match &res {
		None => "panic".to_string(),
		Some(Ok(())) => "ok".to_string(),
		Some(Err(e)) => chain_err_class(e),
	};
	stats.hit(&format!("res_{}", class));
	stats.hit(&format!("via_{}", via));
	stats.hit(&format!("v{}", valid.version.0));
	if class == "ok" && (m.must_reject || !powok) && !skip_pow {
		out.raw(&format!(
			"#ORACLE-FAIL C04 mutated header accepted via {}: mutation={} valid={} mutated={} prev={}",
			via,
			m.kind,
			show_hdr(valid),
			show_hdr(h),
			prev.as_ref().map(show_hdr).unwrap_or("none".into())
		));
	}
	if class == "panic" {
		out.raw(&format!(
			"#ORACLE-FAIL C04 header pipeline panicked via {}: mutation={} mutated={}",
			via,
			m.kind,
			show_hdr(h)
		));
	}
	out.raw(&format!("# {} {}", via, m.kind));
	out.line(
		&format!(
			"cons {} {} {} {} {} {} {}",
			via,
			if skip_pow { 1 } else { 0 },
			if powok { 1 } else { 0 },
			if rootok { 1 } else { 0 },
			prev.as_ref().map(show_hdr).unwrap_or("none".into()),
			show_hdr(h),
			show_window(&window)
		),
		&class,
	);
}

fn run_chain(out: &mut Out, rng: &mut Rng, thorough: bool) {
	global::set_local_chain_type(ChainTypes::AutomatedTesting);
	let work = std::env::var("VERIF_WORK").unwrap_or_else(|_| "/verif/work/cons-chain.d".to_string());
	let _ = std::fs::remove_dir_all(format!("{}/builder", work));
	let _ = std::fs::remove_dir_all(format!("{}/subject", work));
	std::fs::create_dir_all(&work).unwrap();
	let mut stats = Stats(BTreeMap::new());
	let seed = rng.bytes(32);
	let kc = ExtKeychain::from_seed(&seed, false).unwrap();
	let genesis = {
		let key_id = ExtKeychain::derive_key_id(0, 1, 0, 0, 0);
		let reward =
			libtx::reward::output(&kc, &libtx::ProofBuilder::new(&kc), &key_id, 0, false).unwrap();
		genesis::genesis_dev().with_reward(reward.0, reward.1)
	};
	let builder = open_chain(&format!("{}/builder", work), &genesis);
	let subject = open_chain(&format!("{}/subject", work), &genesis);
	let n_blocks: u32 = if thorough { 75 } else { 26 };
	// heights at which the full mutation set is delivered (every era; all of them in thorough)
	let full_every = if thorough { 1 } else { 1 };
	for n in 1..=n_blocks {
		let gap = match rng.below(6) {
			0 => 1,
			1 => rng.range(2, 30) as i64,
			2 => 60,
			3 => rng.range(61, 600) as i64,
			4 => rng.range(600, 20000) as i64,
			_ => rng.range(30, 120) as i64,
		};
		let b = build_next(&builder.chain, &kc, n, gap);
		let v = b.header.clone();
		let prev = subject.chain.get_block_header(&v.prev_hash).unwrap();
		let gp = if prev.height > 0 { Some(prev.prev_hash) } else { None };
		// the model's DifficultyIter against the real one
		{
			let mut hs = vec![];
			let mut cur = prev.clone();
			loop {
				hs.push(show_hdr(&cur));
				if cur.height == 0 {
					break;
				}
				cur = subject.chain.get_block_header(&cur.prev_hash).unwrap();
			}
			out.line(
				&format!("cons diter [{}]", hs.join(",")),
				&show_window(&window_at(&subject.chain, v.prev_hash)),
			);
		}
		if n % full_every == 0 {
			let ms = mutants(&v, &prev, gp, rng);
			for (i, m) in ms.iter().enumerate() {
				stats.hit(&format!("mut_{}", m.kind));
				// full-block delivery only for headers that must be rejected (a header-valid
				// variant with its body would be a legitimate competing block)
				let via = match (i + n as usize) % 5 {
					0 => "sync",
					1 if m.must_reject || !pc(|| pow::verify_size(&m.h).is_ok()).unwrap_or(false) => "pb",
					_ => "pbh",
				};
				deliver_line(out, &mut stats, &subject.chain, m, &v, via, false, Some(&b));
				if (i + n as usize) % 7 == 3 {
					// the same mutation once more under SKIP_POW (different header hash not needed:
					// a rejected header is not stored; an accepted one short-cuts as known => ok)
					// (a header's hash covers only its proof nonces, so the variant is re-mined:
					// otherwise an accepted SKIP_POW header would sit in the store under the hash
					// of the valid header and short-cut every later delivery as "already known")
					let mut m2 = Mutant {
						kind: format!("{}/skip_pow", m.kind),
						h: m.h.clone(),
						must_reject: false,
					};
					m2.h.pow.nonce = m2.h.pow.nonce.wrapping_add(0x1000_0000);
					if remine(&mut m2.h) {
						deliver_line(out, &mut stats, &subject.chain, &m2, &v, "pbh", true, None);
					}
				}
			}
		}
		// network decode of the valid header and of future-dated / malformed variants
		untrusted_lines(out, &mut stats, &v, rng);
		// finally the valid header and block themselves
		let vm = Mutant {
			kind: "valid".to_string(),
			h: v.clone(),
			must_reject: false,
		};
		deliver_line(out, &mut stats, &subject.chain, &vm, &v, "pbh", false, None);
		let r = subject.chain.process_block(b.clone(), Options::NONE);
		if let Err(e) = &r {
			out.raw(&format!(
				"#ORACLE-FAIL C04 valid block rejected by the subject chain at height {}: {:?}",
				v.height, e
			));
		}
		builder.chain.process_block(b, Options::MINE).unwrap();
		let hh = subject.chain.head().unwrap();
		if hh.height != v.height || hh.last_block_h != v.hash() {
			out.raw(&format!(
				"#ORACLE-FAIL C04 subject head is not the valid block at height {} (head height {})",
				v.height, hh.height
			));
		}
	}
	stats.dump(out, "chain");
}

fn untrusted_lines(out: &mut Out, stats: &mut Stats, v: &BlockHeader, rng: &mut Rng) {
	let ftl = *rng.pick(&[0u64, 300, 720, 100_000]);
	global::set_local_future_time_limit(ftl);
	let now = Utc::now().timestamp();
	let mut cases: Vec<(String, BlockHeader)> = vec![("valid".into(), v.clone())];
	let mut add = |kind: &str, f: &dyn Fn(&mut BlockHeader), remined: bool| {
		let mut h = v.clone();
		f(&mut h);
		if remined && !remine(&mut h) {
			return;
		}
		cases.push((kind.to_string(), h));
	};
	let f1 = now + ftl as i64 + 120;
	let f0 = now + ftl as i64 - 120;
	add("future+pow", &|h| set_ts(h, f1), true);
	add("near-future+pow", &|h| set_ts(h, f0), true);
	add("future", &|h| set_ts(h, f1), false);
	add("version+1+pow", &|h| h.version = HeaderVersion(h.version.0 + 1), true);
	add("version=0+pow", &|h| h.version = HeaderVersion(0), true);
	add("edge_bits-1", &|h| h.pow.proof.edge_bits -= 1, false);
	add("edge_bits=29", &|h| h.pow.proof.edge_bits = 29, false);
	add("nonce+1", &|h| h.pow.nonce += 1, false);
	add(
		"global-weight+pow",
		&|h| h.output_mmr_size = grin_core::core::pmmr::insertion_to_pmmr_index(12 * (h.height + 2)),
		true,
	);
	add(
		"global-weight-ok+pow",
		&|h| h.output_mmr_size = grin_core::core::pmmr::insertion_to_pmmr_index(10 * (h.height + 1)),
		true,
	);
	for (kind, h) in cases {
		let bytes = match ser::ser_vec(&h, ProtocolVersion::local()) {
			Ok(b) => b,
			Err(_) => continue,
		};
		let sizeok = pc(|| pow::verify_size(&h).is_ok()).unwrap_or(false);
		let r = pc(|| {
			ser::deserialize::<UntrustedBlockHeader, _>(
				&mut &bytes[..],
				ProtocolVersion::local(),
				DeserializationMode::default(),
			)
		});
		let class = match r {
			None => "panic".to_string(),
			Some(Ok(_)) => "ok".to_string(),
			Some(Err(ser::Error::InvalidBlockVersion)) => "InvalidBlockVersion".to_string(),
			Some(Err(ser::Error::CorruptedData)) => "CorruptedData".to_string(),
			Some(Err(e)) => format!("Other:{:?}", e).replace(' ', "_"),
		};
		stats.hit(&format!("uhdr_{}", class));
		if class == "ok" && h.timestamp.timestamp() > now + ftl as i64 + 60 {
			out.raw(&format!(
				"#ORACLE-FAIL C04 header beyond the future-time limit decoded from the network: now={} ftl={} hdr={}",
				now, ftl, show_hdr(&h)
			));
		}
		out.raw(&format!("# uhdr {}", kind));
		out.line(
			&format!(
				"cons uhdr auto {} {} {} {}",
				now,
				ftl,
				if sizeok { 1 } else { 0 },
				show_hdr(&h)
			),
			&class,
		);
	}
}

fn main() {
	quiet_panics();
	let args: Vec<String> = std::env::args().collect();
	let mode = args.get(1).map(|s| s.as_str()).unwrap_or("diff");
	let thorough = tier_thorough();
	let mut rng = Rng::new(seed_from_env());
	let mut out = Out::stdout();
	match mode {
		"diff" => run_diff(&mut out, &mut rng, thorough),
		"chain" => run_chain(&mut out, &mut rng, thorough),
		_ => {
			eprintln!("usage: cons diff|chain");
			std::process::exit(2);
		}
	}
	out.flush();
}
