//! C04 correspondence: header rules and difficulty retarget.
//!
//! `cons diff`  — pure functions of consensus.rs / global.rs / pow/types.rs on random and
//!                adversarial inputs (all four chain types, every hard-fork era).
//! `cons chain` — a real `Chain` in `$VERIF_WORK` under AutomatedTesting with real PoW: a valid
//!                chain across all header versions, and every single-field mutation of the next
//!                header delivered through the real pipeline.
//! `cons powsize` — the proof of work is verified on the graph size the header CLAIMS: cycles
//!                solved (by the harness, on explicitly sized contexts) at several small sizes and
//!                relabelled to every edge_bits 1..63, through `pow::verify_size`,
//!                `UntrustedBlockHeader::read` and a real `Chain`; random non-solutions with nonces
//!                spread over the full claimed range (error kinds) on all four chain types.
//! `cons wire`  — every network entry path of a header (bare header, header list, compact block,
//!                full block; `Untrusted*` readers directly and through the real p2p `Codec`)
//!                applies the same network-side header rules.
//!
//! The siphash function lives in a private module of grin_core; the *real source file* is compiled
//! into this binary by path (as in `pow.rs`) for the harness' own cycle rule.
#[allow(dead_code)]
#[path = "/repo/core/src/pow/siphash.rs"]
mod siphash;

use grin_core::consensus::{self, HeaderDifficultyInfo};
use grin_core::core::block::HeaderVersion;
use grin_core::core::hash::Hashed;
use grin_core::global::{self, ChainTypes};
use grin_core::pow::{CuckatooContext, Difficulty, PoWContext, Proof, ProofOfWork};
use chrono::{DateTime, Duration, Utc};
use grin_chain::types::NoopAdapter;
use grin_chain::{Chain, Options};
use grin_core::core::block::UntrustedBlockHeader;
use grin_core::core::hash::Hash;
use grin_core::core::{
	Block, BlockHeader, CompactBlock, Input, Inputs, KernelFeatures, OutputFeatures, Transaction, UntrustedBlock,
	UntrustedCompactBlock,
};
use grin_p2p::msg::{write_message, Headers, Message, Msg, Type};
use grin_p2p::verif_export::{Codec, Tracker};
use std::io::{Read, Write};
use std::net::{Shutdown, TcpListener, TcpStream};
use grin_core::ser::{self, DeserializationMode, ProtocolVersion};
use grin_core::{genesis, libtx, pow};
use grin_keychain::{ExtKeychain, ExtKeychainPath, Keychain};
use gvharness::*;
use std::collections::BTreeMap;
use std::panic::AssertUnwindSafe;
use std::sync::Arc;

pub const CTS: [(ChainTypes, &str); 4] = [
	(ChainTypes::Mainnet, "main"),
	(ChainTypes::Testnet, "test"),
	(ChainTypes::AutomatedTesting, "auto"),
	(ChainTypes::UserTesting, "user"),
];

pub fn hdi(ts: u64, diff: u64, scaling: u32, sec: bool) -> HeaderDifficultyInfo {
	let d = if diff == 0 {
		Difficulty::zero()
	} else {
		Difficulty::from_num(diff)
	};
	HeaderDifficultyInfo::new(None, ts, d, scaling, sec)
}

pub fn show_hdi(h: &HeaderDifficultyInfo) -> String {
	format!(
		"{}:{}:{}:{}",
		h.timestamp,
		h.difficulty.to_num(),
		h.secondary_scaling,
		if h.is_secondary { 1 } else { 0 }
	)
}

pub fn show_window(w: &[HeaderDifficultyInfo]) -> String {
	let parts: Vec<String> = w.iter().map(show_hdi).collect();
	format!("[{}]", parts.join(","))
}

pub struct Stats(pub BTreeMap<String, u64>);
impl Stats {
	pub fn hit(&mut self, k: &str) {
		*self.0.entry(k.to_string()).or_insert(0) += 1;
	}
	pub fn dump(&self, out: &mut Out, title: &str) {
		let parts: Vec<String> = self.0.iter().map(|(k, v)| format!("{}={}", k, v)).collect();
		out.raw(&format!("#STAT {}: {}", title, parts.join(" ")));
	}
}

fn pc<R>(f: impl FnOnce() -> R) -> Option<R> {
	catch(AssertUnwindSafe(f)).ok()
}

/// interesting heights for a chain type: around every hard fork, the u16 wrap of the interval
/// count, the C31 phase-out, secondary-ratio steps, and the u64 edge.
fn heights(ct: ChainTypes, rng: &mut Rng, n_random: usize) -> Vec<u64> {
	let mut v: Vec<u64> = vec![];
	let mut around = |x: u64| {
		for d in 0..=2u64 {
			v.push(x.saturating_sub(2).saturating_add(d));
			v.push(x.saturating_add(d));
		}
	};
	around(0);
	match ct {
		ChainTypes::Mainnet => {
			for k in 1..=6u64 {
				around(k * consensus::HARD_FORK_INTERVAL);
			}
			around(65535 * consensus::HARD_FORK_INTERVAL);
			around(65536 * consensus::HARD_FORK_INTERVAL);
		}
		ChainTypes::Testnet => {
			around(consensus::TESTNET_FIRST_HARD_FORK);
			around(consensus::TESTNET_SECOND_HARD_FORK);
			around(consensus::TESTNET_THIRD_HARD_FORK);
			around(consensus::TESTNET_FOURTH_HARD_FORK);
		}
		_ => {
			for k in 1..=6u64 {
				around(k * consensus::TESTING_HARD_FORK_INTERVAL);
			}
			around(65535 * consensus::TESTING_HARD_FORK_INTERVAL);
			around(65536 * consensus::TESTING_HARD_FORK_INTERVAL);
		}
	}
	around(consensus::YEAR_HEIGHT);
	around(consensus::YEAR_HEIGHT + 30 * consensus::WEEK_HEIGHT);
	around(consensus::YEAR_HEIGHT + 31 * consensus::WEEK_HEIGHT);
	around(2 * consensus::YEAR_HEIGHT);
	let step = 2 * consensus::YEAR_HEIGHT / 90;
	around(step);
	around(45 * step);
	around(89 * step);
	around(90 * step);
	around(u64::MAX);
	around(1 << 32);
	for _ in 0..n_random {
		let bits = rng.range(1, 64);
		v.push(rng.next() >> (64 - bits));
	}
	v
}

struct WinGen;
impl WinGen {
	/// one difficulty window, latest first
	fn window(rng: &mut Rng, ct_weight: u32, stats: &mut Stats) -> Vec<HeaderDifficultyInfo> {
		let len = match rng.below(10) {
			0 => rng.below(4),
			1 => rng.range(4, 59),
			2 => 59 + rng.below(4),
			3 => rng.range(63, 130),
			4 => 2,
			_ => 61,
		} as usize;
		stats.hit(match len {
			0 => "len0",
			1 => "len1",
			2 => "len2",
			3..=60 => "len3-60",
			61 => "len61",
			_ => "len>61",
		});
		let ts_kind = rng.below(9);
		let diff_kind = rng.below(7);
		// 5: scale drifting along the window; 6 / 7: ONE large-scale secondary block at the newest /
		// the oldest end of an otherwise uniform primary window (a scaling window shifted by one header
		// changes the scale sum and the secondary count exactly there)
		let sc_kind = rng.below(8);
		let sec_kind = rng.below(5);
		let drift = rng.range(1, 5000) as u32;
		let big_scale = (1u32 << rng.range(20, 31)) + rng.below(1000) as u32;
		stats.hit(&format!("sc{}", sc_kind));
		stats.hit(&format!("ts{}", ts_kind));
		stats.hit(&format!("diff{}", diff_kind));
		let mut ts: u64 = match rng.below(5) {
			0 => rng.below(5000),
			1 => u64::MAX - rng.below(100_000),
			2 => 1 << 63,
			_ => 1_500_000_000 + rng.below(200_000_000),
		};
		let const_gap = rng.range(1, 7200);
		let const_diff = match rng.below(3) {
			0 => rng.range(1, 100),
			1 => rng.next() >> rng.range(1, 63),
			_ => u64::MAX / 3600 + rng.below(1000) - 500,
		};
		let sec_p = rng.below(101);
		let mut w = vec![];
		for i in 0..len {
			let diff = match diff_kind {
				0 => rng.range(0, 5),
				1 => rng.range(1, 1 << 20),
				2 => const_diff,
				3 => u64::MAX / 60 / 60 + rng.below(1 << 40),
				4 => u64::MAX - rng.below(3),
				5 => rng.next() >> rng.range(0, 63),
				_ => 1_000_000 + rng.below(1000),
			};
			let scaling: u32 = match sc_kind {
				0 => ct_weight,
				1 => rng.next() as u32,
				2 => u32::MAX - rng.below(3) as u32,
				3 => rng.below(30) as u32,
				5 => ct_weight.wrapping_add(drift.wrapping_mul(i as u32)),
				6 => if i == 0 { big_scale } else { ct_weight },
				7 => if i + 1 == len { big_scale } else { ct_weight },
				_ => ct_weight.wrapping_add(rng.below(200) as u32),
			};
			let sec = match (sc_kind, sec_kind) {
				(6, _) => i == 0,
				(7, _) => i + 1 == len,
				(_, 0) => true,
				(_, 1) => false,
				_ => rng.below(100) < sec_p,
			};
			w.push(hdi(ts, diff, scaling, sec));
			// next (older) timestamp
			ts = match ts_kind {
				0 => ts.wrapping_sub(60),
				1 => ts,
				2 => ts.wrapping_add(rng.range(1, 100)),
				3 => ts.wrapping_sub(rng.range(0, 1 << 40)),
				4 => ts.wrapping_sub(const_gap),
				5 => ts.wrapping_sub(rng.range(1, 120)),
				6 => {
					if i == 0 {
						// the divisor of the wtema step wraps to zero at this gap
						ts.wrapping_add(consensus::WTEMA_HALF_LIFE - consensus::BLOCK_TIME_SEC)
					} else {
						ts.wrapping_sub(60)
					}
				}
				7 => ts.saturating_sub(rng.range(0, 7200)),
				_ => rng.next() >> rng.range(0, 63),
			};
		}
		w
	}
}

/// the WTEMA minimum of a chain type as the model's per-chain table has it (`minWtemaGraphWeight`
/// over `Gen/Consts`): `(2 << (edge_bits - base)) * edge_bits` of the chain's smallest graph,
/// `C32_GRAPH_WEIGHT` on Mainnet — computed here without `global.rs`
fn spec_min_wtema(ct: ChainTypes) -> u64 {
	let gw = |eb: u64, base: u64| (2u64 << (eb - base)) * eb;
	match ct {
		ChainTypes::Mainnet => consensus::C32_GRAPH_WEIGHT,
		ChainTypes::Testnet => gw(consensus::SECOND_POW_EDGE_BITS as u64, consensus::BASE_EDGE_BITS as u64),
		ChainTypes::AutomatedTesting => gw(
			global::AUTOMATED_TESTING_MIN_EDGE_BITS as u64,
			global::AUTOMATED_TESTING_MIN_EDGE_BITS as u64,
		),
		ChainTypes::UserTesting => gw(
			global::USER_TESTING_MIN_EDGE_BITS as u64,
			global::USER_TESTING_MIN_EDGE_BITS as u64,
		),
	}
}

/// The clauses "never returns less than the minimum" and "changes by no more than its damping
/// and clamp bounds", evaluated on the implementation's answer for one window (latest first).
/// Returns the violated clause, if any.
fn retarget_oracle(
	ct: ChainTypes,
	era_wtema: bool,
	w: &[HeaderDifficultyInfo],
	r: &HeaderDifficultyInfo,
	stats: &mut Stats,
	cn: &str,
) -> Option<String> {
	let d = r.difficulty.to_num();
	if era_wtema {
		let min = spec_min_wtema(ct);
		if d < min {
			return Some(format!("below the {} WTEMA minimum {}", cn, min));
		}
		if d < consensus::C32_GRAPH_WEIGHT {
			stats.hit(&format!("nd_wtema_below_mainnet_min_{}", cn));
		}
		if w.len() >= 2 && w[0].timestamp >= w[1].timestamp {
			let dt = w[0].timestamp - w[1].timestamp;
			let h = consensus::WTEMA_HALF_LIFE as u128;
			let last = w[0].difficulty.to_num() as u128;
			let den = h - consensus::BLOCK_TIME_SEC as u128 + dt as u128;
			if last * h <= u64::MAX as u128 && den <= u64::MAX as u128 {
				// exact: max(minimum, max(1, last * H / (H - 60 + dt))), hence within
				// [last * H / (H - 60 + dt), last * H / (H - 60)] above the minimum
				let want = std::cmp::max(min as u128, std::cmp::max(1, last * h / den));
				stats.hit("nd_wtema_exact_checked");
				if d as u128 != want {
					return Some(format!(
						"WTEMA step is not max({} minimum {}, last*{}/({}+{})) = {}",
						cn, min, h, h - 60, dt, want
					));
				}
			}
		}
	} else {
		let min = consensus::MIN_DMA_DIFFICULTY;
		if d < min {
			return Some(format!("below the DMA minimum {}", min));
		}
		if !w.is_empty() {
			if let Some(data) = pc(|| global::difficulty_data_to_vector(w.to_vec())) {
				let s: u128 = data.iter().skip(1).map(|x| x.difficulty.to_num() as u128).sum();
				let x = s * consensus::BLOCK_TIME_SEC as u128;
				if x <= u64::MAX as u128 {
					// damp(.., 3) then clamp(.., 2) keep the adjusted span in [BTW/2, 2*BTW]
					let lo = x / (consensus::BLOCK_TIME_WINDOW * consensus::CLAMP_FACTOR) as u128;
					let hi = std::cmp::max(
						min as u128,
						x / (consensus::BLOCK_TIME_WINDOW / consensus::CLAMP_FACTOR) as u128,
					);
					stats.hit("nd_dma_bounds_checked");
					if (d as u128) < lo || (d as u128) > hi {
						return Some(format!(
							"DMA result outside the clamp bounds [{}, {}] (window sum {})",
							lo, hi, s
						));
					}
				}
			}
		}
	}
	None
}

fn run_diff(out: &mut Out, rng: &mut Rng, thorough: bool) {
	let mut stats = Stats(BTreeMap::new());
	// damp / clamp / secondary_pow_ratio
	let n = if thorough { 20000 } else { 3000 };
	let edge_vals: Vec<u64> = vec![
		0,
		1,
		2,
		3,
		12,
		13,
		59,
		60,
		61,
		1799,
		1800,
		1801,
		3599,
		3600,
		3601,
		5400,
		7199,
		7200,
		7201,
		10800,
		u64::MAX,
		u64::MAX - 1,
		u64::MAX / 2,
		u64::MAX / 3,
		u64::MAX / 13,
		u64::MAX - 7200,
		1 << 32,
		1 << 63,
	];
	let pick = |rng: &mut Rng| -> u64 {
		match rng.below(3) {
			0 => *rng.pick(&edge_vals),
			1 => rng.next() >> rng.range(0, 63),
			_ => rng.below(20000),
		}
	};
	for i in 0..n {
		let a = pick(rng);
		let (g, f) = match i % 4 {
			0 => (consensus::BLOCK_TIME_WINDOW, consensus::DMA_DAMP_FACTOR),
			1 => (rng.below(5401), consensus::AR_SCALE_DAMP_FACTOR),
			2 => (pick(rng), rng.below(5)),
			_ => (pick(rng), pick(rng)),
		};
		let r = pc(|| consensus::damp(a, g, f));
		if let Some(x) = r {
			// no overflow: the damped value lies between actual and goal, at least (f-1)/f of goal
			let sum = a as u128 + (f as u128).saturating_sub(1) * g as u128;
			if f >= 1 && sum <= u64::MAX as u128 {
				stats.hit("damp_bounds_checked");
				let lo = (f as u128 - 1) * g as u128 / f as u128;
				if (x as u128) < lo || x > a.max(g) || x < a.min(g) {
					out.raw(&format!(
						"#ORACLE-FAIL C04 damp({}, {}, {}) = {} outside [max({}, min(actual, goal)), max(actual, goal)]",
						a, g, f, x, lo
					));
				}
			}
		}
		out.line(
			&format!("cons damp {} {} {}", a, g, f),
			&r.map(|x| x.to_string()).unwrap_or("panic".into()),
		);
		let f2 = if i % 4 < 2 { consensus::CLAMP_FACTOR } else { f };
		let r = pc(|| consensus::clamp(a, g, f2));
		if let Some(x) = r {
			if f2 >= 1 && (g as u128) * (f2 as u128) <= u64::MAX as u128 {
				stats.hit("clamp_bounds_checked");
				let (lo, hi) = (g / f2, (g / f2).max(g * f2));
				if x < lo || x > hi {
					out.raw(&format!(
						"#ORACLE-FAIL C04 clamp({}, {}, {}) = {} outside [{}, {}]",
						a, g, f2, x, lo, hi
					));
				}
			}
		}
		out.line(
			&format!("cons clamp {} {} {}", a, g, f2),
			&r.map(|x| x.to_string()).unwrap_or("panic".into()),
		);
	}
	// per chain type: parameters, header versions, graph weights, secondary ratio
	for (ct, cn) in CTS.iter() {
		global::set_local_chain_type(*ct);
		out.line(
			&format!("cons params {}", cn),
			&format!(
				"{} {} {} {} {}",
				global::min_edge_bits(),
				global::base_edge_bits(),
				global::max_block_weight(),
				global::initial_graph_weight(),
				global::min_wtema_graph_weight()
			),
		);
		// the per-chain minimum itself
		if global::min_wtema_graph_weight() != spec_min_wtema(*ct) {
			out.raw(&format!(
				"#ORACLE-FAIL C04 min_wtema_graph_weight() on chain {} is {} but the {} minimum is {}",
				cn,
				global::min_wtema_graph_weight(),
				cn,
				spec_min_wtema(*ct)
			));
		}
		let hs = heights(*ct, rng, if thorough { 3000 } else { 400 });
		for &h in &hs {
			out.line(
				&format!("cons ratio {}", h),
				&consensus::secondary_pow_ratio(h).to_string(),
			);
			let hv = consensus::header_version(h).0;
			stats.hit(&format!("hv_{}_{}", cn, hv));
			out.line(&format!("cons hv {} {}", cn, h), &hv.to_string());
			for v in [hv.wrapping_sub(1), hv, hv.wrapping_add(1), rng.below(8) as u16] {
				out.line(
					&format!("cons vhv {} {} {}", cn, h, v),
					&consensus::valid_header_version(h, HeaderVersion(v)).to_string(),
				);
			}
			for eb in [
				0u8,
				1,
				9,
				10,
				11,
				15,
				23,
				24,
				29,
				30,
				31,
				32,
				33,
				63,
				64,
				88,
				255,
				rng.below(256) as u8,
			] {
				let r = pc(|| consensus::graph_weight(h, eb));
				out.line(
					&format!("cons gw {} {} {}", cn, h, eb),
					&r.map(|x| x.to_string()).unwrap_or("panic".into()),
				);
			}
		}
		for eb in 0..=255u8 {
			let pw = ProofOfWork {
				total_difficulty: Difficulty::min_dma(),
				secondary_scaling: 1,
				nonce: 0,
				proof: Proof {
					edge_bits: eb,
					nonces: vec![],
				},
			};
			out.line(
				&format!("cons edge {} {}", cn, eb),
				&format!("{} {}", pw.is_primary(), pw.is_secondary()),
			);
		}
		// to_difficulty on real proof hashes
		let nt = if thorough { 3000 } else { 400 };
		for _ in 0..nt {
			let eb = match rng.below(4) {
				0 => 29u8,
				1 => global::min_edge_bits(),
				_ => rng.range(1, 63) as u8,
			};
			let nonces: Vec<u64> = (0..global::proofsize())
				.map(|_| rng.next() & ((1u64 << eb) - 1))
				.collect();
			let proof = Proof {
				edge_bits: eb,
				nonces,
			};
			let scaling = match rng.below(4) {
				0 => 0u32,
				1 => u32::MAX,
				2 => global::initial_graph_weight(),
				_ => rng.next() as u32,
			};
			let h = *rng.pick(&hs);
			let hash64 = match pc(|| proof.hash().to_u64()) {
				Some(x) => x,
				None => continue,
			};
			let pw = ProofOfWork {
				total_difficulty: Difficulty::min_dma(),
				secondary_scaling: scaling,
				nonce: 0,
				proof,
			};
			let r = pc(|| pw.to_difficulty(h).to_num());
			out.line(
				&format!("cons todiff {} {} {} {} {}", cn, h, eb, scaling, hash64),
				&r.map(|x| x.to_string()).unwrap_or("panic".into()),
			);
			out.line(
				&format!("cons unscaled {}", hash64),
				&pw.to_unscaled_difficulty().to_num().to_string(),
			);
		}
		// windows
		let nw = if thorough { 12000 } else { 5000 };
		let w0 = global::initial_graph_weight();
		for i in 0..nw {
			let w = WinGen::window(rng, w0, &mut stats);
			let h = if i % 3 == 0 {
				rng.below(40)
			} else {
				*rng.pick(&hs)
			};
			let ws = show_window(&w);
			let show_res = |r: Option<HeaderDifficultyInfo>| -> String {
				r.map(|x| show_hdi(&x)).unwrap_or("panic".into())
			};
			let r = pc(|| consensus::next_difficulty(h, w.clone()));
			let era = if consensus::header_version(h) < HeaderVersion(5) {
				"dma"
			} else {
				"wtema"
			};
			match &r {
				None => stats.hit(&format!("nd_{}_panic", era)),
				Some(x) => {
					stats.hit(&format!("nd_{}_ok", era));
					let min = if era == "dma" {
						consensus::MIN_DMA_DIFFICULTY
					} else {
						spec_min_wtema(*ct)
					};
					if let Some(why) = retarget_oracle(*ct, era == "wtema", &w, x, &mut stats, cn) {
						out.raw(&format!(
							"#ORACLE-FAIL C04 next_difficulty {}: chain={} height={} window={} result={}",
							why, cn, h, ws, show_hdi(x)
						));
					}
					if x.difficulty.to_num() == min {
						stats.hit(&format!("nd_{}_at_min", era));
					}
					// determinism: same answer when asked again
					let again = pc(|| consensus::next_difficulty(h, w.clone()));
					if again.as_ref() != Some(x) {
						out.raw(&format!(
							"#ORACLE-FAIL C04 next_difficulty not deterministic: chain={} height={} window={}",
							cn, h, ws
						));
					}
				}
			}
			out.line(&format!("cons nd {} {} {}", cn, h, ws), &show_res(r));
			match i % 4 {
				0 => {
					let r = pc(|| consensus::next_dma_difficulty(h, w.clone()));
					out.line(&format!("cons ndma {} {} {}", cn, h, ws), &show_res(r));
				}
				1 => {
					let r = pc(|| consensus::next_wtema_difficulty(h, w.clone()));
					out.line(&format!("cons nwtema {} {}", cn, ws), &show_res(r));
				}
				2 => {
					let r = pc(|| global::difficulty_data_to_vector(w.clone()));
					out.line(
						&format!("cons ddv {} {}", cn, ws),
						&r.map(|x| show_window(&x)).unwrap_or("panic".into()),
					);
				}
				_ => {
					let r = pc(|| consensus::secondary_pow_scaling(h, &w));
					if let Some(x) = r {
						if (x as u64) < consensus::MIN_AR_SCALE {
							stats.hit("sps_truncated_below_min");
						}
					}
					out.line(
						&format!("cons sps {} {}", h, ws),
						&r.map(|x| x.to_string()).unwrap_or("panic".into()),
					);
					out.line(
						&format!("cons arcount {}", ws),
						&consensus::ar_count(h, &w).to_string(),
					);
				}
			}
		}
	}
	// crafted: WTEMA steps at low difficulties on every chain type — results at and just above
	// each chain's own minimum (on Testnet / the testing chains far below Mainnet's)
	for (ct, cn) in CTS.iter() {
		global::set_local_chain_type(*ct);
		let h0 = match ct {
			ChainTypes::Mainnet => 4 * consensus::HARD_FORK_INTERVAL,
			ChainTypes::Testnet => consensus::TESTNET_FOURTH_HARD_FORK,
			_ => 4 * consensus::TESTING_HARD_FORK_INTERVAL,
		};
		let min = spec_min_wtema(*ct);
		for i in 0..(if thorough { 1500 } else { 300 }) {
			let h = h0 + rng.below(100_000);
			let last = match i % 5 {
				0 => rng.range(1, min.max(2)),
				1 => min + rng.below(50),
				2 => rng.range(min, consensus::C32_GRAPH_WEIGHT + 10),
				3 => rng.range(1, 2 * consensus::C32_GRAPH_WEIGHT),
				_ => rng.next() >> rng.range(30, 63),
			};
			let dt = *rng.pick(&[0u64, 1, 30, 59, 60, 61, 120, 600, 20_000]) + rng.below(3);
			let t0 = 1_600_000_000 + rng.below(1_000_000);
			let mut w = vec![hdi(t0 + dt, last, 0, false), hdi(t0, rng.range(1, 100_000), 0, false)];
			if rng.chance(1, 2) {
				w.push(hdi(t0 - 60, 5, 0, false));
			}
			let ws = show_window(&w);
			let r = pc(|| consensus::next_difficulty(h, w.clone()));
			if let Some(x) = &r {
				stats.hit(&format!("nd_wtema_crafted_{}", cn));
				if x.difficulty.to_num() == min {
					stats.hit(&format!("nd_wtema_crafted_at_min_{}", cn));
				}
				if let Some(why) = retarget_oracle(*ct, true, &w, x, &mut stats, cn) {
					out.raw(&format!(
						"#ORACLE-FAIL C04 next_difficulty {}: chain={} height={} window={} result={}",
						why, cn, h, ws, show_hdi(x)
					));
				}
			}
			out.line(
				&format!("cons nd {} {} {}", cn, h, ws),
				&r.map(|x| show_hdi(&x)).unwrap_or("panic".into()),
			);
		}
	}
	// crafted: the `as u32` truncation of secondary_pow_scaling landing below MIN_AR_SCALE
	global::set_local_chain_type(ChainTypes::Mainnet);
	for _ in 0..(if thorough { 400 } else { 60 }) {
		let step = 2 * consensus::YEAR_HEIGHT / 90;
		let h = rng.below(89) * step + rng.below(step);
		let pct = consensus::secondary_pow_ratio(h);
		if pct == 0 {
			continue;
		}
		let nsec = rng.below(61);
		let target = consensus::DMA_WINDOW * pct;
		let adj = consensus::clamp(
			consensus::damp(100 * nsec, target, consensus::AR_SCALE_DAMP_FACTOR),
			target,
			consensus::CLAMP_FACTOR,
		)
		.max(1);
		let want = (1u64 << 32) + rng.below(20);
		let sum = (want * adj + pct - 1) / pct;
		if sum > 60 * (u32::MAX as u64) {
			continue;
		}
		let mut w = vec![];
		let mut left = sum;
		for i in 0..60u64 {
			let s = if i == 59 { left } else { (sum / 60).min(left) };
			if s > u32::MAX as u64 {
				break;
			}
			left -= s;
			w.push(hdi(1_600_000_000 - 60 * i, 1000, s as u32, i < nsec));
		}
		if w.len() != 60 {
			continue;
		}
		let r = pc(|| consensus::secondary_pow_scaling(h, &w));
		if let Some(x) = r {
			if (x as u64) < consensus::MIN_AR_SCALE {
				stats.hit("sps_truncated_below_min");
			}
		}
		out.line(
			&format!("cons sps {} {}", h, show_window(&w)),
			&r.map(|x| x.to_string()).unwrap_or("panic".into()),
		);
	}
	stats.dump(out, "diff");
}

// ---------------------------------------------------------------------------------------------
// chain mode
// ---------------------------------------------------------------------------------------------

fn chain_err_class(e: &grin_chain::Error) -> String {
	use grin_chain::Error as E;
	match e {
		E::StoreErr(se, _) => {
			let d = format!("{:?}", se);
			if d.contains("NotFound") {
				"Orphan".to_string()
			} else {
				"StoreErr".to_string()
			}
		}
		E::Orphan => "Orphan".to_string(),
		_ => {
			let d = format!("{:?}", e);
			if d.contains("TooHeavy") {
				"TooHeavy".to_string()
			} else {
				d.chars().take_while(|c| c.is_alphanumeric()).collect()
			}
		}
	}
}

fn show_hdr(h: &BlockHeader) -> String {
	let h64 = pc(|| h.pow.proof.hash().to_u64()).unwrap_or(0);
	format!(
		"{}:{}:{}:{}:{}:{}:{}:{}:{}",
		h.height,
		h.timestamp.timestamp(),
		h.version.0,
		h.pow.total_difficulty.to_num(),
		h.pow.secondary_scaling,
		h.pow.proof.edge_bits,
		h64,
		h.output_mmr_size,
		h.kernel_mmr_size
	)
}

/// the timestamp range `read_block_header` accepts (chrono's NaiveDate range at midnight)
fn reader_ts_range() -> (i64, i64) {
	(
		chrono::NaiveDate::MIN.and_hms_opt(0, 0, 0).unwrap().and_utc().timestamp(),
		chrono::NaiveDate::MAX.and_hms_opt(0, 0, 0).unwrap().and_utc().timestamp(),
	)
}

fn set_ts(h: &mut BlockHeader, ts: i64) {
	h.timestamp = DateTime::<Utc>::from_timestamp(ts, 0).unwrap();
}

/// re-mine the header so that its PoW is valid for its (mutated) contents; returns false if
/// mining is impossible for these contents (e.g. edge bits the solver cannot handle)
fn remine(h: &mut BlockHeader) -> bool {
	let ts = h.timestamp;
	let eb = global::min_edge_bits();
	h.pow.proof.edge_bits = eb;
	let r = pc(|| {
		let mut hh = h.clone();
		pow::pow_size(&mut hh, Difficulty::from_num(1), global::proofsize(), eb).map(|_| hh)
	});
	match r {
		Some(Ok(hh)) => {
			*h = hh;
			h.timestamp == ts
		}
		_ => false,
	}
}

struct Mutant {
	kind: String,
	h: BlockHeader,
	/// a rule other than the cycle verification itself is violated, so the header must be
	/// rejected whatever the verifier says (a header whose PoW does not verify must be rejected
	/// in any case; the oracle adds that from the verifier's own answer)
	must_reject: bool,
}

/// every single-field mutation of a valid next header `v` (parent `prev`, grand-parent hash `gp`)
fn mutants(v: &BlockHeader, prev: &BlockHeader, gp: Option<Hash>, rng: &mut Rng) -> Vec<Mutant> {
	let mut out: Vec<Mutant> = vec![];
	let mut add = |kind: &str, f: &dyn Fn(&mut BlockHeader), remined: bool, must_reject: bool| {
		let mut h = v.clone();
		f(&mut h);
		if remined {
			if !remine(&mut h) {
				return;
			}
		}
		out.push(Mutant {
			kind: format!("{}{}", kind, if remined { "+pow" } else { "" }),
			h,
			must_reject,
		});
	};
	let pts = prev.timestamp.timestamp();
	let far = Utc::now().timestamp() + 86_400 * 365;
	let big = rng.range(1 << 20, 1 << 40);
	let rnd_hash = Hash::from_vec(&rng.bytes(32));
	let rnd_hash2 = Hash::from_vec(&rng.bytes(32));
	for remined in [false, true] {
		add("height+1", &|h| h.height += 1, remined, true);
		add("height-1", &|h| h.height = h.height.wrapping_sub(1), remined, true);
		add("height+3", &|h| h.height += 3, remined, true);
		add("ts=prev", &|h| set_ts(h, pts), remined, true);
		add("ts=prev-1", &|h| set_ts(h, pts - 1), remined, true);
		add("ts=prev-14340", &|h| set_ts(h, pts - 14340), remined, true);
		add("ts=0", &|h| set_ts(h, 0), remined, 0 <= pts);
		// timestamps before the unix epoch: the reader accepts them, the future-time limit bounds
		// from above only; "strictly later than the parent" is a comparison of signed seconds
		let (ts_min, ts_max) = reader_ts_range();
		add("ts=-60(1969-12-31T23:59:00)", &|h| set_ts(h, -60), remined, -60 <= pts);
		add("ts=-1", &|h| set_ts(h, -1), remined, -1 <= pts);
		add("ts=-prev", &|h| set_ts(h, -pts), remined, -pts <= pts);
		add("ts=prev-2^32", &|h| set_ts(h, pts - (1i64 << 32)), remined, true);
		add("ts=reader-min", &|h| set_ts(h, ts_min), remined, ts_min <= pts);
		add("ts=reader-min+1day", &|h| set_ts(h, ts_min + 86_400), remined, ts_min + 86_400 <= pts);
		add("ts=reader-max", &|h| set_ts(h, ts_max), remined, ts_max <= pts);
		// a far-future timestamp is not a pipeline rule (only the network decode checks it)
		add("ts=far-future", &|h| set_ts(h, far), remined, false);
		// a different later timestamp with fresh PoW is simply another valid header
		add("ts+1", &|h| set_ts(h, h.timestamp.timestamp() + 1), remined, false);
		add("version+1", &|h| h.version = HeaderVersion(h.version.0 + 1), remined, true);
		add(
			"version-1",
			&|h| h.version = HeaderVersion(h.version.0.wrapping_sub(1)),
			remined,
			true,
		);
		add("prev_hash=random", &|h| h.prev_hash = rnd_hash, remined, true);
		if let Some(g) = gp {
			add("prev_hash=grandparent", &|h| h.prev_hash = g, remined, true);
		}
		add("prev_root=random", &|h| h.prev_root = rnd_hash2, remined, true);
		add(
			"total_difficulty+1",
			&|h| h.pow.total_difficulty = Difficulty::from_num(h.pow.total_difficulty.to_num() + 1),
			remined,
			true,
		);
		add(
			"total_difficulty-1",
			&|h| h.pow.total_difficulty = Difficulty::from_num(h.pow.total_difficulty.to_num() - 1),
			remined,
			true,
		);
		add(
			"total_difficulty=prev",
			&|h| h.pow.total_difficulty = prev.pow.total_difficulty,
			remined,
			true,
		);
		add(
			"total_difficulty+big",
			&|h| h.pow.total_difficulty = Difficulty::from_num(h.pow.total_difficulty.to_num() + big),
			remined,
			true,
		);
		// after the last hard fork the scaling field is free (extra nonce bits)
		let sc_must = v.version.0 < 5;
		add(
			"secondary_scaling+1",
			&|h| h.pow.secondary_scaling = h.pow.secondary_scaling.wrapping_add(1),
			remined,
			sc_must,
		);
		add(
			"secondary_scaling-1",
			&|h| h.pow.secondary_scaling = h.pow.secondary_scaling.wrapping_sub(1),
			remined,
			sc_must,
		);
		add(
			"output_mmr_size=prev",
			&|h| h.output_mmr_size = prev.output_mmr_size,
			remined,
			true,
		);
		add(
			"kernel_mmr_size=prev",
			&|h| h.kernel_mmr_size = prev.kernel_mmr_size,
			remined,
			true,
		);
		// size-1 is not a valid MMR size but may still count more leaves than the parent's:
		// header-level validation only requires the leaf counts to grow
		let k1_grows = grin_core::core::pmmr::n_leaves(v.kernel_mmr_size.saturating_sub(1))
			> grin_core::core::pmmr::n_leaves(prev.kernel_mmr_size);
		add(
			"kernel_mmr_size-1",
			&|h| h.kernel_mmr_size = h.kernel_mmr_size.saturating_sub(1),
			remined,
			!k1_grows,
		);
		add("output_mmr_size=0", &|h| h.output_mmr_size = 0, remined, true);
		// the lower bound on the block weight at the limit: 11 new outputs and 6 new kernels weigh
		// 11*21 + 6*3 = 249 <= 250 (a header the rules allow), one kernel more weighs 252
		{
			let size_for = |leaves: u64| grin_core::core::pmmr::insertion_to_pmmr_index(leaves);
			let po = grin_core::core::pmmr::n_leaves(prev.output_mmr_size);
			let pk = grin_core::core::pmmr::n_leaves(prev.kernel_mmr_size);
			let maxw = global::max_block_weight();
			// the most kernels that still fit beside 11 outputs, and one more
			let k_fit = (maxw.saturating_sub(11 * consensus::OUTPUT_WEIGHT)) / consensus::KERNEL_WEIGHT;
			if k_fit >= 1 {
				add(
					"weight=max-fitting",
					&|h| {
						h.output_mmr_size = size_for(po + 11);
						h.kernel_mmr_size = size_for(pk + k_fit);
					},
					remined,
					false,
				);
				add(
					"weight=first-too-heavy",
					&|h| {
						h.output_mmr_size = size_for(po + 11);
						h.kernel_mmr_size = size_for(pk + k_fit + 1);
					},
					remined,
					true,
				);
			}
		}
		// more outputs than a block can carry
		add(
			"output_mmr_size+heavy",
			&|h| h.output_mmr_size = grin_core::core::pmmr::insertion_to_pmmr_index(
				grin_core::core::pmmr::n_leaves(h.output_mmr_size) + 40,
			),
			remined,
			true,
		);
	}
	// fields outside the pre-PoW bytes / PoW itself: no re-mining variant
	// (with 8-cycles on 2^10 edges the same nonces form a cycle in the next graph size about
	// once in 256 headers; then the header simply has a valid proof of work)
	add("nonce+1", &|h| h.pow.nonce = h.pow.nonce.wrapping_add(1), false, false);
	add(
		"edge_bits+1",
		&|h| h.pow.proof.edge_bits += 1,
		false,
		false,
	);
	add("edge_bits-1", &|h| h.pow.proof.edge_bits -= 1, false, true);
	add("edge_bits=29", &|h| h.pow.proof.edge_bits = 29, false, false);
	let k = rng.below(v.pow.proof.nonces.len() as u64) as usize;
	add(
		"proof_nonce^1",
		&|h| h.pow.proof.nonces[k] ^= 1,
		false,
		false,
	);
	add(
		"proof_nonce_swap",
		&|h| h.pow.proof.nonces.swap(0, 1),
		false,
		false,
	);
	out
}

struct Node {
	chain: Chain,
}

fn open_chain(dir: &str, genesis: &Block) -> Node {
	let chain = Chain::init(
		dir.to_string(),
		Arc::new(NoopAdapter {}),
		genesis.clone(),
		pow::verify_size,
		false,
		None,
	)
	.unwrap();
	Node { chain }
}

fn build_next(chain: &Chain, kc: &ExtKeychain, n: u32, gap: i64) -> Block {
	let prev = chain.head_header().unwrap();
	let next = consensus::next_difficulty(prev.height + 1, chain.difficulty_iter().unwrap());
	let pk = ExtKeychainPath::new(1, n, 0, 0, 0).to_identifier();
	let reward = libtx::reward::output(kc, &libtx::ProofBuilder::new(kc), &pk, 0, false).unwrap();
	let mut b = Block::new(&prev, &[], next.difficulty, reward).unwrap();
	b.header.timestamp = prev.timestamp + Duration::seconds(gap);
	b.header.pow.secondary_scaling = next.secondary_scaling;
	chain.set_txhashset_roots(&mut b).unwrap();
	let eb = global::min_edge_bits();
	b.header.pow.proof.edge_bits = eb;
	pow::pow_size(&mut b.header, next.difficulty, global::proofsize(), eb).unwrap();
	b
}

/// the window `validate_header` would compute for a header whose parent hash is `prev_hash`
fn window_at(chain: &Chain, prev_hash: Hash) -> Vec<HeaderDifficultyInfo> {
	grin_chain::store::DifficultyIter::from(prev_hash, chain.store()).collect()
}

fn deliver_line(
	out: &mut Out,
	stats: &mut Stats,
	subject: &Chain,
	m: &Mutant,
	valid: &BlockHeader,
	via: &str,
	skip_pow: bool,
	body: Option<&Block>,
) {
	let h = &m.h;
	let prev = subject.get_block_header(&h.prev_hash).ok();
	let window = window_at(subject, h.prev_hash);
	let powok = pc(|| pow::verify_size(h).is_ok()).unwrap_or(false);
	let rootok = h.prev_hash == valid.prev_hash && h.prev_root == valid.prev_root;
	let opts = if skip_pow { Options::SKIP_POW } else { Options::NONE };
	let res = match via {
		"pbh" => pc(|| subject.process_block_header(h, opts).map(|_| ())),
		"sync" => pc(|| {
			let sync_head = subject.header_head().unwrap();
			subject.sync_block_headers(&[h.clone()], sync_head, opts).map(|_| ())
		}),
		_ => pc(|| {
			let mut b = body.unwrap().clone();
			b.header = h.clone();
			subject.process_block(b, opts).map(|_| ())
		}),
	};
	let class = match &res {
		None => "panic".to_string(),
		Some(Ok(())) => "ok".to_string(),
		Some(Err(e)) => chain_err_class(e),
	};
	stats.hit(&format!("res_{}", class));
	stats.hit(&format!("via_{}", via));
	stats.hit(&format!("v{}", valid.version.0));
	if class == "ok" && (m.must_reject || !powok) && !skip_pow {
		out.raw(&format!(
			"#ORACLE-FAIL C04 mutated header accepted via {}: mutation={} valid={} mutated={} prev={}",
			via,
			m.kind,
			show_hdr(valid),
			show_hdr(h),
			prev.as_ref().map(show_hdr).unwrap_or("none".into())
		));
	}
	if class == "panic" {
		out.raw(&format!(
			"#ORACLE-FAIL C04 header pipeline panicked via {}: mutation={} mutated={}",
			via,
			m.kind,
			show_hdr(h)
		));
	}
	out.raw(&format!("# {} {}", via, m.kind));
	out.line(
		&format!(
			"cons {} {} {} {} {} {} {}",
			via,
			if skip_pow { 1 } else { 0 },
			if powok { 1 } else { 0 },
			if rootok { 1 } else { 0 },
			prev.as_ref().map(show_hdr).unwrap_or("none".into()),
			show_hdr(h),
			show_window(&window)
		),
		&class,
	);
}

fn run_chain(out: &mut Out, rng: &mut Rng, thorough: bool) {
	global::set_local_chain_type(ChainTypes::AutomatedTesting);
	let work = std::env::var("VERIF_WORK").unwrap_or_else(|_| "/verif/work/cons-chain.d".to_string());
	let _ = std::fs::remove_dir_all(format!("{}/builder", work));
	let _ = std::fs::remove_dir_all(format!("{}/subject", work));
	std::fs::create_dir_all(&work).unwrap();
	let mut stats = Stats(BTreeMap::new());
	// second pass: a chain whose genesis is dated before the unix epoch, so that parents (and the
	// difficulty windows) carry negative timestamps until the chain crosses 1970-01-01
	let passes: Vec<(&str, Option<i64>, u32)> = vec![
		("", None, if thorough { 75 } else { 26 }),
		("-pre-epoch", Some(-700), if thorough { 40 } else { 14 }),
	];
	for (pass, gen_ts, n_blocks) in passes {
	let _ = std::fs::remove_dir_all(format!("{}/builder{}", work, pass));
	let _ = std::fs::remove_dir_all(format!("{}/subject{}", work, pass));
	let seed = rng.bytes(32);
	let kc = ExtKeychain::from_seed(&seed, false).unwrap();
	let genesis = {
		let key_id = ExtKeychain::derive_key_id(0, 1, 0, 0, 0);
		let reward =
			libtx::reward::output(&kc, &libtx::ProofBuilder::new(&kc), &key_id, 0, false).unwrap();
		let mut g = genesis::genesis_dev().with_reward(reward.0, reward.1);
		if let Some(t) = gen_ts {
			set_ts(&mut g.header, t);
		}
		g
	};
	let builder = open_chain(&format!("{}/builder{}", work, pass), &genesis);
	let subject = open_chain(&format!("{}/subject{}", work, pass), &genesis);
	// heights at which the full mutation set is delivered (every era; all of them in thorough)
	let full_every = if thorough { 1 } else { 1 };
	for n in 1..=n_blocks {
		let gap = match rng.below(6) {
			0 => 1,
			1 => rng.range(2, 30) as i64,
			2 => 60,
			3 => rng.range(61, 600) as i64,
			4 => rng.range(600, 20000) as i64,
			_ => rng.range(30, 120) as i64,
		};
		let gap = if gen_ts.is_some() { gap.min(1 + gap % 500) } else { gap };
		let b = build_next(&builder.chain, &kc, n, gap);
		let v = b.header.clone();
		let prev = subject.chain.get_block_header(&v.prev_hash).unwrap();
		stats.hit(if prev.timestamp.timestamp() < 0 { "parent_ts_negative" } else { "parent_ts_nonnegative" });
		if prev.timestamp.timestamp() < 0 && v.timestamp.timestamp() >= 0 {
			stats.hit("valid_block_crosses_epoch");
		}
		let gp = if prev.height > 0 { Some(prev.prev_hash) } else { None };
		// the model's DifficultyIter against the real one
		{
			let mut hs = vec![];
			let mut cur = prev.clone();
			loop {
				hs.push(show_hdr(&cur));
				if cur.height == 0 {
					break;
				}
				cur = subject.chain.get_block_header(&cur.prev_hash).unwrap();
			}
			out.line(
				&format!("cons diter [{}]", hs.join(",")),
				&show_window(&window_at(&subject.chain, v.prev_hash)),
			);
		}
		if n % full_every == 0 {
			let ms = mutants(&v, &prev, gp, rng);
			for (i, m) in ms.iter().enumerate() {
				stats.hit(&format!("mut_{}", m.kind));
				// full-block delivery only for headers that must be rejected (a header-valid
				// variant with its body would be a legitimate competing block)
				let via = match (i + n as usize) % 5 {
					0 => "sync",
					1 if m.must_reject || !pc(|| pow::verify_size(&m.h).is_ok()).unwrap_or(false) => "pb",
					_ => "pbh",
				};
				deliver_line(out, &mut stats, &subject.chain, m, &v, via, false, Some(&b));
				if (i + n as usize) % 7 == 3 {
					// the same mutation once more under SKIP_POW (different header hash not needed:
					// a rejected header is not stored; an accepted one short-cuts as known => ok)
					// (a header's hash covers only its proof nonces, so the variant is re-mined:
					// otherwise an accepted SKIP_POW header would sit in the store under the hash
					// of the valid header and short-cut every later delivery as "already known")
					let mut m2 = Mutant {
						kind: format!("{}/skip_pow", m.kind),
						h: m.h.clone(),
						must_reject: false,
					};
					m2.h.pow.nonce = m2.h.pow.nonce.wrapping_add(0x1000_0000);
					if remine(&mut m2.h) {
						deliver_line(out, &mut stats, &subject.chain, &m2, &v, "pbh", true, None);
					}
				}
			}
		}
		// network decode of the valid header and of future-dated / malformed variants
		untrusted_lines(out, &mut stats, &v, rng);
		// finally the valid header and block themselves
		let vm = Mutant {
			kind: "valid".to_string(),
			h: v.clone(),
			must_reject: false,
		};
		deliver_line(out, &mut stats, &subject.chain, &vm, &v, "pbh", false, None);
		let r = subject.chain.process_block(b.clone(), Options::NONE);
		if let Err(e) = &r {
			out.raw(&format!(
				"#ORACLE-FAIL C04 valid block rejected by the subject chain at height {}: {:?}",
				v.height, e
			));
		}
		builder.chain.process_block(b, Options::MINE).unwrap();
		let hh = subject.chain.head().unwrap();
		if hh.height != v.height || hh.last_block_h != v.hash() {
			out.raw(&format!(
				"#ORACLE-FAIL C04 subject head is not the valid block at height {} (head height {})",
				v.height, hh.height
			));
		}
	}
	}
	stats.dump(out, "chain");
}

// ---------------------------------------------------------------------------------------------
// known mode: mutated copies of ALREADY KNOWN headers (same proof nonces => same hash)
// ---------------------------------------------------------------------------------------------

fn h64(h: &Hash) -> u64 {
	h.to_u64()
}

/// FNV-1a over the full serialisation: stands for every field the rules do not read
fn digest(h: &BlockHeader) -> u64 {
	let bytes = ser::ser_vec(h, ProtocolVersion::local()).unwrap_or_default();
	let mut x: u64 = 0xcbf29ce484222325;
	for b in bytes {
		x ^= b as u64;
		x = x.wrapping_mul(0x100000001b3);
	}
	x
}

fn show_tip(t: &grin_chain::Tip) -> String {
	format!(
		"{}:{}:{}:{}",
		h64(&t.last_block_h),
		h64(&t.prev_block_h),
		t.height,
		t.total_difficulty.to_num()
	)
}

/// `hash:prev:rest` + the rule fields: what `get_block_header` shows
fn show_stored(h: &BlockHeader) -> String {
	format!("{}:{}:{}:{}", h64(&h.hash()), h64(&h.prev_hash), digest(h), show_hdr(h))
}

struct KnownRun {
	stats: Stats,
	/// honest (prev_hash -> prev_root) pairs: the header-MMR root on the path to that parent
	roots: BTreeMap<Vec<u8>, Hash>,
	oracle_fails: u64,
	/// tips of honest headers the subject knows (candidates for the caller's sync head)
	tips: Vec<grin_chain::Tip>,
	sync_calls: u64,
	/// the chain's `pow_verifier` is the constant `Ok` (dbwin mode)
	always_ok: bool,
	/// line domain: `node` (verdicts compared as model observables) or `wnode` (as spec values)
	dom: &'static str,
	/// header tokens carry the header's hash-mode bytes and its prev_root (`rnode` ops)
	full: bool,
}

impl KnownRun {
	fn rootok(&self, h: &BlockHeader) -> bool {
		h.height == 0 || self.roots.get(&h.prev_hash.to_vec()) == Some(&h.prev_root)
	}

	/// a header as delivered, with the answers of the cycle verifier and of the root comparison
	fn fhdr(&self, h: &BlockHeader) -> String {
		let powok = self.always_ok || pc(|| pow::verify_size(h).is_ok()).unwrap_or(false);
		let t = format!(
			"{}:{}:{}:{}:{}:{}",
			h64(&h.hash()),
			h64(&h.prev_hash),
			digest(h),
			if powok { 1 } else { 0 },
			if self.rootok(h) { 1 } else { 0 },
			show_hdr(h)
		);
		if self.full {
			// the header in hash mode (what the header MMR hashes behind the position) and prev_root
			format!("{}:{}:{}", t, hex(&h.pow.proof.pack_nonces()), hex(&h.prev_root.to_vec()))
		} else {
			t
		}
	}

	fn state(&self, out: &mut Out, id: &str, c: &Chain) -> String {
		let s = format!(
			"{} {}",
			show_tip(&c.header_head().unwrap()),
			show_tip(&c.head().unwrap())
		);
		out.line(&format!("cons {} {} state", self.dom, id), &s);
		s
	}

	fn stored(&self, out: &mut Out, id: &str, c: &Chain, hash: &Hash) -> String {
		let s = match c.get_block_header(hash) {
			Ok(h) => show_stored(&h),
			Err(_) => "none".to_string(),
		};
		out.line(&format!("cons {} {} get {}", self.dom, id, h64(hash)), &s);
		s
	}

	fn sync(&mut self, out: &mut Out, id: &str, c: &Chain, opts: Options, batch: &[BlockHeader]) -> String {
		// the caller's sync head: usually header_head, sometimes an older known header (as while
		// a peer's fork is being synced)
		self.sync_calls += 1;
		let sync_head = if !self.tips.is_empty() && self.sync_calls % 4 == 0 {
			self.stats.hit("sync_head_older");
			self.tips[(self.sync_calls / 4) as usize % self.tips.len()].clone()
		} else {
			c.header_head().unwrap()
		};
		let toks: Vec<String> = batch.iter().map(|h| self.fhdr(h)).collect();
		let r = pc(|| c.sync_block_headers(batch, sync_head.clone(), opts));
		let class = match &r {
			None => "panic".to_string(),
			Some(Ok(Some(_))) => "ok:some".to_string(),
			Some(Ok(None)) => "ok:none".to_string(),
			Some(Err(e)) => chain_err_class(e),
		};
		out.line(
			&format!(
				"cons {} {} sync {} {} [{}]",
				self.dom,
				id,
				opts.bits(),
				show_tip(&sync_head),
				toks.join(",")
			),
			&class,
		);
		self.stats.hit(&format!("sync_{}", class));
		class
	}

	fn pbh(&mut self, out: &mut Out, id: &str, c: &Chain, opts: Options, h: &BlockHeader) -> String {
		let r = pc(|| c.process_block_header(h, opts));
		let class = match &r {
			None => "panic".to_string(),
			Some(Ok(())) => "ok".to_string(),
			Some(Err(e)) => chain_err_class(e),
		};
		out.line(
			&format!("cons {} {} pbh {} {}", self.dom, id, opts.bits(), self.fhdr(h)),
			&class,
		);
		self.stats.hit(&format!("pbh_{}", class));
		class
	}

	/// `process_block` of `body` carrying header `h`; `bodyok`: the body belongs to this header
	fn pb(&mut self, out: &mut Out, id: &str, c: &Chain, opts: Options, h: &BlockHeader, body: &Block) -> String {
		let bodyok = digest(h) == digest(&body.header);
		self.pb2(out, id, c, opts, h, body, bodyok)
	}

	/// `bodyok`: the body is valid for this header (roots, sizes, sums)
	#[allow(clippy::too_many_arguments)]
	fn pb2(
		&mut self,
		out: &mut Out,
		id: &str,
		c: &Chain,
		opts: Options,
		h: &BlockHeader,
		body: &Block,
		bodyok: bool,
	) -> String {
		let mut b = body.clone();
		b.header = h.clone();
		let r = pc(|| c.process_block(b, opts).map(|_| ()));
		let class = match &r {
			None => "panic".to_string(),
			Some(Ok(())) => "ok".to_string(),
			Some(Err(e)) => {
				let cl = chain_err_class(e);
				match cl.as_str() {
					"Unfit" | "OldBlock" | "Orphan" | "InvalidBlockHeight" | "InvalidBlockVersion"
					| "InvalidBlockTime" | "InvalidMMRSize" | "TooHeavy" | "LowEdgebits" | "InvalidPow"
					| "DifficultyTooLow" | "WrongTotalDifficulty" | "InvalidScaling" | "InvalidRoot"
					| "Other" | "StoreErr" => cl,
					_ => "Body".to_string(),
				}
			}
		};
		out.line(
			&format!(
				"cons {} {} pb {} {} {}",
				self.dom,
				id,
				opts.bits(),
				if bodyok { 1 } else { 0 },
				self.fhdr(h)
			),
			&class,
		);
		self.stats.hit(&format!("pb_{}", class));
		class
	}

	fn fail(&mut self, out: &mut Out, msg: String) {
		self.oracle_fails += 1;
		out.raw(&format!("#ORACLE-FAIL C04 {}", msg));
	}
}

/// every non-proof single-field mutation of a known header `k` (parent `parent`): the proof
/// nonces are kept, so the hash is `k`'s; each also with a claimed total difficulty above
/// the current `header_head`
fn known_mutants(
	k: &BlockHeader,
	parent: &BlockHeader,
	gp: Option<Hash>,
	hh_td: u64,
	rng: &mut Rng,
) -> Vec<(String, BlockHeader)> {
	let mut base: Vec<(String, BlockHeader)> = vec![];
	let mut add = |kind: &str, f: &dyn Fn(&mut BlockHeader)| {
		let mut h = k.clone();
		f(&mut h);
		base.push((kind.to_string(), h));
	};
	let pts = parent.timestamp.timestamp();
	let far = Utc::now().timestamp() + 86_400 * 365;
	let rh = [
		Hash::from_vec(&rng.bytes(32)),
		Hash::from_vec(&rng.bytes(32)),
		Hash::from_vec(&rng.bytes(32)),
		Hash::from_vec(&rng.bytes(32)),
		Hash::from_vec(&rng.bytes(32)),
	];
	let big = rng.range(1 << 20, 1 << 40);
	add("height+1", &|h| h.height += 1);
	add("height-1", &|h| h.height = h.height.wrapping_sub(1));
	add("ts+1", &|h| set_ts(h, h.timestamp.timestamp() + 1));
	add("ts-1", &|h| set_ts(h, h.timestamp.timestamp() - 1));
	add("ts=prev", &|h| set_ts(h, pts));
	add("ts=far-future", &|h| set_ts(h, far));
	add("version+1", &|h| h.version = HeaderVersion(h.version.0 + 1));
	add("version-1", &|h| h.version = HeaderVersion(h.version.0.wrapping_sub(1)));
	add("prev_hash=random", &|h| h.prev_hash = rh[0]);
	if let Some(g) = gp {
		add("prev_hash=grandparent", &|h| h.prev_hash = g);
	}
	add("prev_root=random", &|h| h.prev_root = rh[1]);
	add("output_root=random", &|h| h.output_root = rh[2]);
	add("range_proof_root=random", &|h| h.range_proof_root = rh[3]);
	add("kernel_root=random", &|h| h.kernel_root = rh[4]);
	add("total_kernel_offset=random", &|h| {
		h.total_kernel_offset = grin_keychain::BlindingFactor::from_slice(&rh[0].to_vec())
	});
	add("total_difficulty+1", &|h| {
		h.pow.total_difficulty = Difficulty::from_num(h.pow.total_difficulty.to_num() + 1)
	});
	add("total_difficulty-1", &|h| {
		h.pow.total_difficulty = Difficulty::from_num(h.pow.total_difficulty.to_num() - 1)
	});
	add("total_difficulty+big", &|h| {
		h.pow.total_difficulty = Difficulty::from_num(h.pow.total_difficulty.to_num() + big)
	});
	add("secondary_scaling+1", &|h| h.pow.secondary_scaling = h.pow.secondary_scaling.wrapping_add(1));
	add("secondary_scaling-1", &|h| h.pow.secondary_scaling = h.pow.secondary_scaling.wrapping_sub(1));
	add("nonce+1", &|h| h.pow.nonce = h.pow.nonce.wrapping_add(1));
	add("output_mmr_size+", &|h| {
		h.output_mmr_size = grin_core::core::pmmr::insertion_to_pmmr_index(
			grin_core::core::pmmr::n_leaves(h.output_mmr_size) + 1,
		)
	});
	add("output_mmr_size=prev", &|h| h.output_mmr_size = parent.output_mmr_size);
	add("kernel_mmr_size+", &|h| {
		h.kernel_mmr_size = grin_core::core::pmmr::insertion_to_pmmr_index(
			grin_core::core::pmmr::n_leaves(h.kernel_mmr_size) + 1,
		)
	});
	add("kernel_mmr_size=prev", &|h| h.kernel_mmr_size = parent.kernel_mmr_size);
	add("output_mmr_size+heavy", &|h| {
		h.output_mmr_size = grin_core::core::pmmr::insertion_to_pmmr_index(
			grin_core::core::pmmr::n_leaves(h.output_mmr_size) + 40,
		)
	});
	let mut out = vec![];
	for (kind, h) in base {
		// the same mutation with a claimed total difficulty above the current header_head
		let mut h2 = h.clone();
		h2.pow.total_difficulty = Difficulty::from_num(hh_td + 1 + rng.below(1000));
		out.push((kind.clone(), h));
		out.push((format!("{}&td>header_head", kind), h2));
	}
	// the claimed total difficulty alone
	let mut h3 = k.clone();
	h3.pow.total_difficulty = Difficulty::from_num(hh_td + 1);
	out.push(("td=header_head+1".to_string(), h3));
	out
}

fn run_known(out: &mut Out, rng: &mut Rng, thorough: bool) {
	global::set_local_chain_type(ChainTypes::AutomatedTesting);
	let work = std::env::var("VERIF_WORK").unwrap_or_else(|_| "/verif/work/cons-known.d".to_string());
	let _ = std::fs::remove_dir_all(&work);
	std::fs::create_dir_all(&work).unwrap();
	let seed = rng.bytes(32);
	let kc = ExtKeychain::from_seed(&seed, false).unwrap();
	let genesis = {
		let key_id = ExtKeychain::derive_key_id(0, 1, 0, 0, 0);
		let reward =
			libtx::reward::output(&kc, &libtx::ProofBuilder::new(&kc), &key_id, 0, false).unwrap();
		genesis::genesis_dev().with_reward(reward.0, reward.1)
	};
	let builder = open_chain(&format!("{}/builder", work), &genesis);
	let subject = open_chain(&format!("{}/subject", work), &genesis).chain;
	let mut kr = KnownRun {
		stats: Stats(BTreeMap::new()),
		roots: BTreeMap::new(),
		oracle_fails: 0,
		tips: vec![],
		sync_calls: 0,
		always_ok: false,
		dom: "node",
		full: false,
	};
	let sid = "s";
	out.line(&format!("cons node {} new {}", sid, kr.fhdr(&genesis.header)), "ok");
	kr.state(out, sid, &subject);
	let n_blocks: u32 = if thorough { 64 } else { 15 };
	// honest main-chain blocks by height (index 0 = genesis) and honest fork siblings (headers)
	let mut blocks: Vec<Block> = vec![genesis.clone()];
	let mut alts: Vec<BlockHeader> = vec![];
	let mut last_fake: Option<BlockHeader> = None;
	let poison_at: Vec<u32> = if thorough { vec![2, 4, 7, 10, 13, 20, 30, 55] } else { vec![4, 9, 13] };
	for n in 1..=n_blocks {
		let gap = match rng.below(5) {
			0 => 1,
			1 => rng.range(2, 30) as i64,
			2 => 60,
			3 => rng.range(61, 600) as i64,
			_ => rng.range(30, 120) as i64,
		};
		let b = build_next(&builder.chain, &kc, n, gap);
		let x = b.header.clone();
		kr.roots.insert(x.prev_hash.to_vec(), x.prev_root);
		// an honest sibling of `b` (another reward key and timestamp): a fork header
		let alt_block = if n >= 2 && rng.chance(1, 2) {
			Some(build_next(&builder.chain, &kc, 1000 + n, gap + 1 + rng.below(50) as i64))
		} else {
			None
		};
		let alt = alt_block.as_ref().map(|a| a.header.clone());
		let parent_of = |h: &BlockHeader, blocks: &Vec<Block>| -> BlockHeader {
			blocks[(h.height - 1) as usize].header.clone()
		};
		// victims: known headers of every kind
		let mut victims: Vec<(&str, BlockHeader)> = vec![];
		let top = (n - 1) as usize; // height of the subject's head
		if top >= 1 {
			victims.push(("head", blocks[top].header.clone()));
		}
		if top >= 2 {
			victims.push(("head-prev", blocks[top - 1].header.clone()));
		}
		if top >= 3 {
			let j = rng.range(1, (top - 2) as u64) as usize;
			victims.push(("deep", blocks[j].header.clone()));
		}
		if top >= 53 {
			// more than 50 below the head: `check_known_store` answers OldBlock instead of Unfit
			let j = rng.range(1, (top - 51) as u64) as usize;
			victims.push(("very-deep", blocks[j].header.clone()));
		}
		if !alts.is_empty() && rng.chance(2, 3) {
			let a = rng.pick(&alts).clone();
			victims.push(("fork", a));
		}
		// (a) the mutated copy as the last header of a batch that also extends the chain honestly
		if let Some((cat, k)) = victims.first().cloned() {
			let parent = parent_of(&k, &blocks);
			let gp = if parent.height > 0 { Some(parent.prev_hash) } else { None };
			let hh = subject.header_head().unwrap();
			let ms = known_mutants(&k, &parent, gp, hh.total_difficulty.to_num(), rng);
			for (kind, m) in ms.iter() {
				let before = (kr.state(out, sid, &subject), kr.stored(out, sid, &subject, &k.hash()));
				out.raw(&format!("# known {} {} after-new", cat, kind));
				let mut batch = vec![];
				if rng.chance(1, 3) {
					batch.push(blocks[top].header.clone());
				}
				batch.push(x.clone());
				batch.push(m.clone());
				let class = kr.sync(out, sid, &subject, Options::NONE, &batch);
				let after = (kr.state(out, sid, &subject), kr.stored(out, sid, &subject, &k.hash()));
				kr.stats.hit("cfg_after-new");
				if class.starts_with("ok") || class == "panic" {
					kr.fail(out, format!("mutated copy of a known header ({} {}) ending an honest extending batch: {} known={} mutated={}", cat, kind, class, show_stored(&k), show_stored(m)));
				}
				if before != after {
					kr.fail(out, format!("state changed by a rejected batch ending with a mutated known header ({} {}): before={:?} after={:?}", cat, kind, before, after));
				}
				if subject.get_block_header(&x.hash()).is_ok() {
					kr.fail(out, format!("header of a rejected batch was stored ({} {}): {}", cat, kind, show_stored(&x)));
				}
			}
		}
		// the proof of work under every processing option the node uses (and their union): a
		// header whose nonces are made up so that their hash reaches the difficulty but form no
		// cycle, and headers with other edge bits, must be refused whatever the option says
		let opt_sets = [
			(Options::NONE, "NONE"),
			(Options::SYNC, "SYNC"),
			(Options::MINE, "MINE"),
			(Options::SYNC | Options::MINE, "SYNC|MINE"),
		];
		{
			let need = x.pow.total_difficulty.to_num() - blocks[top].header.pow.total_difficulty.to_num();
			let eb = x.pow.proof.edge_bits;
			let mut variants: Vec<(String, BlockHeader)> = vec![];
			let mut tried = 0u64;
			for _ in 0..4000 {
				tried += 1;
				let mut set = std::collections::BTreeSet::new();
				while set.len() < global::proofsize() {
					set.insert(rng.below(1u64 << eb));
				}
				let mut h = x.clone();
				h.pow.proof.nonces = set.into_iter().collect();
				if h.pow.to_difficulty(h.height).to_num() >= need
					&& pc(|| pow::verify_size(&h).is_err()).unwrap_or(true)
				{
					variants.push(("fake-nonces".to_string(), h));
					break;
				}
			}
			kr.stats.hit(if variants.is_empty() { "fake_pow_not_found" } else { "fake_pow_found" });
			kr.stats.0.entry("fake_pow_candidates_tried".to_string()).and_modify(|v| *v += tried).or_insert(tried);
			for (kind, nb) in [("edge_bits-1", eb - 1), ("edge_bits+1", eb + 1), ("edge_bits=29", 29u8)] {
				let mut h = x.clone();
				h.pow.proof.edge_bits = nb;
				// (the same nonces are now and then a cycle of the next graph size: a valid proof)
				if pc(|| pow::verify_size(&h).is_err()).unwrap_or(true) {
					variants.push((kind.to_string(), h));
				}
			}
			for (kind, m) in variants.iter() {
				if kind == "fake-nonces" {
					last_fake = Some(m.clone());
				}
				for (o, oname) in opt_sets.iter() {
					for via in ["pbh", "sync", "pb"] {
						let before = kr.state(out, sid, &subject);
						out.raw(&format!("# pow {} {} {}", kind, oname, via));
						kr.stats.hit(&format!("pow_{}_{}_{}", kind, oname, via));
						let class = match via {
							"pbh" => kr.pbh(out, sid, &subject, *o, m),
							"sync" => kr.sync(out, sid, &subject, *o, &[m.clone()]),
							_ => kr.pb(out, sid, &subject, *o, m, &b),
						};
						let after = kr.state(out, sid, &subject);
						if (class != "InvalidPow" && class != "LowEdgebits") || before != after
							|| subject.get_block_header(&m.hash()).is_ok()
						{
							kr.fail(out, format!("header without a valid proof of work ({}) not refused as such under Options::{} via {}: {} needed_difficulty={} proof_difficulty={} hdr={} before={} after={}", kind, oname, via, class, need, m.pow.to_difficulty(m.height).to_num(), show_stored(m), before, after));
						}
					}
				}
			}
		}
		// a NEW header with a wrong prev_root and fresh PoW: the header MMR root is checked when the
		// fork is re-applied (batch path) resp. before the header is applied (single-header path)
		{
			let mut xr = x.clone();
			xr.prev_root = Hash::from_vec(&rng.bytes(32));
			if remine(&mut xr) {
				let before = kr.state(out, sid, &subject);
				out.raw("# new prev_root=random+pow");
				let c1 = kr.sync(out, sid, &subject, Options::NONE, &[xr.clone()]);
				let c2 = kr.pbh(out, sid, &subject, Options::NONE, &xr);
				let c3 = kr.sync(out, sid, &subject, Options::NONE, &[blocks[top].header.clone(), xr.clone()]);
				let after = kr.state(out, sid, &subject);
				kr.stats.hit("new_bad_root");
				if c1.starts_with("ok") || c2.starts_with("ok") || c3.starts_with("ok") || before != after
					|| subject.get_block_header(&xr.hash()).is_ok()
				{
					kr.fail(out, format!("new header with a wrong prev_root accepted or stored: {} {} {} {}", c1, c2, c3, show_stored(&xr)));
				}
			}
		}
		// (b)/(c) the new header (and sometimes its sibling) become known by header only
		let alt_first = rng.chance(1, 2);
		if let (Some(a), true) = (&alt, alt_first) {
			kr.roots.insert(a.prev_hash.to_vec(), a.prev_root);
			kr.pbh(out, sid, &subject, Options::NONE, a);
			kr.state(out, sid, &subject);
		}
		// the honest header and block arrive with NONE, SYNC, MINE in turn (positive control)
		let (main_opts, main_oname) = opt_sets[(n % 3) as usize];
		kr.stats.hit(&format!("honest_main_{}", main_oname));
		let c = if rng.chance(1, 2) && main_opts != Options::MINE {
			kr.sync(out, sid, &subject, main_opts, &[x.clone()])
		} else {
			kr.pbh(out, sid, &subject, main_opts, &x)
		};
		kr.state(out, sid, &subject);
		if !c.starts_with("ok") || subject.get_block_header(&x.hash()).is_err() {
			kr.fail(out, format!("properly mined header refused under Options::{}: {} {}", main_oname, c, show_stored(&x)));
		}
		if let (Some(a), false) = (&alt, alt_first) {
			kr.roots.insert(a.prev_hash.to_vec(), a.prev_root);
			if rng.chance(1, 2) {
				kr.sync(out, sid, &subject, Options::NONE, &[a.clone()]);
			} else {
				kr.pbh(out, sid, &subject, Options::NONE, a);
			}
			kr.state(out, sid, &subject);
		}
		if let Some(a) = &alt {
			alts.push(a.clone());
		}
		victims.push(("header-only", x.clone()));
		blocks.push(b.clone());
		// (d) the sweep: every mutation x every path
		for (cat, k) in victims.iter() {
			let parent = parent_of(k, &blocks);
			let gp = if parent.height > 0 { Some(parent.prev_hash) } else { None };
			let hh = subject.header_head().unwrap();
			let ms = known_mutants(k, &parent, gp, hh.total_difficulty.to_num(), rng);
			kr.stats.hit(&format!("victim_{}", cat));
			kr.stats.hit(&format!("victim_v{}", k.version.0));
			for (kind, m) in ms.iter() {
				kr.stats.hit(&format!("mut_{}", kind.split('&').next().unwrap()));
				if kind.contains("td>") || kind.starts_with("td=") {
					kr.stats.hit("claimed_td_above_header_head");
				}
				for cfg in ["alone", "after-known", "pbh", "pb"] {
					// a fork sibling has no body the harness could send
					if cfg == "pb" && *cat == "fork" {
						continue;
					}
					let before = (kr.state(out, sid, &subject), kr.stored(out, sid, &subject, &k.hash()));
					out.raw(&format!("# known {} {} {}", cat, kind, cfg));
					kr.stats.hit(&format!("cfg_{}", cfg));
					let class = match cfg {
						"alone" => kr.sync(out, sid, &subject, Options::NONE, &[m.clone()]),
						"after-known" => {
							// honest, known headers first: the victim's ancestors or the latest ones
							let mut batch = vec![];
							let kh = k.height as usize;
							if rng.chance(1, 2) && kh >= 2 {
								if kh >= 3 {
									batch.push(blocks[kh - 2].header.clone());
								}
								batch.push(blocks[kh - 1].header.clone());
							} else {
								let t = blocks.len() - 1;
								if t >= 2 {
									batch.push(blocks[t - 1].header.clone());
								}
								batch.push(blocks[t].header.clone());
							}
							batch.push(m.clone());
							kr.sync(out, sid, &subject, Options::NONE, &batch)
						}
						"pbh" => kr.pbh(out, sid, &subject, Options::NONE, m),
						_ => kr.pb(out, sid, &subject, Options::NONE, m, &blocks[k.height as usize]),
					};
					let after = (kr.state(out, sid, &subject), kr.stored(out, sid, &subject, &k.hash()));
					// no path may take it for something new: the batch / block paths must refuse it,
					// the single-header path may answer Ok ("already known") but must change nothing
					if class == "panic" || (class.starts_with("ok") && cfg != "pbh") {
						kr.fail(out, format!("mutated copy of a known header accepted via {} ({} {}): {} known={} mutated={}", cfg, cat, kind, class, show_stored(k), show_stored(m)));
					}
					if before != after {
						kr.fail(out, format!("mutated copy of a known header changed the node via {} ({} {}): known={} mutated={} before={:?} after={:?}", cfg, cat, kind, show_stored(k), show_stored(m), before, after));
					}
				}
			}
			// (e) the unmodified known header again: harmless
			for cfg in ["alone", "after-known", "twice", "pbh", "pb"] {
				if cfg == "pb" && (*cat == "fork" || *cat == "header-only") {
					continue;
				}
				let before = (kr.state(out, sid, &subject), kr.stored(out, sid, &subject, &k.hash()));
				out.raw(&format!("# known {} unmodified {}", cat, cfg));
				kr.stats.hit(&format!("resend_{}", cfg));
				let class = match cfg {
					"alone" => kr.sync(out, sid, &subject, Options::NONE, &[k.clone()]),
					"after-known" if parent.height > 0 => {
						kr.sync(out, sid, &subject, Options::NONE, &[parent.clone(), k.clone()])
					}
					"after-known" => kr.sync(out, sid, &subject, Options::NONE, &[k.clone()]),
					"twice" => kr.sync(out, sid, &subject, Options::NONE, &[k.clone(), k.clone()]),
					"pbh" => kr.pbh(out, sid, &subject, Options::NONE, k),
					_ => kr.pb(out, sid, &subject, Options::NONE, k, &blocks[k.height as usize]),
				};
				let after = (kr.state(out, sid, &subject), kr.stored(out, sid, &subject, &k.hash()));
				if before != after {
					kr.fail(out, format!("re-sending an unmodified known header via {} changed the node ({}): {} before={:?} after={:?}", cfg, cat, show_stored(k), before, after));
				}
				if class == "panic" || (cfg != "pb" && !class.starts_with("ok")) {
					kr.fail(out, format!("re-sending an unmodified known header via {} answered {} ({}): {}", cfg, class, cat, show_stored(k)));
				}
			}
		}
		// (f) a following honest block is still accepted and becomes the head
		let class = kr.pb(out, sid, &subject, main_opts, &x, &b);
		kr.state(out, sid, &subject);
		let hd = subject.head().unwrap();
		if class != "ok" || hd.last_block_h != x.hash() {
			kr.fail(out, format!("honest block at height {} not accepted after the sweep (Options::{}): {} head height {}", x.height, main_oname, class, hd.height));
		}
		// properly mined equal-work siblings of the new head (another timestamp, fresh PoW; the
		// body is valid for them too): accepted with every option through every path
		{
			let mut k = 0i64;
			for (o, oname) in opt_sets.iter().take(3) {
				for via in ["pbh", "sync", "pb"] {
					k += 1;
					let mut hsib = x.clone();
					let t1 = x.timestamp.timestamp() + 100 + k;
					set_ts(&mut hsib, t1);
					if !remine(&mut hsib) {
						continue;
					}
					kr.roots.insert(hsib.prev_hash.to_vec(), hsib.prev_root);
					out.raw(&format!("# pow mined-sibling {} {}", oname, via));
					kr.stats.hit(&format!("pow_mined_{}_{}", oname, via));
					let class = match via {
						"pbh" => kr.pbh(out, sid, &subject, *o, &hsib),
						"sync" => kr.sync(out, sid, &subject, *o, &[hsib.clone()]),
						_ => kr.pb2(out, sid, &subject, *o, &hsib, &b, true),
					};
					kr.state(out, sid, &subject);
					kr.stored(out, sid, &subject, &hsib.hash());
					let hd = subject.head().unwrap();
					if !class.starts_with("ok") || subject.get_block_header(&hsib.hash()).is_err()
						|| hd.last_block_h != x.hash()
					{
						kr.fail(out, format!("properly mined header/block refused (or head moved) under Options::{} via {}: {} {}", oname, via, class, show_stored(&hsib)));
					}
				}
			}
		}
		kr.tips.push(grin_chain::Tip::from_header(&x));
		// the honest sibling as a full block: a fork block with equal work, the head stays
		if let Some(ab) = &alt_block {
			if rng.chance(1, 2) {
				let class = kr.pb(out, sid, &subject, Options::NONE, &ab.header, ab);
				kr.state(out, sid, &subject);
				kr.stats.hit("fork_block");
				let hd = subject.head().unwrap();
				if class != "ok" || hd.last_block_h != x.hash() {
					kr.fail(out, format!("equal-work fork block at height {}: {} head height {}", x.height, class, hd.height));
				}
			}
		}
		builder.chain.process_block(b.clone(), Options::MINE).unwrap();
		// SKIP_POW (a test-only option): the same deliveries on a scratch node, model only
		if poison_at.contains(&n) {
			let pid = format!("p{}", n);
			let pc_ = open_chain(&format!("{}/{}", work, pid), &genesis).chain;
			out.line(&format!("cons node {} new {}", pid, kr.fhdr(&genesis.header)), "ok");
			for blk in blocks.iter().skip(1) {
				kr.pb(out, &pid, &pc_, Options::NONE, &blk.header, blk);
			}
			kr.state(out, &pid, &pc_);
			if let Some(fk) = &last_fake {
				out.raw("# skip_pow fake-nonces SKIP_POW|MINE pbh");
				let c = kr.pbh(out, &pid, &pc_, Options::SKIP_POW | Options::MINE, fk);
				kr.stored(out, &pid, &pc_, &fk.hash());
				kr.stats.hit(&format!("skip_pow_fake_nonces_{}", c));
			}
			let t = blocks.len() - 1;
			let k = blocks[t].header.clone();
			let hh_td = pc_.header_head().unwrap().total_difficulty.to_num();
			// the header_head itself with a larger claimed total difficulty
			let mut m = k.clone();
			m.pow.total_difficulty = Difficulty::from_num(hh_td + rng.range(1, 1 << 30));
			out.raw("# skip_pow known head td>header_head alone");
			let class = kr.sync(out, &pid, &pc_, Options::SKIP_POW, &[m.clone()]);
			kr.state(out, &pid, &pc_);
			kr.stored(out, &pid, &pc_, &m.hash());
			let after = pc_.header_head().unwrap();
			if class.starts_with("ok") && after.total_difficulty.to_num() != hh_td {
				kr.stats.hit("skip_pow_known_hash_moved_header_head");
				out.raw(&format!(
					"# SKIP_POW only: header_head total difficulty {} -> {} by a copy of the known header {} (same proof) known={} mutated={}",
					hh_td,
					after.total_difficulty.to_num(),
					h64(&k.hash()),
					show_stored(&k),
					show_stored(&m)
				));
			}
			// a mid-chain known header with a later timestamp: stored copy replaced, head stays
			if t >= 2 {
				let mut m = blocks[t - 1].header.clone();
				let t1 = m.timestamp.timestamp() + 1;
				set_ts(&mut m, t1);
				out.raw("# skip_pow known mid ts+1 alone");
				kr.sync(out, &pid, &pc_, Options::SKIP_POW, &[m.clone()]);
				kr.state(out, &pid, &pc_);
				kr.stored(out, &pid, &pc_, &m.hash());
			}
			// and through the other two paths
			let mut m2 = k.clone();
			m2.pow.total_difficulty = Difficulty::from_num(after.total_difficulty.to_num() + 5);
			kr.pbh(out, &pid, &pc_, Options::SKIP_POW, &m2);
			kr.state(out, &pid, &pc_);
			kr.stored(out, &pid, &pc_, &m2.hash());
		}
	}
	// tail: batches of several NEW headers (the head must become the LAST one), mixed known / new
	// batches, and a batch whose last header is an honest known one with less work
	{
		let mut tb: Vec<Block> = vec![];
		for i in 0..4u32 {
			let b = build_next(&builder.chain, &kc, n_blocks + 1 + i, rng.range(1, 200) as i64);
			kr.roots.insert(b.header.prev_hash.to_vec(), b.header.prev_root);
			builder.chain.process_block(b.clone(), Options::MINE).unwrap();
			tb.push(b);
		}
		let th: Vec<BlockHeader> = tb.iter().map(|b| b.header.clone()).collect();
		let top = blocks.len() - 1;
		let k = blocks[top].header.clone();
		let parent = blocks[top - 1].header.clone();
		let hh = subject.header_head().unwrap();
		let ms = known_mutants(&k, &parent, Some(parent.prev_hash), hh.total_difficulty.to_num(), rng);
		for (kind, m) in ms.iter() {
			let before = (kr.state(out, sid, &subject), kr.stored(out, sid, &subject, &k.hash()));
			out.raw(&format!("# known head {} after-two-new", kind));
			kr.stats.hit("cfg_after-two-new");
			let class = kr.sync(out, sid, &subject, Options::NONE, &[th[0].clone(), th[1].clone(), m.clone()]);
			let after = (kr.state(out, sid, &subject), kr.stored(out, sid, &subject, &k.hash()));
			if class.starts_with("ok") || class == "panic" || before != after {
				kr.fail(out, format!("mutated copy of a known header after two new honest headers ({}): {} known={} mutated={} before={:?} after={:?}", kind, class, show_stored(&k), show_stored(m), before, after));
			}
			if subject.get_block_header(&th[0].hash()).is_ok() || subject.get_block_header(&th[1].hash()).is_ok() {
				kr.fail(out, format!("headers of a rejected batch were stored ({})", kind));
			}
		}
		let expect_head = |kr: &mut KnownRun, out: &mut Out, what: &str, want: &BlockHeader, class: &str| {
			let hh = subject.header_head().unwrap();
			if !class.starts_with("ok") || hh.last_block_h != want.hash() || hh.height != want.height
				|| hh.total_difficulty != want.pow.total_difficulty
			{
				kr.fail(out, format!("{}: {} header_head={} wanted {}", what, class, show_tip(&hh), show_stored(want)));
			}
		};
		out.raw("# tail: two new headers");
		let c = kr.sync(out, sid, &subject, Options::NONE, &[th[0].clone(), th[1].clone()]);
		kr.state(out, sid, &subject);
		expect_head(&mut kr, out, "batch of two new headers", &th[1], &c);
		out.raw("# tail: known + new");
		let c = kr.sync(out, sid, &subject, Options::NONE, &[th[1].clone(), th[2].clone()]);
		kr.state(out, sid, &subject);
		expect_head(&mut kr, out, "batch known+new", &th[2], &c);
		out.raw("# tail: three known");
		let c = kr.sync(out, sid, &subject, Options::NONE, &[th[0].clone(), th[1].clone(), th[2].clone()]);
		kr.state(out, sid, &subject);
		expect_head(&mut kr, out, "batch of three known headers", &th[2], &c);
		out.raw("# tail: new header, then a known one with less work as the last");
		let c = kr.sync(out, sid, &subject, Options::NONE, &[th[3].clone(), th[1].clone()]);
		kr.state(out, sid, &subject);
		kr.stored(out, sid, &subject, &th[3].hash());
		expect_head(&mut kr, out, "batch ending in a known header with less work", &th[2], &c);
		out.raw("# tail: the extension again, now as the last");
		let c = kr.sync(out, sid, &subject, Options::NONE, &[th[2].clone(), th[3].clone()]);
		kr.state(out, sid, &subject);
		expect_head(&mut kr, out, "batch ending in the heaviest header", &th[3], &c);
		for b in tb.iter() {
			let class = kr.pb(out, sid, &subject, Options::NONE, &b.header, b);
			kr.state(out, sid, &subject);
			if class != "ok" {
				kr.fail(out, format!("honest block at height {} not accepted in the tail: {}", b.header.height, class));
			}
		}
		kr.stats.hit("tail_batches");
	}
	if kr.oracle_fails == 0 {
		kr.stats.hit("oracle_ok");
	}
	kr.stats.dump(out, "known");
}

// ---------------------------------------------------------------------------------------------
// dbwin mode: the difficulty window as the node reads it back from its database
// ---------------------------------------------------------------------------------------------

fn ok_verifier(_: &BlockHeader) -> Result<(), pow::Error> {
	Ok(())
}

/// the true difficulty window behind the last header of `main` (latest first): what the headers
/// SAID when they were delivered, not what any store returns
fn true_window(main: &[BlockHeader]) -> Vec<HeaderDifficultyInfo> {
	let mut w = vec![];
	let mut i = main.len();
	while i > 0 && w.len() < 70 {
		i -= 1;
		let prev_td = if i > 0 { main[i - 1].pow.total_difficulty.to_num() } else { 0 };
		w.push(hdi(
			main[i].timestamp.timestamp() as u64,
			main[i].pow.total_difficulty.to_num() - prev_td,
			main[i].pow.secondary_scaling,
			main[i].pow.proof.edge_bits == consensus::SECOND_POW_EDGE_BITS,
		));
	}
	w
}

/// a header on top of `prev` with the given difficulty step / scaling / edge bits; the proof is a
/// made-up ascending nonce list whose hash gives `to_difficulty >= 2 * diff + 2` (the chain's
/// cycle verifier is the constant Ok); `None` if no such list was found
fn make_db_header(
	rng: &mut Rng,
	prev: &BlockHeader,
	prev_root: Hash,
	diff: u64,
	scaling: u32,
	eb: u8,
	gap: i64,
	reach: bool,
) -> Option<BlockHeader> {
	let mut h = BlockHeader::default();
	h.height = prev.height + 1;
	h.version = consensus::header_version(h.height);
	h.prev_hash = prev.hash();
	h.prev_root = prev_root;
	set_ts(&mut h, prev.timestamp.timestamp() + gap);
	h.output_root = Hash::from_vec(&rng.bytes(32));
	h.kernel_root = Hash::from_vec(&rng.bytes(32));
	h.output_mmr_size = grin_core::core::pmmr::insertion_to_pmmr_index(h.height + 1);
	h.kernel_mmr_size = grin_core::core::pmmr::insertion_to_pmmr_index(h.height + 1);
	h.pow.total_difficulty = Difficulty::from_num(prev.pow.total_difficulty.to_num() + diff);
	// (after the last hard fork the scaling field is free, and a C29 proof is still scaled by it)
	h.pow.secondary_scaling = if h.version.0 >= 5 && eb == consensus::SECOND_POW_EDGE_BITS {
		scaling.max(1856)
	} else {
		scaling
	};
	h.pow.nonce = rng.next();
	h.pow.proof.edge_bits = eb;
	let n = global::proofsize();
	let space = if eb >= 63 { u64::MAX } else { 1u64 << eb };
	if (space as u128) < n as u128 {
		return None;
	}
	for _ in 0..400_000 {
		let mut set = std::collections::BTreeSet::new();
		while set.len() < n {
			set.insert(rng.below(space));
		}
		h.pow.proof.nonces = set.into_iter().collect();
		let d = pc(|| h.pow.to_difficulty(h.height).to_num()).unwrap_or(0);
		if !reach || d >= diff.saturating_mul(2).saturating_add(2) {
			return Some(h);
		}
	}
	None
}

fn run_dbwin(out: &mut Out, rng: &mut Rng, thorough: bool) {
	use grin_core::core::pmmr::{ReadablePMMR, VecBackend, PMMR};
	let work = std::env::var("VERIF_WORK").unwrap_or_else(|_| "/verif/work/cons-dbwin.d".to_string());
	let _ = std::fs::remove_dir_all(&work);
	std::fs::create_dir_all(&work).unwrap();
	let chains: [(ChainTypes, &str, &str, u64, usize); 4] = [
		(ChainTypes::Mainnet, "main", "wm", 1 << 17, if thorough { 400 } else { 150 }),
		(ChainTypes::Testnet, "test", "wt", 1 << 16, if thorough { 300 } else { 120 }),
		(ChainTypes::AutomatedTesting, "auto", "wa", 1000, if thorough { 120 } else { 40 }),
		(ChainTypes::UserTesting, "user", "wu", 3000, if thorough { 120 } else { 40 }),
	];
	for (ct, cn, id, g_td, n_headers) in chains.iter() {
		global::set_local_chain_type(*ct);
		let mut kr = KnownRun {
			stats: Stats(BTreeMap::new()),
			roots: BTreeMap::new(),
			oracle_fails: 0,
			tips: vec![],
			sync_calls: 1,
			always_ok: true,
			dom: "wnode",
			full: false,
		};
		let mut genesis = match ct {
			ChainTypes::Mainnet => genesis::genesis_main(),
			ChainTypes::Testnet => genesis::genesis_test(),
			_ => genesis::genesis_dev(),
		};
		// a moderate starting difficulty, so that made-up proofs reach it and integer effects show
		genesis.header.pow.total_difficulty = Difficulty::from_num(*g_td);
		let chain = match pc(|| {
			Chain::init(
				format!("{}/{}", work, cn),
				Arc::new(NoopAdapter {}),
				genesis.clone(),
				ok_verifier,
				false,
				None,
			)
		}) {
			Some(Ok(c)) => c,
			other => {
				out.raw(&format!(
					"#ORACLE-FAIL C04 dbwin: cannot open a {} chain: {:?}",
					cn,
					other.map(|r| r.err().map(|e| format!("{:?}", e)))
				));
				continue;
			}
		};
		out.line(&format!("cons wnode {} newct {} {}", id, cn, kr.fhdr(&genesis.header)), "ok");
		kr.state(out, id, &chain);
		// the main chain as delivered, and its header MMR kept in memory (for prev_root)
		let mut main: Vec<BlockHeader> = vec![genesis.header.clone()];
		let mut ba = VecBackend::<BlockHeader>::new();
		let mut mmr_size = 0u64;
		{
			let mut p = PMMR::at(&mut ba, mmr_size);
			p.push(&genesis.header).unwrap();
			mmr_size = p.size;
		}
		let min_eb = global::min_edge_bits();
		let primaries: Vec<u8> = match ct {
			ChainTypes::Mainnet | ChainTypes::Testnet => vec![31, 32, 31, 33],
			_ => vec![min_eb, min_eb + 1, 31, 20],
		};
		let second = consensus::SECOND_POW_EDGE_BITS;
		// edge bits along the chain: C29 at height 1, a run of C29, scattered, a run of primaries
		let eb_at = |height: u64, rng: &mut Rng| -> u8 {
			let ph = height % 130;
			if height == 1 || (10..=24).contains(&ph) {
				second
			} else if (40..=58).contains(&ph) {
				*rng.pick(&primaries)
			} else if (70..=75).contains(&ph) {
				second
			} else if rng.chance(3, 10) {
				second
			} else {
				*rng.pick(&primaries)
			}
		};
		let probe_ebs: Vec<u8> = match ct {
			ChainTypes::Mainnet | ChainTypes::Testnet => {
				vec![6, 10, 23, 24, 25, 26, 27, 28, 29, 30, 31, 32, 33, 40, 63]
			}
			ChainTypes::AutomatedTesting => vec![6, 8, 9, 10, 11, 15, 28, 29, 30, 31, 40],
			_ => vec![6, 10, 13, 14, 15, 16, 28, 29, 30, 31, 40],
		};
		let gap_of = |rng: &mut Rng| -> i64 {
			match rng.below(8) {
				0 => 1,
				1 => rng.range(2, 30) as i64,
				2 => 60,
				3 => rng.range(61, 200) as i64,
				4 => rng.range(200, 900) as i64,
				5 => rng.range(900, 4000) as i64,
				_ => rng.range(30, 120) as i64,
			}
		};
		let mut not_found = 0u64;
		while main.len() <= *n_headers {
			let chunk = if main.len() % 7 == 3 { 3usize } else { 1 };
			// build `chunk` correct next headers on the true window (kept in memory)
			let base = main.len();
			let mut built: Vec<BlockHeader> = vec![];
			let mut roots_at: Vec<Hash> = vec![];
			let mut nexts: Vec<HeaderDifficultyInfo> = vec![];
			let mut ok_build = true;
			for _ in 0..chunk {
				let prev = main.last().unwrap().clone();
				let tw = true_window(&main);
				let next = consensus::next_difficulty(prev.height + 1, tw);
				let root = PMMR::at(&mut ba, mmr_size).root().unwrap();
				let eb = eb_at(prev.height + 1, rng);
				let gap = gap_of(rng);
				match make_db_header(rng, &prev, root, next.difficulty.to_num(), next.secondary_scaling, eb, gap, true) {
					Some(h) => {
						kr.roots.insert(h.prev_hash.to_vec(), h.prev_root);
						let mut p = PMMR::at(&mut ba, mmr_size);
						p.push(&h).unwrap();
						mmr_size = p.size;
						kr.stats.hit(if eb == second { "hdr_secondary" } else { "hdr_primary" });
						kr.stats.hit(&format!("hdr_v{}", h.version.0));
						main.push(h.clone());
						built.push(h);
						roots_at.push(root);
						nexts.push(next);
					}
					None => {
						ok_build = false;
						not_found += 1;
						break;
					}
				}
			}
			if !ok_build || built.is_empty() {
				out.raw(&format!("#STAT dbwin {}: no proof reaching the difficulty found at height {}", cn, main.len()));
				main.truncate(base);
				break;
			}
			// (b) off by one in the difficulty step / the secondary scaling of the LAST built header
			let last = built.last().unwrap().clone();
			let lprev = main[main.len() - 2].clone();
			let lnext = nexts.last().unwrap().clone();
			let lroot = *roots_at.last().unwrap();
			let lgap = last.timestamp.timestamp() - lprev.timestamp.timestamp();
			let d0 = lnext.difficulty.to_num();
			let s0 = lnext.secondary_scaling;
			let variants: Vec<(&str, u64, u32, bool)> = vec![
				("difficulty+1", d0 + 1, s0, true),
				("difficulty-1", d0 - 1, s0, true),
				// after the last hard fork the scaling field is free
				("scaling+1", d0, s0.wrapping_add(1), last.version.0 < 5),
				("scaling-1", d0, s0.wrapping_sub(1), last.version.0 < 5),
			];
			let hh_before = chain.header_head().unwrap();
			// (a variant the rules allow is a valid sibling: it is offered after the exact header)
			let mut free_siblings: Vec<BlockHeader> = vec![];
			for (kind, d, sc, must_reject) in variants.iter() {
				if !*must_reject {
					if let Some(m) = make_db_header(rng, &lprev, lroot, *d, *sc, last.pow.proof.edge_bits, lgap + 1, true) {
						free_siblings.push(m);
					}
					continue;
				}
				let m = match make_db_header(rng, &lprev, lroot, *d, *sc, last.pow.proof.edge_bits, lgap, true) {
					Some(m) => m,
					None => continue,
				};
				out.raw(&format!("# dbwin {} height {} {} chunk={}", cn, last.height, kind, chunk));
				kr.stats.hit(&format!("variant_{}", kind));
				let class = if chunk == 1 {
					kr.pbh(out, id, &chain, Options::NONE, &m)
				} else {
					// the wrong header as the last of the chunk, or in the middle of it
					let mut batch: Vec<BlockHeader> = built[..built.len() - 1].to_vec();
					batch.push(m.clone());
					if rng.chance(1, 2) {
						batch.push(last.clone());
						kr.stats.hit("variant_mid_chunk");
					}
					kr.sync(out, id, &chain, Options::NONE, &batch)
				};
				let hh = chain.header_head().unwrap();
				if *must_reject {
					if class.starts_with("ok") || class == "panic" || hh.last_block_h != hh_before.last_block_h
						|| chain.get_block_header(&m.hash()).is_ok()
					{
						kr.fail(out, format!("dbwin {}: header with {} (rule: difficulty {} scaling {}) not refused: {} hdr={} true_window={}", cn, kind, d0, s0, class, show_stored(&m), show_window(&true_window(&main[..main.len() - 1]))));
					}
				} else if !class.starts_with("ok") {
					kr.fail(out, format!("dbwin {}: header with free scaling refused: {} hdr={}", cn, class, show_stored(&m)));
				}
			}
			// (a) exactly the rule's difficulty and scaling: accepted, becomes header_head
			out.raw(&format!("# dbwin {} height {} exact chunk={}", cn, last.height, chunk));
			let class = if chunk == 1 {
				kr.pbh(out, id, &chain, Options::NONE, &last)
			} else {
				kr.stats.hit("chunks");
				kr.sync(out, id, &chain, Options::NONE, &built)
			};
			kr.state(out, id, &chain);
			let hh = chain.header_head().unwrap();
			if !class.starts_with("ok") || hh.last_block_h != last.hash()
				|| hh.total_difficulty != last.pow.total_difficulty
			{
				kr.fail(out, format!("dbwin {}: header with exactly the rule's difficulty {} and scaling {} refused: {} hdr={} true_window={}", cn, d0, s0, class, show_stored(&last), show_window(&true_window(&main[..main.len() - 1]))));
				break;
			}
			for m in free_siblings.iter() {
				out.raw(&format!("# dbwin {} height {} free scaling (version 5)", cn, last.height));
				let class = kr.pbh(out, id, &chain, Options::NONE, m);
				kr.stats.hit("free_scaling_sibling");
				if class != "ok" {
					kr.fail(out, format!("dbwin {}: header with another secondary_scaling after the last hard fork refused: {} hdr={}", cn, class, show_stored(m)));
				}
			}
			// what the store-backed iterator reads back from the new head
			let real: Vec<HeaderDifficultyInfo> = window_at(&chain, last.hash()).into_iter().take(61).collect();
			let want: Vec<HeaderDifficultyInfo> = true_window(&main).into_iter().take(61).collect();
			let (rs, ws) = (show_window(&real), show_window(&want));
			out.line(&format!("cons wnode {} window {}", id, h64(&last.hash())), &rs);
			kr.stats.hit("windows_read_back");
			let nsec = want.iter().filter(|x| x.is_secondary).count();
			kr.stats.hit(&format!(
				"window_secondaries_{}",
				match nsec {
					0 => "0",
					1..=5 => "1-5",
					6..=20 => "6-20",
					21..=40 => "21-40",
					_ => ">40",
				}
			));
			if rs != ws {
				kr.fail(out, format!("dbwin {}: DifficultyIter from the store differs from the headers as delivered at height {}: store={} delivered={}", cn, last.height, rs, ws));
			}
			// edge-bit probes: the same height with other edge bits, otherwise by the rules
			if last.height <= 2 || last.height % 6 == 0 {
				for eb in probe_ebs.iter() {
					let is_sec = *eb == second;
					let is_pri = *eb != second && *eb >= min_eb;
					// (a header that is neither is refused before its difficulty is looked at)
					let m = match make_db_header(rng, &lprev, lroot, d0, s0, *eb, lgap + 1 + (*eb as i64), is_sec || is_pri) {
						Some(m) => m,
						None => {
							kr.stats.hit("probe_no_proof");
							continue;
						}
					};
					out.raw(&format!("# dbwin {} height {} edge_bits={}", cn, last.height, eb));
					let class = kr.pbh(out, id, &chain, Options::NONE, &m);
					kr.stats.hit(&format!("probe_eb{}_{}", eb, class));
					let want_ok = is_sec || is_pri;
					if (want_ok && class != "ok") || (!want_ok && class != "LowEdgebits") {
						kr.fail(out, format!("dbwin {}: header with edge_bits {} ({}) answered {}: hdr={}", cn, eb, if is_sec { "secondary" } else if is_pri { "primary" } else { "neither: LowEdgebits" }, class, show_stored(&m)));
					}
					if !want_ok && chain.get_block_header(&m.hash()).is_ok() {
						kr.fail(out, format!("dbwin {}: header with edge_bits {} stored", cn, eb));
					}
				}
				kr.state(out, id, &chain);
			}
		}
		if not_found > 0 {
			kr.stats.hit("proof_search_gave_up");
		}
		if kr.oracle_fails == 0 {
			kr.stats.hit("oracle_ok");
		}
		kr.stats.0.insert("headers".to_string(), (main.len() - 1) as u64);
		kr.stats.dump(out, &format!("dbwin {}", cn));
	}
}

// ---------------------------------------------------------------------------------------------
// forks mode: the difficulty window and the header MMR of a header are those of ITS OWN ancestors
// ---------------------------------------------------------------------------------------------

/// a header of the harness' header tree
struct TreeHdr {
	h: BlockHeader,
	parent: Option<usize>,
	/// (difficulty, secondary scaling) the rules fixed for it: next_difficulty over its own ancestors
	rule: (u64, u32),
}

/// genesis ..= `i` along the parent links
fn tree_path(tree: &[TreeHdr], i: usize) -> Vec<BlockHeader> {
	let mut v = vec![];
	let mut cur = Some(i);
	while let Some(c) = cur {
		v.push(tree[c].h.clone());
		cur = tree[c].parent;
	}
	v.reverse();
	v
}

/// `wnode <id> hmmr`: the header hash the node's header MMR holds at every height up to header_head
fn hmmr_line(out: &mut Out, id: &str, chain: &Chain) -> Vec<String> {
	let hh = chain.header_head().unwrap();
	let mut v = vec![];
	for i in 0..=hh.height {
		v.push(match pc(|| chain.get_header_by_height(i)) {
			Some(Ok(h)) => h64(&h.hash()).to_string(),
			_ => format!("err@{}", i),
		});
	}
	out.line(&format!("cons wnode {} hmmr", id), &format!("[{}]", v.join(",")));
	v
}

/// a header for the forks run: made-up proof reaching the difficulty (always-Ok verifier), or, with
/// `real`, genuinely mined at the chain's minimum edge bits (real verifier)
#[allow(clippy::too_many_arguments)]
fn forks_header(
	real: bool,
	rng: &mut Rng,
	prev: &BlockHeader,
	root: Hash,
	diff: u64,
	scaling: u32,
	eb: u8,
	gap: i64,
) -> Option<BlockHeader> {
	if !real {
		return make_db_header(rng, prev, root, diff, scaling, eb, gap, true);
	}
	let min_eb = global::min_edge_bits();
	let mut h = make_db_header(rng, prev, root, diff, scaling, min_eb, gap, false)?;
	let ts = h.timestamp;
	let r = pc(|| {
		let mut hh = h.clone();
		pow::pow_size(&mut hh, Difficulty::from_num(diff.max(1)), global::proofsize(), min_eb).map(|_| hh)
	});
	match r {
		Some(Ok(hh)) if hh.timestamp == ts => {
			h = hh;
			Some(h)
		}
		_ => None,
	}
}

fn run_forks(out: &mut Out, rng: &mut Rng, thorough: bool) {
	let work = std::env::var("VERIF_WORK").unwrap_or_else(|_| "/verif/work/cons-forks.d".to_string());
	let _ = std::fs::remove_dir_all(&work);
	std::fs::create_dir_all(&work).unwrap();
	// (chain type, its token, name of the run part, node id, genesis total difficulty, steps,
	//  genesis timestamp override: a tree that starts before the unix epoch and grows across it)
	let mut chains: Vec<(ChainTypes, &str, &str, &str, u64, usize, Option<i64>, &str)> = vec![
		(ChainTypes::Mainnet, "main", "main", "fm", 1 << 17, if thorough { 500 } else { 160 }, None, ""),
		(ChainTypes::AutomatedTesting, "auto", "auto", "fa", 1000, if thorough { 400 } else { 120 }, None, ""),
		(ChainTypes::UserTesting, "user", "user", "fu", 3000, if thorough { 250 } else { 70 }, None, ""),
		(ChainTypes::Mainnet, "main", "main-pre-epoch", "fmn", 1 << 17, if thorough { 250 } else { 70 }, Some(-40000), ""),
		(ChainTypes::AutomatedTesting, "auto", "auto-pre-epoch", "fan", 1000, if thorough { 250 } else { 70 }, Some(-25000), ""),
		// early: most steps grow headers below height 11, so side branches in header versions 1..4
		// (DMA era with the secondary-scaling rule) of the testing chain types
		(ChainTypes::AutomatedTesting, "auto", "auto-early", "fae", 1000, if thorough { 200 } else { 60 }, None, "early"),
		(ChainTypes::UserTesting, "user", "user-early", "fue", 3000, if thorough { 120 } else { 40 }, None, "early"),
		// real: the chain's verifier is pow::verify_size and every header is genuinely mined
		(ChainTypes::AutomatedTesting, "auto", "auto-real-pow", "far", 0, if thorough { 160 } else { 45 }, None, "real"),
	];
	if thorough {
		chains.push((ChainTypes::Testnet, "test", "test", "ft", 1 << 16, 300, None, ""));
	}
	for (ct, ctok, cn, id, g_td, n_steps, gen_ts, mode) in chains.iter() {
		let real = *mode == "real";
		let early = *mode == "early";
		global::set_local_chain_type(*ct);
		let mut kr = KnownRun {
			stats: Stats(BTreeMap::new()),
			roots: BTreeMap::new(),
			oracle_fails: 0,
			tips: vec![],
			sync_calls: 1,
			always_ok: !real,
			dom: "wnode",
			full: false,
		};
		let mut genesis = match ct {
			ChainTypes::Mainnet => genesis::genesis_main(),
			ChainTypes::Testnet => genesis::genesis_test(),
			_ => genesis::genesis_dev(),
		};
		if *g_td > 0 {
			genesis.header.pow.total_difficulty = Difficulty::from_num(*g_td);
		}
		if let Some(t) = gen_ts {
			set_ts(&mut genesis.header, *t);
		}
		let chain = match pc(|| {
			Chain::init(
				format!("{}/{}", work, cn),
				Arc::new(NoopAdapter {}),
				genesis.clone(),
				if real { pow::verify_size } else { ok_verifier },
				false,
				None,
			)
		}) {
			Some(Ok(c)) => c,
			_ => {
				out.raw(&format!("#ORACLE-FAIL C04 forks: cannot open a {} chain", cn));
				continue;
			}
		};
		out.line(&format!("cons wnode {} newct {} {}", id, ctok, kr.fhdr(&genesis.header)), "ok");
		kr.state(out, id, &chain);
		let mut tree: Vec<TreeHdr> = vec![TreeHdr {
			h: genesis.header.clone(),
			parent: None,
			rule: (genesis.header.pow.total_difficulty.to_num(), 0),
		}];
		// the header the rules make header_head: the first delivered one with the most work
		let mut best: usize = 0;
		let min_eb = global::min_edge_bits();
		let second = consensus::SECOND_POW_EDGE_BITS;
		let primaries: Vec<u8> = match ct {
			ChainTypes::Mainnet | ChainTypes::Testnet => vec![31, 32, 33],
			_ => vec![min_eb, min_eb + 1, 31],
		};
		let gap_of = |rng: &mut Rng| -> i64 {
			match rng.below(8) {
				0 => 1,
				1 => rng.range(2, 30) as i64,
				2 => 60,
				3 => rng.range(61, 200) as i64,
				4 => rng.range(200, 900) as i64,
				5 => rng.range(900, 4000) as i64,
				_ => rng.range(30, 120) as i64,
			}
		};
		let mut gave_up = false;
		for step in 0..*n_steps {
			if gave_up {
				break;
			}
			// where to build, how many headers, how they are delivered
			let best_path_len = tree_path(&tree, best).len();
			let (mut parent, len, kind): (usize, usize, &str) = match rng.below(10) {
				0..=3 => (best, rng.range(1, 3) as usize, "extend"),
				4..=7 if best_path_len > 2 => {
					// fork off the best chain `depth` headers below its tip
					let max_depth = (best_path_len - 1).min(if rng.chance(1, 6) { 70 } else { 7 });
					let depth = rng.range(1, max_depth as u64) as usize;
					let mut fp = best;
					for _ in 0..depth {
						fp = tree[fp].parent.unwrap();
					}
					// long enough to overtake about half of the time
					let len = if rng.chance(1, 2) { depth + rng.range(1, 2) as usize } else { rng.range(1, depth as u64 + 1) as usize };
					(fp, len.min(80), "fork")
				}
				8 if tree.len() > 3 => {
					// grow some other header of the tree (an abandoned tip, or an inner header)
					(rng.below(tree.len() as u64) as usize, rng.range(1, 3) as usize, "regrow")
				}
				_ => (best, 1, "extend"),
			};
			let (mut parent, len, kind) = if early && rng.chance(3, 4) {
				let low: Vec<usize> = (0..tree.len()).filter(|i| tree[*i].h.height < 11).collect();
				(*rng.pick(&low), rng.range(1, 3) as usize, "early")
			} else {
				(parent, len, kind)
			};
			let _ = &mut parent;
			kr.stats.hit(&format!("step_{}", kind));
			let chunked = len > 1 && rng.chance(1, 2);
			let mut chunk: Vec<BlockHeader> = vec![];
			let mut chunk_idx: Vec<usize> = vec![];
			for k in 0..len {
				let path = tree_path(&tree, parent);
				let prev = path.last().unwrap().clone();
				let tw = true_window(&path);
				let next = consensus::next_difficulty(prev.height + 1, tw);
				let root = header_mmr_root(&path);
				let eb = if real {
					min_eb
				} else if rng.chance(4, 10) {
					second
				} else {
					*rng.pick(&primaries)
				};
				let gap = gap_of(rng);
				let (d0, s0) = (next.difficulty.to_num(), next.secondary_scaling);
				let exact = match forks_header(real, rng, &prev, root, d0, s0, eb, gap) {
					Some(h) => h,
					None => {
						out.raw(&format!("#STAT forks {}: no proof reaching difficulty {} found at height {}", cn, d0, prev.height + 1));
						gave_up = true;
						break;
					}
				};
				kr.roots.insert(exact.prev_hash.to_vec(), root);
				let v5 = exact.version.0 >= 5;
				// what the rules fixed for OTHER headers of the same height (other ancestors): offered
				// on this parent they must be refused wherever they differ from this branch's values
				let mut wrong: Vec<(String, u64, u32)> = vec![];
				for t in tree.iter() {
					if t.h.height == exact.height && t.parent != Some(parent) {
						let (d, s) = t.rule;
						if d != d0 {
							wrong.push(("other-branch-difficulty".to_string(), d, s0));
						}
						if !v5 && s != s0 {
							wrong.push(("other-branch-scaling".to_string(), d0, s));
						}
					}
				}
				wrong.sort();
				wrong.dedup();
				wrong.truncate(3);
				if rng.chance(1, 3) {
					wrong.push(("difficulty+1".to_string(), d0 + 1, s0));
					wrong.push(("difficulty-1".to_string(), d0 - 1, s0));
					if !v5 {
						wrong.push(("scaling+1".to_string(), d0, s0.wrapping_add(1)));
						wrong.push(("scaling-1".to_string(), d0, s0.wrapping_sub(1)));
					}
				}
				let hh_before = chain.header_head().unwrap();
				// the time rule on signed seconds: not later than the parent (equal, earlier, before
				// the epoch, at the reader's lower bound) with everything else by the rules
				if rng.chance(1, 3) {
					let pts = prev.timestamp.timestamp();
					let mut tvs: Vec<(&str, i64)> = vec![("ts=parent", pts), ("ts=parent-1", pts - 1)];
					if pts >= 0 {
						tvs.push(("ts=-60-on-nonnegative-parent", -60));
						tvs.push(("ts=-parent-1", -pts - 1));
					} else {
						tvs.push(("ts=parent-2^33-both-negative", pts - (1i64 << 33)));
					}
					tvs.push(("ts=reader-min", reader_ts_range().0));
					let pick = tvs[rng.below(tvs.len() as u64) as usize];
					for (tk, t) in [tvs[0], pick].iter() {
						let m = match forks_header(real, rng, &prev, root, d0, s0, eb, *t - pts) {
							Some(m) => m,
							None => continue,
						};
						out.raw(&format!("# forks {} step {} height {} {} parent_ts={}", cn, step, m.height, tk, pts));
						kr.stats.hit(&format!("time_{}", tk));
						kr.stats.hit(if pts < 0 { "time_variant_parent_negative" } else { "time_variant_parent_nonnegative" });
						let class = if chunked && !chunk.is_empty() {
							let mut batch = chunk.clone();
							batch.push(m.clone());
							kr.sync(out, id, &chain, Options::NONE, &batch)
						} else {
							kr.pbh(out, id, &chain, Options::NONE, &m)
						};
						let hh = chain.header_head().unwrap();
						if class != "InvalidBlockTime" || hh.last_block_h != hh_before.last_block_h
							|| chain.get_block_header(&m.hash()).is_ok()
						{
							kr.fail(out, format!("forks {}: header dated {} on a parent dated {} ({}) answered {} instead of InvalidBlockTime: hdr={}", cn, t, pts, tk, class, show_stored(&m)));
						}
					}
				}
				for (wkind, d, s) in wrong.iter() {
					let m = match forks_header(real, rng, &prev, root, *d, *s, eb, gap) {
						Some(m) => m,
						None => continue,
					};
					out.raw(&format!("# forks {} step {} height {} {} (rule: {} {})", cn, step, m.height, wkind, d0, s0));
					kr.stats.hit(&format!("variant_{}", wkind));
					let class = if chunked && !chunk.is_empty() {
						let mut batch = chunk.clone();
						batch.push(m.clone());
						kr.sync(out, id, &chain, Options::NONE, &batch)
					} else if chunked {
						continue;
					} else {
						kr.pbh(out, id, &chain, Options::NONE, &m)
					};
					let hh = chain.header_head().unwrap();
					if class.starts_with("ok") || class == "panic" || hh.last_block_h != hh_before.last_block_h
						|| chain.get_block_header(&m.hash()).is_ok()
					{
						kr.fail(out, format!("forks {}: header on a side branch with {} {}/{} (its own ancestors fix difficulty {} scaling {}) not refused: {} hdr={} own_window={}", cn, wkind, d, s, d0, s0, class, show_stored(&m), show_window(&true_window(&path))));
					}
					if chunked && !chunk.is_empty() && chain.get_block_header(&chunk[0].hash()).is_ok() {
						kr.fail(out, format!("forks {}: first header of a refused chunk stored: {}", cn, show_stored(&chunk[0])));
					}
				}
				// real proof of work on a side branch: the rules' values with a proof that is no cycle
				// for THIS header's contents
				if real && rng.chance(1, 2) {
					let mut pvs: Vec<(&str, BlockHeader)> = vec![];
					let mut m = exact.clone();
					m.pow.nonce = m.pow.nonce.wrapping_add(1);
					pvs.push(("pow.nonce+1", m));
					let mut m = exact.clone();
					m.pow.proof.edge_bits += 1;
					pvs.push(("edge_bits+1", m));
					if let Some(x) = forks_header(real, rng, &prev, root, d0, s0, eb, gap + 7) {
						// the cycle of another (never delivered) header in this header's fields
						let mut m = exact.clone();
						m.pow.proof = x.pow.proof.clone();
						pvs.push(("proof-of-another-header", m));
					}
					let mut m = exact.clone();
					let k = rng.below(m.pow.proof.nonces.len() as u64) as usize;
					m.pow.proof.nonces[k] ^= 1;
					m.pow.proof.nonces.sort_unstable();
					pvs.push(("proof_nonce^1", m));
					for (pk, m) in pvs.iter() {
						let genuine = pc(|| pow::verify_size(m).is_ok()).unwrap_or(false);
						if genuine {
							// (8 nonces on 2^10 edges: now and then they are a cycle of the other graph too;
							// then it is simply another valid header - not delivered, it would take the hash)
							kr.stats.hit("pow_variant_happens_to_verify");
							continue;
						}
						out.raw(&format!("# forks {} step {} height {} {} verify_size={}", cn, step, m.height, pk, genuine));
						kr.stats.hit(&format!("pow_{}", pk));
						let class = if chunked && !chunk.is_empty() {
							let mut batch = chunk.clone();
							batch.push(m.clone());
							kr.sync(out, id, &chain, Options::NONE, &batch)
						} else {
							kr.pbh(out, id, &chain, Options::NONE, m)
						};
						let hh = chain.header_head().unwrap();
						if !genuine && (class != "InvalidPow" || hh.last_block_h != hh_before.last_block_h) {
							kr.fail(out, format!("forks {}: side-branch header whose proof does not verify ({}) answered {}: hdr={}", cn, pk, class, show_stored(m)));
						}
					}
				}
				// the exact header
				tree.push(TreeHdr {
					h: exact.clone(),
					parent: Some(parent),
					rule: (d0, s0),
				});
				let me = tree.len() - 1;
				parent = me;
				kr.stats.hit(if eb == second { "hdr_secondary" } else { "hdr_primary" });
				kr.stats.hit(&format!("hdr_v{}", exact.version.0));
				if exact.timestamp.timestamp() < 0 {
					kr.stats.hit("hdr_ts_negative");
				} else if prev.timestamp.timestamp() < 0 {
					kr.stats.hit("hdr_crosses_epoch");
				}
				chunk.push(exact.clone());
				chunk_idx.push(me);
				if chunked && k + 1 < len {
					continue;
				}
				// deliver what has been built and not delivered yet
				out.raw(&format!("# forks {} step {} {} height {} {} header(s)", cn, step, kind, exact.height, chunk.len()));
				let old_best = best;
				let class = if chunked {
					kr.stats.hit(&format!("chunk_len_{}", chunk.len()));
					kr.sync(out, id, &chain, Options::NONE, &chunk)
				} else {
					kr.pbh(out, id, &chain, Options::NONE, &exact)
				};
				if !class.starts_with("ok") {
					kr.fail(out, format!("forks {}: header(s) carrying exactly the difficulty and scaling of their own ancestors refused: {} last={} own_window={}", cn, class, show_stored(&exact), show_window(&true_window(&path))));
					gave_up = true;
					break;
				}
				// header_head moves only to a (last) header with strictly more work
				let cand = *chunk_idx.last().unwrap();
				if tree[cand].h.pow.total_difficulty > tree[best].h.pow.total_difficulty {
					best = cand;
				}
				chunk.clear();
				chunk_idx.clear();
				kr.state(out, id, &chain);
				let hh = chain.header_head().unwrap();
				if hh.last_block_h != tree[best].h.hash() || hh.total_difficulty != tree[best].h.pow.total_difficulty {
					kr.fail(out, format!("forks {}: header_head is {} but the most-work delivered header is {}", cn, show_tip(&hh), show_stored(&tree[best].h)));
					gave_up = true;
					break;
				}
				if best != old_best {
					kr.tips.push(grin_chain::Tip::from_header(&tree[best].h));
					let reorg = tree[best].parent != Some(old_best) && {
						// not a plain extension of the old head
						let p = tree_path(&tree, best);
						!p.iter().any(|x| x.hash() == tree[old_best].h.hash())
					};
					if reorg {
						kr.stats.hit("header_reorgs");
						let depth = {
							let pb = tree_path(&tree, best);
							let po = tree_path(&tree, old_best);
							let common = pb.iter().zip(po.iter()).take_while(|(a, b)| a.hash() == b.hash()).count();
							po.len() - common
						};
						kr.stats.hit(&format!(
							"reorg_depth_{}",
							match depth {
								0..=1 => "1",
								2..=3 => "2-3",
								4..=7 => "4-7",
								8..=60 => "8-60",
								_ => ">60",
							}
						));
					}
					if reorg || step % 5 == 0 {
						// the header MMR holds exactly the ancestors of header_head
						let real = hmmr_line(out, id, &chain);
						let want: Vec<String> = tree_path(&tree, best).iter().map(|x| h64(&x.hash()).to_string()).collect();
						kr.stats.hit("hmmr_compared");
						if real != want {
							kr.fail(out, format!("forks {}: the header MMR does not hold the ancestors of header_head after {}: mmr={:?} ancestors={:?}", cn, if reorg { "a reorg" } else { "an extension" }, real, want));
						}
					}
				}
				// the store-backed difficulty iterator from the delivered tip: its OWN ancestors
				let own = tree_path(&tree, me);
				let real: Vec<HeaderDifficultyInfo> = window_at(&chain, exact.hash()).into_iter().take(61).collect();
				let want: Vec<HeaderDifficultyInfo> = true_window(&own).into_iter().take(61).collect();
				let (rs, ws) = (show_window(&real), show_window(&want));
				out.line(&format!("cons wnode {} window {}", id, h64(&exact.hash())), &rs);
				kr.stats.hit(if me == best { "windows_read_back_best" } else { "windows_read_back_side" });
				if rs != ws {
					kr.fail(out, format!("forks {}: DifficultyIter from {} differs from its ancestors as delivered: store={} delivered={}", cn, show_stored(&exact), rs, ws));
				}
			}
		}
		if kr.oracle_fails == 0 {
			kr.stats.hit("oracle_ok");
		}
		kr.stats.0.insert("headers".to_string(), (tree.len() - 1) as u64);
		let leaves = (0..tree.len()).filter(|i| !tree.iter().any(|t| t.parent == Some(*i))).count();
		kr.stats.0.insert("tree_leaves".to_string(), leaves as u64);
		kr.stats.dump(out, &format!("forks {}", cn));
	}
}

// ---------------------------------------------------------------------------------------------
// deny mode: Chain::invalidate_header (the denylist behind ctx.header_allowed)
// ---------------------------------------------------------------------------------------------

fn deny_class(e: &grin_chain::Error) -> String {
	if format!("{:?}", e).contains("denied") {
		"Denied".to_string()
	} else {
		chain_err_class(e)
	}
}

fn run_deny(out: &mut Out, rng: &mut Rng, thorough: bool) {
	global::set_local_chain_type(ChainTypes::AutomatedTesting);
	let work = std::env::var("VERIF_WORK").unwrap_or_else(|_| "/verif/work/cons-deny.d".to_string());
	let _ = std::fs::remove_dir_all(format!("{}/dbuilder", work));
	let _ = std::fs::remove_dir_all(format!("{}/dsubject", work));
	std::fs::create_dir_all(&work).unwrap();
	let mut stats = Stats(BTreeMap::new());
	let kc = ExtKeychain::from_seed(&rng.bytes(32), false).unwrap();
	let genesis = {
		let key_id = ExtKeychain::derive_key_id(0, 1, 0, 0, 0);
		let reward =
			libtx::reward::output(&kc, &libtx::ProofBuilder::new(&kc), &key_id, 0, false).unwrap();
		genesis::genesis_dev().with_reward(reward.0, reward.1)
	};
	let builder = open_chain(&format!("{}/dbuilder", work), &genesis);
	let subject = open_chain(&format!("{}/dsubject", work), &genesis).chain;
	let mut main: Vec<BlockHeader> = vec![genesis.header.clone()];
	let mut fails = 0u64;
	let n_blocks: u32 = if thorough { 40 } else { 16 };
	// deliver a header through one of the three entry points; class of the answer
	let deliver = |via: &str, h: &BlockHeader, body: &Block| -> String {
		let r = match via {
			"pbh" => pc(|| subject.process_block_header(h, Options::NONE).map(|_| ())),
			"sync" => pc(|| {
				let sh = subject.header_head().unwrap();
				subject.sync_block_headers(&[h.clone()], sh, Options::NONE).map(|_| ())
			}),
			_ => pc(|| {
				let mut b = body.clone();
				b.header = h.clone();
				subject.process_block(b, Options::NONE).map(|_| ())
			}),
		};
		match &r {
			None => "panic".to_string(),
			Some(Ok(())) => "ok".to_string(),
			Some(Err(e)) => deny_class(e),
		}
	};
	for n in 1..=n_blocks {
		let gap = rng.range(20, 200) as i64;
		let b = build_next(&builder.chain, &kc, n, gap);
		let v = b.header.clone();
		let prev = main.last().unwrap().clone();
		let window = window_at(&subject, v.prev_hash);
		// the model line of validate_header with / without the denylist flag
		let vh_line = |out: &mut Out, den: bool, h: &BlockHeader, class: &str| {
			let powok = pc(|| pow::verify_size(h).is_ok()).unwrap_or(false);
			out.line(
				&format!(
					"cons vh auto {} 0 {} {} {} {}",
					if den { 1 } else { 0 },
					if powok { 1 } else { 0 },
					show_hdr(&prev),
					show_hdr(h),
					show_window(&window)
				),
				class,
			);
		};
		// (1) a valid new header whose hash was denied beforehand: refused on every entry path
		for (k, via) in ["pbh", "sync", "pb"].iter().enumerate() {
			let mut x = v.clone();
			set_ts(&mut x, v.timestamp.timestamp() + 2 + k as i64);
			if !remine(&mut x) {
				continue;
			}
			let hh0 = subject.header_head().unwrap();
			subject.invalidate_header(x.hash()).unwrap();
			let class = deliver(via, &x, &b);
			stats.hit(&format!("denied_new_{}_{}", via, class));
			out.raw(&format!("# deny height {} new header with a denied hash via {}", v.height, via));
			// (the body stage never runs: the header is refused first)
			vh_line(out, true, &x, &class);
			let hh1 = subject.header_head().unwrap();
			if class != "Denied" || hh1.last_block_h != hh0.last_block_h || subject.get_block_header(&x.hash()).is_ok() {
				fails += 1;
				out.raw(&format!("#ORACLE-FAIL C04 deny: header with a denied hash via {} answered {} (stored: {}): hdr={}", via, class, subject.get_block_header(&x.hash()).is_ok(), show_hdr(&x)));
			}
		}
		// the honest block (never denied) is accepted
		let class = deliver("pb", &v, &b);
		vh_line(out, false, &v, if class == "ok" { "ok" } else { &class });
		if class != "ok" {
			fails += 1;
			out.raw(&format!("#ORACLE-FAIL C04 deny: honest block at height {} answered {}", v.height, class));
			break;
		}
		builder.chain.process_block(b.clone(), Options::MINE).unwrap();
		main.push(v.clone());
		// (2) two stored side headers x (to be denied) and c (control), siblings of the new head
		let mut sib = |dt: i64| -> Option<BlockHeader> {
			let mut x = v.clone();
			set_ts(&mut x, v.timestamp.timestamp() + dt);
			if remine(&mut x) { Some(x) } else { None }
		};
		let (x, c) = match (sib(11), sib(13)) {
			(Some(x), Some(c)) => (x, c),
			_ => continue,
		};
		for s in [&x, &c] {
			let class = deliver("pbh", s, &b);
			if class != "ok" {
				fails += 1;
				out.raw(&format!("#ORACLE-FAIL C04 deny: honest sibling header at height {} answered {}", s.height, class));
			}
		}
		subject.invalidate_header(x.hash()).unwrap();
		// a stored header that is denied afterwards is refused when it is validated again (batch path)
		let class = deliver("sync", &x, &b);
		stats.hit(&format!("denied_stored_resent_sync_{}", class));
		if class != "Denied" {
			fails += 1;
			out.raw(&format!("#ORACLE-FAIL C04 deny: stored header denied afterwards and re-sent in a batch answered {}: hdr={}", class, show_hdr(&x)));
		}
		// (3) children of the denied side header x and of the control c: the fork re-application
		// (rewind_and_apply_header_fork) re-validates x against the denylist
		for (parent, denied) in [(&x, true), (&c, false)] {
			let mut path: Vec<BlockHeader> = main[..main.len() - 1].to_vec();
			path.push(parent.clone());
			let next = consensus::next_difficulty(parent.height + 1, window_at(&subject, parent.hash()));
			let mut y = parent.clone();
			y.height = parent.height + 1;
			y.version = consensus::header_version(y.height);
			y.prev_hash = parent.hash();
			y.prev_root = header_mmr_root(&path);
			set_ts(&mut y, parent.timestamp.timestamp() + 30);
			y.output_mmr_size = grin_core::core::pmmr::insertion_to_pmmr_index(grin_core::core::pmmr::n_leaves(parent.output_mmr_size) + 1);
			y.kernel_mmr_size = grin_core::core::pmmr::insertion_to_pmmr_index(grin_core::core::pmmr::n_leaves(parent.kernel_mmr_size) + 1);
			y.pow.total_difficulty = Difficulty::from_num(parent.pow.total_difficulty.to_num() + next.difficulty.to_num());
			y.pow.secondary_scaling = next.secondary_scaling;
			if !remine(&mut y) {
				continue;
			}
			let via = if n % 2 == 0 { "pbh" } else { "sync" };
			let hh0 = subject.header_head().unwrap();
			let class = deliver(via, &y, &b);
			let hh1 = subject.header_head().unwrap();
			stats.hit(&format!("child_of_{}_{}_{}", if denied { "denied" } else { "control" }, via, class));
			if denied {
				if class != "Denied" || hh1.last_block_h != hh0.last_block_h {
					fails += 1;
					out.raw(&format!("#ORACLE-FAIL C04 deny: child of a denied side-branch header via {} answered {} (header_head moved: {}): child={} denied_parent={}", via, class, hh1.last_block_h != hh0.last_block_h, show_hdr(&y), show_hdr(parent)));
				}
			} else if class != "ok" {
				fails += 1;
				out.raw(&format!("#ORACLE-FAIL C04 deny: child of an allowed side-branch header via {} answered {}: child={}", via, class, show_hdr(&y)));
			} else {
				// the control child has more work than the head: the header chain moved to it; bring
				// it back by extending the main chain in the next round (the body chain is untouched)
				stats.hit("control_child_is_header_head");
			}
		}
	}
	// observation (reported, not an oracle): the denylist is consulted for the delivered header and for
	// the fork headers that have to be re-applied to the header MMR; whether a denied body head is
	// looked at again when its child arrives depends on whether it is on the current HEADER chain
	{
		let head = main.last().unwrap().clone();
		let on_header_chain = pc(|| subject.get_header_by_height(head.height).map(|h| h.hash() == head.hash()).unwrap_or(false)).unwrap_or(false);
		subject.invalidate_header(head.hash()).unwrap();
		let b = build_next(&builder.chain, &kc, n_blocks + 1, 60);
		let class = deliver("pb", &b.header, &b);
		out.raw(&format!(
			"#STAT deny observation: block on top of the body head after the head's hash was put on the denylist (head on the current header chain: {}): {}",
			on_header_chain, class
		));
	}
	if fails == 0 {
		stats.hit("oracle_ok");
	}
	stats.dump(out, "deny");
}

// ---------------------------------------------------------------------------------------------
// roots mode: what a header commits to about its ancestors (prev_root), at every chunk position
// ---------------------------------------------------------------------------------------------

/// root of the header MMR holding exactly `headers` (genesis first)
fn header_mmr_root(headers: &[BlockHeader]) -> Hash {
	use grin_core::core::pmmr::{ReadablePMMR, VecBackend, PMMR};
	let mut ba = VecBackend::<BlockHeader>::new();
	let mut size = 0u64;
	for h in headers {
		let mut p = PMMR::at(&mut ba, size);
		p.push(h).unwrap();
		size = p.size;
	}
	PMMR::at(&mut ba, size).root().unwrap()
}

fn run_roots(out: &mut Out, rng: &mut Rng, thorough: bool) {
	global::set_local_chain_type(ChainTypes::AutomatedTesting);
	let work = std::env::var("VERIF_WORK").unwrap_or_else(|_| "/verif/work/cons-roots.d".to_string());
	let _ = std::fs::remove_dir_all(&work);
	std::fs::create_dir_all(&work).unwrap();
	let kc = ExtKeychain::from_seed(&rng.bytes(32), false).unwrap();
	let genesis = {
		let key_id = ExtKeychain::derive_key_id(0, 1, 0, 0, 0);
		let reward =
			libtx::reward::output(&kc, &libtx::ProofBuilder::new(&kc), &key_id, 0, false).unwrap();
		genesis::genesis_dev().with_reward(reward.0, reward.1)
	};
	let builder = open_chain(&format!("{}/builder", work), &genesis);
	let subject = open_chain(&format!("{}/subject", work), &genesis).chain;
	let mut kr = KnownRun {
		stats: Stats(BTreeMap::new()),
		roots: BTreeMap::new(),
		oracle_fails: 0,
		tips: vec![],
		sync_calls: 1,
		always_ok: false,
		dom: "rnode",
		full: true,
	};
	let id = "r";
	// the honest chain, built ahead of the subject
	let n_blocks: usize = if thorough { 70 } else { 37 };
	let mut honest: Vec<Block> = vec![genesis.clone()];
	for n in 1..=n_blocks {
		let gap = match rng.below(4) {
			0 => 1,
			1 => rng.range(2, 40) as i64,
			2 => 60,
			_ => rng.range(30, 300) as i64,
		};
		let b = build_next(&builder.chain, &kc, n as u32, gap);
		kr.roots.insert(b.header.prev_hash.to_vec(), b.header.prev_root);
		builder.chain.process_block(b.clone(), Options::MINE).unwrap();
		honest.push(b);
	}
	let hh: Vec<BlockHeader> = honest.iter().map(|b| b.header.clone()).collect();
	out.line(&format!("cons rnode {} newct auto {}", id, kr.fhdr(&genesis.header)), "ok");
	kr.state(out, id, &subject);
	// besides roots of OTHER header MMRs, special VALUES: the all-zero hash (what genesis carries as
	// prev_root - a shortcut keyed on the value instead of the height would let it through), all ones,
	// the parent's hash, the parent's own prev_root
	let kinds = ["bitflip", "sibling-chain", "one-earlier", "one-later", "zero-hash", "all-ones", "parent-hash", "previous-root"];
	let mut base = 0usize;
	let mut round = 0usize;
	while base + 8 <= n_blocks {
		let len = 2 + round % 7; // chunk lengths 2..8
		round += 1;
		let seg: Vec<BlockHeader> = hh[base + 1..=base + len].to_vec();
		kr.stats.hit(&format!("chunk_len_{}", len));
		// a valid sibling of the base header (another timestamp, fresh PoW): the "sibling chain"
		let sibling = if base >= 1 {
			let mut s = hh[base].clone();
			let t1 = s.timestamp.timestamp() + 1;
			set_ts(&mut s, t1);
			if remine(&mut s) { Some(s) } else { None }
		} else {
			None
		};
		let positions: Vec<usize> = if thorough || len <= 4 {
			(1..=len).collect()
		} else {
			let mut v = vec![1, (len + 1) / 2, len - 1, len];
			v.dedup();
			v
		};
		// the wrong root of kind `kind` for the header at chunk position k (1-based)
		let wrong_root = |kind: &str, k: usize, rng: &mut Rng| -> Option<Hash> {
			let good = seg[k - 1].prev_root;
			match kind {
				"bitflip" => {
					let mut v = good.to_vec();
					let i = rng.below(32) as usize;
					v[i] ^= 1 << rng.below(8);
					Some(Hash::from_vec(&v))
				}
				"sibling-chain" => {
					// the MMR of a chain that differs in the header before the chunk
					let sib = sibling.as_ref()?;
					let mut path: Vec<BlockHeader> = hh[..base].to_vec();
					path.push(sib.clone());
					path.extend_from_slice(&seg[..k - 1]);
					Some(header_mmr_root(&path))
				}
				"one-earlier" => {
					if base + k < 2 {
						return None;
					}
					Some(header_mmr_root(&hh[..base + k - 1]))
				}
				"zero-hash" => Some(Hash::from_vec(&[0u8; 32])),
				"all-ones" => Some(Hash::from_vec(&[0xffu8; 32])),
				"parent-hash" => Some(seg[k - 1].prev_hash),
				"previous-root" => Some(if k >= 2 { seg[k - 2].prev_root } else { hh[base].prev_root }),
				_ => Some(header_mmr_root(&hh[..base + k + 1])),
			}
		};
		// the chunk with a wrong prev_root at position k and everything after it built on top
		// of it honestly: prev_hash, prev_root (of the MMR with the bad header in it) and PoW
		let build_alt = |k: usize, bad_root: Hash| -> Option<Vec<BlockHeader>> {
			let mut chunk: Vec<BlockHeader> = seg[..k - 1].to_vec();
			let mut bad = seg[k - 1].clone();
			bad.prev_root = bad_root;
			if !remine(&mut bad) {
				return None;
			}
			chunk.push(bad);
			for j in k..seg.len() {
				let mut h = seg[j].clone();
				h.prev_hash = chunk[j - 1].hash();
				let mut path: Vec<BlockHeader> = hh[..=base].to_vec();
				path.extend_from_slice(&chunk);
				h.prev_root = header_mmr_root(&path);
				if !remine(&mut h) {
					return None;
				}
				chunk.push(h);
			}
			Some(chunk)
		};
		let mut one_by_one: Option<(usize, Vec<BlockHeader>)> = None;
		for &k in positions.iter() {
			for kind in kinds.iter() {
				let bad_root = match wrong_root(kind, k, rng) {
					Some(r) if r != seg[k - 1].prev_root => r,
					_ => continue,
				};
				let chunk = match build_alt(k, bad_root) {
					Some(c) => c,
					None => continue,
				};
				let pos_name = if k == 1 {
					"first"
				} else if k == len {
					"last"
				} else if k == len - 1 {
					"last-but-one"
				} else {
					"middle"
				};
				kr.stats.hit(&format!("bad_{}", pos_name));
				kr.stats.hit(&format!("kind_{}", kind));
				kr.stats.hit(&format!("followers_{}", len - k));
				let before = kr.state(out, id, &subject);
				out.raw(&format!("# roots base={} len={} bad at {} ({}) {}", base, len, k, pos_name, kind));
				let opts = if (k + round) % 2 == 0 { Options::NONE } else { Options::SYNC };
				let class = kr.sync(out, id, &subject, opts, &chunk);
				let after = kr.state(out, id, &subject);
				let stored = chunk.iter().any(|h| subject.get_block_header(&h.hash()).is_ok());
				if class != "InvalidRoot" || before != after || stored {
					kr.fail(out, format!("chunk of {} headers on top of height {} with a wrong prev_root ({}) at position {} ({}), later headers built on it honestly: {} stored={} before={} after={} bad={}", len, base, kind, k, pos_name, class, stored, before, after, show_stored(&chunk[k - 1])));
				}
				// the special values also as a single header / block on a known parent
				if k == 1 && matches!(*kind, "zero-hash" | "all-ones" | "parent-hash" | "previous-root") {
					out.raw(&format!("# roots special prev_root value {} on a known parent (height {}), single header", kind, base));
					let class = kr.pbh(out, id, &subject, Options::NONE, &chunk[0]);
					let after1 = kr.state(out, id, &subject);
					kr.stats.hit(&format!("special_pbh_{}_{}", kind, class));
					if class != "InvalidRoot" || after1 != before || subject.get_block_header(&chunk[0].hash()).is_ok() {
						kr.fail(out, format!("single header with prev_root = {} on a known parent via process_block_header: {} (rule: InvalidRoot) {}", kind, class, show_stored(&chunk[0])));
					}
					let class = kr.pb(out, id, &subject, Options::NONE, &chunk[0], &honest[base + 1]);
					let after2 = kr.state(out, id, &subject);
					kr.stats.hit(&format!("special_pb_{}_{}", kind, class));
					if class != "InvalidRoot" || after2 != before || subject.get_block_header(&chunk[0].hash()).is_ok() {
						kr.fail(out, format!("block whose header has prev_root = {} on a known parent via process_block: {} (rule: InvalidRoot) {}", kind, class, show_stored(&chunk[0])));
					}
				}
				if one_by_one.is_none() && rng.chance(1, 3) {
					one_by_one = Some((k, chunk.clone()));
				} else if one_by_one.is_none() && k == len {
					one_by_one = Some((k, chunk.clone()));
				}
			}
		}
		// the same headers one by one, and the blocks: the prefix is honest, the bad one is
		// refused for its root, what follows has no parent
		if let Some((k, chunk)) = one_by_one {
			for (i, h) in chunk.iter().enumerate() {
				out.raw(&format!("# roots one-by-one header {} of {} (bad at {})", i + 1, chunk.len(), k));
				let class = kr.pbh(out, id, &subject, Options::NONE, h);
				kr.state(out, id, &subject);
				let want = if i + 1 < k { "ok" } else if i + 1 == k { "InvalidRoot" } else { "Orphan" };
				kr.stats.hit(&format!("one_by_one_pbh_{}", want));
				if class != want || (i + 1 >= k && subject.get_block_header(&h.hash()).is_ok()) {
					kr.fail(out, format!("header {} of a run with a wrong prev_root at {} via process_block_header: {} (rule: {}) {}", i + 1, k, class, want, show_stored(h)));
				}
			}
			for (i, h) in chunk.iter().enumerate() {
				out.raw(&format!("# roots one-by-one block {} of {} (bad at {})", i + 1, chunk.len(), k));
				let class = kr.pb(out, id, &subject, Options::NONE, h, &honest[base + 1 + i]);
				kr.state(out, id, &subject);
				let want = if i + 1 < k { "ok" } else if i + 1 == k { "InvalidRoot" } else { "Orphan" };
				kr.stats.hit(&format!("one_by_one_pb_{}", want));
				if class != want || (i + 1 >= k && subject.get_block_header(&h.hash()).is_ok()) {
					kr.fail(out, format!("block {} of a run with a wrong prev_root at {} via process_block: {} (rule: {}) {}", i + 1, k, class, want, show_stored(h)));
				}
			}
		}
		// not a chain: a header with a wrong prev_root followed by an unrelated honest header. Only
		// the ancestors of the LAST header are re-applied, so the batch is accepted and the wrong
		// header is stored (never as header_head); model and implementation agree on this. A
		// child of it is refused later.
		if round % 2 == 0 {
			let mut stray = seg[0].clone();
			stray.prev_root = Hash::from_vec(&rng.bytes(32));
			let t1 = stray.timestamp.timestamp() + 7;
			set_ts(&mut stray, t1);
			if remine(&mut stray) {
				out.raw(&format!("# roots base={} unlinked batch [wrong-root header, honest header]", base));
				let class = kr.sync(out, id, &subject, Options::NONE, &[stray.clone(), seg[0].clone()]);
				kr.state(out, id, &subject);
				kr.stored(out, id, &subject, &stray.hash());
				let stored = subject.get_block_header(&stray.hash()).is_ok();
				kr.stats.hit(&format!("unlinked_batch_{}_stored={}", class, stored));
				let hd = subject.header_head().unwrap();
				if hd.last_block_h == stray.hash() {
					kr.fail(out, format!("a header with a wrong prev_root became header_head: {}", show_stored(&stray)));
				}
				// a child of the stray header: its own root is right for that (impossible) MMR
				let mut child = seg[1].clone();
				child.prev_hash = stray.hash();
				let t2 = stray.timestamp.timestamp() + 10;
				set_ts(&mut child, t2);
				let mut path: Vec<BlockHeader> = hh[..=base].to_vec();
				path.push(stray.clone());
				child.prev_root = header_mmr_root(&path);
				if stored && remine(&mut child) {
					let class = kr.pbh(out, id, &subject, Options::NONE, &child);
					kr.state(out, id, &subject);
					kr.stats.hit(&format!("child_of_stored_wrong_root_{}", class));
					if class != "InvalidRoot" {
						kr.fail(out, format!("child of a stored header with a wrong prev_root: {} (rule: InvalidRoot) {}", class, show_stored(&child)));
					}
				}
			}
		}
		// afterwards the honest chunk is accepted, and the honest blocks
		out.raw(&format!("# roots base={} len={} honest chunk", base, len));
		let class = kr.sync(out, id, &subject, Options::NONE, &seg);
		kr.state(out, id, &subject);
		let hd = subject.header_head().unwrap();
		if !class.starts_with("ok") || hd.last_block_h != seg[len - 1].hash() {
			kr.fail(out, format!("honest chunk of {} headers on top of height {} after the refused ones: {} header_head height {}", len, base, class, hd.height));
		}
		for i in 0..len {
			let b = &honest[base + 1 + i];
			if subject.block_exists(b.hash()).unwrap_or(false) {
				continue;
			}
			let class = kr.pb(out, id, &subject, Options::NONE, &b.header, b);
			if class != "ok" {
				kr.fail(out, format!("honest block at height {} refused: {}", b.header.height, class));
			}
		}
		kr.state(out, id, &subject);
		let hd = subject.head().unwrap();
		if hd.last_block_h != seg[len - 1].hash() {
			kr.fail(out, format!("head is not the honest block at height {}", base + len));
		}
		base += len;
	}
	if kr.oracle_fails == 0 {
		kr.stats.hit("oracle_ok");
	}
	kr.stats.dump(out, "roots");
}

// ---------------------------------------------------------------------------------------------
// globals mode: thread-local configuration with global fallback (core/src/global.rs)
// ---------------------------------------------------------------------------------------------

#[derive(Clone, Copy, PartialEq, Debug)]
enum GP {
	Ct,
	Fee,
	Ftl,
	Nrd,
}
impl GP {
	fn tok(&self) -> &'static str {
		match self {
			GP::Ct => "ct",
			GP::Fee => "fee",
			GP::Ftl => "ftl",
			GP::Nrd => "nrd",
		}
	}
}

#[derive(Clone, Debug)]
enum GOp {
	Get(GP),
	SetL(GP, u64),
	SetG(GP, u64),
	InitG(GP, u64),
	Mbw,
	Cbm,
	Fee,
	Uhdr(usize),
}

fn ct_num(c: ChainTypes) -> u64 {
	match c {
		ChainTypes::Mainnet => 0,
		ChainTypes::Testnet => 1,
		ChainTypes::AutomatedTesting => 2,
		ChainTypes::UserTesting => 3,
	}
}
fn ct_of(n: u64) -> ChainTypes {
	match n {
		0 => ChainTypes::Mainnet,
		1 => ChainTypes::Testnet,
		2 => ChainTypes::AutomatedTesting,
		_ => ChainTypes::UserTesting,
	}
}

/// a network header prepared on the main thread
struct Mat {
	kind: String,
	bytes: Vec<u8>,
	shown: String,
	sizeok: bool,
	ts: i64,
	/// valid for AutomatedTesting apart from its timestamp
	valid: bool,
}

struct ThreadOut {
	lines: Vec<(String, String)>,
	fails: Vec<String>,
	stats: Vec<String>,
	end_sec: i64,
}

fn optv<T: ToString>(r: Option<T>) -> String {
	r.map(|x| x.to_string()).unwrap_or("panic".into())
}

fn glob_thread(
	ops: Vec<GOp>,
	mats: Arc<Vec<Mat>>,
	tx: Arc<grin_core::core::Transaction>,
	t_sec: i64,
) -> ThreadOut {
	let mut o = ThreadOut {
		lines: vec![("cons glob thread".to_string(), "ok".to_string())],
		fails: vec![],
		stats: vec![],
		end_sec: 0,
	};
	// values of the last lookup since the parameter was last written on purpose
	let mut last_ftl: Option<String> = None;
	let mut last_fee: Option<String> = None;
	let mut others_since_ftl = 0u64;
	let mut i = 0usize;
	let mut ops = ops;
	while i < ops.len() {
		let op = ops[i].clone();
		i += 1;
		match op {
			GOp::Get(p) => {
				let v = match p {
					GP::Ct => optv(pc(|| ct_num(global::get_chain_type()))),
					GP::Fee => optv(pc(global::get_accept_fee_base)),
					GP::Ftl => optv(pc(global::get_future_time_limit)),
					GP::Nrd => optv(pc(|| if global::is_nrd_enabled() { 1 } else { 0 })),
				};
				o.stats.push(format!("get_{}", p.tok()));
				if p == GP::Ftl {
					if let Some(prev) = &last_ftl {
						o.stats.push("ftl_relookup".into());
						if others_since_ftl > 0 {
							o.stats.push("ftl_relookup_after_others".into());
						}
						if *prev != v {
							o.fails.push(format!(
								"get_future_time_limit() changed from {} to {} with only other lookups in between ({} of them)",
								prev, v, others_since_ftl
							));
						}
					} else {
						o.stats.push(format!("ftl_first_by_get={}", v));
					}
					last_ftl = Some(v.clone());
					others_since_ftl = 0;
				} else {
					others_since_ftl += 1;
				}
				if p == GP::Fee {
					if let Some(prev) = &last_fee {
						if *prev != v {
							o.fails.push(format!(
								"get_accept_fee_base() changed from {} to {} with only other lookups in between",
								prev, v
							));
						}
					}
					last_fee = Some(v.clone());
				}
				o.lines.push((format!("cons glob get {}", p.tok()), v));
			}
			GOp::SetL(p, v) => {
				match p {
					GP::Ct => global::set_local_chain_type(ct_of(v)),
					GP::Fee => global::set_local_accept_fee_base(v),
					GP::Ftl => global::set_local_future_time_limit(v),
					GP::Nrd => global::set_local_nrd_enabled(v != 0),
				}
				if p == GP::Ftl {
					last_ftl = None;
				}
				if p == GP::Fee {
					last_fee = None;
				}
				o.stats.push(format!("setl_{}", p.tok()));
				o.lines.push((format!("cons glob setl {} {}", p.tok(), v), "ok".into()));
			}
			GOp::SetG(p, v) => {
				match p {
					GP::Ct => global::set_global_chain_type(ct_of(v)),
					GP::Fee => global::set_global_accept_fee_base(v),
					GP::Ftl => global::set_global_future_time_limit(v),
					GP::Nrd => global::set_global_nrd_enabled(v != 0),
				}
				if p == GP::Ftl {
					last_ftl = None;
				}
				if p == GP::Fee {
					last_fee = None;
				}
				o.stats.push(format!("setg_{}", p.tok()));
				o.lines.push((format!("cons glob setg {} {}", p.tok(), v), "ok".into()));
			}
			GOp::InitG(p, v) => {
				let r = pc(|| match p {
					GP::Ct => global::init_global_chain_type(ct_of(v)),
					GP::Fee => global::init_global_accept_fee_base(v),
					GP::Ftl => global::init_global_future_time_limit(v),
					GP::Nrd => global::init_global_nrd_enabled(v != 0),
				});
				if p == GP::Ftl {
					last_ftl = None;
				}
				if p == GP::Fee {
					last_fee = None;
				}
				let res = if r.is_some() { "ok" } else { "panic" };
				o.stats.push(format!("initg_{}", res));
				o.lines.push((format!("cons glob initg {} {}", p.tok(), v), res.into()));
			}
			GOp::Mbw => {
				others_since_ftl += 1;
				o.stats.push("max_block_weight".into());
				o.lines.push(("cons glob mbw".into(), optv(pc(global::max_block_weight))));
			}
			GOp::Cbm => {
				others_since_ftl += 1;
				o.stats.push("coinbase_maturity".into());
				o.lines.push(("cons glob cbm".into(), optv(pc(global::coinbase_maturity))));
			}
			GOp::Fee => {
				others_since_ftl += 1;
				o.stats.push("accept_fee".into());
				let w = tx.weight();
				o.lines
					.push((format!("cons glob fee {}", w), optv(pc(|| tx.accept_fee()))));
			}
			GOp::Uhdr(k) => {
				let m = &mats[k];
				let first = last_ftl.is_none();
				let r = pc(|| {
					ser::deserialize::<UntrustedBlockHeader, _>(
						&mut &m.bytes[..],
						ProtocolVersion::local(),
						DeserializationMode::default(),
					)
				});
				let class = match r {
					None => "panic".to_string(),
					Some(Ok(_)) => "ok".to_string(),
					Some(Err(ser::Error::InvalidBlockVersion)) => "InvalidBlockVersion".to_string(),
					Some(Err(ser::Error::CorruptedData)) => "CorruptedData".to_string(),
					Some(Err(e)) => format!("Other:{:?}", e).replace(' ', "_"),
				};
				o.stats.push(format!("uhdr_{}_{}", m.kind, class));
				if first {
					o.stats.push("ftl_first_by_decode".into());
				}
				o.lines.push((
					format!(
						"cons glob uhdr {} {} {}",
						t_sec,
						if m.sizeok { 1 } else { 0 },
						m.shown
					),
					class.clone(),
				));
				// what the limit is on this thread, asked right after the decode
				let ftl = pc(global::get_future_time_limit);
				let v = optv(ftl);
				if let Some(prev) = &last_ftl {
					if *prev != v {
						o.fails.push(format!(
							"get_future_time_limit() changed from {} to {} across a header decode",
							prev, v
						));
					}
				}
				last_ftl = Some(v.clone());
				others_since_ftl = 0;
				o.lines.push(("cons glob get ftl".into(), v));
				if let Some(f) = ftl {
					let beyond = m.ts > t_sec + f as i64;
					if class == "ok" && beyond {
						o.fails.push(format!(
							"header beyond the future-time limit decoded from the network: now={} ftl={} ts={} ({}) hdr={}",
							t_sec, f, m.ts, m.kind, m.shown
						));
					}
					let ct_auto = pc(global::get_chain_type) == Some(ChainTypes::AutomatedTesting);
					if ct_auto && m.valid && !beyond && class != "ok" {
						o.fails.push(format!(
							"valid header within the future-time limit refused ({}): now={} ftl={} ts={} ({}) hdr={}",
							class, t_sec, f, m.ts, m.kind, m.shown
						));
					}
					if ct_auto {
						o.stats.push(if beyond { "verdict_beyond".into() } else { "verdict_within".into() });
					}
				}
			}
		}
	}
	ops.clear();
	o.end_sec = Utc::now().timestamp();
	o
}

fn mine_net_header(ts: i64, mine: bool, version: u16) -> Option<BlockHeader> {
	let mut h = BlockHeader::default();
	h.height = 1;
	h.version = HeaderVersion(version);
	set_ts(&mut h, ts);
	h.output_mmr_size = 1;
	h.kernel_mmr_size = 1;
	h.pow.total_difficulty = Difficulty::from_num(2);
	h.pow.secondary_scaling = global::initial_graph_weight();
	let eb = global::min_edge_bits();
	h.pow.proof.edge_bits = eb;
	if mine {
		if !remine(&mut h) {
			return None;
		}
	} else {
		h.pow.proof.nonces = (0..global::proofsize() as u64).map(|i| i * 3 + 1).collect();
	}
	Some(h)
}

fn run_globals(out: &mut Out, rng: &mut Rng, thorough: bool) {
	// the main thread prepares material under a local chain type; the subject threads are fresh
	global::set_local_chain_type(ChainTypes::AutomatedTesting);
	let mut stats = Stats(BTreeMap::new());
	let kc = ExtKeychain::from_seed(&rng.bytes(32), false).unwrap();
	let key = |d: u32| ExtKeychainPath::new(2, d, 0, 0, 0).to_identifier();
	let tx = Arc::new(
		libtx::build::transaction(
			grin_core::core::KernelFeatures::Plain { fee: 2_000_000u32.into() },
			&[
				libtx::build::input(10_000_000, key(1)),
				libtx::build::output(5_000_000, key(2)),
				libtx::build::output(3_000_000, key(3)),
			],
			&kc,
			&libtx::ProofBuilder::new(&kc),
		)
		.unwrap(),
	);
	let groups = if thorough { 12 } else { 4 };
	let threads_per_group = if thorough { 60 } else { 40 };
	let ftl_pool: Vec<u64> = vec![0, 1, 59, 299, 301, 720, 3_605, 86_407, 100_000, 432_100, 500_000];
	// what the process-wide values are (the harness sets them itself, in order)
	let mut g_ftl: Option<u64> = None;
	let mut g_ct = false;
	let mut scripted_done = false;
	let mut retries = 0u64;
	let mut total_fails = 0u64;
	let mut g = 0usize;
	let mut done_groups = 0usize;
	while done_groups < groups && retries < 20 {
		// the limits that can be in force somewhere in this group
		let a = *rng.pick(&ftl_pool);
		let b = *rng.pick(&ftl_pool);
		let mut cands: Vec<u64> = vec![global::DEFAULT_FUTURE_TIME_LIMIT, a, b];
		if let Some(x) = g_ftl {
			cands.push(x);
		}
		cands.sort();
		cands.dedup();
		let now_s = Utc::now().timestamp();
		let t_sec = now_s + 2;
		let mut mats: Vec<Mat> = vec![];
		let mut push = |kind: String, ts: i64, mine: bool, version: u16, valid: bool| {
			if let Some(h) = mine_net_header(ts, mine, version) {
				let bytes = ser::ser_vec(&h, ProtocolVersion::local()).unwrap();
				let sizeok = pc(|| pow::verify_size(&h).is_ok()).unwrap_or(false);
				mats.push(Mat {
					kind,
					bytes,
					shown: show_hdr(&h),
					sizeok,
					ts,
					valid: valid && sizeok,
				});
			}
		};
		for f in cands.iter() {
			push("ftl-1s".into(), t_sec + *f as i64 - 1, true, 1, true);
			push("ftl+0s".into(), t_sec + *f as i64, true, 1, true);
			push("ftl+1s".into(), t_sec + *f as i64 + 1, true, 1, true);
		}
		push("+1h".into(), t_sec + 3_600, true, 1, true);
		push("+1day".into(), t_sec + 86_400, true, 1, true);
		push("+5days".into(), t_sec + 432_000, true, 1, true);
		// just inside what the accept-fee base (500000) would allow if the cells were mixed up
		push("+feebase-1s".into(), t_sec + global::DEFAULT_ACCEPT_FEE_BASE as i64 - 1, true, 1, true);
		push("past".into(), t_sec - 100, true, 1, true);
		push("now-badpow".into(), t_sec - 1, false, 1, false);
		push("now-version2".into(), t_sec - 1, true, 2, false);
		let mats = Arc::new(mats);
		// plans
		let mut plans: Vec<(String, Vec<GOp>)> = vec![];
		let mut group_has_scripted = false;
		for ti in 0..threads_per_group {
			let mut ops: Vec<GOp> = vec![];
			let kind = if g == 0 && ti < 4 {
				"no-chain-type"
			} else if g >= 2 && g_ct && rng.chance(1, 3) {
				"global-chain-type"
			} else {
				match rng.below(10) {
					0..=4 => "pure",
					5..=6 => "local-others",
					7 => "local-ftl",
					8 => "no-decode",
					_ => "pure",
				}
			};
			// process-wide values: never in the first group (defaults), then now and again
			let mut setg: Vec<GOp> = vec![];
			if g == 1 && ti == 0 {
				setg.push(GOp::InitG(GP::Ftl, a));
				setg.push(GOp::SetG(GP::Fee, 1 + rng.below(2_000_000)));
			} else if g == 1 && ti == threads_per_group / 2 {
				setg.push(GOp::InitG(GP::Ftl, b)); // panics: already initialised
				setg.push(GOp::SetG(GP::Ftl, b));
				setg.push(GOp::InitG(GP::Nrd, 1));
			} else if g == 2 && ti == 0 {
				setg.push(GOp::SetG(GP::Ct, 2));
				setg.push(GOp::InitG(GP::Fee, 7));
			} else if g >= 2 && rng.chance(1, 12) {
				match rng.below(3) {
					0 => setg.push(GOp::SetG(GP::Ftl, *rng.pick(&[a, b]))),
					1 => setg.push(GOp::SetG(GP::Fee, 1 + rng.below(2_000_000))),
					_ => setg.push(GOp::SetG(GP::Nrd, rng.below(2))),
				}
			}
			for op in setg.iter() {
				match op {
					GOp::SetG(GP::Ftl, v) => g_ftl = Some(*v),
					GOp::InitG(GP::Ftl, v) if g_ftl.is_none() => g_ftl = Some(*v),
					GOp::SetG(GP::Ct, _) => g_ct = true,
					_ => {}
				}
			}
			if kind != "no-chain-type" && kind != "global-chain-type" {
				ops.push(GOp::SetL(GP::Ct, 2));
			}
			// scripted threads: what a getter caches (and what it does not) when the process-wide
			// value changes after the first lookup on the thread
			if g_ct && !scripted_done && (1..=4).contains(&ti) {
				group_has_scripted = true;
				let i0 = rng.below(mats.len() as u64) as usize;
				let i1 = rng.below(mats.len() as u64) as usize;
				let (k2, ops2): (&str, Vec<GOp>) = match ti {
					1 => (
						"cache-nrd",
						vec![
							GOp::Get(GP::Nrd),
							GOp::SetG(GP::Nrd, 1),
							GOp::Get(GP::Nrd),
							GOp::SetG(GP::Nrd, 0),
							GOp::Get(GP::Nrd),
							GOp::Get(GP::Ftl),
						],
					),
					2 => (
						"cache-ct",
						vec![
							GOp::Get(GP::Ct),
							GOp::SetG(GP::Ct, 3),
							GOp::Get(GP::Ct),
							GOp::Mbw,
							GOp::Uhdr(i0),
							GOp::SetG(GP::Ct, 2),
							GOp::Cbm,
						],
					),
					3 => (
						"cache-ftl",
						vec![
							GOp::Uhdr(i0),
							GOp::SetG(GP::Ftl, a),
							GOp::Get(GP::Ftl),
							GOp::Uhdr(i1),
							GOp::SetG(GP::Ftl, b),
							GOp::Uhdr(i0),
						],
					),
					_ => (
						"cache-fee",
						vec![
							GOp::Fee,
							GOp::SetG(GP::Fee, 1 + rng.below(2_000_000)),
							GOp::Get(GP::Fee),
							GOp::Fee,
							GOp::Uhdr(i0),
						],
					),
				};
				g_ftl = Some(b);
				plans.push((k2.to_string(), ops2));
				continue;
			}
			if g == 0 && ti == threads_per_group - 1 {
				// the default of the NRD flag is not cached: the first process-wide value shows
				plans.push((
					"cache-nrd-default".to_string(),
					vec![
						GOp::SetL(GP::Ct, 2),
						GOp::Get(GP::Nrd),
						GOp::Get(GP::Ftl),
						GOp::InitG(GP::Nrd, 1),
						GOp::Get(GP::Nrd),
						GOp::Get(GP::Ftl),
					],
				));
				continue;
			}
			let n_ops = rng.range(12, 40);
			let mut decode_ok = kind != "no-decode";
			let setg_at = rng.below(n_ops);
			for j in 0..n_ops {
				if j == setg_at {
					ops.extend(setg.iter().cloned());
				}
				let r = rng.below(100);
				let op = if r < 30 && decode_ok {
					GOp::Uhdr(rng.below(mats.len() as u64) as usize)
				} else if r < 40 {
					GOp::Get(GP::Ftl)
				} else if r < 52 {
					GOp::Get(GP::Fee)
				} else if r < 62 {
					GOp::Fee
				} else if r < 70 {
					GOp::Get(GP::Nrd)
				} else if r < 78 {
					GOp::Mbw
				} else if r < 86 {
					GOp::Cbm
				} else if r < 92 {
					GOp::Get(GP::Ct)
				} else {
					match kind {
						"local-others" => match rng.below(2) {
							0 => GOp::SetL(GP::Fee, 1 + rng.below(2_000_000)),
							_ => GOp::SetL(GP::Nrd, rng.below(2)),
						},
						"local-ftl" => GOp::SetL(GP::Ftl, *rng.pick(&[a, b])),
						"no-decode" => {
							// another chain type: only where no header is decoded afterwards
							decode_ok = false;
							GOp::SetL(GP::Ct, rng.below(4))
						}
						_ => GOp::Get(GP::Fee),
					}
				};
				ops.push(op);
			}
			plans.push((kind.to_string(), ops));
		}
		// all threads of the group run inside wall-clock second t_sec
		while Utc::now().timestamp() < t_sec {
			std::thread::sleep(std::time::Duration::from_millis(2));
		}
		let mut outs: Vec<(String, ThreadOut)> = vec![];
		let mut in_time = true;
		for (kind, ops) in plans {
			let (m, t) = (mats.clone(), tx.clone());
			let r = std::thread::spawn(move || glob_thread(ops, m, t, t_sec)).join();
			match r {
				Ok(o) => {
					if o.end_sec != t_sec {
						in_time = false;
					}
					outs.push((kind, o));
				}
				Err(_) => {
					in_time = false;
				}
			}
			if !in_time {
				break;
			}
		}
		g += 1;
		if !in_time {
			// the second rolled over (or mining took too long): nothing of this group is printed;
			// process-wide values it set stay set, so later groups are not "defaults only" any more
			retries += 1;
			stats.hit("group_discarded_clock");
			// the model must still follow the process-wide writes that happened
			for (_, o) in outs.iter() {
				for (l, r) in o.lines.iter() {
					if l.starts_with("cons glob setg") || (l.starts_with("cons glob initg") && r == "ok") {
						out.line(l, r);
					}
				}
			}
			continue;
		}
		done_groups += 1;
		if group_has_scripted {
			scripted_done = true;
		}
		for (kind, o) in outs {
			stats.hit(&format!("thread_{}", kind));
			out.raw(&format!("# thread kind={} group={} now={}", kind, g - 1, t_sec));
			for (l, r) in o.lines.iter() {
				out.line(l, r);
			}
			for st in o.stats.iter() {
				stats.hit(st);
			}
			for f in o.fails.iter() {
				total_fails += 1;
				out.raw(&format!("#ORACLE-FAIL C04 [thread kind={} group={}] {}", kind, g - 1, f));
			}
		}
	}
	if done_groups < groups {
		out.raw(&format!(
			"#ORACLE-FAIL C04 globals run could not keep {} groups inside one wall-clock second each ({} done)",
			groups, done_groups
		));
	}
	if total_fails == 0 {
		stats.hit("oracle_ok");
	}
	stats.dump(out, "globals");
}

fn untrusted_lines(out: &mut Out, stats: &mut Stats, v: &BlockHeader, rng: &mut Rng) {
	let ftl = *rng.pick(&[0u64, 300, 720, 100_000]);
	global::set_local_future_time_limit(ftl);
	let now = Utc::now().timestamp();
	let mut cases: Vec<(String, BlockHeader)> = vec![("valid".into(), v.clone())];
	let mut add = |kind: &str, f: &dyn Fn(&mut BlockHeader), remined: bool| {
		let mut h = v.clone();
		f(&mut h);
		if remined && !remine(&mut h) {
			return;
		}
		cases.push((kind.to_string(), h));
	};
	let f1 = now + ftl as i64 + 120;
	let f0 = now + ftl as i64 - 120;
	add("future+pow", &|h| set_ts(h, f1), true);
	add("near-future+pow", &|h| set_ts(h, f0), true);
	add("future", &|h| set_ts(h, f1), false);
	// a pre-epoch timestamp is within the reader's range and below the limit: decodes
	add("ts=-60+pow", &|h| set_ts(h, -60), true);
	add("ts=reader-min+pow", &|h| set_ts(h, reader_ts_range().0), true);
	add("version+1+pow", &|h| h.version = HeaderVersion(h.version.0 + 1), true);
	add("version=0+pow", &|h| h.version = HeaderVersion(0), true);
	add("edge_bits-1", &|h| h.pow.proof.edge_bits -= 1, false);
	add("edge_bits=29", &|h| h.pow.proof.edge_bits = 29, false);
	add("nonce+1", &|h| h.pow.nonce += 1, false);
	add(
		"global-weight+pow",
		&|h| h.output_mmr_size = grin_core::core::pmmr::insertion_to_pmmr_index(12 * (h.height + 2)),
		true,
	);
	add(
		"global-weight-ok+pow",
		&|h| h.output_mmr_size = grin_core::core::pmmr::insertion_to_pmmr_index(10 * (h.height + 1)),
		true,
	);
	// the global bound max_block_weight * (height + 1) at its edge: the heaviest (outputs, kernels)
	// total that still fits and the lightest that does not (kernels 1..=8)
	{
		let bound = global::max_block_weight().saturating_mul(v.height + 1);
		let mut best_fit: Option<(u64, u64, u64)> = None;
		let mut best_over: Option<(u64, u64, u64)> = None;
		for k in 1..=8u64 {
			let o = (bound.saturating_sub(k * consensus::KERNEL_WEIGHT)) / consensus::OUTPUT_WEIGHT;
			for oo in [o, o + 1] {
				let w = oo * consensus::OUTPUT_WEIGHT + k * consensus::KERNEL_WEIGHT;
				if w <= bound && best_fit.map_or(true, |b| w > b.0) {
					best_fit = Some((w, oo, k));
				}
				if w > bound && best_over.map_or(true, |b| w < b.0) {
					best_over = Some((w, oo, k));
				}
			}
		}
		if let Some((_, o, k)) = best_fit {
			add(
				"global-weight=max-fitting+pow",
				&|h| {
					h.output_mmr_size = grin_core::core::pmmr::insertion_to_pmmr_index(o);
					h.kernel_mmr_size = grin_core::core::pmmr::insertion_to_pmmr_index(k);
				},
				true,
			);
		}
		if let Some((_, o, k)) = best_over {
			add(
				"global-weight=first-over+pow",
				&|h| {
					h.output_mmr_size = grin_core::core::pmmr::insertion_to_pmmr_index(o);
					h.kernel_mmr_size = grin_core::core::pmmr::insertion_to_pmmr_index(k);
				},
				true,
			);
		}
	}
	for (kind, h) in cases {
		let bytes = match ser::ser_vec(&h, ProtocolVersion::local()) {
			Ok(b) => b,
			Err(_) => continue,
		};
		let sizeok = pc(|| pow::verify_size(&h).is_ok()).unwrap_or(false);
		let r = pc(|| {
			ser::deserialize::<UntrustedBlockHeader, _>(
				&mut &bytes[..],
				ProtocolVersion::local(),
				DeserializationMode::default(),
			)
		});
		let class = match r {
			None => "panic".to_string(),
			Some(Ok(_)) => "ok".to_string(),
			Some(Err(ser::Error::InvalidBlockVersion)) => "InvalidBlockVersion".to_string(),
			Some(Err(ser::Error::CorruptedData)) => "CorruptedData".to_string(),
			Some(Err(e)) => format!("Other:{:?}", e).replace(' ', "_"),
		};
		stats.hit(&format!("uhdr_{}", class));
		if kind.starts_with("global-weight=") {
			stats.hit(&format!("uhdr_{}_{}", kind, class));
			let want_ok = kind.starts_with("global-weight=max-fitting");
			if (class == "ok") != want_ok {
				out.raw(&format!(
					"#ORACLE-FAIL C04 network header at the edge of the global weight bound ({}) answered {}: max_block_weight={} hdr={}",
					kind, class, global::max_block_weight(), show_hdr(&h)
				));
			}
		}
		if class == "ok" && h.timestamp.timestamp() > now + ftl as i64 + 60 {
			out.raw(&format!(
				"#ORACLE-FAIL C04 header beyond the future-time limit decoded from the network: now={} ftl={} hdr={}",
				now, ftl, show_hdr(&h)
			));
		}
		out.raw(&format!("# uhdr {}", kind));
		out.line(
			&format!(
				"cons uhdr auto {} {} {} {}",
				now,
				ftl,
				if sizeok { 1 } else { 0 },
				show_hdr(&h)
			),
			&class,
		);
	}
}

// ---------------------------------------------------------------------------------------------
// powsize mode: the proof of work is verified on the graph size the header CLAIMS
// ---------------------------------------------------------------------------------------------

/// `<pre_pow hex>/<n1.n2.….nk | ->/<abstract header>`: what the verifier is seeded with, the proof
/// nonces, the rule fields
fn nh_token(h: &BlockHeader) -> String {
	let ns: Vec<String> = h.pow.proof.nonces.iter().map(|n| n.to_string()).collect();
	format!(
		"{}/{}/{}",
		hex(&h.pre_pow()),
		if ns.is_empty() { "-".to_string() } else { ns.join(".") },
		show_hdr(h)
	)
}

fn vs_class(r: Option<Result<(), pow::Error>>) -> String {
	match r {
		None => "panic".to_string(),
		Some(Ok(())) => "ok".to_string(),
		Some(Err(pow::Error::Verification(s))) => match s.as_str() {
			"wrong cycle length" => "wronglen",
			"edge too big" => "toobig",
			"edges not ascending" => "notasc",
			"edges not balanced" => "notbal",
			"endpoints don't match up" => "nomatch",
			"branch in cycle" => "branch",
			"cycle dead ends" => "deadend",
			"cycle too short" => "tooshort",
			"cycle does not close" => "noclose",
			"no cuckaroo past HardFork4" => "noctx",
			"graph is to big to build" => "toobiggraph",
			_ => "other",
		}
		.to_string(),
		Some(Err(_)) => "othererr".to_string(),
	}
}

/// the siphash keys the real code derives from `pre_pow` — observed on a context object of a FIXED
/// size built with the explicit constructor (never through `create_pow_context`)
fn real_keys(pre: &[u8]) -> [u64; 4] {
	let mut c = CuckatooContext::new_impl(12, 8, 1).unwrap();
	c.set_header_nonce_impl(pre.to_vec(), None, false).unwrap();
	let mut k = [0u64; 4];
	for i in 0..4 {
		k[i] = u64::from_str_radix(&c.sipkey_hex(i).unwrap(), 16).unwrap();
	}
	k
}

/// The rule, evaluated by the harness itself (degree counting + union-find, no verifier code):
/// exactly `ps` nonces, strictly ascending, all below 2^eb, forming ONE simple cycle through all of
/// them in the Cuckatoo graph OF SIZE `eb` seeded by `keys` (vertices = (side, node >> 1), two edge
/// ends meet where their nodes differ exactly in the lowest bit).
fn cuckatoo_rule(keys: &[u64; 4], eb: u8, ps: usize, nonces: &[u64]) -> bool {
	if eb == 0 || eb > 63 || ps == 0 || nonces.len() != ps {
		return false;
	}
	let mask = (1u64 << eb) - 1;
	if nonces.iter().any(|n| *n > mask) || nonces.windows(2).any(|w| w[0] >= w[1]) {
		return false;
	}
	let mut ends: Vec<(u64, u64, usize)> = Vec::with_capacity(2 * ps);
	for (i, n) in nonces.iter().enumerate() {
		let u = siphash::siphash24(keys, 2 * n) & mask;
		let v = siphash::siphash24(keys, 2 * n + 1) & mask;
		ends.push((u >> 1, u, i));
		ends.push(((1u64 << 63) | (v >> 1), v, i));
	}
	ends.sort_unstable();
	let mut uf: Vec<usize> = (0..ps).collect();
	fn find(uf: &mut Vec<usize>, x: usize) -> usize {
		let mut r = x;
		while uf[r] != r {
			r = uf[r];
		}
		uf[x] = r;
		r
	}
	let mut i = 0;
	while i < ends.len() {
		if i + 1 >= ends.len() || ends[i + 1].0 != ends[i].0 {
			return false;
		}
		if i + 2 < ends.len() && ends[i + 2].0 == ends[i].0 {
			return false;
		}
		if ends[i].1 == ends[i + 1].1 {
			return false;
		}
		let (ra, rb) = (find(&mut uf, ends[i].2), find(&mut uf, ends[i + 1].2));
		uf[ra] = rb;
		i += 2;
	}
	let r0 = find(&mut uf, 0);
	(0..ps).all(|e| find(&mut uf, e) == r0)
}

/// Solve a `ps`-cycle on the Cuckatoo graph of EXACTLY `eb` edge bits seeded by the header's
/// pre_pow, on a context built with the explicit constructor `CuckatooContext::new_impl(eb, ..)`
/// (from 2^19 edges on behind the repo's lean trimmer); bumps `pow.nonce` until a cycle exists whose
/// difficulty reaches `min_diff`. Returns the number of graphs tried.
fn solve_cuckatoo(h: &mut BlockHeader, eb: u8, ps: usize, min_diff: u64, max_graphs: u32) -> Option<u32> {
	let t0 = std::time::Instant::now();
	let budget_s = if tier_thorough() { 150 } else { 20 };
	for t in 1..=max_graphs {
		if t0.elapsed().as_secs() >= budget_s {
			return None;
		}
		h.pow.nonce = h.pow.nonce.wrapping_add(1);
		let pre = h.pre_pow();
		let mut ctx = CuckatooContext::new_impl(eb, ps, 10).ok()?;
		ctx.set_header_nonce_impl(pre.clone(), None, true).ok()?;
		let sols = if eb >= 19 {
			let mut lean = pow::lean::Lean::new(eb);
			let l = pre.len();
			let tail = u32::from_le_bytes([pre[l - 4], pre[l - 3], pre[l - 2], pre[l - 1]]);
			lean.set_header_nonce(pre.clone(), tail);
			lean.trim();
			pc(|| lean.find_cycles(ctx))
		} else {
			pc(|| ctx.find_cycles())
		};
		if let Some(Ok(sols)) = sols {
			for s in sols {
				if s.nonces.len() != ps {
					continue;
				}
				h.pow.proof = s;
				h.pow.proof.edge_bits = eb;
				if h.pow.to_difficulty(h.height).to_num() >= min_diff {
					return Some(t);
				}
			}
		}
	}
	None
}

fn rnd_header(height: u64, ts: i64, rng: &mut Rng) -> BlockHeader {
	let mut h = BlockHeader::default();
	h.height = height;
	h.version = consensus::header_version(height);
	set_ts(&mut h, ts);
	h.prev_hash = Hash::from_vec(&rng.bytes(32));
	h.prev_root = Hash::from_vec(&rng.bytes(32));
	h.output_root = Hash::from_vec(&rng.bytes(32));
	h.output_mmr_size = 1;
	h.kernel_mmr_size = 1;
	h.pow.total_difficulty = Difficulty::from_num(2 + rng.below(1000));
	h.pow.secondary_scaling = global::initial_graph_weight();
	h.pow.nonce = rng.next();
	h.pow.proof.edge_bits = global::min_edge_bits();
	h
}

fn ser_class(r: Option<Result<(), ser::Error>>) -> String {
	match r {
		None => "panic".to_string(),
		Some(Ok(())) => "ok".to_string(),
		Some(Err(ser::Error::InvalidBlockVersion)) => "InvalidBlockVersion".to_string(),
		Some(Err(ser::Error::CorruptedData)) => "CorruptedData".to_string(),
		Some(Err(e)) => format!("Other:{:?}", e).replace(' ', "_"),
	}
}

/// run a decode inside one wall-clock second: returns (that second, result)
fn in_one_second<R>(mut f: impl FnMut() -> R) -> (i64, R) {
	loop {
		let s0 = Utc::now().timestamp();
		let r = f();
		if Utc::now().timestamp() == s0 {
			return (s0, r);
		}
	}
}

/// the header as it is on the wire under protocol version `pv`: serialised and read back with the
/// plain (trusted) `BlockHeader` reader; `None`: cannot be written / read at all
fn wire_header(h: &BlockHeader, pv: u32) -> Option<(Vec<u8>, Option<BlockHeader>)> {
	let bytes = pc(|| ser::ser_vec(h, ProtocolVersion(pv)))?.ok()?;
	let back = pc(|| {
		ser::deserialize::<BlockHeader, _>(&mut &bytes[..], ProtocolVersion(pv), DeserializationMode::default())
	})
	.and_then(|r| r.ok());
	Some((bytes, back))
}

fn allowed_edge_bits(eb: u8) -> bool {
	eb == 29 || eb >= global::min_edge_bits()
}

/// one relabelled header through `pow::verify_size` and through `UntrustedBlockHeader::read`
fn relabel_lines(
	out: &mut Out,
	stats: &mut Stats,
	cname: &str,
	solved: &BlockHeader,
	label: u8,
	testing_chain: bool,
) {
	let ps = global::proofsize();
	let s = solved.pow.proof.edge_bits;
	let mut h = solved.clone();
	h.pow.proof.edge_bits = label;
	let keys = real_keys(&h.pre_pow());
	// (i) the verifier's entry point on the in-memory header
	let res = if selftest("ctx-cap-20") {
		let mut h2 = h.clone();
		h2.pow.proof.edge_bits = std::cmp::min(label, 20);
		vs_class(pc(|| pow::verify_size(&h2)))
	} else {
		vs_class(pc(|| pow::verify_size(&h)))
	};
	stats.hit(&format!("{}_vsz_{}", cname, if label == s { "honest" } else { "relabel" }));
	stats.hit(&format!("{}_vsz_res_{}", cname, res));
	if testing_chain {
		let rule = cuckatoo_rule(&keys, label, ps, &h.pow.proof.nonces);
		if rule && label != s {
			stats.hit("coincidence_cycle_at_other_size");
		}
		if res == "ok" && !rule {
			out.raw(&format!(
				"#ORACLE-FAIL C04 verify_size accepts a cycle solved on 2^{} edges under the claimed edge_bits {} where it is no cycle: chain={} height={} pre_pow={} nonces={}",
				s, label, cname, h.height, hex(&h.pre_pow()), nat_list(&h.pow.proof.nonces)
			));
		}
		if res != "ok" && rule && label != 63 {
			out.raw(&format!(
				"#ORACLE-FAIL C04 verify_size refuses ({}) a genuine cycle of the graph of the claimed edge_bits {}: chain={} height={} pre_pow={} nonces={}",
				res, label, cname, h.height, hex(&h.pre_pow()), nat_list(&h.pow.proof.nonces)
			));
		}
	} else if res == "ok" && label != s {
		out.raw(&format!(
			"#ORACLE-FAIL C04 verify_size accepts the {} genesis proof (edge_bits {}) relabelled to edge_bits {}",
			cname, s, label
		));
	}
	if res == "panic" {
		out.raw(&format!(
			"#ORACLE-FAIL C04 verify_size panicked: chain={} height={} edge_bits={} pre_pow={} nonces={}",
			cname, h.height, label, hex(&h.pre_pow()), nat_list(&h.pow.proof.nonces)
		));
	}
	out.line(&format!("cons vsz {} {}", cname, nh_token(&h)), &res);
	// (ii) the same header serialised and read back from the network — where the relabelled header
	// can be expressed on the wire at all (nonces are packed at the claimed width)
	if label < 64 && h.pow.proof.nonces.iter().any(|n| (*n >> label) != 0) {
		stats.hit(&format!("{}_wire_inexpressible", cname));
		return;
	}
	let pv = 1 + (label as u32 % 3);
	match wire_header(&h, pv) {
		None => stats.hit(&format!("{}_wire_unwritable", cname)),
		Some((bytes, back)) => {
			let ftl = global::get_future_time_limit();
			let (now, r) = in_one_second(|| {
				pc(|| {
					ser::deserialize::<UntrustedBlockHeader, _>(
						&mut &bytes[..],
						ProtocolVersion(pv),
						DeserializationMode::default(),
					)
					.map(|_| ())
				})
			});
			let class = ser_class(r);
			stats.hit(&format!("{}_wire_res_{}", cname, class));
			match back {
				None => out.line(&format!("cons wiredec hdr {} {} {}", pv, cname, label), &class),
				Some(w) => {
					if class == "ok" {
						let wk = real_keys(&w.pre_pow());
						let good = allowed_edge_bits(label)
							&& (!testing_chain || cuckatoo_rule(&wk, label, ps, &w.pow.proof.nonces))
							&& (testing_chain || label == s);
						if !good {
							out.raw(&format!(
								"#ORACLE-FAIL C04 relabelled header decoded from the network (UntrustedBlockHeader): solved at edge_bits {}, claims {}: chain={} hdr={} nonces={}",
								s, label, cname, show_hdr(&w), nat_list(&w.pow.proof.nonces)
							));
						}
					}
					out.line(
						&format!("cons wire hdr {} {} {} {} {}", pv, cname, now, ftl, nh_token(&w)),
						&class,
					);
				}
			}
		}
	}
}

/// random non-solutions: ascending / not ascending / out-of-range nonce lists spread over the whole
/// range the CLAIMED edge bits allow (and beyond), for the error kind of the verifier
fn nonsolution(rng: &mut Rng, label: u8, ps: usize) -> (String, Vec<u64>) {
	let top: u64 = if label >= 64 { u64::MAX } else { (1u64 << label) - 1 };
	let asc_in = |rng: &mut Rng, lo: u64, hi: u64, n: usize| -> Vec<u64> {
		// n ascending values in [lo, hi] where the range allows, else ascending from lo
		let span = hi.saturating_sub(lo);
		let mut v: Vec<u64> = if span as u128 + 1 >= 4 * n as u128 {
			let mut v: Vec<u64> = (0..n).map(|_| lo + rng.below(span.wrapping_add(1).max(1))).collect();
			v.sort_unstable();
			v.dedup();
			v
		} else {
			vec![]
		};
		let mut next = v.last().map(|x| x.wrapping_add(1)).unwrap_or(lo);
		while v.len() < n {
			v.push(next);
			next = next.wrapping_add(1);
		}
		v
	};
	let k = rng.below(ps as u64) as usize;
	match rng.below(12) {
		0 | 1 => ("in-range".into(), asc_in(rng, 0, top, ps)),
		2 => {
			// everything in the upper part of the claimed range (above 2^20 where there is room)
			let lo = if label > 21 { 1u64 << 20 } else { top / 2 };
			("in-range-high".into(), asc_in(rng, lo, top, ps))
		}
		3 => {
			let mut v = asc_in(rng, 0, top.saturating_sub(1), ps);
			v[ps - 1] = top;
			("last=2^eb-1".into(), v)
		}
		4 => {
			let mut v = asc_in(rng, 0, top.saturating_sub(1), ps);
			v[ps - 1] = top.wrapping_add(1);
			("last=2^eb".into(), v)
		}
		5 => {
			let mut v = asc_in(rng, 0, top.saturating_sub(1), ps);
			v[ps - 1] = top.saturating_add(2 + rng.below(1 << 16));
			("last>2^eb".into(), v)
		}
		6 => {
			let mut v = asc_in(rng, 0, top, ps);
			v[k] = top.wrapping_add(1);
			("one=2^eb".into(), v)
		}
		7 => ("full-u64-range".into(), asc_in(rng, 0, u64::MAX - 1, ps)),
		8 => {
			let mut v = asc_in(rng, 0, top, ps);
			if k > 0 {
				v.swap(k - 1, k);
			} else {
				v[1] = v[0];
			}
			("not-ascending".into(), v)
		}
		9 => {
			// which check comes first: an out-of-range nonce and a descent at different positions
			let mut v = asc_in(rng, 0, top, ps);
			let j = rng.below(ps as u64) as usize;
			v[j] = top.saturating_add(1 + rng.below(1000));
			if k > 0 {
				v.swap(k - 1, k);
			}
			("too-big+descent".into(), v)
		}
		10 => {
			let n = if rng.chance(1, 2) { ps - 1 } else { ps + 1 };
			("wrong-count".into(), asc_in(rng, 0, top, n))
		}
		_ => {
			// just around 2^20 (the largest size the other runs ever solve)
			let mut v = asc_in(rng, 0, (1u64 << 20) - 2, ps);
			v[ps - 1] = (1u64 << 20) - 1 + rng.below(3);
			("around-2^20".into(), v)
		}
	}
}

fn era_heights(ct: ChainTypes) -> Vec<u64> {
	match ct {
		ChainTypes::Mainnet => {
			let i = consensus::HARD_FORK_INTERVAL;
			vec![0, 1, i - 1, i, 2 * i - 1, 2 * i, 3 * i, 4 * i - 1, 4 * i, 5 * i]
		}
		ChainTypes::Testnet => vec![
			0,
			1,
			consensus::TESTNET_FIRST_HARD_FORK - 1,
			consensus::TESTNET_FIRST_HARD_FORK,
			consensus::TESTNET_SECOND_HARD_FORK,
			consensus::TESTNET_THIRD_HARD_FORK,
			consensus::TESTNET_FOURTH_HARD_FORK - 1,
			consensus::TESTNET_FOURTH_HARD_FORK,
		],
		_ => vec![1, 2, 3, 6, 9, 11, 12, 50],
	}
}

fn run_powsize(out: &mut Out, rng: &mut Rng, thorough: bool) {
	let mut stats = Stats(BTreeMap::new());
	let now = Utc::now().timestamp();
	// ---- (a) real cycles, relabelled to every other size
	let auto_sizes: Vec<u8> = if thorough {
		vec![10, 10, 10, 11, 11, 12, 13, 14, 15, 15, 16, 17, 18, 19, 20, 20, 21, 22]
	} else {
		vec![10, 10, 11, 12, 13, 15, 16, 19, 20]
	};
	let user_sizes: Vec<u8> = if thorough { vec![15, 15, 16, 17, 18, 19, 20] } else { vec![15, 16] };
	for (ct, cname, sizes) in [
		(ChainTypes::AutomatedTesting, "auto", auto_sizes),
		(ChainTypes::UserTesting, "user", user_sizes),
	] {
		global::set_local_chain_type(ct);
		global::set_local_future_time_limit(*rng.pick(&[0u64, 300, 720]));
		let ps = global::proofsize();
		let hs = era_heights(ct);
		for s in sizes {
			let t0 = std::time::Instant::now();
			let mut h = rnd_header(*rng.pick(&hs), now - 1000 - rng.below(100_000) as i64, rng);
			let max_graphs = 40 * ps as u32;
			match solve_cuckatoo(&mut h, s, ps, 0, max_graphs) {
				None => {
					stats.hit(&format!("{}_unsolved_{}", cname, s));
					continue;
				}
				Some(t) => {
					stats.hit(&format!("{}_solved_at_{}", cname, s));
					out.raw(&format!(
						"# solved chain={} edge_bits={} proofsize={} graphs={} ms={}",
						cname,
						s,
						ps,
						t,
						t0.elapsed().as_millis()
					));
				}
			}
			for label in 1..=63u8 {
				relabel_lines(out, &mut stats, cname, &h, label, true);
			}
		}
	}
	// Mainnet / Testnet: the genesis headers carry real 42-cycles (Cuckaroo29); relabelled to every
	// size (below 30: the Cuckaroo variant of the height at that size, above: Cuckatoo at that size)
	for (ct, cname) in [(ChainTypes::Mainnet, "main"), (ChainTypes::Testnet, "test")] {
		global::set_local_chain_type(ct);
		global::set_local_future_time_limit(300);
		let g = if ct == ChainTypes::Mainnet { genesis::genesis_main() } else { genesis::genesis_test() };
		if vs_class(pc(|| pow::verify_size(&g.header))) != "ok" {
			out.raw(&format!("#ORACLE-FAIL C04 the {} genesis header does not verify", cname));
		}
		for label in 1..=63u8 {
			relabel_lines(out, &mut stats, cname, &g.header, label, false);
		}
	}
	// ---- (b) error kinds over the whole claimed range, every chain type
	let n_cases = if thorough { 4000 } else { 700 };
	for (ct, cname) in CTS.iter() {
		global::set_local_chain_type(*ct);
		let ps = global::proofsize();
		let hs = era_heights(*ct);
		for i in 0..n_cases {
			let label: u8 = match rng.below(10) {
				0..=3 => rng.range(1, 63) as u8,
				4..=6 => rng.range(21, 63) as u8,
				_ => *rng.pick(&[10u8, 15, 19, 20, 21, 22, 28, 29, 30, 31, 32, 33, 62, 63]),
			};
			let height = if i % 5 == 0 { rng.below(1 << 22) } else { *rng.pick(&hs) };
			let mut h = rnd_header(height, now - 1000, rng);
			h.pow.proof.edge_bits = label;
			let (kind, nonces) = nonsolution(rng, label, ps);
			h.pow.proof.nonces = nonces;
			let res = if selftest("ctx-cap-20") {
				let mut h2 = h.clone();
				h2.pow.proof.edge_bits = std::cmp::min(label, 20);
				vs_class(pc(|| pow::verify_size(&h2)))
			} else {
				vs_class(pc(|| pow::verify_size(&h)))
			};
			stats.hit(&format!("kind_{}", kind));
			stats.hit(&format!("{}_err_{}", cname, res));
			stats.hit(&format!(
				"label_{}",
				match label {
					1..=9 => "1-9",
					10..=20 => "10-20",
					21..=28 => "21-28",
					29 => "29",
					30..=40 => "30-40",
					_ => "41-63",
				}
			));
			if res == "ok" || res == "panic" {
				out.raw(&format!(
					"#ORACLE-FAIL C04 verify_size answers {} on a made-up nonce list ({}): chain={} height={} edge_bits={} pre_pow={} nonces={}",
					res, kind, cname, h.height, label, hex(&h.pre_pow()), nat_list(&h.pow.proof.nonces)
				));
			}
			out.line(&format!("cons vsz {} {}", cname, nh_token(&h)), &res);
		}
	}
	// ---- (c) relabelled headers delivered to a real Chain (validate_header / validate_pow_only)
	global::set_local_chain_type(ChainTypes::AutomatedTesting);
	let work = std::env::var("VERIF_WORK").unwrap_or_else(|_| "/verif/work/cons-powsize.d".to_string());
	let _ = std::fs::remove_dir_all(format!("{}/psz", work));
	std::fs::create_dir_all(&work).unwrap();
	let kc = ExtKeychain::from_seed(&rng.bytes(32), false).unwrap();
	let genesis = {
		let key_id = ExtKeychain::derive_key_id(0, 1, 0, 0, 0);
		let reward = libtx::reward::output(&kc, &libtx::ProofBuilder::new(&kc), &key_id, 0, false).unwrap();
		genesis::genesis_dev().with_reward(reward.0, reward.1)
	};
	let node = open_chain(&format!("{}/psz", work), &genesis);
	let ps = global::proofsize();
	let n_blocks: u32 = if thorough { 14 } else { 6 };
	for n in 1..=n_blocks {
		let s: u8 = *rng.pick(&[10u8, 10, 11, 12, 13]);
		let chain = &node.chain;
		let prev = chain.head_header().unwrap();
		let next = consensus::next_difficulty(prev.height + 1, chain.difficulty_iter().unwrap());
		let pk = ExtKeychainPath::new(1, n, 0, 0, 0).to_identifier();
		let reward = libtx::reward::output(&kc, &libtx::ProofBuilder::new(&kc), &pk, 0, false).unwrap();
		let mut b = Block::new(&prev, &[], next.difficulty, reward).unwrap();
		b.header.timestamp = prev.timestamp + Duration::seconds(rng.range(1, 300) as i64);
		b.header.pow.secondary_scaling = next.secondary_scaling;
		chain.set_txhashset_roots(&mut b).unwrap();
		if solve_cuckatoo(&mut b.header, s, ps, next.difficulty.to_num(), 4000).is_none() {
			stats.hit("chain_unsolved");
			break;
		}
		let v = b.header.clone();
		let keys = real_keys(&v.pre_pow());
		for label in 1..=63u8 {
			if label == s {
				continue;
			}
			if cuckatoo_rule(&keys, label, ps, &v.pow.proof.nonces) {
				// a genuine cycle of the other graph as well: a valid header, not a probe
				stats.hit("chain_coincidence_skipped");
				continue;
			}
			let mut h = v.clone();
			h.pow.proof.edge_bits = label;
			// only what can arrive from the wire (nonces are packed at the claimed width; an
			// in-memory proof with wider nonces makes `Proof::pack_nonces`, hence `hash()`, panic)
			if h.pow.proof.nonces.iter().any(|x| (*x >> label) != 0) || wire_header(&h, 3).and_then(|x| x.1).is_none() {
				stats.hit("chain_inexpressible_skipped");
				continue;
			}
			let via = ["pbh", "sync", "pb"][(label as usize + n as usize) % 3];
			let opts = [Options::NONE, Options::SYNC, Options::MINE][(label as usize / 3) % 3];
			let window = window_at(chain, h.prev_hash);
			let res = match via {
				"pbh" => pc(|| chain.process_block_header(&h, opts).map(|_| ())),
				"sync" => pc(|| {
					let sync_head = chain.header_head().unwrap();
					chain.sync_block_headers(&[h.clone()], sync_head, opts).map(|_| ())
				}),
				_ => pc(|| {
					let mut bb = b.clone();
					bb.header = h.clone();
					chain.process_block(bb, opts).map(|_| ())
				}),
			};
			let class = match &res {
				None => "panic".to_string(),
				Some(Ok(())) => "ok".to_string(),
				Some(Err(e)) => chain_err_class(e),
			};
			stats.hit(&format!("chain_{}_{}", via, class));
			if class == "ok" || class == "panic" {
				out.raw(&format!(
					"#ORACLE-FAIL C04 the chain answers {} via {} to a header whose cycle was solved on 2^{} edges and which claims edge_bits {}: hdr={} nonces={}",
					class, via, s, label, show_hdr(&h), nat_list(&h.pow.proof.nonces)
				));
			}
			out.line(
				&format!(
					"cons pbhn {} auto {} 1 {} {} {}",
					via,
					opts.bits(),
					show_hdr(&prev),
					nh_token(&h),
					show_window(&window)
				),
				&class,
			);
		}
		// the honest header and block
		let window = window_at(chain, v.prev_hash);
		let res = pc(|| chain.process_block_header(&v, Options::NONE).map(|_| ()));
		let class = match &res {
			None => "panic".to_string(),
			Some(Ok(())) => "ok".to_string(),
			Some(Err(e)) => chain_err_class(e),
		};
		out.line(
			&format!(
				"cons pbhn pbh auto 0 1 {} {} {}",
				show_hdr(&prev),
				nh_token(&v),
				show_window(&window)
			),
			&class,
		);
		stats.hit(&format!("chain_honest_at_{}_{}", s, class));
		let r = chain.process_block(b.clone(), Options::NONE);
		let head = chain.head().unwrap();
		if r.is_err() || head.last_block_h != v.hash() {
			out.raw(&format!(
				"#ORACLE-FAIL C04 honest block solved at edge_bits {} not accepted as head at height {}: {:?}",
				s,
				v.height,
				r.err()
			));
			break;
		}
	}
	stats.dump(out, "powsize");
}

// ---------------------------------------------------------------------------------------------
// wire mode: every network entry path of a header applies the network-side header rules
// ---------------------------------------------------------------------------------------------

/// what a reader handed over
#[derive(Clone)]
enum Got {
	Nothing,
	Header(BlockHeader),
	Headers(Vec<BlockHeader>),
	Compact(CompactBlock),
	Full(Block),
}

fn p2p_err_class(e: &grin_p2p::Error) -> String {
	match e {
		grin_p2p::Error::Serialization(se) => ser_class(Some(Err(se.clone()))),
		other => {
			let d = format!("{:?}", other);
			format!("P2p:{}", d.chars().take_while(|c| c.is_alphanumeric()).collect::<String>())
		}
	}
}

/// the object read directly through its `Untrusted*` reader
fn decode_direct(path: &str, bytes: &[u8], pv: u32) -> (String, Got) {
	let v = ProtocolVersion(pv);
	let m = DeserializationMode::default();
	match path {
		"hdr" => match pc(|| ser::deserialize::<UntrustedBlockHeader, _>(&mut &bytes[..], v, m)) {
			None => ("panic".into(), Got::Nothing),
			Some(Ok(h)) => ("ok".into(), Got::Header(h.into())),
			Some(Err(e)) => (ser_class(Some(Err(e))), Got::Nothing),
		},
		"cblk" => match pc(|| ser::deserialize::<UntrustedCompactBlock, _>(&mut &bytes[..], v, m)) {
			None => ("panic".into(), Got::Nothing),
			Some(Ok(c)) => ("ok".into(), Got::Compact(c.into())),
			Some(Err(e)) => (ser_class(Some(Err(e))), Got::Nothing),
		},
		_ if selftest("blk-skips-rules") => match pc(|| ser::deserialize::<Block, _>(&mut &bytes[..], v, m)) {
			None => ("panic".into(), Got::Nothing),
			Some(Ok(b)) => ("ok".into(), Got::Full(b)),
			Some(Err(e)) => (ser_class(Some(Err(e))), Got::Nothing),
		},
		_ => match pc(|| ser::deserialize::<UntrustedBlock, _>(&mut &bytes[..], v, m)) {
			None => ("panic".into(), Got::Nothing),
			Some(Ok(b)) => ("ok".into(), Got::Full(b.into())),
			Some(Err(e)) => (ser_class(Some(Err(e))), Got::Nothing),
		},
	}
}

/// a framed p2p message (real `Msg::new` + `write_message`, fresh tracker: no pacing delay)
fn msg_bytes<T: ser::Writeable>(ty: Type, obj: &T, pv: u32) -> Option<Vec<u8>> {
	let msg = pc(|| Msg::new(ty, obj, ProtocolVersion(pv)))?.ok()?;
	let mut v: Vec<u8> = Vec::new();
	write_message(&mut v, &msg, Arc::new(Tracker::new())).ok()?;
	Some(v)
}

/// the framed message delivered over a loopback connection and read with the real `Codec`
/// (`Codec::read` → `decode_message` → the `Untrusted*` reader of the message type; a `Headers`
/// message header by header). Returns the class and everything the codec handed out.
fn decode_codec(stream_bytes: &[u8], pv: u32) -> (String, Vec<Got>) {
	let listener = TcpListener::bind("127.0.0.1:0").unwrap();
	let addr = listener.local_addr().unwrap();
	let to_write = stream_bytes.to_vec();
	let writer = std::thread::spawn(move || {
		let mut s = TcpStream::connect(addr).unwrap();
		let _ = s.set_nodelay(true);
		let _ = s.write_all(&to_write);
		let _ = s.flush();
		let _ = s.shutdown(Shutdown::Write);
		let mut sink = [0u8; 16];
		let _ = s.read(&mut sink);
	});
	let (stream, _) = listener.accept().unwrap();
	let mut codec = Codec::new(ProtocolVersion(pv), stream.try_clone().unwrap());
	let mut got: Vec<Got> = vec![];
	let class;
	loop {
		let next = match std::panic::catch_unwind(AssertUnwindSafe(|| codec.read())) {
			Ok((m, _)) => m,
			Err(_) => {
				class = "panic".to_string();
				break;
			}
		};
		match next {
			Ok(Message::Header(h)) => {
				got.push(Got::Header(h.into()));
				class = "ok".to_string();
				break;
			}
			Ok(Message::CompactBlock(c)) => {
				got.push(Got::Compact(c.into()));
				class = "ok".to_string();
				break;
			}
			Ok(Message::Block(b)) => {
				got.push(Got::Full(b.into()));
				class = "ok".to_string();
				break;
			}
			Ok(Message::Headers(d)) => {
				let rem = d.remaining;
				got.push(Got::Headers(d.headers));
				if rem == 0 {
					class = "ok".to_string();
					break;
				}
			}
			Ok(_) => {
				class = "P2p:OtherMessage".to_string();
				break;
			}
			Err(e) => {
				class = p2p_err_class(&e);
				break;
			}
		}
	}
	let _ = codec.stream().shutdown(Shutdown::Both);
	drop(stream);
	let _ = writer.join();
	(class, got)
}

/// the block as a peer speaking protocol version 1 or 2 sends it: inputs with their features
/// (every input of these chains spends a coinbase); same header, same hash
fn features_form(b: &Block) -> Block {
	let mut w = b.clone();
	let commits: Vec<grin_core::core::CommitWrapper> = b.inputs().into();
	let ins: Vec<Input> = commits
		.iter()
		.map(|c| Input::new(OutputFeatures::Coinbase, c.commitment()))
		.collect();
	w.body.inputs = Inputs::FeaturesAndCommit(ins);
	w
}

/// pipeline self-tests (never set by `./check`): pretend the implementation has a defect and see
/// that the run reports it. `VERIF_CONS_SELFTEST=blk-skips-rules`: the full-block path reads the
/// header with the plain reader; `ctx-cap-20`: the verifier context is built at min(edge_bits, 20).
fn selftest(name: &str) -> bool {
	std::env::var("VERIF_CONS_SELFTEST").map(|v| v == name).unwrap_or(false)
}

struct WVar {
	kind: String,
	field: &'static str,
	block: Block,
	/// decode second and timestamp offset classes are only meaningful for these
	time_variant: bool,
}

const WIRE_PATHS: [&str; 6] = ["hdr", "cblk", "blk", "msg-hdr", "msg-cblk", "msg-blk"];

/// the network-side rules evaluated by the harness itself on the header as it is on the wire
/// (`None`: the header cannot be read at all): Some(reason) when it must be refused
fn net_refusal(w: &Option<BlockHeader>, now: i64, ftl: u64) -> Option<&'static str> {
	let h = match w {
		None => return Some("unreadable"),
		Some(h) => h,
	};
	if h.timestamp.timestamp() > now + ftl as i64 {
		return Some("timestamp");
	}
	if h.version != consensus::header_version(h.height) {
		return Some("version");
	}
	let eb = h.pow.proof.edge_bits;
	if !allowed_edge_bits(eb) {
		return Some("edge_bits");
	}
	if !cuckatoo_rule(&real_keys(&h.pre_pow()), eb, global::proofsize(), &h.pow.proof.nonces) {
		return Some("pow");
	}
	None
}

fn run_wire(out: &mut Out, rng: &mut Rng, thorough: bool) {
	global::set_local_chain_type(ChainTypes::AutomatedTesting);
	let work = std::env::var("VERIF_WORK").unwrap_or_else(|_| "/verif/work/cons-wire.d".to_string());
	let _ = std::fs::remove_dir_all(format!("{}/builder", work));
	let _ = std::fs::remove_dir_all(format!("{}/subject", work));
	std::fs::create_dir_all(&work).unwrap();
	let mut stats = Stats(BTreeMap::new());
	let mut matrix = Stats(BTreeMap::new());
	let kc = ExtKeychain::from_seed(&rng.bytes(32), false).unwrap();
	let genesis = {
		let key_id = ExtKeychain::derive_key_id(0, 1, 0, 0, 0);
		let reward = libtx::reward::output(&kc, &libtx::ProofBuilder::new(&kc), &key_id, 0, false).unwrap();
		genesis::genesis_dev().with_reward(reward.0, reward.1)
	};
	let builder = open_chain(&format!("{}/builder", work), &genesis);
	let mut subject = open_chain(&format!("{}/subject", work), &genesis);
	let mut subject_gen = 0u32;
	let n_blocks: u32 = if thorough { 40 } else { 14 };
	let ps = global::proofsize();
	let min_eb = global::min_edge_bits();
	let start = Utc::now().timestamp() - 400_000;
	let mut honest_blocks: Vec<Block> = vec![];
	let mut reward_value: Vec<u64> = vec![0]; // by height
	let mut fails = 0u64;
	let mut at_limit_in_second = 0u64;
	for n in 1..=n_blocks {
		let ftl = *rng.pick(&[0u64, 1, 300, 720, 100_000]);
		global::set_local_future_time_limit(ftl);
		let prev = builder.chain.head_header().unwrap();
		let next = consensus::next_difficulty(prev.height + 1, builder.chain.difficulty_iter().unwrap());
		// from height 5 on every block carries a transaction spending the coinbase four blocks back
		let fee: u64 = 2_000_000;
		let mut txs: Vec<Transaction> = vec![];
		if n >= 5 {
			let m = n - 4;
			let val = reward_value[m as usize];
			let tx = chainkit::make_tx(
				&kc,
				&[(val, ExtKeychainPath::new(1, m, 0, 0, 0).to_identifier(), true)],
				&[(val - fee, ExtKeychainPath::new(3, n, 0, 0, 0).to_identifier())],
				KernelFeatures::Plain { fee: (fee as u32).into() },
			)
			.unwrap();
			txs.push(tx);
		}
		let fees: u64 = if txs.is_empty() { 0 } else { fee };
		reward_value.push(consensus::REWARD + fees);
		let pk = ExtKeychainPath::new(1, n, 0, 0, 0).to_identifier();
		let reward = libtx::reward::output(&kc, &libtx::ProofBuilder::new(&kc), &pk, fees, false).unwrap();
		let mut b = Block::new(&prev, &txs, next.difficulty, reward).unwrap();
		let honest_ts = std::cmp::max(prev.timestamp.timestamp(), start) + rng.range(1, 600) as i64;
		set_ts(&mut b.header, honest_ts);
		b.header.pow.secondary_scaling = next.secondary_scaling;
		builder.chain.set_txhashset_roots(&mut b).unwrap();
		b.header.pow.proof.edge_bits = min_eb;
		pow::pow_size(&mut b.header, next.difficulty, ps, min_eb).unwrap();
		let honest = b.clone();
		let mk = |kind: &str, field: &'static str, f: &dyn Fn(&mut BlockHeader), remine: bool, tv: bool| -> Option<WVar> {
			let mut blk = honest.clone();
			f(&mut blk.header);
			if remine {
				let ts = blk.header.timestamp;
				blk.header.pow.proof.edge_bits = min_eb;
				let ok = pc(|| {
					let mut hh = blk.header.clone();
					pow::pow_size(&mut hh, next.difficulty, ps, min_eb).map(|_| hh)
				});
				match ok {
					Some(Ok(hh)) if hh.timestamp == ts => blk.header = hh,
					_ => return None,
				}
			}
			Some(WVar {
				kind: kind.to_string(),
				field,
				block: blk,
				time_variant: tv,
			})
		};
		let mut vars: Vec<WVar> = vec![WVar {
			kind: "honest".into(),
			field: "-",
			block: honest.clone(),
			time_variant: false,
		}];
		let push = |v: Option<WVar>, vars: &mut Vec<WVar>| {
			if let Some(v) = v {
				vars.push(v)
			}
		};
		push(mk("badpow", "nonce", &|h| h.pow.nonce = h.pow.nonce.wrapping_add(1), false, false), &mut vars);
		let labels: Vec<u8> = if thorough || n % 4 == 1 {
			vec![7, 8, 9, 11, 12, 19, 20, 21, 28, 29, 30, 31, 32, 48, 62, 63]
		} else {
			vec![9, 11, 20, 21, 29, 31, 63]
		};
		for l in labels {
			push(
				mk(
					&format!("eb={}", l),
					"edge_bits",
					&|h| {
						h.pow.proof.edge_bits = l;
						// on the wire the nonces are packed at the claimed width: where the honest
						// ones do not fit, any ascending list that does
						if h.pow.proof.nonces.iter().any(|x| (*x >> l) != 0) {
							h.pow.proof.nonces = (0..ps as u64).map(|i| i * 3 + 1).collect();
						}
					},
					false,
					false,
				),
				&mut vars,
			);
		}
		push(
			mk("version+1", "version", &|h| h.version = HeaderVersion(h.version.0 + 1), true, false),
			&mut vars,
		);
		push(
			mk(
				"version-1",
				"version",
				&|h| h.version = HeaderVersion(h.version.0.wrapping_sub(1)),
				true,
				false,
			),
			&mut vars,
		);
		// time variants: mined for the second they are decoded in
		let n_fixed = vars.len();
		let mut attempts = 0;
		let mut t_sec;
		loop {
			vars.truncate(n_fixed);
			t_sec = Utc::now().timestamp();
			let lim = t_sec + ftl as i64;
			for (kind, ts) in [
				("ts=limit-1", lim - 1),
				("ts=limit", lim),
				("ts=limit+1", lim + 1),
				("ts=limit+1day", lim + 86_400),
			] {
				push(mk(kind, "timestamp", &|h| set_ts(h, ts), true, true), &mut vars);
			}
			attempts += 1;
			if Utc::now().timestamp() == t_sec || attempts >= 5 {
				break;
			}
		}
		// time variants first (they are the ones bound to the clock)
		let order: Vec<usize> = (n_fixed..vars.len()).chain(0..n_fixed).collect();
		// per variant: did every path refuse / accept, what was handed over
		let mut let_through: Vec<(usize, String, Got)> = vec![];
		let mut all_ok: Vec<bool> = vec![true; vars.len()];
		for &vi in order.iter() {
			let var = &vars[vi];
			let cb: Option<CompactBlock> = pc(|| CompactBlock::from(var.block.clone()));
			let old_form = features_form(&var.block);
			for pv in 1..=3u32 {
				let blk_form: &Block = if pv < 3 { &old_form } else { &var.block };
				let whdr = wire_header(&var.block.header, pv);
				let (hbytes, back) = match whdr {
					None => {
						stats.hit("unwritable");
						continue;
					}
					Some(x) => x,
				};
				for path in WIRE_PATHS.iter() {
					// the bytes of the object of this path
					let obj_bytes: Option<Vec<u8>> = match *path {
						"hdr" => Some(hbytes.clone()),
						"cblk" => cb.as_ref().and_then(|c| pc(|| ser::ser_vec(c, ProtocolVersion(pv))).and_then(|r| r.ok())),
						"blk" => pc(|| ser::ser_vec(blk_form, ProtocolVersion(pv))).and_then(|r| r.ok()),
						"msg-hdr" => msg_bytes(Type::Header, &var.block.header, pv),
						"msg-cblk" => cb.as_ref().and_then(|c| msg_bytes(Type::CompactBlock, c, pv)),
						_ => msg_bytes(Type::Block, blk_form, pv),
					};
					let obj_bytes = match obj_bytes {
						None => {
							stats.hit("unwritable");
							continue;
						}
						Some(x) => x,
					};
					let (now, (class, got)) = in_one_second(|| {
						if path.starts_with("msg-") {
							let (c, mut g) = decode_codec(&obj_bytes, pv);
							(c, g.pop().unwrap_or(Got::Nothing))
						} else {
							decode_direct(path, &obj_bytes, pv)
						}
					});
					let refusal = net_refusal(&back, now, ftl);
					let kind_stat = if var.time_variant {
						let off = var.block.header.timestamp.timestamp() - (now + ftl as i64);
						if var.kind == "ts=limit" && off == 0 {
							at_limit_in_second += 1;
						}
						format!(
							"ts=limit{}",
							match off {
								x if x < -1 => "-many".to_string(),
								-1 => "-1".to_string(),
								0 => "+0".to_string(),
								1 => "+1".to_string(),
								x if x < 86_000 => "+few".to_string(),
								_ => "+1day".to_string(),
							}
						)
					} else {
						var.kind.clone()
					};
					matrix.hit(&format!("{}|{}|{}", path, kind_stat, if class == "ok" { "ok" } else { "refused" }));
					stats.hit(&format!("class_{}", class));
					stats.hit(&format!("pv{}", pv));
					if class != "ok" {
						all_ok[vi] = false;
					}
					if class == "panic" {
						fails += 1;
						out.raw(&format!(
							"#ORACLE-FAIL C04 network reader panicked: path={} pv={} variant={} hdr={}",
							path, pv, var.kind, show_hdr(&var.block.header)
						));
					}
					if class == "ok" {
						if let Some(reason) = refusal {
							fails += 1;
							out.raw(&format!(
								"#ORACLE-FAIL C04 path {} (protocol version {}) lets a header through that the network-side header rules refuse: rule={} variant={} field={} now={} ftl={} hdr={}",
								path, pv, reason, var.kind, var.field, now, ftl, show_hdr(&var.block.header)
							));
							let_through.push((vi, format!("{}/pv{}", path, pv), got.clone()));
						}
					} else if refusal.is_none() {
						fails += 1;
						out.raw(&format!(
							"#ORACLE-FAIL C04 path {} (protocol version {}) refuses ({}) a block that obeys every network-side header rule: variant={} now={} ftl={} hdr={}",
							path, pv, class, var.kind, now, ftl, show_hdr(&var.block.header)
						));
					}
					out.raw(&format!("# wire {} {}", path, var.kind));
					match &back {
						None => out.line(
							&format!("cons wiredec {} {} auto {}", path, pv, var.block.header.pow.proof.edge_bits),
							&class,
						),
						Some(w) => out.line(
							&format!("cons wire {} {} auto {} {} {}", path, pv, now, ftl, nh_token(w)),
							&class,
						),
					}
				}
			}
			// a Headers message with this header at some position among honest ones
			let known: Vec<BlockHeader> = honest_blocks.iter().rev().take(3).map(|b| b.header.clone()).collect();
			let pv = 1 + ((vi as u32 + n) % 3);
			let v = var.block.header.clone();
			let list: Vec<BlockHeader> = match (vi + n as usize) % 4 {
				0 => vec![v.clone()],
				1 => known.iter().rev().cloned().chain(std::iter::once(v.clone())).collect(),
				2 => std::iter::once(v.clone()).chain(known.iter().take(1).cloned()).collect(),
				_ => {
					let mut l: Vec<BlockHeader> = known.iter().take(2).cloned().collect();
					l.insert(l.len().min(1), v.clone());
					l
				}
			};
			let wl: Vec<Option<BlockHeader>> = list.iter().map(|h| wire_header(h, pv).and_then(|x| x.1)).collect();
			if let Some(mb) = msg_bytes(Type::Headers, &Headers { headers: list.clone() }, pv) {
				let (now, (class, got)) = in_one_second(|| decode_codec(&mb, pv));
				let first_refusal = wl.iter().filter_map(|w| net_refusal(w, now, ftl)).next();
				let kind_stat = if var.time_variant {
					let off = v.timestamp.timestamp() - (now + ftl as i64);
					format!(
						"ts=limit{}",
						match off {
							x if x < -1 => "-many".to_string(),
							-1 => "-1".to_string(),
							0 => "+0".to_string(),
							1 => "+1".to_string(),
							x if x < 86_000 => "+few".to_string(),
							_ => "+1day".to_string(),
						}
					)
				} else {
					var.kind.clone()
				};
				matrix.hit(&format!("msg-hdrs|{}|{}", kind_stat, if class == "ok" { "ok" } else { "refused" }));
				stats.hit(&format!("hdrs_len_{}", list.len()));
				if class != "ok" {
					all_ok[vi] = false;
				}
				let handed: Vec<BlockHeader> = got
					.iter()
					.flat_map(|g| match g {
						Got::Headers(hs) => hs.clone(),
						_ => vec![],
					})
					.collect();
				let var_handed = handed.iter().any(|h| h.pow.nonce == v.pow.nonce && h.timestamp == v.timestamp && h.version == v.version && h.pow.proof.edge_bits == v.pow.proof.edge_bits);
				if (class == "ok" || var_handed) && first_refusal.is_some() {
					fails += 1;
					out.raw(&format!(
						"#ORACLE-FAIL C04 path msg-hdrs (protocol version {}) lets a header through that the network-side header rules refuse: rule={} variant={} field={} now={} ftl={} position={} of {} hdr={}",
						pv, first_refusal.unwrap(), var.kind, var.field, now, ftl, list.iter().position(|h| h.pow.nonce == v.pow.nonce && h.timestamp == v.timestamp).unwrap_or(0), list.len(), show_hdr(&v)
					));
					let_through.push((vi, format!("msg-hdrs/pv{}", pv), Got::Headers(handed.clone())));
				}
				if class != "ok" && first_refusal.is_none() {
					fails += 1;
					out.raw(&format!(
						"#ORACLE-FAIL C04 path msg-hdrs (protocol version {}) refuses ({}) a list of headers that obey every network-side rule: variant={} now={} ftl={}",
						pv, class, var.kind, now, ftl
					));
				}
				if wl.iter().all(|w| w.is_some()) {
					let toks: Vec<String> = wl.iter().map(|w| nh_token(w.as_ref().unwrap())).collect();
					out.raw(&format!("# wire msg-hdrs {}", var.kind));
					out.line(
						&format!("cons wirehs {} auto {} {} [{}]", pv, now, ftl, toks.join(",")),
						&class,
					);
				}
			}
		}
		// ---- what the paths let through goes on to the chain
		// (1) anything the rules refuse but a path handed over: offered BEFORE the honest block
		let mut tainted = false;
		for (vi, path, got) in let_through.iter().take(6) {
			let var = &vars[*vi];
			let chain = &subject.chain;
			let hh = var.block.header.hash();
			let res: Option<Result<(), grin_chain::Error>> = match got {
				Got::Header(h) => pc(|| chain.process_block_header(h, Options::NONE).map(|_| ())),
				Got::Headers(hs) => pc(|| {
					let sh = chain.header_head().unwrap();
					chain.sync_block_headers(hs, sh, Options::SYNC).map(|_| ())
				}),
				Got::Full(b) => pc(|| chain.process_block(b.clone(), Options::NONE).map(|_| ())),
				Got::Compact(c) => pc(|| match Block::hydrate_from(c.clone(), &txs) {
					Ok(b) => chain.process_block(b, Options::NONE).map(|_| ()),
					Err(_) => Err(grin_chain::Error::Other("hydrate".into())),
				}),
				Got::Nothing => None,
			};
			let class = match &res {
				None => "panic-or-nothing".to_string(),
				Some(Ok(())) => "ok".to_string(),
				Some(Err(e)) => chain_err_class(e),
			};
			let head = chain.head().unwrap();
			let hhead = chain.header_head().unwrap();
			let became = if head.last_block_h == hh {
				"IS NOW THE HEAD"
			} else if hhead.last_block_h == hh {
				"is now the header head"
			} else if class == "ok" {
				"was accepted (not head)"
			} else {
				"was refused by the chain"
			};
			if class == "ok" {
				tainted = true;
			}
			out.raw(&format!(
				"#ORACLE-FAIL C04 block let through by path {} (variant {}, offending field {}) offered to the chain: {} -> {}; head height {} header_head height {}; hdr={}",
				path, var.kind, var.field, class, became, head.height, hhead.height, show_hdr(&var.block.header)
			));
		}
		// (2) the honest header and block
		let vm = Mutant {
			kind: "valid".to_string(),
			h: honest.header.clone(),
			must_reject: false,
		};
		deliver_line(out, &mut stats, &subject.chain, &vm, &honest.header, "pbh", false, None);
		let r = subject.chain.process_block(honest.clone(), Options::NONE);
		builder.chain.process_block(honest.clone(), Options::MINE).unwrap();
		honest_blocks.push(honest.clone());
		if !tainted {
			let hd = subject.chain.head().unwrap();
			if r.is_err() || hd.last_block_h != honest.header.hash() {
				fails += 1;
				out.raw(&format!(
					"#ORACLE-FAIL C04 honest block at height {} is not the subject's head: {:?}",
					honest.header.height,
					r.err()
				));
			}
		}
		// (3) siblings every path accepted (within the limit): valid competing blocks, offered after
		// the honest one through the entry of a rotating path; the head must stay
		for (vi, var) in vars.iter().enumerate() {
			if tainted || !var.time_variant || !all_ok[vi] {
				continue;
			}
			let m = Mutant {
				kind: format!("sibling:{}", var.kind),
				h: var.block.header.clone(),
				must_reject: false,
			};
			let via = ["pbh", "sync", "pb"][(vi + n as usize) % 3];
			deliver_line(out, &mut stats, &subject.chain, &m, &honest.header, via, false, Some(&var.block));
			let hd = subject.chain.head().unwrap();
			if hd.last_block_h != honest.header.hash() {
				fails += 1;
				out.raw(&format!(
					"#ORACLE-FAIL C04 an equal-work sibling ({}) replaced the honest head at height {}",
					var.kind, honest.header.height
				));
			}
			stats.hit(&format!("sibling_via_{}", via));
		}
		if tainted {
			// the subject took something it should never have seen: start it again from the honest chain
			subject_gen += 1;
			let dir = format!("{}/subject{}", work, subject_gen);
			let _ = std::fs::remove_dir_all(&dir);
			subject = open_chain(&dir, &genesis);
			for hb in honest_blocks.iter() {
				let _ = subject.chain.process_block(hb.clone(), Options::NONE);
			}
			stats.hit("subject_restarted");
		}
	}
	// a long Headers message: the codec hands headers over in batches of 32; a refused header behind
	// the first batch ends the read, and is never handed over
	{
		let ftl = 300u64;
		global::set_local_future_time_limit(ftl);
		let base: Vec<BlockHeader> = honest_blocks.iter().map(|b| b.header.clone()).collect();
		let mut long: Vec<BlockHeader> = vec![];
		while long.len() < 33 {
			long.extend(base.iter().cloned());
		}
		long.truncate(33);
		let cases: Vec<(&str, Box<dyn Fn(&mut BlockHeader)>)> = vec![
			("honest", Box::new(|_h: &mut BlockHeader| {})),
			("ts=limit+1day", Box::new(|h: &mut BlockHeader| set_ts(h, Utc::now().timestamp() + 300 + 86_400))),
			("badpow", Box::new(|h: &mut BlockHeader| h.pow.nonce = h.pow.nonce.wrapping_add(1))),
			("eb=21", Box::new(|h: &mut BlockHeader| h.pow.proof.edge_bits = 21)),
		];
		for (kind, f) in cases {
			let mut v = base.last().unwrap().clone();
			f(&mut v);
			if kind.starts_with("ts=") {
				let _ = remine(&mut v);
			}
			let mut list = long.clone();
			list.push(v.clone());
			let pv = 3;
			if let Some(mb) = msg_bytes(Type::Headers, &Headers { headers: list.clone() }, pv) {
				let (now, (class, got)) = in_one_second(|| decode_codec(&mb, pv));
				let handed: usize = got
					.iter()
					.map(|g| match g {
						Got::Headers(hs) => hs.len(),
						_ => 0,
					})
					.sum();
				let refusal = net_refusal(&wire_header(&v, pv).and_then(|x| x.1), now, ftl);
				matrix.hit(&format!("msg-hdrs34|{}|{}", kind, if class == "ok" { "ok" } else { "refused" }));
				stats.hit(&format!("hdrs34_handed_{}", handed));
				if (refusal.is_some() && (class == "ok" || handed > 32)) || (refusal.is_none() && class != "ok") {
					fails += 1;
					out.raw(&format!(
						"#ORACLE-FAIL C04 path msg-hdrs: a list of 34 headers whose last is the {} variant (rule {:?}) read as {} with {} headers handed over",
						kind, refusal, class, handed
					));
				}
				let wl: Vec<Option<BlockHeader>> = list.iter().map(|h| wire_header(h, pv).and_then(|x| x.1)).collect();
				if wl.iter().all(|w| w.is_some()) {
					let toks: Vec<String> = wl.iter().map(|w| nh_token(w.as_ref().unwrap())).collect();
					out.line(
						&format!("cons wirehs {} auto {} {} [{}]", pv, now, ftl, toks.join(",")),
						&class,
					);
				}
			}
		}
	}
	stats.0.insert("at_limit_decoded_in_its_second".to_string(), at_limit_in_second);
	if fails == 0 {
		stats.hit("oracle_ok");
	}
	stats.dump(out, "wire");
	matrix.dump(out, "wire path|variant|verdict");
}

fn main() {
	quiet_panics();
	let args: Vec<String> = std::env::args().collect();
	let mode = args.get(1).map(|s| s.as_str()).unwrap_or("diff");
	let thorough = tier_thorough();
	let mut rng = Rng::new(seed_from_env());
	let mut out = Out::stdout();
	match mode {
		"diff" => run_diff(&mut out, &mut rng, thorough),
		"chain" => run_chain(&mut out, &mut rng, thorough),
		"known" => run_known(&mut out, &mut rng, thorough),
		"globals" => run_globals(&mut out, &mut rng, thorough),
		"dbwin" => run_dbwin(&mut out, &mut rng, thorough),
		"roots" => run_roots(&mut out, &mut rng, thorough),
		"forks" => run_forks(&mut out, &mut rng, thorough),
		"deny" => run_deny(&mut out, &mut rng, thorough),
		"powsize" => run_powsize(&mut out, &mut rng, thorough),
		"wire" => run_wire(&mut out, &mut rng, thorough),
		_ => {
			eprintln!("usage: cons diff|chain|known|globals|dbwin|roots|forks|deny|powsize|wire");
			std::process::exit(2);
		}
	}
	out.flush();
}
