//! C04 correspondence: header rules and difficulty retarget.
//!
//! `cons diff`  — pure functions of consensus.rs / global.rs / pow/types.rs on random and
//!                adversarial inputs (all four chain types, every hard-fork era).
//! `cons chain` — a real `Chain` in `$VERIF_WORK` under AutomatedTesting with real PoW: a valid
//!                chain across all header versions, and every single-field mutation of the next
//!                header delivered through the real pipeline.
use grin_core::consensus::{self, HeaderDifficultyInfo};
use grin_core::core::block::HeaderVersion;
use grin_core::core::hash::Hashed;
use grin_core::global::{self, ChainTypes};
use grin_core::pow::{Difficulty, Proof, ProofOfWork};
use gvharness::*;
use std::collections::BTreeMap;
use std::panic::AssertUnwindSafe;

pub const CTS: [(ChainTypes, &str); 4] = [
	(ChainTypes::Mainnet, "main"),
	(ChainTypes::Testnet, "test"),
	(ChainTypes::AutomatedTesting, "auto"),
	(ChainTypes::UserTesting, "user"),
];

pub fn hdi(ts: u64, diff: u64, scaling: u32, sec: bool) -> HeaderDifficultyInfo {
	let d = if diff == 0 {
		Difficulty::zero()
	} else {
		Difficulty::from_num(diff)
	};
	HeaderDifficultyInfo::new(None, ts, d, scaling, sec)
}

pub fn show_hdi(h: &HeaderDifficultyInfo) -> String {
	format!(
		"{}:{}:{}:{}",
		h.timestamp,
		h.difficulty.to_num(),
		h.secondary_scaling,
		if h.is_secondary { 1 } else { 0 }
	)
}

pub fn show_window(w: &[HeaderDifficultyInfo]) -> String {
	let parts: Vec<String> = w.iter().map(show_hdi).collect();
	format!("[{}]", parts.join(","))
}

pub struct Stats(pub BTreeMap<String, u64>);
impl Stats {
	pub fn hit(&mut self, k: &str) {
		*self.0.entry(k.to_string()).or_insert(0) += 1;
	}
	pub fn dump(&self, out: &mut Out, title: &str) {
		let parts: Vec<String> = self.0.iter().map(|(k, v)| format!("{}={}", k, v)).collect();
		out.raw(&format!("#STAT {}: {}", title, parts.join(" ")));
	}
}

fn pc<R>(f: impl FnOnce() -> R) -> Option<R> {
	catch(AssertUnwindSafe(f)).ok()
}

/// interesting heights for a chain type: around every hard fork, the u16 wrap of the interval
/// count, the C31 phase-out, secondary-ratio steps, and the u64 edge.
fn heights(ct: ChainTypes, rng: &mut Rng, n_random: usize) -> Vec<u64> {
	let mut v: Vec<u64> = vec![];
	let mut around = |x: u64| {
		for d in 0..=2u64 {
			v.push(x.saturating_sub(2).saturating_add(d));
			v.push(x.saturating_add(d));
		}
	};
	around(0);
	match ct {
		ChainTypes::Mainnet => {
			for k in 1..=6u64 {
				around(k * consensus::HARD_FORK_INTERVAL);
			}
			around(65535 * consensus::HARD_FORK_INTERVAL);
			around(65536 * consensus::HARD_FORK_INTERVAL);
		}
		ChainTypes::Testnet => {
			around(consensus::TESTNET_FIRST_HARD_FORK);
			around(consensus::TESTNET_SECOND_HARD_FORK);
			around(consensus::TESTNET_THIRD_HARD_FORK);
			around(consensus::TESTNET_FOURTH_HARD_FORK);
		}
		_ => {
			for k in 1..=6u64 {
				around(k * consensus::TESTING_HARD_FORK_INTERVAL);
			}
			around(65535 * consensus::TESTING_HARD_FORK_INTERVAL);
			around(65536 * consensus::TESTING_HARD_FORK_INTERVAL);
		}
	}
	around(consensus::YEAR_HEIGHT);
	around(consensus::YEAR_HEIGHT + 30 * consensus::WEEK_HEIGHT);
	around(consensus::YEAR_HEIGHT + 31 * consensus::WEEK_HEIGHT);
	around(2 * consensus::YEAR_HEIGHT);
	let step = 2 * consensus::YEAR_HEIGHT / 90;
	around(step);
	around(45 * step);
	around(89 * step);
	around(90 * step);
	around(u64::MAX);
	around(1 << 32);
	for _ in 0..n_random {
		let bits = rng.range(1, 64);
		v.push(rng.next() >> (64 - bits));
	}
	v
}

struct WinGen;
impl WinGen {
	/// one difficulty window, latest first
	fn window(rng: &mut Rng, ct_weight: u32, stats: &mut Stats) -> Vec<HeaderDifficultyInfo> {
		let len = match rng.below(10) {
			0 => rng.below(4),
			1 => rng.range(4, 59),
			2 => 59 + rng.below(4),
			3 => rng.range(63, 130),
			4 => 2,
			_ => 61,
		} as usize;
		stats.hit(match len {
			0 => "len0",
			1 => "len1",
			2 => "len2",
			3..=60 => "len3-60",
			61 => "len61",
			_ => "len>61",
		});
		let ts_kind = rng.below(9);
		let diff_kind = rng.below(7);
		let sc_kind = rng.below(5);
		let sec_kind = rng.below(5);
		stats.hit(&format!("ts{}", ts_kind));
		stats.hit(&format!("diff{}", diff_kind));
		let mut ts: u64 = match rng.below(5) {
			0 => rng.below(5000),
			1 => u64::MAX - rng.below(100_000),
			2 => 1 << 63,
			_ => 1_500_000_000 + rng.below(200_000_000),
		};
		let const_gap = rng.range(1, 7200);
		let const_diff = match rng.below(3) {
			0 => rng.range(1, 100),
			1 => rng.next() >> rng.range(1, 63),
			_ => u64::MAX / 3600 + rng.below(1000) - 500,
		};
		let sec_p = rng.below(101);
		let mut w = vec![];
		for i in 0..len {
			let diff = match diff_kind {
				0 => rng.range(0, 5),
				1 => rng.range(1, 1 << 20),
				2 => const_diff,
				3 => u64::MAX / 60 / 60 + rng.below(1 << 40),
				4 => u64::MAX - rng.below(3),
				5 => rng.next() >> rng.range(0, 63),
				_ => 1_000_000 + rng.below(1000),
			};
			let scaling: u32 = match sc_kind {
				0 => ct_weight,
				1 => rng.next() as u32,
				2 => u32::MAX - rng.below(3) as u32,
				3 => rng.below(30) as u32,
				_ => ct_weight.wrapping_add(rng.below(200) as u32),
			};
			let sec = match sec_kind {
				0 => true,
				1 => false,
				_ => rng.below(100) < sec_p,
			};
			w.push(hdi(ts, diff, scaling, sec));
			// next (older) timestamp
			ts = match ts_kind {
				0 => ts.wrapping_sub(60),
				1 => ts,
				2 => ts.wrapping_add(rng.range(1, 100)),
				3 => ts.wrapping_sub(rng.range(0, 1 << 40)),
				4 => ts.wrapping_sub(const_gap),
				5 => ts.wrapping_sub(rng.range(1, 120)),
				6 => {
					if i == 0 {
						// the divisor of the wtema step wraps to zero at this gap
						ts.wrapping_add(consensus::WTEMA_HALF_LIFE - consensus::BLOCK_TIME_SEC)
					} else {
						ts.wrapping_sub(60)
					}
				}
				7 => ts.saturating_sub(rng.range(0, 7200)),
				_ => rng.next() >> rng.range(0, 63),
			};
		}
		w
	}
}

fn run_diff(out: &mut Out, rng: &mut Rng, thorough: bool) {
	let mut stats = Stats(BTreeMap::new());
	// damp / clamp / secondary_pow_ratio
	let n = if thorough { 20000 } else { 3000 };
	let edge_vals: Vec<u64> = vec![
		0,
		1,
		2,
		3,
		12,
		13,
		59,
		60,
		61,
		1799,
		1800,
		1801,
		3599,
		3600,
		3601,
		5400,
		7199,
		7200,
		7201,
		10800,
		u64::MAX,
		u64::MAX - 1,
		u64::MAX / 2,
		u64::MAX / 3,
		u64::MAX / 13,
		u64::MAX - 7200,
		1 << 32,
		1 << 63,
	];
	let pick = |rng: &mut Rng| -> u64 {
		match rng.below(3) {
			0 => *rng.pick(&edge_vals),
			1 => rng.next() >> rng.range(0, 63),
			_ => rng.below(20000),
		}
	};
	for i in 0..n {
		let a = pick(rng);
		let (g, f) = match i % 4 {
			0 => (consensus::BLOCK_TIME_WINDOW, consensus::DMA_DAMP_FACTOR),
			1 => (rng.below(5401), consensus::AR_SCALE_DAMP_FACTOR),
			2 => (pick(rng), rng.below(5)),
			_ => (pick(rng), pick(rng)),
		};
		let r = pc(|| consensus::damp(a, g, f));
		out.line(
			&format!("cons damp {} {} {}", a, g, f),
			&r.map(|x| x.to_string()).unwrap_or("panic".into()),
		);
		let f2 = if i % 4 < 2 { consensus::CLAMP_FACTOR } else { f };
		let r = pc(|| consensus::clamp(a, g, f2));
		out.line(
			&format!("cons clamp {} {} {}", a, g, f2),
			&r.map(|x| x.to_string()).unwrap_or("panic".into()),
		);
	}
	// per chain type: parameters, header versions, graph weights, secondary ratio
	for (ct, cn) in CTS.iter() {
		global::set_local_chain_type(*ct);
		out.line(
			&format!("cons params {}", cn),
			&format!(
				"{} {} {} {} {}",
				global::min_edge_bits(),
				global::base_edge_bits(),
				global::max_block_weight(),
				global::initial_graph_weight(),
				global::min_wtema_graph_weight()
			),
		);
		let hs = heights(*ct, rng, if thorough { 3000 } else { 400 });
		for &h in &hs {
			out.line(
				&format!("cons ratio {}", h),
				&consensus::secondary_pow_ratio(h).to_string(),
			);
			let hv = consensus::header_version(h).0;
			stats.hit(&format!("hv_{}_{}", cn, hv));
			out.line(&format!("cons hv {} {}", cn, h), &hv.to_string());
			for v in [hv.wrapping_sub(1), hv, hv.wrapping_add(1), rng.below(8) as u16] {
				out.line(
					&format!("cons vhv {} {} {}", cn, h, v),
					&consensus::valid_header_version(h, HeaderVersion(v)).to_string(),
				);
			}
			for eb in [
				0u8,
				1,
				9,
				10,
				11,
				15,
				23,
				24,
				29,
				30,
				31,
				32,
				33,
				63,
				64,
				88,
				255,
				rng.below(256) as u8,
			] {
				let r = pc(|| consensus::graph_weight(h, eb));
				out.line(
					&format!("cons gw {} {} {}", cn, h, eb),
					&r.map(|x| x.to_string()).unwrap_or("panic".into()),
				);
			}
		}
		for eb in 0..=255u8 {
			let pw = ProofOfWork {
				total_difficulty: Difficulty::min_dma(),
				secondary_scaling: 1,
				nonce: 0,
				proof: Proof {
					edge_bits: eb,
					nonces: vec![],
				},
			};
			out.line(
				&format!("cons edge {} {}", cn, eb),
				&format!("{} {}", pw.is_primary(), pw.is_secondary()),
			);
		}
		// to_difficulty on real proof hashes
		let nt = if thorough { 3000 } else { 400 };
		for _ in 0..nt {
			let eb = match rng.below(4) {
				0 => 29u8,
				1 => global::min_edge_bits(),
				_ => rng.range(1, 63) as u8,
			};
			let nonces: Vec<u64> = (0..global::proofsize())
				.map(|_| rng.next() & ((1u64 << eb) - 1))
				.collect();
			let proof = Proof {
				edge_bits: eb,
				nonces,
			};
			let scaling = match rng.below(4) {
				0 => 0u32,
				1 => u32::MAX,
				2 => global::initial_graph_weight(),
				_ => rng.next() as u32,
			};
			let h = *rng.pick(&hs);
			let hash64 = match pc(|| proof.hash().to_u64()) {
				Some(x) => x,
				None => continue,
			};
			let pw = ProofOfWork {
				total_difficulty: Difficulty::min_dma(),
				secondary_scaling: scaling,
				nonce: 0,
				proof,
			};
			let r = pc(|| pw.to_difficulty(h).to_num());
			out.line(
				&format!("cons todiff {} {} {} {} {}", cn, h, eb, scaling, hash64),
				&r.map(|x| x.to_string()).unwrap_or("panic".into()),
			);
			out.line(
				&format!("cons unscaled {}", hash64),
				&pw.to_unscaled_difficulty().to_num().to_string(),
			);
		}
		// windows
		let nw = if thorough { 12000 } else { 1500 };
		let w0 = global::initial_graph_weight();
		for i in 0..nw {
			let w = WinGen::window(rng, w0, &mut stats);
			let h = if i % 3 == 0 {
				rng.below(40)
			} else {
				*rng.pick(&hs)
			};
			let ws = show_window(&w);
			let show_res = |r: Option<HeaderDifficultyInfo>| -> String {
				r.map(|x| show_hdi(&x)).unwrap_or("panic".into())
			};
			let r = pc(|| consensus::next_difficulty(h, w.clone()));
			let era = if consensus::header_version(h) < HeaderVersion(5) {
				"dma"
			} else {
				"wtema"
			};
			match &r {
				None => stats.hit(&format!("nd_{}_panic", era)),
				Some(x) => {
					stats.hit(&format!("nd_{}_ok", era));
					let min = if era == "dma" {
						consensus::MIN_DMA_DIFFICULTY
					} else {
						global::min_wtema_graph_weight()
					};
					if x.difficulty.to_num() < min {
						out.raw(&format!(
							"#ORACLE-FAIL C04 next_difficulty below the minimum {}: chain={} height={} window={} result={}",
							min, cn, h, ws, show_hdi(x)
						));
					}
					if x.difficulty.to_num() == min {
						stats.hit(&format!("nd_{}_at_min", era));
					}
					// determinism: same answer when asked again
					let again = pc(|| consensus::next_difficulty(h, w.clone()));
					if again.as_ref() != Some(x) {
						out.raw(&format!(
							"#ORACLE-FAIL C04 next_difficulty not deterministic: chain={} height={} window={}",
							cn, h, ws
						));
					}
				}
			}
			out.line(&format!("cons nd {} {} {}", cn, h, ws), &show_res(r));
			match i % 4 {
				0 => {
					let r = pc(|| consensus::next_dma_difficulty(h, w.clone()));
					out.line(&format!("cons ndma {} {} {}", cn, h, ws), &show_res(r));
				}
				1 => {
					let r = pc(|| consensus::next_wtema_difficulty(h, w.clone()));
					out.line(&format!("cons nwtema {} {}", cn, ws), &show_res(r));
				}
				2 => {
					let r = pc(|| global::difficulty_data_to_vector(w.clone()));
					out.line(
						&format!("cons ddv {} {}", cn, ws),
						&r.map(|x| show_window(&x)).unwrap_or("panic".into()),
					);
				}
				_ => {
					let r = pc(|| consensus::secondary_pow_scaling(h, &w));
					if let Some(x) = r {
						if (x as u64) < consensus::MIN_AR_SCALE {
							stats.hit("sps_truncated_below_min");
						}
					}
					out.line(
						&format!("cons sps {} {}", h, ws),
						&r.map(|x| x.to_string()).unwrap_or("panic".into()),
					);
					out.line(
						&format!("cons arcount {}", ws),
						&consensus::ar_count(h, &w).to_string(),
					);
				}
			}
		}
	}
	// crafted: the `as u32` truncation of secondary_pow_scaling landing below MIN_AR_SCALE
	global::set_local_chain_type(ChainTypes::Mainnet);
	for _ in 0..(if thorough { 400 } else { 60 }) {
		let step = 2 * consensus::YEAR_HEIGHT / 90;
		let h = rng.below(89) * step + rng.below(step);
		let pct = consensus::secondary_pow_ratio(h);
		if pct == 0 {
			continue;
		}
		let nsec = rng.below(61);
		let target = consensus::DMA_WINDOW * pct;
		let adj = consensus::clamp(
			consensus::damp(100 * nsec, target, consensus::AR_SCALE_DAMP_FACTOR),
			target,
			consensus::CLAMP_FACTOR,
		)
		.max(1);
		let want = (1u64 << 32) + rng.below(20);
		let sum = (want * adj + pct - 1) / pct;
		if sum > 60 * (u32::MAX as u64) {
			continue;
		}
		let mut w = vec![];
		let mut left = sum;
		for i in 0..60u64 {
			let s = if i == 59 { left } else { (sum / 60).min(left) };
			if s > u32::MAX as u64 {
				break;
			}
			left -= s;
			w.push(hdi(1_600_000_000 - 60 * i, 1000, s as u32, i < nsec));
		}
		if w.len() != 60 {
			continue;
		}
		let r = pc(|| consensus::secondary_pow_scaling(h, &w));
		if let Some(x) = r {
			if (x as u64) < consensus::MIN_AR_SCALE {
				stats.hit("sps_truncated_below_min");
			}
		}
		out.line(
			&format!("cons sps {} {}", h, show_window(&w)),
			&r.map(|x| x.to_string()).unwrap_or("panic".into()),
		);
	}
	stats.dump(out, "diff");
}

fn run_chain(_out: &mut Out, _rng: &mut Rng, _thorough: bool) {}

fn main() {
	quiet_panics();
	let args: Vec<String> = std::env::args().collect();
	let mode = args.get(1).map(|s| s.as_str()).unwrap_or("diff");
	let thorough = tier_thorough();
	let mut rng = Rng::new(seed_from_env());
	let mut out = Out::stdout();
	match mode {
		"diff" => run_diff(&mut out, &mut rng, thorough),
		"chain" => run_chain(&mut out, &mut rng, thorough),
		_ => {
			eprintln!("usage: cons diff|chain");
			std::process::exit(2);
		}
	}
	out.flush();
}
