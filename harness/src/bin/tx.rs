//! C12 correspondence: aggregation, cut-through, de-aggregation, block -> compact block -> hydrate.
//!
//! Real transactions are built with a keychain (`libtx::build`, real Pedersen commitments,
//! bulletproofs and kernel signatures), put together in independent / chained / conflicting sets,
//! and handed to the real `aggregate`, `deaggregate`, `cut_through`, `Block::from_reward`,
//! `CompactBlock::from`, `Block::hydrate_from`.  Every observation is printed abstractly
//! (commitment ids in commitment byte order, hash-order tables, kernel ranks, offsets as hex) for
//! the Lean model (`lean/GrinVerif/Model/Tx.lean`, glue `Drv/TxD.lean`), and the natural oracles of
//! the property are evaluated here on the implementation's own answers (`#ORACLE-FAIL`).
use grin_core::core::hash::{Hash, Hashed};
use grin_core::core::id::ShortIdentifiable;
use grin_core::core::transaction::{self, Error as TxError};
use grin_core::core::{
	block, committed, Block, BlockHeader, CommitWrapper, CompactBlock, FeeFields, Input, Inputs, KernelFeatures,
	NRDRelativeHeight, Output, OutputFeatures, OutputIdentifier, Transaction, TxKernel, Weighting,
};
use grin_core::global::{self, ChainTypes};
use grin_core::libtx::{aggsig, build, reward, ProofBuilder};
use grin_core::pow::Difficulty;
use grin_core::ser;
use grin_keychain::{BlindingFactor, ExtKeychain, Identifier, Keychain};
use grin_util::secp::key::SecretKey;
use grin_util::secp::pedersen::{Commitment, RangeProof};
use gvharness::*;
use std::collections::{BTreeMap, BTreeSet, HashMap};
use std::convert::TryFrom;

type PB<'a> = ProofBuilder<'a, ExtKeychain>;

/// secp256k1 group order, big endian
const ORDER: [u8; 32] = [
	0xFF, 0xFF, 0xFF, 0xFF, 0xFF, 0xFF, 0xFF, 0xFF, 0xFF, 0xFF, 0xFF, 0xFF, 0xFF, 0xFF, 0xFF, 0xFE,
	0xBA, 0xAE, 0xDC, 0xE6, 0xAF, 0x48, 0xA0, 0x3B, 0xBF, 0xD2, 0x5E, 0x8C, 0xD0, 0x36, 0x41, 0x41,
];

#[derive(Clone, Copy, PartialEq, Debug)]
enum OffMode {
	Random,
	Zero,
}

#[derive(Clone)]
struct PTx {
	tx: Transaction,
	family: usize,
	/// indices (within the pool) of txs whose outputs this one spends
	parents: Vec<usize>,
	/// spends an output that another pool tx also spends
	conflict: bool,
	/// pool txs this one was aggregated from (multi-kernel)
	parts: Vec<usize>,
}

#[derive(Default)]
struct Stats {
	cases: u64,
	indep: u64,
	chained: u64,
	conflict: u64,
	with_multikernel: u64,
	with_v2: u64,
	sizes: BTreeMap<usize, u64>,
	kern_plain: u64,
	kern_hl: u64,
	kern_nrd: u64,
	shared_excess: u64,
	off_zero: u64,
	off_nonzero: u64,
	cut_pairs: u64,
	agg_ok: u64,
	agg_err: BTreeMap<String, u64>,
	perms: u64,
	groupings: u64,
	group_inner_err: u64,
	deaggs: u64,
	deagg_err: BTreeMap<String, u64>,
	deagg_oracle_checked: u64,
	/// de-aggregations with a spend link between known subset and remainder (deaggregate_general):
	/// runs; results that validate / do not validate
	deagg_linked: u64,
	deagg_linked_valid: u64,
	deagg_linked_invalid: u64,
	/// de-aggregations in shapes outside the hypothesis (foreign / repeated / superset operands,
	/// a single transaction or the empty transaction as the multi-kernel side): shape -> outcome
	deagg_odd: BTreeMap<String, u64>,
	validates: u64,
	validate_err: BTreeMap<String, u64>,
	cuts: u64,
	cut_err: u64,
	blocks: u64,
	block_err: u64,
	hydrates: u64,
	hydrate_variant_mismatch: u64,
	known_probes: u64,
	oracle_fails: u64,
	/// aggregates (two or more operands, some valid non-zero offset) whose offset came out zero:
	/// all of them / those that are conflict-free / those whose validate() is Ok
	agg_cancel: u64,
	agg_cancel_cf: u64,
	agg_cancel_valid: u64,
	/// conflict-free operand lists with cancelling offsets whose aggregate FAILED
	agg_cancel_failed: u64,
	/// inner groups of a grouping whose offsets cancel (group result has offset zero)
	group_cancel: u64,
	/// de-aggregations whose remainder has offset zero while the known subset's offset is not zero
	/// (among them: the whole set de-aggregated): ok / error, and how many went through the
	/// remainder oracle and were equal to the remainder
	deagg_zero_rem_ok: u64,
	deagg_zero_rem_err: u64,
	deagg_zero_rem_oracle_equal: u64,
	deagg_whole_ok: u64,
	/// blocks whose previous total offset cancels the aggregate's offset (header offset zero)
	block_cancel_ok: u64,
	block_cancel_err: u64,
	cancel_cases: u64,
	/// special-sum cases (offset sums 0, 1, 2, n-2, n-1): cases per target value; aggregates whose
	/// offset is the target; de-aggregations (ok) by the special value of the remainder's offset and
	/// of the known subset's offset; blocks by the special value of previous + aggregate offset
	sp_cases: BTreeMap<String, u64>,
	sp_agg: BTreeMap<String, u64>,
	sp_deagg_rem: BTreeMap<String, u64>,
	sp_deagg_sub: BTreeMap<String, u64>,
	sp_block: BTreeMap<String, u64>,
	sp_operand: BTreeMap<String, u64>,
	sp_partial3: u64,
	sp_partial4: u64,
	/// Block::validate results of the built blocks (by error class)
	bval: BTreeMap<String, u64>,
	/// ... of them: blocks whose total offset is zero on a non-zero previous total
	bval_zero_total: u64,
	/// short-id lines / compact blocks whose kern_ids were recomputed
	sid_lines: u64,
	/// compact blocks written and read back unchanged
	cb_wire_ok: u64,
	/// kernel-heavy blocks that went through PoW, both readers and hydration unchanged; by number
	/// of kernels in the block
	heavy_ok: u64,
	heavy_kernels: BTreeMap<usize, u64>,
}

struct World<'a> {
	kc: &'a ExtKeychain,
	pb: PB<'a>,
	rng: Rng,
	next_key: u32,
	pool: Vec<PTx>,
	st: Stats,
	/// private excess to give the next built kernel (kernels of different transactions that share
	/// their public excess: the "two halves" construction of core/tests/core.rs)
	use_excess: Option<BlindingFactor>,
	/// private excess and features of the kernel built last
	last_excess: Option<(BlindingFactor, KernelFeatures)>,
	/// de-aggregation subsets (operand positions) to run in the next case besides the random ones
	extra_subs: Vec<Vec<usize>>,
	/// the next case builds its block on a previous header whose total offset is minus the
	/// aggregate's offset
	cancel_prev: bool,
	/// special-sum case: the offset the flat aggregate must carry (with its name)
	expect_offset: Option<([u8; 32], &'static str)>,
	/// the next case builds its block on a previous header whose total offset makes
	/// previous + aggregate offset this value
	prev_target: Option<[u8; 32]>,
	/// a special-sum case is running (statistics)
	special: bool,
	valid_cache: HashMap<Hash, bool>,
}

fn err_name(e: &TxError) -> String {
	match e {
		TxError::CutThrough => "CutThrough".to_string(),
		TxError::Secp(_) => "Secp".to_string(),
		TxError::Committed(committed::Error::Secp(_)) => "Secp".to_string(),
		TxError::Committed(committed::Error::KernelSumMismatch) => "KernelSumMismatch".to_string(),
		TxError::Serialization(ser::Error::SortError) => "Sort".to_string(),
		TxError::Serialization(ser::Error::DuplicateError) => "Dup".to_string(),
		TxError::InvalidOutputFeatures => "OutputFeatures".to_string(),
		TxError::InvalidKernelFeatures => "KernelFeatures".to_string(),
		TxError::TooHeavy => "TooHeavy".to_string(),
		TxError::InvalidNRDRelativeHeight => "NrdDup".to_string(),
		other => format!("{:?}", other).replace(' ', ""),
	}
}

/// `Transaction::validate` as the driver's `val` op reads it: the gate that refused, or `later` for
/// everything behind the gates (range proofs, kernel signatures, kernel sums)
fn val_str(r: Result<(), TxError>) -> String {
	match r {
		Ok(()) => "ok".to_string(),
		Err(e) => {
			let n = err_name(&e);
			match n.as_str() {
				"TooHeavy" | "NrdDup" | "Sort" | "Dup" | "CutThrough" | "OutputFeatures" | "KernelFeatures" => format!("err:{}", n),
				_ => "later".to_string(),
			}
		}
	}
}

fn block_err_name(e: &block::Error) -> String {
	match e {
		block::Error::Transaction(t) => err_name(t),
		block::Error::Committed(committed::Error::Secp(_)) => "Secp".to_string(),
		block::Error::Secp(_) => "Secp".to_string(),
		block::Error::CutThrough => "CutThrough".to_string(),
		block::Error::Committed(committed::Error::KernelSumMismatch) => "KernelSumMismatch".to_string(),
		block::Error::KernelLockHeight(h) => format!("KernelLockHeight({})", h),
		other => format!("{:?}", other).replace(' ', ""),
	}
}

impl<'a> World<'a> {
	/// `validate(NoLimit)` of an operand, remembered by transaction hash (operands recur in many cases)
	fn is_valid(&mut self, t: &Transaction) -> bool {
		let h = t.hash();
		if let Some(v) = self.valid_cache.get(&h) {
			return *v;
		}
		let v = t.validate(Weighting::NoLimit).is_ok();
		self.valid_cache.insert(h, v);
		v
	}

	fn fresh_key(&mut self) -> Identifier {
		self.next_key += 1;
		ExtKeychain::derive_key_id(2, 1, self.next_key, 0, 0)
	}

	fn rand_scalar(&mut self) -> SecretKey {
		loop {
			let b = self.rng.bytes(32);
			if let Ok(k) = SecretKey::from_slice(self.kc.secp(), &b) {
				return k;
			}
		}
	}

	/// Build a valid single-kernel transaction with a chosen offset mode; deterministic in the rng.
	fn build_tx(
		&mut self,
		ins: &[(u64, Identifier)],
		outs: &[(u64, Identifier)],
		features: KernelFeatures,
		mode: OffMode,
		exact_offset: Option<BlindingFactor>,
	) -> Transaction {
		let mut elems: Vec<Box<build::Append<ExtKeychain, PB<'a>>>> = vec![];
		for (v, k) in ins {
			elems.push(build::input(*v, k.clone()));
		}
		for (v, k) in outs {
			elems.push(build::output(*v, k.clone()));
		}
		let (tx, blind_sum) =
			build::partial_transaction(Transaction::empty(), &elems, self.kc, &self.pb).unwrap();
		let secp = self.kc.secp();
		let shared = self.use_excess.take();
		let offset = match (mode, exact_offset, &shared) {
			(_, Some(o), _) => o,
			// the kernel gets the given excess: the offset makes up the difference
			(_, None, Some(e)) => blind_sum.split(e, self.kc.secp()).unwrap(),
			(OffMode::Zero, None, None) => BlindingFactor::zero(),
			(OffMode::Random, None, None) => BlindingFactor::from_secret_key(self.rand_scalar()),
		};
		let excess = if offset.is_zero() {
			blind_sum.clone()
		} else {
			blind_sum.split(&offset, secp).unwrap()
		};
		self.last_excess = Some((excess.clone(), features));
		let mut kernel = TxKernel::with_features(features);
		let msg = kernel.msg_to_sign().unwrap();
		let skey = excess.secret_key(secp).unwrap();
		kernel.excess = secp.commit(0, skey.clone()).unwrap();
		let pubkey = kernel.excess.to_pubkey(secp).unwrap();
		let nonce = self.rand_scalar();
		kernel.excess_sig = aggsig::sign_single(secp, &msg, &skey, Some(&nonce), Some(&pubkey)).unwrap();
		kernel.verify().unwrap();
		let mut tx = tx.replace_kernel(kernel);
		tx.offset = offset;
		tx
	}

	fn rand_features(&mut self, fee: u32) -> KernelFeatures {
		// one kernel in four carries a fee shift (0..15) in its fee fields
		let ff: FeeFields = if self.rng.chance(1, 4) {
			FeeFields::new(self.rng.range(0, 15), fee as u64).unwrap()
		} else {
			fee.into()
		};
		let fee = ff;
		match self.rng.below(10) {
			0..=4 => {
				self.st.kern_plain += 1;
				KernelFeatures::Plain { fee }
			}
			5..=7 => {
				self.st.kern_hl += 1;
				KernelFeatures::HeightLocked {
					fee,
					lock_height: self.rng.range(0, 5),
				}
			}
			_ => {
				self.st.kern_nrd += 1;
				KernelFeatures::NoRecentDuplicate {
					fee,
					relative_height: NRDRelativeHeight::try_from(self.rng.range(1, 100) as u16).unwrap(),
				}
			}
		}
	}

	/// A family: a little DAG of transactions; later ones may spend outputs of earlier ones
	/// (cut-through applies), and with `conflicts` some output is spent twice.
	fn build_family(&mut self, family: usize, ntx: usize, chain_prob: u64, conflicts: bool) {
		// unspent outputs of this family: (value, key, creator pool index)
		let mut unspent: Vec<(u64, Identifier, usize)> = vec![];
		let mut spent: Vec<(u64, Identifier, usize)> = vec![];
		for _ in 0..ntx {
			let nin = self.rng.range(1, 3) as usize;
			let nout = self.rng.range(1, 3) as usize;
			let mut ins = vec![];
			let mut parents = vec![];
			let mut conflict = false;
			for _ in 0..nin {
				if conflicts && !spent.is_empty() && self.rng.chance(1, 2) {
					let (v, k, p) = self.rng.pick(&spent).clone();
					if !ins.iter().any(|(_, kk): &(u64, Identifier)| *kk == k) {
						ins.push((v, k));
						parents.push(p);
						conflict = true;
						continue;
					}
				}
				if !unspent.is_empty() && self.rng.chance(chain_prob, 100) {
					let i = self.rng.below(unspent.len() as u64) as usize;
					let (v, k, p) = unspent.remove(i);
					spent.push((v, k.clone(), p));
					ins.push((v, k));
					parents.push(p);
				} else {
					let v = self.rng.range(50, 5000);
					let k = self.fresh_key();
					ins.push((v, k));
				}
			}
			let total: u64 = ins.iter().map(|x| x.0).sum();
			let fee = self.rng.range(1, 9).min(total - nout as u64);
			let mut left = total - fee;
			let mut outs = vec![];
			for j in 0..nout {
				let v = if j + 1 == nout {
					left
				} else {
					let m = left - (nout - j - 1) as u64;
					self.rng.range(1, m.max(1))
				};
				left -= v;
				outs.push((v, self.fresh_key()));
			}
			let mut features = self.rand_features(fee as u32);
			// sometimes: a different kernel with the public excess of the previous transaction
			if let Some((e, f0)) = self.last_excess.clone() {
				if self.rng.chance(1, 5) {
					let lock_height = match f0 {
						KernelFeatures::HeightLocked { lock_height, .. } => lock_height + 1,
						_ => self.rng.range(0, 5),
					};
					features = KernelFeatures::HeightLocked { fee: (fee as u32).into(), lock_height };
					self.use_excess = Some(e);
					self.st.shared_excess += 1;
				}
			}
			let mode = if self.rng.chance(1, 4) {
				OffMode::Zero
			} else {
				OffMode::Random
			};
			if mode == OffMode::Zero {
				self.st.off_zero += 1
			} else {
				self.st.off_nonzero += 1
			}
			let tx = self.build_tx(&ins, &outs, features, mode, None);
			let idx = self.pool.len();
			for (v, k) in outs {
				unspent.push((v, k, idx));
			}
			parents.sort();
			parents.dedup();
			self.pool.push(PTx {
				tx,
				family,
				parents,
				conflict,
				parts: vec![],
			});
		}
	}
}

fn commit_ids_of_tx(tx: &Transaction) -> (Vec<Commitment>, Vec<Commitment>) {
	let ins: Vec<CommitWrapper> = tx.inputs().into();
	(
		ins.iter().map(|c| c.commitment()).collect(),
		tx.outputs().iter().map(|o| o.commitment()).collect(),
	)
}

/// id tables of one case
struct Ids {
	commit: HashMap<Vec<u8>, u64>,
	commits: Vec<Commitment>,
	kern: HashMap<Hash, u64>,
}

impl Ids {
	fn build(commits: &BTreeSet<Vec<u8>>, kernels: &[TxKernel], out: &mut Out, case_no: u64) -> Ids {
		let commits: Vec<Commitment> = commits.iter().map(|b| Commitment::from_vec(b.clone())).collect();
		// commitments are already in byte order (BTreeSet of the 33 bytes) = `Ord for Commitment`
		let mut sorted = commits.clone();
		sorted.sort();
		assert!(sorted == commits, "Commitment Ord is not the byte order");
		let mut commit = HashMap::new();
		for (i, c) in commits.iter().enumerate() {
			commit.insert(c.0.to_vec(), i as u64);
		}
		let rank = |hs: &[Hash]| -> Vec<u64> {
			let mut s: Vec<Hash> = hs.to_vec();
			s.sort();
			hs.iter().map(|h| s.binary_search(h).unwrap() as u64).collect()
		};
		let ikh: Vec<Hash> = commits.iter().map(|c| CommitWrapper::from(*c).hash()).collect();
		let mut oh: Vec<Hash> = commits
			.iter()
			.map(|c| {
				OutputIdentifier {
					features: OutputFeatures::Plain,
					commit: *c,
				}
				.hash()
			})
			.collect();
		oh.extend(commits.iter().map(|c| {
			OutputIdentifier {
				features: OutputFeatures::Coinbase,
				commit: *c,
			}
			.hash()
		}));
		let ik = rank(&ikh);
		let okr = rank(&oh);
		let n = commits.len();
		let mut kh: Vec<Hash> = kernels.iter().map(|k| k.hash()).collect();
		kh.sort();
		kh.dedup();
		let mut kern = HashMap::new();
		for (i, h) in kh.iter().enumerate() {
			kern.insert(*h, i as u64);
		}
		out.line(
			&format!(
				"tx keys {} {} {} {}",
				case_no,
				nat_list(&ik),
				nat_list(&okr[..n]),
				nat_list(&okr[n..])
			),
			"-",
		);
		Ids {
			commit,
			commits,
			kern,
		}
	}
	/// what the validation gates read of a kernel, by kernel rank: feature tag, lock height /
	/// relative height, fee, id of the excess commitment (byte order of the distinct excesses)
	fn kmeta_line(&self, kernels: &[TxKernel], out: &mut Out, case_no: u64) {
		let n = self.kern.len();
		let mut exs: Vec<Vec<u8>> = kernels.iter().map(|k| k.excess.0.to_vec()).collect();
		exs.sort();
		exs.dedup();
		let (mut feat, mut lock, mut fee, mut exc, mut shift) = (vec![0u64; n], vec![0u64; n], vec![0u64; n], vec![0u64; n], vec![0u64; n]);
		for k in kernels {
			let r = self.kern[&k.hash()] as usize;
			feat[r] = k.features.as_u8() as u64;
			// the fee fields are read off the raw u64 (40 fee bits, 4 shift bits above them), not through
			// the accessors the bodies use
			let raw = |ff: FeeFields| -> (u64, u64) {
				let v: u64 = ff.into();
				(v & ((1u64 << 40) - 1), (v >> 40) & 15)
			};
			let ((f, sh), l) = match k.features {
				KernelFeatures::Plain { fee } => (raw(fee), 0),
				KernelFeatures::Coinbase => ((0, 0), 0),
				KernelFeatures::HeightLocked { fee, lock_height } => (raw(fee), lock_height),
				KernelFeatures::NoRecentDuplicate { fee, relative_height } => (raw(fee), u64::from(relative_height)),
			};
			fee[r] = f;
			shift[r] = sh;
			lock[r] = l;
			exc[r] = exs.binary_search(&k.excess.0.to_vec()).unwrap() as u64;
		}
		out.line(
			&format!("tx kmeta {} {} {} {} {} {}", case_no, nat_list(&feat), nat_list(&lock), nat_list(&fee), nat_list(&exc), nat_list(&shift)),
			"-",
		);
	}
	fn c(&self, c: &Commitment) -> u64 {
		self.commit[&c.0.to_vec()]
	}
	fn out(&self, o: &Output) -> u64 {
		2 * self.c(&o.commitment()) + if o.is_coinbase() { 1 } else { 0 }
	}
	fn k(&self, k: &TxKernel) -> u64 {
		2 * self.kern[&k.hash()] + if k.is_coinbase() { 1 } else { 0 }
	}
	fn ins_str(&self, inputs: &Inputs) -> String {
		match inputs {
			Inputs::CommitOnly(v) => format!(
				"c {}",
				nat_list(&v.iter().map(|c| self.c(&c.commitment())).collect::<Vec<_>>())
			),
			Inputs::FeaturesAndCommit(v) => {
				// the `Input` hash order is not modelled: canonical (commitment) order
				let mut ids: Vec<u64> = v.iter().map(|i| self.c(&i.commitment())).collect();
				ids.sort();
				format!("f {}", nat_list(&ids))
			}
		}
	}
	fn body_str(&self, inputs: &Inputs, outputs: &[Output], kernels: &[TxKernel]) -> String {
		format!(
			"{} {} {}",
			self.ins_str(inputs),
			nat_list(&outputs.iter().map(|o| self.out(o)).collect::<Vec<_>>()),
			nat_list(&kernels.iter().map(|k| self.k(k)).collect::<Vec<_>>())
		)
	}
	fn tx_str(&self, tx: &Transaction) -> String {
		format!(
			"{} {}",
			hex(tx.offset.as_ref()),
			self.body_str(&tx.inputs(), tx.outputs(), tx.kernels())
		)
	}
	fn res_str(&self, r: &Result<Transaction, TxError>) -> String {
		match r {
			Ok(tx) => format!("ok {}", self.tx_str(tx)),
			Err(e) => format!("err:{}", err_name(e)),
		}
	}
}

fn tx_equal_modulo_repr(a: &Transaction, b: &Transaction) -> bool {
	let ai: Vec<CommitWrapper> = a.inputs().into();
	let bi: Vec<CommitWrapper> = b.inputs().into();
	a.offset == b.offset && ai == bi && a.outputs() == b.outputs() && a.kernels() == b.kernels()
}

fn groups_str(groups: &[Vec<usize>]) -> String {
	if groups.is_empty() {
		return "-".to_string();
	}
	groups
		.iter()
		.map(|g| nat_list(&g.iter().map(|x| *x as u64).collect::<Vec<_>>()))
		.collect::<Vec<_>>()
		.join(";")
}

fn idx_str(idx: &[usize]) -> String {
	nat_list(&idx.iter().map(|x| *x as u64).collect::<Vec<_>>())
}

fn random_grouping(rng: &mut Rng, n: usize, allow_empty: bool) -> Vec<Vec<usize>> {
	let mut order: Vec<usize> = (0..n).collect();
	shuffle(rng, &mut order);
	let ng = rng.range(1, n.max(1) as u64) as usize;
	let mut groups: Vec<Vec<usize>> = vec![vec![]; ng];
	for i in order {
		let g = rng.below(ng as u64) as usize;
		groups[g].push(i);
	}
	if !allow_empty {
		groups.retain(|g| !g.is_empty());
	}
	groups
}

fn shuffle<T>(rng: &mut Rng, v: &mut Vec<T>) {
	for i in (1..v.len()).rev() {
		let j = rng.below(i as u64 + 1) as usize;
		v.swap(i, j);
	}
}

fn permutations(n: usize) -> Vec<Vec<usize>> {
	fn go(cur: &mut Vec<usize>, used: &mut Vec<bool>, n: usize, out: &mut Vec<Vec<usize>>) {
		if cur.len() == n {
			out.push(cur.clone());
			return;
		}
		for i in 0..n {
			if !used[i] {
				used[i] = true;
				cur.push(i);
				go(cur, used, n, out);
				cur.pop();
				used[i] = false;
			}
		}
	}
	let mut out = vec![];
	go(&mut vec![], &mut vec![false; n], n, &mut out);
	out
}

fn oracle_fail(out: &mut Out, st: &mut Stats, msg: &str) {
	st.oracle_fails += 1;
	out.raw(&format!("#ORACLE-FAIL C12 {}", msg));
}

fn known_probe(out: &mut Out, st: &mut Stats, msg: &str) {
	st.known_probes += 1;
	out.raw(&format!("#KNOWN-PROBE C12 {}", msg));
}

fn is_zero_offset(tx: &Transaction) -> bool {
	tx.offset.is_zero()
}

/// the offset is a non-zero scalar (what `to_secrets` keeps)
fn has_scalar_offset(kc: &ExtKeychain, tx: &Transaction) -> bool {
	!tx.offset.is_zero() && tx.offset.secret_key(kc.secp()).is_ok()
}

/// sum of offsets modulo the group order is zero although some offset is non-zero:
/// the result carries the zero offset and some operand a non-zero scalar
fn offsets_cancel(kc: &ExtKeychain, txs: &[Transaction], result: &Transaction) -> bool {
	txs.len() >= 2 && result.offset.is_zero() && txs.iter().any(|t| has_scalar_offset(kc, t))
}

/// sum of the non-zero offsets (plain secp blind_sum, not the code under test); None when there is
/// none or when they cancel
fn sum_offsets(kc: &ExtKeychain, txs: &[Transaction]) -> Option<BlindingFactor> {
	let secp = kc.secp();
	let keys: Vec<SecretKey> = txs
		.iter()
		.filter(|t| !t.offset.is_zero())
		.filter_map(|t| t.offset.secret_key(secp).ok())
		.collect();
	if keys.is_empty() {
		return None;
	}
	secp.blind_sum(keys, vec![]).ok().map(BlindingFactor::from_secret_key)
}

// ---- scalars as 32 big-endian bytes, arithmetic modulo the group order (independent of secp)
fn be_add(a: &[u8; 32], b: &[u8; 32]) -> ([u8; 32], bool) {
	let mut r = [0u8; 32];
	let mut carry = 0u32;
	for i in (0..32).rev() {
		let t = a[i] as u32 + b[i] as u32 + carry;
		r[i] = t as u8;
		carry = t >> 8;
	}
	(r, carry != 0)
}

fn be_sub(a: &[u8; 32], b: &[u8; 32]) -> ([u8; 32], bool) {
	let mut r = [0u8; 32];
	let mut borrow = 0i32;
	for i in (0..32).rev() {
		let mut d = a[i] as i32 - b[i] as i32 - borrow;
		if d < 0 {
			d += 256;
			borrow = 1;
		} else {
			borrow = 0;
		}
		r[i] = d as u8;
	}
	(r, borrow != 0)
}

/// (a - b) mod n for a, b < n
fn sub_mod(a: &[u8; 32], b: &[u8; 32]) -> [u8; 32] {
	let (d, borrow) = be_sub(a, b);
	if borrow {
		be_add(&d, &ORDER).0
	} else {
		d
	}
}

fn scalar_u64(x: u64) -> [u8; 32] {
	let mut r = [0u8; 32];
	r[24..].copy_from_slice(&x.to_be_bytes());
	r
}

/// n - x
fn order_minus(x: u64) -> [u8; 32] {
	be_sub(&ORDER, &scalar_u64(x)).0
}

fn bytes32(b: &[u8]) -> [u8; 32] {
	let mut r = [0u8; 32];
	r.copy_from_slice(&b[..32]);
	r
}

fn bf_of(b: &[u8; 32]) -> BlindingFactor {
	if b.iter().all(|x| *x == 0) {
		BlindingFactor::zero()
	} else {
		BlindingFactor::from_slice(b)
	}
}

/// the special values of an offset sum: 0, 1, 2, n-2, n-1
fn special_values() -> Vec<([u8; 32], &'static str)> {
	vec![
		(scalar_u64(0), "0"),
		(scalar_u64(1), "1"),
		(scalar_u64(2), "2"),
		(order_minus(2), "n-2"),
		(order_minus(1), "n-1"),
	]
}

fn special_name(b: &[u8]) -> Option<&'static str> {
	special_values().into_iter().find(|(v, _)| &v[..] == b).map(|(_, n)| n)
}

fn describe_tx(ids: &Ids, tx: &Transaction) -> String {
	ids.tx_str(tx)
}

/// One case: a list of operand transactions (clones out of the pool).
#[allow(clippy::too_many_arguments)]
/// A case, with every step of it under `catch`: a panic anywhere (an `unwrap` on an honest object
/// the code under test suddenly refuses, an index out of range …) is reported as a failing case
/// and the run goes on.
fn run_case(
	out: &mut Out,
	w: &mut World,
	operands: &[usize],
	independent: bool,
	thorough: bool,
	case_no: u64,
) {
	let r = catch(std::panic::AssertUnwindSafe(|| run_case_inner(&mut *out, &mut *w, operands, independent, thorough, case_no)));
	if let Err(msg) = r {
		let desc: Vec<String> = operands.iter().map(|i| format!("{}in/{}out/{}k", w.pool[*i].tx.inputs().len(), w.pool[*i].tx.outputs().len(), w.pool[*i].tx.kernels().len())).collect();
		oracle_fail(out, &mut w.st, &format!("case {}: a step on honest objects panicked: {} (operands {:?}: {})", case_no, msg, operands, desc.join(" ")));
	}
}

fn run_case_inner(
	out: &mut Out,
	w: &mut World,
	operands: &[usize],
	independent: bool,
	thorough: bool,
	case_no: u64,
) {
	let txs: Vec<Transaction> = operands.iter().map(|i| w.pool[*i].tx.clone()).collect();
	let n = txs.len();
	w.st.cases += 1;
	*w.st.sizes.entry(n).or_insert(0) += 1;
	if operands.iter().any(|i| !w.pool[*i].parts.is_empty()) {
		w.st.with_multikernel += 1;
	}
	if txs.iter().any(|t| matches!(t.inputs(), Inputs::FeaturesAndCommit(_))) {
		w.st.with_v2 += 1;
	}
	// reward output / kernel for the block part
	let fees: u64 = txs.iter().map(|t| t.fee()).sum();
	let rkey = ExtKeychain::derive_key_id(3, 7, case_no as u32, 0, 0);
	let (rout, rkern) = reward::output(w.kc, &w.pb, &rkey, fees, true).unwrap();

	// id tables
	let mut commits: BTreeSet<Vec<u8>> = BTreeSet::new();
	let mut kernels: Vec<TxKernel> = vec![rkern.clone()];
	for t in &txs {
		let (i, o) = commit_ids_of_tx(t);
		for c in i.iter().chain(o.iter()) {
			commits.insert(c.0.to_vec());
		}
		kernels.extend_from_slice(t.kernels());
	}
	commits.insert(rout.commitment().0.to_vec());
	out.raw(&format!(
		"# case {} operands={:?} independent={}",
		case_no, operands, independent
	));
	let ids = Ids::build(&commits, &kernels, out, case_no);
	ids.kmeta_line(&kernels, out, case_no);
	for (i, t) in txs.iter().enumerate() {
		let v = match t.inputs() {
			Inputs::CommitOnly(_) => "c",
			Inputs::FeaturesAndCommit(_) => "f",
		};
		let body = ids.body_str(&t.inputs(), t.outputs(), t.kernels());
		// body_str starts with the variant letter
		let _ = v;
		out.line(&format!("tx def {} {} {} {}", case_no, i, hex(t.offset.as_ref()), body), "-");
		out.line(
			&format!("tx feeof {} {} {}", case_no, i, nat_list(&t.kernels().iter().map(|k| ids.k(k)).collect::<Vec<_>>())),
			&format!("{} {} {} {}", t.fee(), t.body.fee_shift(), t.shifted_fee(), t.lock_height()),
		);
		if let Inputs::CommitOnly(_) = t.inputs() {
			let r = match t.validate_read() {
				Ok(()) => "ok".to_string(),
				Err(e) => format!("err:{}", err_name(&e)),
			};
			out.line(&format!("tx vread {} {}", case_no, i), &r);
			// Transaction::validate: the same gates in ANOTHER order (verify_features first), then
			// range proofs, kernel signatures and the kernel sums (answered `later`)
			out.line(&format!("tx val {} {}", case_no, i), &val_str(t.validate(Weighting::AsTransaction)));
		}
	}

	// ---- flat aggregate
	let all: Vec<usize> = (0..n).collect();
	let flat = transaction::aggregate(&txs);
	out.line(&format!("tx agg {} {}", case_no, idx_str(&all)), &ids.res_str(&flat));
	if let Ok(agg) = &flat {
		// fee / fee shift / lock height of the aggregate: those of the union of the kernels
		let mut ks: Vec<u64> = txs.iter().flat_map(|t| t.kernels().iter().map(|k| ids.k(k))).collect();
		ks.sort();
		out.line(
			&format!("tx feeof {} agg {}", case_no, nat_list(&ks)),
			&format!("{} {} {} {}", agg.fee(), agg.body.fee_shift(), agg.shifted_fee(), agg.lock_height()),
		);
	}
	// special-sum case: the aggregate exists and carries exactly the chosen sum
	if let Some((exp, name)) = w.expect_offset.take() {
		match &flat {
			Ok(agg) if agg.offset.as_ref() == &exp[..] => *w.st.sp_agg.entry(name.to_string()).or_insert(0) += 1,
			Ok(agg) => oracle_fail(out, &mut w.st, &format!("case {}: operands with offsets {:?} must aggregate to offset {} ({}) but the aggregate carries {}", case_no, txs.iter().map(|t| hex(t.offset.as_ref())).collect::<Vec<_>>(), hex(&exp), name, hex(agg.offset.as_ref()))),
			Err(e) => oracle_fail(out, &mut w.st, &format!("case {}: operands with offsets {:?} (sum {} = {}) do not aggregate: {}", case_no, txs.iter().map(|t| hex(t.offset.as_ref())).collect::<Vec<_>>(), hex(&exp), name, err_name(e))),
		}
	}
	// conflict-freeness of the operand multiset, evaluated on the real commitments
	let mut in_count: HashMap<Vec<u8>, i64> = HashMap::new();
	let mut out_count: HashMap<Vec<u8>, i64> = HashMap::new();
	for t in &txs {
		let (i, o) = commit_ids_of_tx(t);
		for c in i {
			*in_count.entry(c.0.to_vec()).or_insert(0) += 1;
		}
		for c in o {
			*out_count.entry(c.0.to_vec()).or_insert(0) += 1;
		}
	}
	let conflict_free = in_count.values().all(|v| *v <= 1) && out_count.values().all(|v| *v <= 1);
	let pairs: i64 = in_count
		.iter()
		.map(|(c, v)| (*v).min(*out_count.get(c).unwrap_or(&0)))
		.sum();
	w.st.cut_pairs += pairs as u64;
	match &flat {
		Ok(agg) => {
			w.st.agg_ok += 1;
			// oracle: kernels are the union, inputs/outputs are the union minus matched pairs
			let mut ks: Vec<Hash> = txs.iter().flat_map(|t| t.kernels().iter().map(|k| k.hash())).collect();
			ks.sort();
			let aks: Vec<Hash> = agg.kernels().iter().map(|k| k.hash()).collect();
			if n >= 2 && ks != aks {
				oracle_fail(out, &mut w.st, &format!("case {}: kernels of aggregate are not the sorted union of the operands' kernels; agg={}", case_no, describe_tx(&ids, agg)));
			}
			let (ai, ao) = commit_ids_of_tx(agg);
			let mut ok = true;
			let mut ain: HashMap<Vec<u8>, i64> = HashMap::new();
			for c in ai {
				*ain.entry(c.0.to_vec()).or_insert(0) += 1;
			}
			let mut aout: HashMap<Vec<u8>, i64> = HashMap::new();
			for c in ao {
				*aout.entry(c.0.to_vec()).or_insert(0) += 1;
			}
			for c in commits.iter() {
				let i = *in_count.get(c).unwrap_or(&0);
				let o = *out_count.get(c).unwrap_or(&0);
				if *ain.get(c).unwrap_or(&0) != (i - o).max(0) || *aout.get(c).unwrap_or(&0) != (o - i).max(0) {
					ok = false;
				}
			}
			if n >= 2 && !ok {
				oracle_fail(out, &mut w.st, &format!("case {}: inputs/outputs of aggregate are not the union minus the matched spend pairs; agg={}", case_no, describe_tx(&ids, agg)));
			}
			// validity of the aggregate
			let all_valid = txs.iter().all(|t| w.is_valid(t));
			let v = agg.validate(Weighting::AsTransaction);
			let v = match v {
				Err(TxError::TooHeavy) => agg.validate(Weighting::NoLimit).map_err(|e| e),
				x => x,
			};
			w.st.validates += 1;
			if offsets_cancel(w.kc, &txs, agg) {
				w.st.agg_cancel += 1;
				if conflict_free {
					w.st.agg_cancel_cf += 1;
				}
				if v.is_ok() {
					w.st.agg_cancel_valid += 1;
				}
			}
			match &v {
				Ok(()) => {}
				Err(e) => {
					*w.st.validate_err.entry(err_name(e)).or_insert(0) += 1;
					if all_valid {
						oracle_fail(out, &mut w.st, &format!("case {}: aggregate of valid transactions fails validate with {}; agg={}", case_no, err_name(e), describe_tx(&ids, agg)));
					}
				}
			}
		}
		Err(e) => {
			*w.st.agg_err.entry(err_name(e)).or_insert(0) += 1;
			if conflict_free {
				if txs.iter().any(|t| has_scalar_offset(w.kc, t)) && sum_offsets(w.kc, &txs).is_none() {
					w.st.agg_cancel_failed += 1;
				}
				if err_name(e) == "Secp" {
					known_probe(out, &mut w.st, &format!("aggregate-offset-sum-zero case {}: aggregate of conflict-free valid transactions fails with Secp (offsets sum to zero mod n)", case_no));
				} else {
					oracle_fail(out, &mut w.st, &format!("case {}: aggregate of conflict-free valid transactions fails with {}", case_no, err_name(e)));
				}
			}
		}
	}

	// ---- permutations
	let perms: Vec<Vec<usize>> = if n <= 4 {
		permutations(n)
	} else {
		let k = if thorough { 30 } else { 10 };
		(0..k)
			.map(|_| {
				let mut p: Vec<usize> = (0..n).collect();
				shuffle(&mut w.rng, &mut p);
				p
			})
			.collect()
	};
	for p in perms.iter().skip(if n <= 4 { 1 } else { 0 }) {
		let ptxs: Vec<Transaction> = p.iter().map(|i| txs[*i].clone()).collect();
		let r = transaction::aggregate(&ptxs);
		w.st.perms += 1;
		out.line(&format!("tx agg {} {}", case_no, idx_str(p)), &ids.res_str(&r));
		let same = match (&flat, &r) {
			(Ok(a), Ok(b)) => a == b,
			(Err(a), Err(b)) => err_name(a) == err_name(b),
			_ => false,
		};
		if !same {
			oracle_fail(out, &mut w.st, &format!("case {}: aggregate depends on operand order: order {:?} gives {} but {:?} gives {}", case_no, all, ids.res_str(&flat), p, ids.res_str(&r)));
		}
	}

	// ---- groupings
	let ngroupings = if thorough { 8 } else { 4 };
	for gi in 0..ngroupings {
		let groups = random_grouping(&mut w.rng, n, gi % 4 == 3);
		w.st.groupings += 1;
		let mut inner: Vec<Transaction> = vec![];
		let mut inner_err: Option<TxError> = None;
		for g in &groups {
			let gt: Vec<Transaction> = g.iter().map(|i| txs[*i].clone()).collect();
			match transaction::aggregate(&gt) {
				Ok(t) => {
					if offsets_cancel(w.kc, &gt, &t) {
						w.st.group_cancel += 1;
					}
					inner.push(t)
				}
				Err(e) => {
					inner_err = Some(e);
					break;
				}
			}
		}
		let lhs = format!("tx aggg {} {}", case_no, groups_str(&groups));
		match inner_err {
			Some(e) => {
				w.st.group_inner_err += 1;
				out.line(&lhs, &format!("inner-err:{}", err_name(&e)));
				// (a group whose offsets cancel is an ordinary group: no error is tolerated)
				if conflict_free {
					oracle_fail(out, &mut w.st, &format!("case {}: aggregating group of conflict-free valid transactions fails with {} (grouping {})", case_no, err_name(&e), groups_str(&groups)));
				}
			}
			None => {
				let r = transaction::aggregate(&inner);
				out.line(&lhs, &ids.res_str(&r));
				// oracle: every group aggregated => equal to the flat aggregate (modulo the
				// input representation of a single-transaction shortcut)
				let same = match (&flat, &r) {
					(Ok(a), Ok(b)) => tx_equal_modulo_repr(a, b),
					(Err(a), Err(b)) => err_name(a) == err_name(b),
					_ => false,
				};
				if !same {
					oracle_fail(out, &mut w.st, &format!("case {}: aggregate depends on grouping: flat gives {} but grouping {} gives {}", case_no, ids.res_str(&flat), groups_str(&groups), ids.res_str(&r)));
				}
			}
		}
	}

	// ---- deaggregate
	if let Ok(mk) = &flat {
		let nd = if thorough { 6 } else { 3 };
		let extra = std::mem::take(&mut w.extra_subs);
		for di in 0..nd + extra.len() {
			let mut sub: Vec<usize> = if di >= nd {
				extra[di - nd].clone()
			} else {
				(0..n).filter(|_| w.rng.chance(1, 2)).collect()
			};
			if di < nd {
				if w.rng.chance(1, 10) {
					sub = (0..n).collect();
				}
				if w.rng.chance(1, 10) {
					sub.clear();
				}
				shuffle(&mut w.rng, &mut sub);
			}
			let stx: Vec<Transaction> = sub.iter().map(|i| txs[*i].clone()).collect();
			let r = transaction::deaggregate(mk.clone(), &stx);
			w.st.deaggs += 1;
			out.line(&format!("tx deagg {} {} {}", case_no, idx_str(&all), idx_str(&sub)), &ids.res_str(&r));
			if let Err(e) = &r {
				*w.st.deagg_err.entry(err_name(e)).or_insert(0) += 1;
			}
			// zero remainder offset: the aggregate and the aggregate of the known subset carry the
			// same non-zero offset (evaluated on the implementation's own values)
			let sub_agg = transaction::aggregate(&stx);
			let zero_rem = match &sub_agg {
				Ok(a) => !mk.offset.is_zero() && a.offset == mk.offset && has_scalar_offset(w.kc, mk),
				Err(_) => false,
			};
			if w.special {
				if let (Ok(d), Ok(a)) = (&r, &sub_agg) {
					if !sub.is_empty() && sub.len() < n {
						if let Some(name) = special_name(d.offset.as_ref()) {
							*w.st.sp_deagg_rem.entry(name.to_string()).or_insert(0) += 1;
						}
						if let Some(name) = special_name(a.offset.as_ref()) {
							*w.st.sp_deagg_sub.entry(name.to_string()).or_insert(0) += 1;
						}
					}
				}
			}
			if zero_rem {
				match &r {
					Ok(d) => {
						w.st.deagg_zero_rem_ok += 1;
						if sub.len() == n && n >= 2 {
							w.st.deagg_whole_ok += 1;
						}
						if !d.offset.is_zero() {
							oracle_fail(out, &mut w.st, &format!("case {}: deaggregate(aggregate {:?}, {:?}): both offsets are equal but the result's offset is not zero: {}", case_no, all, sub, ids.tx_str(d)));
						}
					}
					Err(_) => w.st.deagg_zero_rem_err += 1,
				}
			}
			// oracle for sets that do not spend each other's outputs: the remainder
			if independent && conflict_free && n >= 2 {
				let rest: Vec<usize> = (0..n).filter(|i| !sub.contains(i)).collect();
				let rtx: Vec<Transaction> = rest.iter().map(|i| txs[*i].clone()).collect();
				let expect = transaction::aggregate(&rtx);
				w.st.deagg_oracle_checked += 1;
				match (&expect, &r) {
					(Ok(e), Ok(d)) => {
						if !tx_equal_modulo_repr(e, d) {
							oracle_fail(out, &mut w.st, &format!("case {}: deaggregate(aggregate {:?}, {:?}) = {} is not the remainder {}", case_no, all, sub, ids.tx_str(d), ids.tx_str(e)));
						} else if zero_rem {
							w.st.deagg_zero_rem_oracle_equal += 1;
						}
					}
					(Ok(e), Err(err)) => {
						let sub_zero = stx.iter().all(is_zero_offset);
						if err_name(err) == "Secp" && is_zero_offset(e) && !sub_zero {
							known_probe(out, &mut w.st, &format!("deaggregate-zero-remainder-offset case {}: deaggregate(aggregate {:?}, {:?}) fails with Secp because the remainder's offset is zero (mk offset == subset offset)", case_no, all, sub));
						} else {
							oracle_fail(out, &mut w.st, &format!("case {}: deaggregate(aggregate {:?}, {:?}) fails with {} but the remainder is {}", case_no, all, sub, err_name(err), ids.tx_str(e)));
						}
					}
					_ => {}
				}
			}
			// beyond that hypothesis (deaggregate_general): conflict-free operands WITH spend links
			// between the known subset and the remainder. Never an error; the result is the
			// remainder with both ends of every link into / out of the operand set removed: inputs
			// of the remainder that spend nothing created by any operand, outputs of the remainder
			// that no operand spends, the remainder's kernels.
			if conflict_free && n >= 2 && txs.iter().all(|t| matches!(t.inputs(), Inputs::CommitOnly(_))) && {
				let mut ks: Vec<Hash> = txs.iter().flat_map(|t| t.kernels().iter().map(|k| k.hash())).collect();
				let l = ks.len();
				ks.sort();
				ks.dedup();
				ks.len() == l
			} {
				let rest: Vec<usize> = (0..n).filter(|i| !sub.contains(i)).collect();
				let all_in: BTreeSet<Vec<u8>> = txs.iter().flat_map(|t| commit_ids_of_tx(t).0.into_iter().map(|c| c.0.to_vec())).collect();
				let all_out: BTreeSet<Vec<u8>> = txs.iter().flat_map(|t| commit_ids_of_tx(t).1.into_iter().map(|c| c.0.to_vec())).collect();
				let sub_in: BTreeSet<Vec<u8>> = stx.iter().flat_map(|t| commit_ids_of_tx(t).0.into_iter().map(|c| c.0.to_vec())).collect();
				let sub_out: BTreeSet<Vec<u8>> = stx.iter().flat_map(|t| commit_ids_of_tx(t).1.into_iter().map(|c| c.0.to_vec())).collect();
				let mut want_in: Vec<Vec<u8>> = vec![];
				let mut want_out: Vec<Vec<u8>> = vec![];
				let mut want_k: Vec<Hash> = vec![];
				let mut linked = false;
				for i in &rest {
					let (ti, to) = commit_ids_of_tx(&txs[*i]);
					for c in ti {
						if sub_out.contains(&c.0.to_vec()) {
							linked = true;
						}
						if !all_out.contains(&c.0.to_vec()) {
							want_in.push(c.0.to_vec());
						}
					}
					for c in to {
						if sub_in.contains(&c.0.to_vec()) {
							linked = true;
						}
						if !all_in.contains(&c.0.to_vec()) {
							want_out.push(c.0.to_vec());
						}
					}
					want_k.extend(txs[*i].kernels().iter().map(|k| k.hash()));
				}
				want_in.sort();
				want_out.sort();
				want_k.sort();
				if linked {
					w.st.deagg_linked += 1;
					match &r {
						Ok(d) => {
							let (di_, do_) = commit_ids_of_tx(d);
							let mut gi: Vec<Vec<u8>> = di_.iter().map(|c| c.0.to_vec()).collect();
							let mut go: Vec<Vec<u8>> = do_.iter().map(|c| c.0.to_vec()).collect();
							let mut gk: Vec<Hash> = d.kernels().iter().map(|k| k.hash()).collect();
							gi.sort();
							go.sort();
							gk.sort();
							if gi != want_in || go != want_out || gk != want_k {
								oracle_fail(out, &mut w.st, &format!("case {}: deaggregate(aggregate {:?}, {:?}) with spend links between subset and remainder = {} is not the remainder with the linked inputs / outputs removed", case_no, all, sub, ids.tx_str(d)));
							}
							// what comes back is not a valid transaction (an end of a link is missing)
							if !rest.is_empty() {
								match d.validate(Weighting::NoLimit) {
									Ok(()) => w.st.deagg_linked_valid += 1,
									Err(_) => w.st.deagg_linked_invalid += 1,
								}
							}
						}
						Err(e) => oracle_fail(out, &mut w.st, &format!("case {}: deaggregate(aggregate {:?}, {:?}) of conflict-free linked operands fails: {}", case_no, all, sub, err_name(e))),
					}
				}
			}
		}
	}

	// ---- deaggregate in the shapes its callers never use (rarely taken branches): the multi-kernel
	// side is the aggregate of a PART of the operands, a single transaction (aggregate's one-operand
	// shortcut keeps the input representation) or the empty transaction; the known list holds a
	// transaction that is not inside (foreign), the same transaction twice, or more than was
	// aggregated. No oracle: the model's answer is compared (deagg lines), outcomes in a #STAT.
	if n >= 2 {
		let h = (n / 2).max(1);
		let part: Vec<usize> = (0..h).collect();
		let foreign = n - 1;
		let mut with_foreign = part.clone();
		with_foreign.push(foreign);
		let mut all_plus = (0..n).collect::<Vec<usize>>();
		all_plus.push(0);
		let shapes: Vec<(&str, Vec<usize>, Vec<usize>)> = vec![
			("part-minus-part-and-foreign", part.clone(), with_foreign),
			("part-minus-foreign", part.clone(), vec![foreign]),
			("part-minus-repeated", part.clone(), vec![0, 0]),
			("part-minus-all", part.clone(), (0..n).collect()),
			("all-minus-all-and-repeat", (0..n).collect(), all_plus),
			("single-minus-itself", vec![0], vec![0]),
			("single-minus-nothing", vec![foreign], vec![]),
			("single-minus-foreign", vec![0], vec![foreign]),
			("empty-minus-one", vec![], vec![0]),
			("empty-minus-nothing", vec![], vec![]),
		];
		for (shape, mk_idx, sub) in shapes {
			let mtx: Vec<Transaction> = mk_idx.iter().map(|i| txs[*i].clone()).collect();
			let mk = match transaction::aggregate(&mtx) {
				Ok(m) => m,
				Err(_) => {
					*w.st.deagg_odd.entry(format!("{}: mk does not aggregate", shape)).or_insert(0) += 1;
					continue;
				}
			};
			let stx: Vec<Transaction> = sub.iter().map(|i| txs[*i].clone()).collect();
			let r = catch(std::panic::AssertUnwindSafe(|| transaction::deaggregate(mk.clone(), &stx)));
			match r {
				Ok(r) => {
					w.st.deaggs += 1;
					let outcome = match &r {
						Ok(d) => format!("ok(in={},out={},kern={},offset {})", if d.inputs().is_empty() { "0" } else { "+" }, if d.outputs().is_empty() { "0" } else { "+" }, if d.kernels().is_empty() { "0" } else { "+" }, if d.offset.is_zero() { "zero" } else { "non-zero" }),
						Err(e) => format!("err:{}", err_name(e)),
					};
					*w.st.deagg_odd.entry(format!("{}: {}", shape, outcome)).or_insert(0) += 1;
					out.line(&format!("tx deagg {} {} {}", case_no, idx_str(&mk_idx), idx_str(&sub)), &ids.res_str(&r));
				}
				Err(_) => oracle_fail(out, &mut w.st, &format!("case {}: deaggregate(aggregate {:?}, {:?}) panicked ({})", case_no, mk_idx, sub, shape)),
			}
		}
	}

	// ---- ... and a multi-kernel side that carries every element TWICE (Transaction::new sorts but
	// does not de-duplicate): the `!xs.contains(x)` half of the three loops. Defined as transaction n.
	if n >= 2 {
		let t0 = &txs[0];
		let ins: Vec<CommitWrapper> = t0.inputs().into();
		let mut ins2 = ins.clone();
		ins2.extend_from_slice(&ins);
		let mut outs2 = t0.outputs().to_vec();
		outs2.extend_from_slice(t0.outputs());
		let mut k2 = t0.kernels().to_vec();
		k2.extend_from_slice(t0.kernels());
		let dup = Transaction::new(Inputs::from(ins2.as_slice()), &outs2, &k2).with_offset(t0.offset.clone());
		let body = ids.body_str(&dup.inputs(), dup.outputs(), dup.kernels());
		out.line(&format!("tx def {} {} {} {}", case_no, n, hex(dup.offset.as_ref()), body), "-");
		for (shape, sub) in [("doubled-minus-nothing", vec![]), ("doubled-minus-foreign", vec![n - 1]), ("doubled-minus-itself", vec![0usize])] {
			let stx: Vec<Transaction> = sub.iter().map(|i| txs[*i].clone()).collect();
			match catch(std::panic::AssertUnwindSafe(|| transaction::deaggregate(dup.clone(), &stx))) {
				Ok(r) => {
					w.st.deaggs += 1;
					let outcome = match &r {
						Ok(d) => {
							let part = |a: usize, b: usize| if a == 0 { "none" } else if 2 * a == b { "each once" } else if a == b { "all" } else { "some" };
							format!("ok(inputs {}, outputs {}, kernels {})", part(d.inputs().len(), dup.inputs().len()), part(d.outputs().len(), dup.outputs().len()), part(d.kernels().len(), dup.kernels().len()))
						}
						Err(e) => format!("err:{}", err_name(e)),
					};
					*w.st.deagg_odd.entry(format!("{}: {}", shape, outcome)).or_insert(0) += 1;
					out.line(&format!("tx deagg {} {} {}", case_no, idx_str(&[n]), idx_str(&sub)), &ids.res_str(&r));
				}
				Err(_) => oracle_fail(out, &mut w.st, &format!("case {}: deaggregate of a transaction with doubled elements panicked ({})", case_no, shape)),
			}
		}
		// ---- a transaction that carries a coinbase item (defined as transaction n+1): validate and
		// validate_read run the same gates in a different order - verify_features is the FIRST gate
		// of validate and the LAST of validate_read - so they name different errors when a body
		// gate fails as well (here: the reward output spent by an input of the same transaction)
		let t0 = Transaction { offset: txs[0].offset.clone(), body: txs[0].body.clone().replace_inputs(Inputs::CommitOnly(txs[0].inputs().into())) };
		let (shape, cbt) = match case_no % 4 {
			0 => ("coinbase output", t0.with_output(rout.clone())),
			1 => ("coinbase output spent inside", t0.with_output(rout.clone()).with_input(Input::new(OutputFeatures::Coinbase, rout.commitment()))),
			2 => ("coinbase kernel", t0.with_kernel(rkern.clone())),
			_ => ("coinbase kernel and output spent inside", t0.with_kernel(rkern.clone()).with_output(rout.clone()).with_input(Input::new(OutputFeatures::Coinbase, rout.commitment()))),
		};
		let body = ids.body_str(&cbt.inputs(), cbt.outputs(), cbt.kernels());
		out.line(&format!("tx def {} {} {} {}", case_no, n + 1, hex(cbt.offset.as_ref()), body), "-");
		let vr = match cbt.validate_read() {
			Ok(()) => "ok".to_string(),
			Err(e) => format!("err:{}", err_name(&e)),
		};
		let vv = val_str(cbt.validate(Weighting::AsTransaction));
		out.line(&format!("tx vread {} {}", case_no, n + 1), &vr);
		out.line(&format!("tx val {} {}", case_no, n + 1), &vv);
		*w.st.deagg_odd.entry(format!("tx with a {}: validate={} validate_read={}", shape, vv, vr)).or_insert(0) += 1;
	}

	// ---- cut_through on raw slices (with duplicates)
	let ncut = if thorough { 6 } else { 3 };
	for ci in 0..ncut {
		let m = ids.commits.len() as u64;
		let univ = w.rng.range(2, m.min(8));
		let base = w.rng.below(m - univ + 1);
		let li = w.rng.range(0, 7) as usize;
		let lo = w.rng.range(0, 7) as usize;
		let dup_ok = ci % 3 != 0;
		let mut pick = |rng: &mut Rng, len: usize| -> Vec<u64> {
			let mut v: Vec<u64> = vec![];
			for _ in 0..len {
				let c = base + rng.below(univ);
				if dup_ok || !v.contains(&c) {
					v.push(c);
				}
			}
			v
		};
		let a = pick(&mut w.rng, li);
		let b = pick(&mut w.rng, lo);
		w.st.cuts += 1;
		if ci % 2 == 0 {
			let mut ins: Vec<CommitWrapper> = a.iter().map(|c| CommitWrapper::from(ids.commits[*c as usize])).collect();
			let mut outs: Vec<CommitWrapper> = b.iter().map(|c| CommitWrapper::from(ids.commits[*c as usize])).collect();
			let r = match transaction::cut_through(&mut ins[..], &mut outs[..]) {
				Ok((i, o, ci_, co)) => {
					let f = |s: &[CommitWrapper]| nat_list(&s.iter().map(|c| ids.c(&c.commitment())).collect::<Vec<_>>());
					format!("ok {} {} {} {}", f(i), f(o), f(ci_), f(co))
				}
				Err(e) => {
					w.st.cut_err += 1;
					format!("err:{}", err_name(&e))
				}
			};
			out.line(&format!("tx cut {} {} {}", case_no, nat_list(&a), nat_list(&b)), &r);
		} else {
			// inputs vs real `Output`s; one feature flag per commitment within a call
			let flags: Vec<bool> = (0..univ).map(|_| w.rng.chance(1, 4)).collect();
			let codes: Vec<u64> = b.iter().map(|c| 2 * c + if flags[(*c - base) as usize] { 1 } else { 0 }).collect();
			let mut ins: Vec<CommitWrapper> = a.iter().map(|c| CommitWrapper::from(ids.commits[*c as usize])).collect();
			let mut outs: Vec<Output> = codes
				.iter()
				.map(|code| {
					Output::new(
						if code % 2 == 1 { OutputFeatures::Coinbase } else { OutputFeatures::Plain },
						ids.commits[(*code / 2) as usize],
						RangeProof::zero(),
					)
				})
				.collect();
			let r = match transaction::cut_through(&mut ins[..], &mut outs[..]) {
				Ok((i, o, ci_, co)) => {
					let f = |s: &[CommitWrapper]| nat_list(&s.iter().map(|c| ids.c(&c.commitment())).collect::<Vec<_>>());
					let g = |s: &[Output]| nat_list(&s.iter().map(|o| ids.out(o)).collect::<Vec<_>>());
					format!("ok {} {} {} {}", f(i), g(o), f(ci_), g(co))
				}
				Err(e) => {
					w.st.cut_err += 1;
					format!("err:{}", err_name(&e))
				}
			};
			out.line(&format!("tx cutio {} {} {}", case_no, nat_list(&a), nat_list(&codes)), &r);
		}
	}

	// ---- block -> compact -> hydrate
	let mut prev = BlockHeader::default();
	if w.rng.chance(1, 2) {
		prev.total_kernel_offset = BlindingFactor::from_secret_key(w.rand_scalar());
	}
	// previous height: around the lock heights of the kernels (0..6) and the hard forks of the
	// testing chain (3, 6, 9, 12; NRD kernels need header version 4, i.e. height >= 9), now and then
	// the corners of `prev.height + 1` and of the `as u16` in header_version
	prev.height = match w.rng.below(16) {
		0..=5 => w.rng.range(0, 6),
		6..=12 => w.rng.range(7, 13),
		13 => *w.rng.pick(&[u64::MAX, u64::MAX - 1, 196_604, 196_606, 196_607, 196_608]),
		_ => w.rng.next() >> w.rng.below(64),
	};
	prev.pow.total_difficulty = match w.rng.below(4) {
		0 => Difficulty::from_num(w.rng.range(1, 1000)),
		1 => Difficulty::from_num(u64::MAX - w.rng.range(0, 3)),
		_ => Difficulty::from_num(w.rng.next() >> w.rng.below(64)),
	};
	let difficulty = if w.rng.chance(1, 2) { Difficulty::min_dma() } else { Difficulty::from_num(w.rng.range(1, 5)) };
	// previous total offset = minus the aggregate's offset: the header's total offset is zero
	let mut block_cancels = false;
	if std::mem::take(&mut w.cancel_prev) {
		if let Ok(agg) = &flat {
			if has_scalar_offset(w.kc, agg) {
				prev.total_kernel_offset = negate(w.kc, &agg.offset);
				block_cancels = true;
			}
		}
	}
	// previous total offset chosen so that previous + aggregate offset is a given (special) value
	let mut block_target: Option<[u8; 32]> = None;
	if let Some(t) = w.prev_target.take() {
		if let Ok(agg) = &flat {
			prev.total_kernel_offset = bf_of(&sub_mod(&t, &bytes32(agg.offset.as_ref())));
			block_target = Some(t);
		}
	}
	let blk = Block::from_reward(&prev, &txs, rout.clone(), rkern.clone(), difficulty);
	w.st.blocks += 1;
	if let Some(t) = block_target {
		let name = special_name(&t).unwrap_or("other");
		match &blk {
			Ok(b) if b.header.total_kernel_offset.as_ref() == &t[..] => *w.st.sp_block.entry(name.to_string()).or_insert(0) += 1,
			Ok(b) => oracle_fail(out, &mut w.st, &format!("case {}: previous total offset {} + aggregate offset must be {} ({}) but the block's total offset is {}", case_no, hex(prev.total_kernel_offset.as_ref()), hex(&t), name, hex(b.header.total_kernel_offset.as_ref()))),
			Err(e) => oracle_fail(out, &mut w.st, &format!("case {}: Block::from_reward fails with {} when previous total offset {} + aggregate offset is {} ({})", case_no, block_err_name(e), hex(prev.total_kernel_offset.as_ref()), hex(&t), name)),
		}
	}
	if block_cancels {
		match &blk {
			Ok(b) if b.header.total_kernel_offset.is_zero() => w.st.block_cancel_ok += 1,
			Ok(b) => oracle_fail(out, &mut w.st, &format!("case {}: previous total offset is minus the aggregate's offset but the block's total offset is {}", case_no, hex(b.header.total_kernel_offset.as_ref()))),
			Err(e) => {
				w.st.block_cancel_err += 1;
				oracle_fail(out, &mut w.st, &format!("case {}: Block::from_reward fails with {} when the previous total offset cancels the aggregate's offset", case_no, block_err_name(e)));
			}
		}
	}
	let lhs = format!(
		"tx block {} {} {} {} {}",
		case_no,
		hex(prev.total_kernel_offset.as_ref()),
		ids.out(&rout),
		ids.k(&rkern),
		idx_str(&all)
	);
	match &blk {
		Err(e) => {
			w.st.block_err += 1;
			out.line(&lhs, &format!("err:{}", block_err_name(e)));
		}
		Ok(b) => {
			out.line(
				&lhs,
				&format!(
					"ok {} {}",
					hex(b.header.total_kernel_offset.as_ref()),
					ids.body_str(&b.inputs(), b.outputs(), b.kernels())
				),
			);
			// the header from_reward computes
			out.line(
				&format!("tx blockhdr {} {} {} {}", case_no, prev.height, prev.pow.total_difficulty.to_num(), difficulty.to_num()),
				&format!("{} {} {}", b.header.height, b.header.version.0, b.header.pow.total_difficulty.to_num()),
			);
			if b.header.prev_hash != prev.hash() {
				oracle_fail(out, &mut w.st, &format!("case {}: Block::from_reward: prev_hash is not the hash of the previous header", case_no));
			}
			// Block::validate of the block just built (operands that are valid themselves only):
			// the gates in their order, the coinbase equation, and the kernel sums with the offset
			// block_kernel_offset recovers from the two header totals
			let all_valid = txs.iter().all(|t| w.is_valid(t));
			if all_valid {
				let bv = b.validate(&prev.total_kernel_offset);
				let r = match &bv {
					Ok(()) => "ok".to_string(),
					Err(e) => format!("err:{}", block_err_name(e)),
				};
				out.line(
					&format!("tx bval {} {} {} {} {}", case_no, hex(prev.total_kernel_offset.as_ref()), b.header.height, b.header.version.0, fees),
					&r,
				);
				*w.st.bval.entry(r.split('(').next().unwrap().to_string()).or_insert(0) += 1;
				let vr = match b.validate_read() {
					Ok(()) => "ok".to_string(),
					Err(e) => format!("err:{}", block_err_name(&e)),
				};
				out.line(&format!("tx bvread {} {}", case_no, b.header.height), &vr);
				// the kernel sums are the one check that can only fail through the offset: the
				// operands are valid and conflict-free enough to aggregate
				if let Err(block::Error::Committed(committed::Error::KernelSumMismatch)) = &bv {
					let zero_total = b.header.total_kernel_offset.is_zero() && !prev.total_kernel_offset.is_zero();
					let msg = format!(
						"case {}: Block::validate refuses the block Block::from_reward built from valid transactions with KernelSumMismatch: previous total offset {}, block total offset {} (operands {})",
						case_no, hex(prev.total_kernel_offset.as_ref()), hex(b.header.total_kernel_offset.as_ref()), txs.iter().map(|t| describe_tx(&ids, t)).collect::<Vec<_>>().join(" | ")
					);
					if zero_total {
						// an observation about the code, not a violation of C12 (the block is built and
						// re-hydrates identically): block_kernel_offset drops the previous total when the
						// header total is the zero offset (Props/C12Block: block_kernel_offset_drops_prev_iff)
						w.st.bval_zero_total += 1;
						if w.st.bval_zero_total <= 2 {
							out.raw(&format!("#STAT block-validate-zero-total-offset example: {}", msg));
						}
					} else {
						oracle_fail(out, &mut w.st, &msg);
					}
				}
			}
			// From<Block>: thread-random nonce (not observable in the modelled part)
			let cb0: CompactBlock = b.clone().into();
			let compact_line = |cb: &CompactBlock, ids: &Ids| -> (String, bool) {
				let hh = cb.header.hash();
				let mut want: Vec<grin_core::core::ShortId> = b
					.kernels()
					.iter()
					.filter(|k| !k.is_coinbase())
					.map(|k| k.short_id(&hh, cb.nonce))
					.collect();
				want.sort();
				let ids_ok = want.as_slice() == cb.kern_ids();
				let mut kid: Vec<u64> = vec![];
				for sid in cb.kern_ids() {
					for k in b.kernels() {
						if k.short_id(&hh, cb.nonce) == *sid {
							kid.push(ids.k(k));
						}
					}
				}
				kid.sort();
				(
					format!(
						"{} {} {}",
						nat_list(&cb.out_full().iter().map(|o| ids.out(o)).collect::<Vec<_>>()),
						nat_list(&cb.kern_full().iter().map(|k| ids.k(k)).collect::<Vec<_>>()),
						nat_list(&kid)
					),
					ids_ok,
				)
			};
			// the short ids themselves, recomputed by the model from (block hash, nonce, kernel
			// hashes): blake2b -> SipHash-2-4 keys, SipHash of the kernel hash, low 6 bytes, sorted by
			// the blake2b hash of the 6 bytes
			let cbids_line = |cb: &CompactBlock| -> (String, String) {
				let khs: Vec<String> = b.kernels().iter().filter(|k| !k.is_coinbase()).map(|k| hex(k.hash().as_bytes())).collect();
				(
					format!("tx cbids {} {} {} [{}]", case_no, hex(cb.header.hash().as_bytes()), cb.nonce, khs.join(",")),
					format!("[{}]", cb.kern_ids().iter().map(|s| hex(s.as_ref())).collect::<Vec<_>>().join(",")),
				)
			};
			// the compact block as the writer emits it must be read back by the reader, unchanged
			match wire_roundtrip(&cb0) {
				Ok(()) => w.st.cb_wire_ok += 1,
				Err(e) => oracle_fail(out, &mut w.st, &format!("case {}: the wire form of CompactBlock::from(block) is not read back: {} (block with {} inputs, {} outputs, {} kernels; kern_ids {})", case_no, e, b.inputs().len(), b.outputs().len(), b.kernels().len(), cb0.kern_ids().len())),
			}
			let (l0, ok0) = compact_line(&cb0, &ids);
			out.line(&format!("tx compact {} 0", case_no), &l0);
			{
				let (l, r) = cbids_line(&cb0);
				out.line(&l, &r);
				w.st.sid_lines += 1;
			}
			if !ok0 {
				oracle_fail(out, &mut w.st, &format!("case {}: kern_ids of CompactBlock::from(block) are not the sorted short ids of the non-coinbase kernels", case_no));
			}
			let nn = if thorough { 3 } else { 2 };
			for hi in 0..=nn {
				// compact block with a chosen nonce, built through its wire form
				let cb = if hi == 0 {
					cb0.clone()
				} else {
					let nonce = match hi {
						1 => w.rng.next(),
						2 => *w.rng.pick(&[0u64, 1, u64::MAX, 1 << 63]),
						_ => w.rng.next(),
					};
					let hh = b.header.hash();
					let mut sids: Vec<grin_core::core::ShortId> = b
						.kernels()
						.iter()
						.filter(|k| !k.is_coinbase())
						.map(|k| k.short_id(&hh, nonce))
						.collect();
					sids.sort();
					let mut bytes: Vec<u8> = vec![];
					ser::serialize_default(&mut bytes, &b.header).unwrap();
					bytes.extend_from_slice(&nonce.to_be_bytes());
					bytes.extend_from_slice(&(cb0.out_full().len() as u64).to_be_bytes());
					bytes.extend_from_slice(&(cb0.kern_full().len() as u64).to_be_bytes());
					bytes.extend_from_slice(&(sids.len() as u64).to_be_bytes());
					for o in cb0.out_full() {
						ser::serialize_default(&mut bytes, o).unwrap();
					}
					for k in cb0.kern_full() {
						ser::serialize_default(&mut bytes, k).unwrap();
					}
					for s in &sids {
						ser::serialize_default(&mut bytes, s).unwrap();
					}
					let cb: CompactBlock = match catch(std::panic::AssertUnwindSafe(|| ser::deserialize_default::<CompactBlock, _>(&mut &bytes[..]))) {
						Ok(Ok(cb)) => cb,
						other => {
							let e = match other {
								Ok(Err(e)) => format!("{:?}", e),
								Err(p) => format!("panic: {}", p),
								_ => String::new(),
							};
							oracle_fail(out, &mut w.st, &format!("case {}: the wire form of the compact block with nonce {} ({} coinbase outputs, {} coinbase kernels, {} sorted short ids of a block with {} inputs / {} outputs / {} kernels) is refused by the reader: {}", case_no, nonce, cb0.out_full().len(), cb0.kern_full().len(), sids.len(), b.inputs().len(), b.outputs().len(), b.kernels().len(), e));
							continue;
						}
					};
					let (l, okn) = compact_line(&cb, &ids);
					out.line(&format!("tx compact {} {}", case_no, nonce), &l);
					{
						let (l, r) = cbids_line(&cb);
						out.line(&l, &r);
						w.st.sid_lines += 1;
					}
					if !okn || cb.header.hash() != hh {
						oracle_fail(out, &mut w.st, &format!("case {}: compact block with nonce {} does not round-trip through its wire form", case_no, nonce));
					}
					cb
				};
				let groups = if hi == 0 {
					(0..n).map(|i| vec![i]).collect::<Vec<_>>()
				} else {
					random_grouping(&mut w.rng, n, hi == 2)
				};
				let mut inner: Vec<Transaction> = vec![];
				let mut inner_err: Option<TxError> = None;
				for g in &groups {
					let gt: Vec<Transaction> = g.iter().map(|i| txs[*i].clone()).collect();
					match transaction::aggregate(&gt) {
						Ok(t) => inner.push(t),
						Err(e) => {
							inner_err = Some(e);
							break;
						}
					}
				}
				let lhs = format!("tx hydrate {} {} {}", case_no, if hi == 0 { 0 } else { cb.nonce }, groups_str(&groups));
				w.st.hydrates += 1;
				if let Some(e) = inner_err {
					out.line(&lhs, &format!("inner-err:{}", err_name(&e)));
					continue;
				}
				// the block built from the grouped (pre-aggregated) operands is the block built from
				// the flat list
				{
					let gb = Block::from_reward(&prev, &inner, rout.clone(), rkern.clone(), difficulty);
					let r = match &gb {
						Err(e) => format!("err:{}", block_err_name(e)),
						Ok(gb) => {
							let gi: Vec<CommitWrapper> = gb.inputs().into();
							let bi: Vec<CommitWrapper> = b.inputs().into();
							if gb.header.total_kernel_offset == b.header.total_kernel_offset && gi == bi && gb.outputs() == b.outputs() && gb.kernels() == b.kernels() {
								"same".to_string()
							} else {
								"diff".to_string()
							}
						}
					};
					out.line(
						&format!("tx blockg {} {} {} {} {}", case_no, hex(prev.total_kernel_offset.as_ref()), ids.out(&rout), ids.k(&rkern), groups_str(&groups)),
						&r,
					);
					if r != "same" {
						oracle_fail(out, &mut w.st, &format!("case {}: the block built from the grouping {} of the transactions is not the block built from the flat list: {}", case_no, groups_str(&groups), r));
					}
				}
				match Block::hydrate_from(cb.clone(), &inner) {
					Err(e) => {
						out.line(&lhs, &format!("err:{}", block_err_name(&e)));
						oracle_fail(out, &mut w.st, &format!("case {}: hydrate_from fails with {} for the transactions the block was built from (grouping {})", case_no, block_err_name(&e), groups_str(&groups)));
					}
					Ok(hb) => {
						let hi_: Vec<CommitWrapper> = hb.inputs().into();
						let bi: Vec<CommitWrapper> = b.inputs().into();
						let same = hb.header.hash() == b.header.hash()
							&& hb.header.total_kernel_offset == b.header.total_kernel_offset
							&& hi_ == bi && hb.outputs() == b.outputs()
							&& hb.kernels() == b.kernels();
						if hb.body != b.body {
							w.st.hydrate_variant_mismatch += 1;
						}
						out.line(
							&lhs,
							&format!(
								"ok {} {} {}",
								if same { "same" } else { "diff" },
								hex(hb.header.total_kernel_offset.as_ref()),
								ids.body_str(&hb.inputs(), hb.outputs(), hb.kernels())
							),
						);
						if !same {
							oracle_fail(out, &mut w.st, &format!("case {}: hydrated block differs from the original (grouping {}, nonce {}): {} vs {}", case_no, groups_str(&groups), cb.nonce, ids.body_str(&hb.inputs(), hb.outputs(), hb.kernels()), ids.body_str(&b.inputs(), b.outputs(), b.kernels())));
						}
					}
				}
			}
			// ---- hydrate_from with OTHER transactions than the block was built from (what a node's
			// pool may hand over; the node validates afterwards): one transaction missing, one twice,
			// none at all. No oracle; the model's answer is compared, outcomes in a #STAT line.
			if n >= 2 {
				let mut twice: Vec<Vec<usize>> = vec![vec![0]];
				twice.extend((0..n).map(|i| vec![i]));
				let shapes: Vec<(&str, Vec<Vec<usize>>)> = vec![
					("last transaction missing", (0..n - 1).map(|i| vec![i]).collect()),
					("first transaction twice", twice),
					("no transaction", vec![]),
				];
				for (shape, groups) in shapes {
					let inner: Vec<Transaction> = groups.iter().map(|g| txs[g[0]].clone()).collect();
					let lhs = format!("tx hydrate {} 0 {}", case_no, groups_str(&groups));
					w.st.hydrates += 1;
					match catch(std::panic::AssertUnwindSafe(|| Block::hydrate_from(cb0.clone(), &inner))) {
						Ok(Err(e)) => {
							*w.st.deagg_odd.entry(format!("hydrate_from, {}: err:{}", shape, block_err_name(&e))).or_insert(0) += 1;
							out.line(&lhs, &format!("err:{}", block_err_name(&e)));
						}
						Ok(Ok(hb)) => {
							let hi_: Vec<CommitWrapper> = hb.inputs().into();
							let bi: Vec<CommitWrapper> = b.inputs().into();
							let same = hb.header.hash() == b.header.hash()
								&& hb.header.total_kernel_offset == b.header.total_kernel_offset
								&& hi_ == bi && hb.outputs() == b.outputs()
								&& hb.kernels() == b.kernels();
							*w.st.deagg_odd.entry(format!("hydrate_from, {}: {}", shape, if same { "the block" } else { "another block" })).or_insert(0) += 1;
							out.line(
								&lhs,
								&format!(
									"ok {} {} {}",
									if same { "same" } else { "diff" },
									hex(hb.header.total_kernel_offset.as_ref()),
									ids.body_str(&hb.inputs(), hb.outputs(), hb.kernels())
								),
							);
						}
						Err(_) => oracle_fail(out, &mut w.st, &format!("case {}: hydrate_from panicked ({})", case_no, shape)),
					}
				}
			}
		}
	}
}

/// One special-sum case: fresh, independent, valid transactions with exactly the given offsets
/// (in the given operand order; run_case adds every permutation), whose sum must be `expect`.
#[allow(clippy::too_many_arguments)]
fn special_case(
	out: &mut Out,
	w: &mut World,
	offs: &[[u8; 32]],
	expect: ([u8; 32], &'static str),
	subs: Vec<Vec<usize>>,
	prev_target: [u8; 32],
	thorough: bool,
	case_no: &mut u64,
) {
	let mut ops: Vec<usize> = vec![];
	for (j, o) in offs.iter().enumerate() {
		let (k1, k2) = (w.fresh_key(), w.fresh_key());
		let v = w.rng.range(50, 5000);
		let fee = w.rng.range(1, 9);
		let features = w.rand_features(fee as u32);
		let tx = w.build_tx(&[(v, k1)], &[(v - fee, k2)], features, OffMode::Random, Some(bf_of(o)));
		if tx.validate(Weighting::AsTransaction).is_err() {
			oracle_fail(out, &mut w.st, &format!("special-sum case: the fresh transaction with offset {} is not valid", hex(o)));
		}
		if let Some(name) = special_name(o) {
			*w.st.sp_operand.entry(name.to_string()).or_insert(0) += 1;
		}
		w.pool.push(PTx { tx, family: 30000 + 10 * (*case_no as usize) + j, parents: vec![], conflict: false, parts: vec![] });
		ops.push(w.pool.len() - 1);
	}
	*w.st.sp_cases.entry(expect.1.to_string()).or_insert(0) += 1;
	w.expect_offset = Some(expect);
	w.extra_subs = subs;
	w.prev_target = Some(prev_target);
	w.special = true;
	*case_no += 1;
	run_case(out, w, &ops, true, thorough, *case_no);
	w.special = false;
	w.expect_offset = None;
	w.prev_target = None;
	w.extra_subs.clear();
	for _ in 0..ops.len() {
		w.pool.pop();
	}
}

fn to_v2(tx: &Transaction) -> Transaction {
	let ins: Vec<CommitWrapper> = tx.inputs().into();
	let ins: Vec<Input> = ins
		.iter()
		.map(|c| Input::new(OutputFeatures::Plain, c.commitment()))
		.collect();
	let mut ins = ins;
	ins.sort_unstable();
	Transaction {
		offset: tx.offset.clone(),
		body: tx.body.clone().replace_inputs(Inputs::FeaturesAndCommit(ins)),
	}
}

/// n - x for a non-zero scalar x
fn negate(kc: &ExtKeychain, x: &BlindingFactor) -> BlindingFactor {
	let secp = kc.secp();
	let k = x.secret_key(secp).unwrap();
	// n - x = (n - 1) - x + 1: compute with blind_sum([one],[x, one])... simpler: bytes arithmetic
	let _ = k;
	let xb: &[u8] = x.as_ref();
	let mut r = [0u8; 32];
	let mut borrow = 0i32;
	for i in (0..32).rev() {
		let mut d = ORDER[i] as i32 - xb[i] as i32 - borrow;
		if d < 0 {
			d += 256;
			borrow = 1;
		} else {
			borrow = 0;
		}
		r[i] = d as u8;
	}
	BlindingFactor::from_slice(&r)
}

/// writer -> reader: the serialized compact block is read back (trusted reader) and is the same
/// compact block (header hash, nonce, coinbase outputs / kernels, short ids in order), and writing
/// it again gives the same bytes
fn wire_roundtrip(cb: &CompactBlock) -> Result<(), String> {
	let mut bytes: Vec<u8> = vec![];
	ser::serialize_default(&mut bytes, cb).map_err(|e| format!("writer fails: {:?}", e))?;
	let back = match catch(std::panic::AssertUnwindSafe(|| ser::deserialize_default::<CompactBlock, _>(&mut &bytes[..]))) {
		Ok(Ok(x)) => x,
		Ok(Err(e)) => return Err(format!("reader refuses what the writer wrote: {:?}", e)),
		Err(p) => return Err(format!("reader panics: {}", p)),
	};
	if back.header.hash() != cb.header.hash() || back.nonce != cb.nonce || back.out_full() != cb.out_full() || back.kern_full() != cb.kern_full()
		|| back.kern_ids().iter().map(|s| s.as_ref().to_vec()).collect::<Vec<_>>() != cb.kern_ids().iter().map(|s| s.as_ref().to_vec()).collect::<Vec<_>>()
	{
		return Err("read back as a different compact block".to_string());
	}
	let mut again: Vec<u8> = vec![];
	ser::serialize_default(&mut again, &back).map_err(|e| format!("writer fails on the decoded value: {:?}", e))?;
	if again != bytes {
		return Err("re-encoding the decoded compact block gives other bytes".to_string());
	}
	Ok(())
}

/// Kernel-heavy blocks: `txs` (a cut-through chain and / or multi-kernel operands: many kernels,
/// few surviving inputs and outputs) -> Block::from_reward -> a real proof of work -> CompactBlock
/// -> bytes -> both readers (CompactBlock, UntrustedCompactBlock) -> Block::hydrate_from with the
/// transactions one by one and pre-aggregated in groups -> the identical block, byte for byte.
fn heavy_case(out: &mut Out, w: &mut World, txs: &[Transaction], what: &str) {
	let r = catch(std::panic::AssertUnwindSafe(|| -> Result<(usize, usize, usize, u64), String> {
		let fees: u64 = txs.iter().map(|t| t.fee()).sum();
		let rkey = ExtKeychain::derive_key_id(3, 9, txs.len() as u32, 0, 0);
		let (rout, rkern) = reward::output(w.kc, &w.pb, &rkey, fees, true).map_err(|e| format!("reward::output: {:?}", e))?;
		let prev = BlockHeader::default();
		let mut b = Block::from_reward(&prev, txs, rout, rkern, Difficulty::min_dma()).map_err(|e| format!("Block::from_reward: {}", block_err_name(&e)))?;
		grin_core::pow::pow_size(&mut b.header, Difficulty::min_dma(), global::proofsize(), global::min_edge_bits())
			.map_err(|e| format!("pow_size: {:?}", e))?;
		let cb: CompactBlock = b.clone().into();
		wire_roundtrip(&cb)?;
		let mut bytes: Vec<u8> = vec![];
		ser::serialize_default(&mut bytes, &cb).map_err(|e| format!("writer: {:?}", e))?;
		let trusted: CompactBlock = ser::deserialize_default(&mut &bytes[..]).map_err(|e| format!("CompactBlock reader refuses what the writer wrote: {:?}", e))?;
		let untrusted: grin_core::core::UntrustedCompactBlock =
			ser::deserialize_default(&mut &bytes[..]).map_err(|e| format!("UntrustedCompactBlock reader refuses what the writer wrote: {:?}", e))?;
		let untrusted: CompactBlock = untrusted.into();
		let mut want: Vec<u8> = vec![];
		ser::serialize_default(&mut want, &b).map_err(|e| format!("block writer: {:?}", e))?;
		// groupings: one by one (reversed), pairs aggregated, everything aggregated
		let mut groupings: Vec<Vec<Transaction>> = vec![];
		let mut rev = txs.to_vec();
		rev.reverse();
		groupings.push(rev);
		let mut pairs = vec![];
		for ch in txs.chunks(2) {
			pairs.push(transaction::aggregate(ch).map_err(|e| format!("aggregate of a pair: {}", err_name(&e)))?);
		}
		groupings.push(pairs);
		groupings.push(vec![transaction::aggregate(txs).map_err(|e| format!("aggregate of all: {}", err_name(&e)))?]);
		for (gi, g) in groupings.iter().enumerate() {
			for (name, c) in [("trusted", &trusted), ("untrusted", &untrusted)] {
				let hb = Block::hydrate_from(c.clone(), g).map_err(|e| format!("hydrate_from ({} reader, grouping {}): {}", name, gi, block_err_name(&e)))?;
				let hi: Vec<CommitWrapper> = hb.inputs().into();
				let bi: Vec<CommitWrapper> = b.inputs().into();
				let mut got: Vec<u8> = vec![];
				ser::serialize_default(&mut got, &hb).map_err(|e| format!("block writer: {:?}", e))?;
				if hi != bi || got != want {
					return Err(format!("hydrated block ({} reader, grouping {}) differs from the block byte for byte", name, gi));
				}
			}
		}
		// the block itself through the wire
		// Block::validate: accepted up to and including the weight limit (68 transactions make
		// exactly 250), TooHeavy above
		let bv = b.validate(&prev.total_kernel_offset);
		match (&bv, b.body.weight() <= global::max_block_weight()) {
			(Ok(()), true) => {}
			(Err(block::Error::Transaction(TxError::TooHeavy)), false) => {}
			(r, within) => {
				return Err(format!("Block::validate of a block of weight {} (limit {}, within: {}) answers {:?}", b.body.weight(), global::max_block_weight(), within, r.as_ref().map_err(block_err_name)));
			}
		}
		// (the reader of a full block has a weight pre-check, TransactionBody::read: a block above
		// max_block_weight is refused with TooLargeReadErr, one within it must be read back)
		let within = b.body.weight() <= global::max_block_weight();
		match ser::deserialize_default::<Block, _>(&mut &want[..]) {
			Ok(rb) => {
				if !within {
					return Err(format!("Block reader accepts a block of weight {} above the limit {}", b.body.weight(), global::max_block_weight()));
				}
				if rb.hash() != b.hash() || rb.body != b.body {
					return Err("block read back differs".to_string());
				}
			}
			Err(e) => {
				if within {
					return Err(format!("Block reader refuses what the writer wrote (weight {} within the limit {}): {:?}", b.body.weight(), global::max_block_weight(), e));
				}
			}
		}
		Ok((b.inputs().len(), b.outputs().len(), b.kernels().len(), b.body.weight()))
	}));
	match r {
		Ok(Ok((i, o, k, wgt))) => {
			w.st.heavy_ok += 1;
			*w.st.heavy_kernels.entry(k).or_insert(0) += 1;
			out.raw(&format!("# heavy {}: {} txs -> block {} in / {} out / {} kernels, weight {}: wire + hydrate identical", what, txs.len(), i, o, k, wgt));
		}
		Ok(Err(e)) => oracle_fail(out, &mut w.st, &format!("kernel-heavy block ({}: {} transactions, {} kernels in all): {}", what, txs.len(), txs.iter().map(|t| t.kernels().len()).sum::<usize>(), e)),
		Err(p) => oracle_fail(out, &mut w.st, &format!("kernel-heavy block ({}: {} transactions): a step panicked: {}", what, txs.len(), p)),
	}
}

// ---------------------------------------------------------------------------------------------
// run `retr`: the node's hydration path - Pool::retrieve_transactions on a real grin_pool::Pool,
// then Block::hydrate_from with what it returned
// ---------------------------------------------------------------------------------------------

/// the pool never asks its chain anything in `retrieve_transactions`
struct NoChain;
impl grin_pool::BlockChain for NoChain {
	fn verify_coinbase_maturity(&self, _: &Inputs) -> Result<(), grin_pool::PoolError> {
		Err(grin_pool::PoolError::Other("no chain".into()))
	}
	fn verify_tx_lock_height(&self, _: &Transaction) -> Result<(), grin_pool::PoolError> {
		Err(grin_pool::PoolError::Other("no chain".into()))
	}
	fn validate_tx(&self, _: &Transaction) -> Result<(), grin_pool::PoolError> {
		Err(grin_pool::PoolError::Other("no chain".into()))
	}
	fn validate_inputs(&self, _: &Inputs) -> Result<Vec<OutputIdentifier>, grin_pool::PoolError> {
		Err(grin_pool::PoolError::Other("no chain".into()))
	}
	fn chain_head(&self) -> Result<BlockHeader, grin_pool::PoolError> {
		Err(grin_pool::PoolError::Other("no chain".into()))
	}
	fn get_block_header(&self, _: &Hash) -> Result<BlockHeader, grin_pool::PoolError> {
		Err(grin_pool::PoolError::Other("no chain".into()))
	}
	fn get_block_sums(&self, _: &Hash) -> Result<grin_core::core::BlockSums, grin_pool::PoolError> {
		Err(grin_pool::PoolError::Other("no chain".into()))
	}
}

/// One retrieval: the real pool holding `entries` is asked for `kern_ids` under (hash, nonce).
/// Printed abstractly: kernels by rank of their hash (code 2*rank), short ids by rank of their six
/// bytes (two kernels with one short id share the number), pool entries as `tag:kernels` with equal
/// tags for equal transactions (`==` of the real transactions, what `dedup` uses).
/// Returns what the pool returned.
fn retr_case(
	out: &mut Out,
	case_no: u64,
	variant: &str,
	entries: &[Transaction],
	hash: &Hash,
	nonce: u64,
	kern_ids: &[grin_core::core::ShortId],
) -> Result<(Vec<Transaction>, Vec<grin_core::core::ShortId>), String> {
	let mut pool = grin_pool::Pool::new(std::sync::Arc::new(NoChain), "verif".to_string());
	for t in entries {
		pool.entries.push(grin_pool::PoolEntry::new(t.clone(), grin_pool::TxSource::Broadcast));
	}
	let r = catch(std::panic::AssertUnwindSafe(|| pool.retrieve_transactions(*hash, nonce, kern_ids)));
	// kernel ranks
	let mut khs: Vec<Hash> = entries.iter().flat_map(|t| t.kernels().iter().map(|k| k.hash())).collect();
	khs.sort();
	khs.dedup();
	let kcode = |k: &TxKernel| -> u64 { 2 * khs.binary_search(&k.hash()).unwrap() as u64 };
	// short-id numbers
	let mut sids: Vec<Vec<u8>> = entries.iter().flat_map(|t| t.kernels().iter().map(|k| k.short_id(hash, nonce).as_ref().to_vec())).collect();
	sids.extend(kern_ids.iter().map(|s| s.as_ref().to_vec()));
	sids.sort();
	sids.dedup();
	let snum = |s: &[u8]| -> u64 { sids.binary_search(&s.to_vec()).unwrap() as u64 };
	let mut table = vec![0u64; khs.len()];
	for t in entries {
		for k in t.kernels() {
			table[(kcode(k) / 2) as usize] = snum(k.short_id(hash, nonce).as_ref());
		}
	}
	let tag = |t: &Transaction| -> usize { entries.iter().position(|e| e == t).unwrap_or(usize::MAX) };
	let pool_str: Vec<String> = entries
		.iter()
		.map(|t| {
			let ks: Vec<String> = t.kernels().iter().map(|k| kcode(k).to_string()).collect();
			format!("{}:{}", tag(t), if ks.is_empty() { "-".to_string() } else { ks.join(",") })
		})
		.collect();
	let lhs = format!(
		"tx retr {} {} {} {} {}",
		case_no,
		variant,
		nat_list(&table),
		if pool_str.is_empty() { "-".to_string() } else { pool_str.join(";") },
		nat_list(&kern_ids.iter().map(|s| snum(s.as_ref())).collect::<Vec<_>>())
	);
	match r {
		Ok((txs, missing)) => {
			let idx: Vec<u64> = txs.iter().map(|t| tag(t) as u64).collect();
			out.line(&lhs, &format!("{} {}", nat_list(&idx), nat_list(&missing.iter().map(|s| snum(s.as_ref())).collect::<Vec<_>>())));
			Ok((txs, missing))
		}
		Err(p) => {
			out.line(&lhs, "panic");
			Err(p)
		}
	}
}

fn retr_run(out: &mut Out, w: &mut World, nfam: usize, thorough: bool) {
	let ncases = if thorough { 1200 } else { 160 };
	let mut stat: BTreeMap<String, BTreeMap<String, u64>> = BTreeMap::new();
	let mut case_no = 0u64;
	let base_len = w.pool.iter().position(|p| !p.parts.is_empty()).unwrap_or(w.pool.len());
	for ci in 0..ncases {
		// the block's transactions: a whole conflict-free family plus singles of other families
		let fams: Vec<usize> = (0..nfam).filter(|f| f % 4 != 3).collect();
		let f = *w.rng.pick(&fams);
		let mut ops: Vec<usize> = (0..base_len).filter(|i| w.pool[*i].family == f).collect();
		let extra = w.rng.below(4) as usize;
		let mut others: Vec<usize> = fams.iter().cloned().filter(|g| *g != f).collect();
		shuffle(&mut w.rng, &mut others);
		for g in others.iter().take(extra) {
			let c: Vec<usize> = (0..base_len).filter(|i| w.pool[*i].family == *g).collect();
			ops.push(*w.rng.pick(&c));
		}
		if ci % 11 == 10 {
			ops.clear(); // a block without transactions: kern_ids empty
		}
		shuffle(&mut w.rng, &mut ops);
		let txs: Vec<Transaction> = ops.iter().map(|i| w.pool[*i].tx.clone()).collect();
		// unrelated transactions (families not touched by the block)
		let used: BTreeSet<usize> = ops.iter().map(|i| w.pool[*i].family).collect();
		let unrelated: Vec<Transaction> = (0..base_len).filter(|i| !used.contains(&w.pool[*i].family) && w.pool[*i].family % 4 != 3).map(|i| w.pool[i].tx.clone()).collect();
		let fees: u64 = txs.iter().map(|t| t.fee()).sum();
		let rkey = ExtKeychain::derive_key_id(3, 11, ci as u32, 0, 0);
		let built = catch(std::panic::AssertUnwindSafe(|| {
			let (rout, rkern) = reward::output(w.kc, &w.pb, &rkey, fees, true).map_err(|e| format!("{:?}", e))?;
			Block::from_reward(&BlockHeader::default(), &txs, rout, rkern, Difficulty::min_dma()).map_err(|e| block_err_name(&e))
		}));
		let b = match built {
			Ok(Ok(b)) => b,
			Ok(Err(e)) => {
				oracle_fail(out, &mut w.st, &format!("retr case {}: the block of conflict-free transactions cannot be built: {}", ci, e));
				continue;
			}
			Err(p) => {
				oracle_fail(out, &mut w.st, &format!("retr case {}: building the block panicked: {}", ci, p));
				continue;
			}
		};
		let cb: CompactBlock = b.clone().into();
		let hash = cb.hash();
		// the pool in several shapes
		let nvar = 9;
		for v in 0..nvar {
			let mut entries: Vec<Transaction> = vec![];
			let mut clean = true; // the pool holds the block's transactions in some grouping, plus unrelated ones
			let name;
			let grouped = |w: &mut World, txs: &[Transaction]| -> Vec<Transaction> {
				let mut res = vec![];
				for g in random_grouping(&mut w.rng, txs.len(), false) {
					let gt: Vec<Transaction> = g.iter().map(|i| txs[*i].clone()).collect();
					if let Ok(t) = transaction::aggregate(&gt) {
						res.push(t);
					} else {
						res.extend(gt);
					}
				}
				res
			};
			match v {
				0 => {
					name = "exact";
					entries = txs.clone();
				}
				1 => {
					name = "grouped";
					entries = grouped(w, &txs);
				}
				2 => {
					name = "grouped+unrelated";
					entries = grouped(w, &txs);
					for u in unrelated.iter() {
						if w.rng.chance(1, 2) {
							let at = w.rng.below(entries.len() as u64 + 1) as usize;
							entries.insert(at, u.clone());
						}
					}
					if w.rng.chance(1, 3) {
						entries.insert(0, Transaction::empty());
					}
				}
				3 => {
					name = "missing";
					clean = false;
					entries = txs.clone();
					if !entries.is_empty() {
						let k = w.rng.range(1, entries.len() as u64) as usize;
						for _ in 0..k {
							let at = w.rng.below(entries.len() as u64) as usize;
							entries.remove(at);
						}
					}
					for u in unrelated.iter().take(2) {
						entries.push(u.clone());
					}
				}
				4 => {
					name = "shared-kernels";
					clean = false;
					// a transaction and an aggregate containing it, in either order
					entries = txs.clone();
					if txs.len() >= 2 {
						let i = w.rng.below(txs.len() as u64) as usize;
						let j = (i + 1 + w.rng.below(txs.len() as u64 - 1) as usize) % txs.len();
						if let Ok(agg) = transaction::aggregate(&[txs[i].clone(), txs[j].clone()]) {
							let at = w.rng.below(entries.len() as u64 + 1) as usize;
							entries.insert(at, agg);
							if w.rng.chance(1, 2) {
								// ... and the other part is only there inside the aggregate
								entries.retain(|t| *t != txs[j]);
							}
						}
					}
				}
				5 => {
					name = "duplicate-entries";
					clean = false;
					entries = txs.clone();
					if !entries.is_empty() {
						let i = w.rng.below(entries.len() as u64) as usize;
						let d = entries[i].clone();
						if w.rng.chance(1, 2) {
							entries.insert(i, d); // adjacent
						} else {
							entries.push(d); // possibly far apart
						}
					}
				}
				6 => {
					name = "overlapping-aggregate";
					clean = false;
					// one of the block's transactions only as an aggregate with an unrelated one
					entries = txs.clone();
					if !txs.is_empty() && !unrelated.is_empty() {
						let i = w.rng.below(txs.len() as u64) as usize;
						if let Ok(agg) = transaction::aggregate(&[txs[i].clone(), w.rng.pick(&unrelated).clone()]) {
							entries[i] = agg;
						}
					}
				}
				7 => {
					name = "unrelated-only";
					clean = false;
					entries = unrelated.iter().take(4).cloned().collect();
				}
				_ => {
					name = "reversed+unrelated-first";
					entries = unrelated.iter().take(3).cloned().collect();
					let mut r = txs.clone();
					r.reverse();
					entries.extend(r);
				}
			}
			case_no += 1;
			let res = retr_case(out, case_no, name, &entries, &hash, cb.nonce, cb.kern_ids());
			let outcome = match &res {
				Err(p) => {
					oracle_fail(out, &mut w.st, &format!("retr case {} ({}): retrieve_transactions panicked: {}", case_no, name, p));
					"panic".to_string()
				}
				Ok((got, missing)) => {
					if !missing.is_empty() {
						if clean {
							oracle_fail(out, &mut w.st, &format!("retr case {} ({}): the pool holds every transaction of the block ({} kernels) but {} short ids are reported missing", case_no, name, cb.kern_ids().len(), missing.len()));
						}
						"missing".to_string()
					} else {
						match catch(std::panic::AssertUnwindSafe(|| Block::hydrate_from(cb.clone(), got))) {
							Ok(Ok(hb)) => {
								let hi: Vec<CommitWrapper> = hb.inputs().into();
								let bi: Vec<CommitWrapper> = b.inputs().into();
								let same = hb.header.hash() == b.header.hash() && hi == bi && hb.outputs() == b.outputs() && hb.kernels() == b.kernels();
								if clean && !same {
									oracle_fail(out, &mut w.st, &format!("retr case {} ({}): the block hydrated from what the pool returned ({} transactions for {} short ids) is not the block", case_no, name, got.len(), cb.kern_ids().len()));
								}
								if same { "hydrated-same".to_string() } else { "hydrated-different".to_string() }
							}
							Ok(Err(e)) => {
								if clean {
									oracle_fail(out, &mut w.st, &format!("retr case {} ({}): hydrate_from fails on what the pool returned: {}", case_no, name, block_err_name(&e)));
								}
								format!("hydrate-err:{}", block_err_name(&e))
							}
							Err(p) => {
								oracle_fail(out, &mut w.st, &format!("retr case {} ({}): hydrate_from panicked: {}", case_no, name, p));
								"panic".to_string()
							}
						}
					}
				}
			};
			if clean {
				// rule-fixed: a pool that holds the block's transactions (any grouping, anything
				// unrelated around them) hydrates the identical block
				out.line(&format!("tx retrhyd {} {}", case_no, name), &outcome);
			}
			*stat.entry(name.to_string()).or_default().entry(outcome).or_insert(0) += 1;
		}
	}
	// ---- short-id collisions: three pairs of kernels (Plain, fee f, default excess) found by a
	// birthday search over 2^25 fees under (collision_hash, COLLISION_NONCE)
	let pairs: [(u32, u32); 3] = [(5880597, 22049689), (10893704, 21397893), (8088371, 12697367)];
	let h = collision_hash();
	let mut still = 0;
	for (pi, (f1, f2)) in pairs.iter().enumerate() {
		let (k1, k2) = (fake_kernel(*f1), fake_kernel(*f2));
		let (s1, s2) = (k1.short_id(&h, COLLISION_NONCE), k2.short_id(&h, COLLISION_NONCE));
		if s1.as_ref() == s2.as_ref() {
			still += 1;
		}
		let t1 = Transaction::empty().with_kernel(k1.clone());
		let t2 = Transaction::empty().with_kernel(k2.clone());
		let other = Transaction::empty().with_kernel(fake_kernel(1000 + pi as u32));
		let so = fake_kernel(1000 + pi as u32).short_id(&h, COLLISION_NONCE);
		let both = Transaction::empty().with_kernel(k1.clone()).with_kernel(k2.clone());
		let shapes: Vec<(&str, Vec<Transaction>, Vec<grin_core::core::ShortId>)> = vec![
			("collision-wanted-first", vec![t1.clone(), t2.clone()], vec![s1.clone()]),
			("collision-other-first", vec![t2.clone(), t1.clone()], vec![s1.clone()]),
			("collision-two-ids", vec![t2.clone(), other.clone(), t1.clone()], vec![s1.clone(), so.clone()]),
			("collision-two-ids-late", vec![t2.clone(), t1.clone(), other.clone()], vec![so.clone(), s1.clone()]),
			("collision-in-one-tx", vec![both.clone(), other.clone()], vec![s1.clone(), so.clone()]),
			("collision-only-other", vec![t2.clone()], vec![s1.clone()]),
		];
		for (name, entries, ids) in shapes {
			case_no += 1;
			let r = retr_case(out, case_no, name, &entries, &h, COLLISION_NONCE, &ids);
			let outcome = match r {
				Ok((got, missing)) => format!("{} txs, {} missing", got.len(), missing.len()),
				Err(_) => "panic".to_string(),
			};
			*stat.entry(name.to_string()).or_default().entry(outcome).or_insert(0) += 1;
		}
	}
	out.raw(&format!("#STAT retr: {} retrievals on a real grin_pool::Pool; outcome by pool shape: {:?}", case_no, stat));
	out.raw(&format!("#STAT retr: short-id collisions: {} of 3 precomputed kernel pairs still share their 6-byte short id under the fixed (hash, nonce); oracle failures {}", still, w.st.oracle_fails));
}

/// the block hash / nonce under which the two fake kernels of `COLLIDING_FEES` have the same short id
const COLLISION_NONCE: u64 = 7;
// ---------------------------------------------------------------------------------------------
// overage: Committed::verify_kernel_sums with a chosen SIGNED overage on real transactions whose
// blinding part balances (what `fee() as i64` feeds it from 2^63 on cannot be built: 2^23 kernels)
// ---------------------------------------------------------------------------------------------

fn overage_run(out: &mut Out, rng: &mut Rng, thorough: bool) {
	use grin_core::core::Committed;
	global::set_local_chain_type(ChainTypes::AutomatedTesting);
	let kc = ExtKeychain::from_seed(&rng.bytes(32), true).unwrap();
	let pb = ProofBuilder::new(&kc);
	let mut stat: BTreeMap<String, u64> = BTreeMap::new();
	let n_tx = if thorough { 60 } else { 16 };
	let big: [u64; 6] = [(1u64 << 63) - 1, 1u64 << 63, (1u64 << 63) + 1, u64::MAX, 1u64 << 62, 60_000_000_000];
	for t in 0..n_tx {
		// inputs worth sum_in, outputs worth sum_out, difference chosen: 0, +-1, around 2^63, the reward, random
		let (vin, vout): (Vec<u64>, Vec<u64>) = match t % 8 {
			0 => (vec![rng.range(1, 1 << 40)], vec![]),
			1 => {
				let v = rng.range(1, 1 << 40);
				(vec![v], vec![v])
			}
			2 => (vec![big[(t / 8) % 6]], vec![rng.range(0, 5)]),
			3 => (vec![rng.range(0, 5)], vec![big[(t / 8) % 6]]),
			4 => (vec![u64::MAX, u64::MAX], vec![u64::MAX - 1]),
			5 => (vec![rng.range(1, 1000)], vec![60_000_000_000 + rng.range(1, 1000)]),
			6 => (vec![], vec![rng.range(1, 1 << 40)]),
			_ => (vec![rng.next(), rng.range(0, 9)], vec![rng.next()]),
		};
		let mut el: Vec<Box<build::Append<ExtKeychain, ProofBuilder<ExtKeychain>>>> = vec![];
		for (i, v) in vin.iter().enumerate() {
			el.push(build::input(*v, ExtKeychain::derive_key_id(3, 11, t as u32, i as u32, 0)));
		}
		for (i, v) in vout.iter().enumerate() {
			el.push(build::output(*v, ExtKeychain::derive_key_id(3, 12, t as u32, i as u32, 0)));
		}
		let tx = match build::transaction(KernelFeatures::Plain { fee: FeeFields::new(0, 1).unwrap() }, &el, &kc, &pb) {
			Ok(t) => t,
			Err(e) => {
				out.raw(&format!("#STAT overage: builder refused values in={:?} out={:?}: {:?}", vin, vout, e));
				continue;
			}
		};
		let sum_in: u128 = vin.iter().map(|x| *x as u128).sum();
		let sum_out: u128 = vout.iter().map(|x| *x as u128).sum();
		let delta: i128 = sum_in as i128 - sum_out as i128;
		let mut ovs: Vec<i64> = vec![0, 1, -1, i64::MAX, i64::MIN, i64::MIN + 1, -60_000_000_000, rng.next() as i64];
		if delta >= i64::MIN as i128 && delta <= i64::MAX as i128 {
			let d = delta as i64;
			ovs.push(d);
			ovs.push(d.wrapping_neg());
			ovs.push(d.wrapping_add(1));
			ovs.push(d.wrapping_sub(1));
		}
		for ov in ovs {
			let r = catch(std::panic::AssertUnwindSafe(|| tx.verify_kernel_sums(ov, tx.offset.clone())));
			let s = match r {
				Ok(Ok(_)) => "ok".to_string(),
				Ok(Err(committed::Error::InvalidValue)) => "err:InvalidValue".to_string(),
				Ok(Err(committed::Error::KernelSumMismatch)) => "err:KernelSumMismatch".to_string(),
				Ok(Err(e)) => format!("err:{:?}", e).replace(' ', ""),
				Err(_) => "panic".to_string(),
			};
			let class = if ov == i64::MIN { "i64::MIN" } else if ov == 0 { "zero" } else if ov < 0 { "negative" } else { "positive" };
			*stat.entry(format!("overage {}: {}", class, s)).or_insert(0) += 1;
			out.line(&format!("tx ksum {} {} {}", sum_in, sum_out, ov), &s);
		}
	}
	// the cast itself, as Rust computes it
	for x in [0u64, 1, (1 << 63) - 1, 1 << 63, (1 << 63) + 1, u64::MAX - 1, u64::MAX, rng.next(), rng.next()] {
		out.line(&format!("tx asi64 {}", x), &format!("{}", x as i64));
	}
	out.raw(&format!("#STAT overage: {:?}", stat));
}

// ---------------------------------------------------------------------------------------------
// collide: two kernels of ONE block with the same short id under the compact block's nonce (real
// 48-bit collisions found by `tx findcollision2`), short-id keys for corner nonces, several
// coinbase items through compact form and hydration
// ---------------------------------------------------------------------------------------------

/// pairs of fees whose kernels Plain{fee} (default excess / signature) have the same short id under
/// (BlockHeader::default().hash() on the testing chain, COLLISION_NONCE)
const BLOCK_COLLISIONS: [(u32, u32); 3] = [(8967272, 12336130), (13126019, 14264626), (3684080, 15970210)];

fn wire_of(header: &BlockHeader, nonce: u64, out_full: &[Output], kern_full: &[TxKernel], sids: &[grin_core::core::ShortId]) -> Vec<u8> {
	let mut bytes: Vec<u8> = vec![];
	ser::serialize_default(&mut bytes, header).unwrap();
	bytes.extend_from_slice(&nonce.to_be_bytes());
	bytes.extend_from_slice(&(out_full.len() as u64).to_be_bytes());
	bytes.extend_from_slice(&(kern_full.len() as u64).to_be_bytes());
	bytes.extend_from_slice(&(sids.len() as u64).to_be_bytes());
	for o in out_full {
		ser::serialize_default(&mut bytes, o).unwrap();
	}
	for k in kern_full {
		ser::serialize_default(&mut bytes, k).unwrap();
	}
	for s in sids {
		ser::serialize_default(&mut bytes, s).unwrap();
	}
	bytes
}

fn collide_run(out: &mut Out, rng: &mut Rng, thorough: bool) {
	use grin_core::core::compact_block::UntrustedCompactBlock;
	use grin_core::core::TransactionBody;
	global::set_local_chain_type(ChainTypes::AutomatedTesting);
	let header = BlockHeader::default();
	let hh = header.hash();
	let mut stat: BTreeMap<String, u64> = BTreeMap::new();
	let kc = ExtKeychain::from_seed(&rng.bytes(32), true).unwrap();
	let pb = ProofBuilder::new(&kc);
	let (rout, rkern) = reward::output(&kc, &pb, &ExtKeychain::derive_key_id(3, 9, 0, 0, 0), 0, true).unwrap();
	let mut case = 0u64;
	let mut one = |out: &mut Out, stat: &mut BTreeMap<String, u64>, what: &str, kernels: Vec<TxKernel>, nonce: u64| {
		case += 1;
		let mut ks = kernels.clone();
		ks.push(rkern.clone());
		let body = TransactionBody::init(Inputs::default(), &[rout.clone()], &ks, false).unwrap();
		let b = Block { header: header.clone(), body };
		let tx_kernels: Vec<&TxKernel> = b.kernels().iter().filter(|k| !k.is_coinbase()).collect();
		let mut sids: Vec<grin_core::core::ShortId> = tx_kernels.iter().map(|k| k.short_id(&hh, nonce)).collect();
		sids.sort();
		let khs: Vec<String> = tx_kernels.iter().map(|k| hex(k.hash().as_bytes())).collect();
		// the short ids themselves, recomputed by the model (own blake2b + SipHash-2-4), in wire order
		out.line(
			&format!("tx cbids {} {} {} [{}]", case, hex(hh.as_bytes()), nonce, khs.join(",")),
			&format!("[{}]", sids.iter().map(|s| hex(s.as_ref())).collect::<Vec<_>>().join(",")),
		);
		let cb0 = CompactBlock::from(b.clone());
		let bytes = wire_of(&header, nonce, cb0.out_full(), cb0.kern_full(), &sids);
		let r1 = catch(std::panic::AssertUnwindSafe(|| ser::deserialize_default::<CompactBlock, _>(&mut &bytes[..])));
		let r2 = catch(std::panic::AssertUnwindSafe(|| ser::deserialize_default::<UntrustedCompactBlock, _>(&mut &bytes[..])));
		let show = |ok: bool, err: Option<String>| if ok { "accepted".to_string() } else { format!("refused:{}", err.unwrap_or_default()) };
		let s1 = match &r1 {
			Ok(Ok(_)) => show(true, None),
			Ok(Err(e)) => show(false, Some(format!("{:?}", e).replace(' ', ""))),
			Err(_) => "panic".to_string(),
		};
		let s2 = match &r2 {
			Ok(Ok(_)) => show(true, None),
			Ok(Err(e)) => show(false, Some(format!("{:?}", e).replace(' ', ""))),
			Err(_) => "panic".to_string(),
		};
		let short = |s: &str| if s.starts_with("refused") { "refused" } else { s }.to_string();
		*stat.entry(format!("{}: reader {} / untrusted reader {}", what, s1, s2)).or_insert(0) += 1;
		// (the untrusted reader also checks the header - no real proof of work here - and refuses
		// every one of these: it is shown in the #STAT line only)
		out.line(&format!("tx cbread {} {} {} [{}]", case, hex(hh.as_bytes()), nonce, khs.join(",")), &short(&s1));
		// in memory nothing reads the ids: the From<Block> compact block hydrates back from the kernels' transactions
		let txs: Vec<Transaction> = kernels.iter().map(|k| Transaction::empty().with_kernel(k.clone())).collect();
		let hy = Block::hydrate_from(cb0, &txs);
		let same = match &hy {
			Ok(hb) => hb.body == b.body && hb.header.hash() == hh,
			Err(_) => false,
		};
		*stat.entry(format!("{}: hydrate_from(From<Block> form) gives the block: {}", what, same)).or_insert(0) += 1;
		if !same {
			out.raw(&format!("#ORACLE-FAIL C12 collide: hydrate_from of the in-memory compact block does not give the block back ({}, nonce {})", what, nonce));
		}
	};
	for (f1, f2) in BLOCK_COLLISIONS.iter() {
		let (k1, k2) = (fake_kernel(*f1), fake_kernel(*f2));
		if k1.short_id(&hh, COLLISION_NONCE) != k2.short_id(&hh, COLLISION_NONCE) {
			out.raw(&format!("#STAT collide: precomputed pair {} / {} does not collide any more (header encoding changed?) - rerun `tx findcollision2`", f1, f2));
			continue;
		}
		// the two colliding kernels alone, with bystanders, and under another nonce (no collision there)
		one(out, &mut stat, "colliding pair", vec![k1.clone(), k2.clone()], COLLISION_NONCE);
		one(out, &mut stat, "colliding pair among others", vec![fake_kernel(11), k1.clone(), fake_kernel(12), k2.clone(), fake_kernel(13)], COLLISION_NONCE);
		one(out, &mut stat, "same pair, other nonce", vec![k1.clone(), k2.clone()], COLLISION_NONCE + 1);
		one(out, &mut stat, "one of the pair", vec![k1.clone(), fake_kernel(14)], COLLISION_NONCE);
	}
	// short-id keys for corner nonces and random ones
	let mut nonces: Vec<u64> = vec![0, 1, 2, 255, 256, (1 << 32) - 1, 1 << 32, (1 << 63) - 1, 1 << 63, u64::MAX - 1, u64::MAX];
	for _ in 0..(if thorough { 300 } else { 40 }) {
		nonces.push(rng.next());
	}
	for n in nonces {
		let nk = rng.range(1, 6) as u32;
		let ks: Vec<TxKernel> = (0..nk).map(|i| fake_kernel(100 + i + (rng.below(1 << 20) as u32))).collect();
		one(out, &mut stat, "nonce sweep", ks, n);
	}
	// several coinbase items: two reward outputs and two reward kernels in one block
	{
		let (rout2, rkern2) = reward::output(&kc, &pb, &ExtKeychain::derive_key_id(3, 9, 1, 0, 0), 0, true).unwrap();
		for nk in 0..3u32 {
			let ks: Vec<TxKernel> = (0..nk).map(|i| fake_kernel(500 + i)).collect();
			let mut all = ks.clone();
			all.push(rkern.clone());
			all.push(rkern2.clone());
			let body = TransactionBody::init(Inputs::default(), &[rout.clone(), rout2.clone()], &all, false).unwrap();
			let b = Block { header: header.clone(), body };
			let cb = CompactBlock::from(b.clone());
			let txs: Vec<Transaction> = ks.iter().map(|k| Transaction::empty().with_kernel(k.clone())).collect();
			let wire_ok = wire_roundtrip(&cb).is_ok();
			let same = match Block::hydrate_from(cb.clone(), &txs) {
				Ok(hb) => hb.body == b.body,
				Err(_) => false,
			};
			let line = format!("{} {} {} {} {}", cb.out_full().len(), cb.kern_full().len(), cb.kern_ids().len(), wire_ok, same);
			*stat.entry(format!("two coinbase outputs and kernels, {} tx kernels: out_full kern_full kern_ids wire hydrated-same = {}", nk, line)).or_insert(0) += 1;
			out.line(&format!("tx cbtwo {}", nk), &line);
			if !same || !wire_ok {
				out.raw(&format!("#ORACLE-FAIL C12 collide: a block with two coinbase outputs / kernels and {} transaction kernels does not survive compact form + hydration", nk));
			}
		}
	}
	out.raw(&format!("#STAT collide: {:?}", stat));
}

// ---------------------------------------------------------------------------------------------
// zeroout: valid transactions / aggregates / blocks whose body has NO output (or nothing at all)
// through validate under every weighting.  Each case runs in a CHILD process: a crash inside the
// range-proof library (e.g. a batch verification called with empty vectors) kills the child only and
// the parent reports the case as a concrete failing input.
// ---------------------------------------------------------------------------------------------

const ZERO_CASES: [&str; 8] = [
	"valid-aggregate-of-two-no-output",
	"valid-single-tx-no-output",
	"valid-aggregate-of-three-no-output",
	"valid-deaggregated-no-output",
	"valid-block-of-no-output-aggregate",
	"valid-block-without-transactions",
	"valid-hydrated-block-of-no-output-aggregate",
	"empty-tx",
];

fn zero_child(out: &mut Out, rng: &mut Rng, which: usize) {
	global::set_local_chain_type(ChainTypes::AutomatedTesting);
	let kc = ExtKeychain::from_seed(&rng.bytes(32), true).unwrap();
	let pb = ProofBuilder::new(&kc);
	let name = ZERO_CASES[which];
	let kid = |a: u32, b: u32| ExtKeychain::derive_key_id(3, 21, a, b, 0);
	let plain = |fee: u64| KernelFeatures::Plain { fee: FeeFields::new(0, fee).unwrap() };
	let v: u64 = 1_000_000 + rng.below(1_000_000);
	// t1: A -> X (+ Y), t2: X -> all to the fee, t3: Y -> all to the fee
	let t1 = build::transaction(plain(1000), &[build::input(v, kid(0, 0)), build::output(v - 1000, kid(0, 1))], &kc, &pb).unwrap();
	let t2 = build::transaction(plain(v - 1000), &[build::input(v - 1000, kid(0, 1))], &kc, &pb).unwrap();
	let t1b = build::transaction(plain(1000), &[build::input(v, kid(1, 0)), build::output(v / 2, kid(1, 1)), build::output(v - v / 2 - 1000, kid(1, 2))], &kc, &pb).unwrap();
	let t2b = build::transaction(plain(v / 2), &[build::input(v / 2, kid(1, 1))], &kc, &pb).unwrap();
	let t3b = build::transaction(plain(v - v / 2 - 1000), &[build::input(v - v / 2 - 1000, kid(1, 2))], &kc, &pb).unwrap();
	let weightings: Vec<(&str, Weighting)> = vec![
		("AsTransaction", Weighting::AsTransaction),
		("AsLimitedTransaction(200)", Weighting::AsLimitedTransaction(200)),
		("AsBlock", Weighting::AsBlock),
		("NoLimit", Weighting::NoLimit),
	];
	let tx_case = |out: &mut Out, tx: &Transaction| {
		out.raw(&format!("# {}: body with {} inputs, {} outputs, {} kernels", name, tx.inputs().len(), tx.outputs().len(), tx.kernels().len()));
		for (wn, w) in &weightings {
			// printed BEFORE the call: if the process dies here this is the last line
			out.raw(&format!("# about to call Transaction::validate({}) on {}", wn, name));
			out.flush();
			// self-test of the parent's reporting (never set by `check`): die where a crash would
			if std::env::var("VERIF_ZERO_SELFTEST").is_ok() {
				std::process::abort();
			}
			let r = match tx.validate(*w) {
				Ok(()) => "ok".to_string(),
				Err(e) => format!("err:{}", err_name(&e)),
			};
			out.line(&format!("tx zval {} {} {} {} {}", name, wn, tx.inputs().len(), tx.outputs().len(), tx.kernels().len()), &r);
		}
		out.raw(&format!("# about to call Transaction::validate_read on {}", name));
		out.flush();
		let r = match tx.validate_read() {
			Ok(()) => "ok".to_string(),
			Err(e) => format!("err:{}", err_name(&e)),
		};
		out.line(&format!("tx zval {} validate_read {} {} {}", name, tx.inputs().len(), tx.outputs().len(), tx.kernels().len()), &r);
	};
	let block_case = |out: &mut Out, txs: &[Transaction], hydrate: bool| {
		let fees: u64 = txs.iter().map(|t| t.fee()).sum();
		let (rout, rkern) = reward::output(&kc, &pb, &kid(9, 0), fees, true).unwrap();
		let prev = BlockHeader::default();
		let b = Block::from_reward(&prev, txs, rout, rkern, Difficulty::min_dma()).unwrap();
		let b = if hydrate {
			out.raw(&format!("# about to call CompactBlock::from / Block::hydrate_from on {}", name));
			out.flush();
			Block::hydrate_from(CompactBlock::from(b.clone()), txs).unwrap()
		} else {
			b
		};
		out.raw(&format!("# {}: block body with {} inputs, {} outputs, {} kernels", name, b.inputs().len(), b.outputs().len(), b.kernels().len()));
		out.raw(&format!("# about to call Block::validate on {}", name));
		out.flush();
		let r = match b.validate(&prev.total_kernel_offset) {
			Ok(()) => "ok".to_string(),
			Err(e) => format!("err:{}", block_err_name(&e)),
		};
		out.line(&format!("tx zval {} Block::validate {} {} {}", name, b.inputs().len(), b.outputs().len(), b.kernels().len()), &r);
		out.raw(&format!("# about to call TransactionBody::validate(AsBlock) on {}", name));
		out.flush();
		let r = match b.body.validate(Weighting::AsBlock) {
			Ok(()) => "ok".to_string(),
			Err(e) => format!("err:{}", err_name(&e)),
		};
		out.line(&format!("tx zval {} body.validate(AsBlock) {} {} {}", name, b.inputs().len(), b.outputs().len(), b.kernels().len()), &r);
	};
	match which {
		0 => tx_case(out, &transaction::aggregate(&[t1.clone(), t2.clone()]).unwrap()),
		1 => tx_case(out, &t2),
		2 => tx_case(out, &transaction::aggregate(&[t3b.clone(), t1b.clone(), t2b.clone()]).unwrap()),
		3 => {
			// aggregate of two independent pairs, one pair de-aggregated away: the remainder has no output
			let all = transaction::aggregate(&[t1.clone(), t2.clone(), t1b.clone()]).unwrap();
			tx_case(out, &transaction::deaggregate(all, &[t1b.clone()]).unwrap())
		}
		4 => block_case(out, &[t1.clone(), t2.clone()], false),
		5 => block_case(out, &[], false),
		6 => block_case(out, &[t2.clone(), t1.clone()], true),
		_ => tx_case(out, &Transaction::empty()),
	}
}

fn zero_parent(out: &mut Out, thorough: bool) {
	let exe = std::env::current_exe().unwrap();
	let mut stat: BTreeMap<String, u64> = BTreeMap::new();
	let rounds = if thorough { 4 } else { 1 };
	for round in 0..rounds {
		for (i, name) in ZERO_CASES.iter().enumerate() {
			let o = std::process::Command::new(&exe)
				.arg("zeroout-child")
				.arg(i.to_string())
				.env("VERIF_SEED", format!("{}", seed_from_env().wrapping_add(round)))
				.stderr(std::process::Stdio::null())
				.output();
			match o {
				Ok(o) => {
					let text = String::from_utf8_lossy(&o.stdout).to_string();
					let last = text.lines().last().unwrap_or("").to_string();
					for l in text.lines() {
						if let Some((lhs, rhs)) = l.split_once(" => ") {
							out.line(lhs, rhs);
						} else {
							out.raw(l);
						}
					}
					if o.status.success() {
						*stat.entry(format!("{}: child finished", name)).or_insert(0) += 1;
					} else {
						*stat.entry(format!("{}: child DIED ({:?})", name, o.status)).or_insert(0) += 1;
						out.raw(&format!("#ORACLE-FAIL C12 zeroout: the process died ({:?}) on the valid case {} - last line printed: [{}]", o.status, name, last));
					}
				}
				Err(e) => out.raw(&format!("#ORACLE-FAIL C12 zeroout: the child process for {} could not be started: {}", name, e)),
			}
		}
	}
	out.raw(&format!("#STAT zeroout: {:?}", stat));
}

fn collision_hash() -> Hash {
	Hash::from_vec(&[0x11u8; 32])
}
fn fake_kernel(fee: u32) -> TxKernel {
	TxKernel::with_features(KernelFeatures::Plain { fee: fee.into() })
}

/// diagnostic (argv[1] = findcollision): birthday search over kernels Plain{fee = 1..n} (default
/// excess and signature) for two with the same 6-byte short id under (collision_hash, COLLISION_NONCE)
fn find_collision(n: u32) {
	let h = collision_hash();
	let mut ids: Vec<u64> = Vec::with_capacity(n as usize);
	for fee in 1..=n {
		let sid = fake_kernel(fee).short_id(&h, COLLISION_NONCE);
		let mut b = [0u8; 8];
		b[..6].copy_from_slice(sid.as_ref());
		ids.push(u64::from_le_bytes(b));
	}
	let mut sorted = ids.clone();
	sorted.sort_unstable();
	for wdw in sorted.windows(2) {
		if wdw[0] == wdw[1] {
			let fees: Vec<usize> = ids.iter().enumerate().filter(|(_, v)| **v == wdw[0]).map(|(i, _)| i + 1).collect();
			println!("collision: short id {:012x} fees {:?}", wdw[0], fees);
		}
	}
	println!("searched {} kernels", n);
}

/// diagnostic (argv[1] = findcollision2): the same search under the hash of the header the `collide`
/// run uses (BlockHeader::default() on the testing chain)
fn find_collision2(n: u32) {
	global::set_local_chain_type(ChainTypes::AutomatedTesting);
	let h = BlockHeader::default().hash();
	println!("header hash {}", hex(h.as_bytes()));
	let mut ids: Vec<(u64, u32)> = Vec::with_capacity(n as usize);
	for fee in 1..=n {
		let sid = fake_kernel(fee).short_id(&h, COLLISION_NONCE);
		let mut b = [0u8; 8];
		b[..6].copy_from_slice(sid.as_ref());
		ids.push((u64::from_le_bytes(b), fee));
	}
	ids.sort_unstable();
	for wdw in ids.windows(2) {
		if wdw[0].0 == wdw[1].0 {
			println!("collision: short id {:012x} fees {} {}", wdw[0].0, wdw[0].1, wdw[1].1);
		}
	}
	println!("searched {} kernels", n);
}

fn main() {
	if std::env::args().nth(1).as_deref() == Some("findcollision2") {
		let n: u32 = std::env::args().nth(2).and_then(|x| x.parse().ok()).unwrap_or(1 << 25);
		find_collision2(n);
		return;
	}
	if std::env::args().nth(1).as_deref() == Some("findcollision") {
		let n: u32 = std::env::args().nth(2).and_then(|x| x.parse().ok()).unwrap_or(1 << 25);
		find_collision(n);
		return;
	}
	global::set_local_chain_type(ChainTypes::AutomatedTesting);
	global::set_local_nrd_enabled(true);
	global::set_local_accept_fee_base(1);
	quiet_panics();
	let t_start = std::time::Instant::now();
	let thorough = tier_thorough();
	let seed = seed_from_env();
	let mut rng = Rng::new(seed);
	let mut out = Out::stdout();
	if std::env::args().nth(1).as_deref() == Some("zeroout") {
		zero_parent(&mut out, thorough);
		return;
	}
	if std::env::args().nth(1).as_deref() == Some("zeroout-child") {
		let i: usize = std::env::args().nth(2).and_then(|x| x.parse().ok()).unwrap_or(0);
		zero_child(&mut out, &mut rng, i.min(ZERO_CASES.len() - 1));
		return;
	}
	if std::env::args().nth(1).as_deref() == Some("collide") {
		collide_run(&mut out, &mut rng, thorough);
		return;
	}
	if std::env::args().nth(1).as_deref() == Some("overage") {
		overage_run(&mut out, &mut rng, thorough);
		return;
	}
	let kseed = rng.bytes(32);
	let kc = ExtKeychain::from_seed(&kseed, false).unwrap();
	let pb = ProofBuilder::new(&kc);
	let mut w = World {
		kc: &kc,
		pb,
		rng,
		next_key: 0,
		pool: vec![],
		st: Stats::default(),
		use_excess: None,
		last_excess: None,
		extra_subs: vec![],
		cancel_prev: false,
		expect_offset: None,
		prev_target: None,
		special: false,
		valid_cache: HashMap::new(),
	};

	eprintln!("tx phase {} at {:?}", 0, t_start.elapsed());
	// ---- the pool of real transactions
	let nfam = if thorough { 60 } else { 12 };
	for f in 0..nfam {
		let ntx = w.rng.range(2, 5) as usize;
		let (chain_prob, conflicts) = match f % 4 {
			0 => (0, false),  // independent txs only
			1 => (80, false), // chains
			2 => (50, false),
			_ => (60, true), // chains with double spends
		};
		w.build_family(f, ntx, chain_prob, conflicts);
	}
	let base_len = w.pool.len();
	// multi-kernel operands: aggregates of two pool txs of the same family
	let nmk = if thorough { 40 } else { 6 };
	for _ in 0..nmk {
		let a = w.rng.below(base_len as u64) as usize;
		let cands: Vec<usize> = (0..base_len)
			.filter(|i| *i != a && w.pool[*i].family == w.pool[a].family)
			.collect();
		if cands.is_empty() {
			continue;
		}
		let b = *w.rng.pick(&cands);
		if let Ok(t) = transaction::aggregate(&[w.pool[a].tx.clone(), w.pool[b].tx.clone()]) {
			let mut parents = w.pool[a].parents.clone();
			parents.extend(w.pool[b].parents.clone());
			parents.retain(|p| *p != a && *p != b);
			let p = PTx {
				tx: t,
				family: w.pool[a].family,
				parents,
				conflict: w.pool[a].conflict || w.pool[b].conflict,
				parts: vec![a, b],
			};
			w.pool.push(p);
		}
	}
	out.raw(&format!(
		"#STAT pool: {} single-kernel txs in {} families, {} two-kernel aggregates",
		base_len,
		nfam,
		w.pool.len() - base_len
	));

	if std::env::args().nth(1).as_deref() == Some("retr") {
		retr_run(&mut out, &mut w, nfam, thorough);
		out.flush();
		return;
	}

	eprintln!("tx phase {} at {:?}", 1, t_start.elapsed());
	// ---- cases
	let ncases = if thorough { 1500 } else { 100 };
	let mut case_no = 0u64;
	for ci in 0..ncases {
		let kind = ci % 4;
		let n = w.rng.range(2, 8) as usize;
		let mut ops: Vec<usize> = vec![];
		let mut independent = true;
		let excluded = |ops: &Vec<usize>, pool: &Vec<PTx>, i: usize| -> bool {
			// never an aggregate together with one of its parts (that is a kernel duplicate)
			ops.iter().any(|o| *o == i || pool[*o].parts.contains(&i) || pool[i].parts.contains(o)
				|| pool[*o].parts.iter().any(|p| pool[i].parts.contains(p)))
		};
		match kind {
			0 => {
				// independent: one tx from each of n distinct conflict-free families
				let mut fams: Vec<usize> = (0..nfam).filter(|f| f % 4 != 3).collect();
				shuffle(&mut w.rng, &mut fams);
				for f in fams.into_iter().take(n) {
					let c: Vec<usize> = (0..w.pool.len()).filter(|i| w.pool[*i].family == f).collect();
					let i = *w.rng.pick(&c);
					if !excluded(&ops, &w.pool, i) {
						ops.push(i);
					}
				}
				w.st.indep += 1;
			}
			1 | 2 => {
				// chained: a whole conflict-free family (random order) plus fillers
				let fams: Vec<usize> = (0..nfam).filter(|f| f % 4 == 1 || f % 4 == 2).collect();
				let f = *w.rng.pick(&fams);
				let mut c: Vec<usize> = (0..w.pool.len()).filter(|i| w.pool[*i].family == f).collect();
				shuffle(&mut w.rng, &mut c);
				for i in c {
					if ops.len() < n && !excluded(&ops, &w.pool, i) {
						ops.push(i);
					}
				}
				let mut guard = 0;
				while ops.len() < n && guard < 50 {
					guard += 1;
					let i = w.rng.below(w.pool.len() as u64) as usize;
					if w.pool[i].family % 4 != 3 && w.pool[i].family != f && !excluded(&ops, &w.pool, i)
						&& !ops.iter().any(|o| w.pool[*o].family == w.pool[i].family)
					{
						ops.push(i);
					}
				}
				independent = !ops.iter().any(|i| w.pool[*i].parents.iter().any(|p| ops.iter().any(|o| o == p || w.pool[*o].parts.contains(p))));
				if independent {
					w.st.indep += 1
				} else {
					w.st.chained += 1
				}
			}
			_ => {
				// anything, including double-spending families
				let mut guard = 0;
				while ops.len() < n && guard < 100 {
					guard += 1;
					let i = if w.rng.chance(2, 3) {
						let c: Vec<usize> = (0..w.pool.len()).filter(|i| w.pool[*i].family % 4 == 3).collect();
						*w.rng.pick(&c)
					} else {
						w.rng.below(w.pool.len() as u64) as usize
					};
					if !excluded(&ops, &w.pool, i) {
						ops.push(i);
					}
				}
				independent = false;
				if ops.iter().any(|i| w.pool[*i].conflict) {
					w.st.conflict += 1
				} else {
					w.st.chained += 1
				}
			}
		}
		if ops.len() < 2 {
			continue;
		}
		shuffle(&mut w.rng, &mut ops);
		// occasionally hand over a features-and-commit ("v2") representation of an operand
		if w.rng.chance(1, 5) {
			let k = w.rng.below(ops.len() as u64) as usize;
			let mut p = w.pool[ops[k]].clone();
			p.tx = to_v2(&p.tx);
			w.pool.push(p);
			ops[k] = w.pool.len() - 1;
			case_no += 1;
			run_case(&mut out, &mut w, &ops, independent, thorough, case_no);
			w.pool.pop();
		} else {
			case_no += 1;
			run_case(&mut out, &mut w, &ops, independent, thorough, case_no);
		}
	}

	eprintln!("tx phase {} at {:?}", 2, t_start.elapsed());
	// ---- small cases: 0 and 1 operands, singletons in groupings
	for i in 0..3usize.min(w.pool.len()) {
		case_no += 1;
		run_case(&mut out, &mut w, &[i], true, thorough, case_no);
	}
	{
		// a single features-and-commit operand: the `[tx] => tx` shortcut keeps the representation,
		// the block built from it too, the hydrated block is commit-only (same commitments)
		let mut p = w.pool[0].clone();
		p.tx = to_v2(&p.tx);
		w.pool.push(p);
		let l = w.pool.len();
		case_no += 1;
		run_case(&mut out, &mut w, &[l - 1], true, thorough, case_no);
		w.pool.pop();
	}

	eprintln!("tx phase {} at {:?}", 3, t_start.elapsed());
	// ---- malformed / not-normal operands (none of the validity oracles applies; the model must
	// still follow the code): offset bytes that are not a scalar, unsorted bodies, an aggregate
	// together with one of its own parts (duplicate kernel, duplicate inputs/outputs)
	let nmal = if thorough { 40 } else { 12 };
	let mut malformed = 0u64;
	for mi in 0..nmal {
		let n = w.rng.range(2, 5) as usize;
		let mut ops: Vec<usize> = vec![];
		let mut guard = 0;
		while ops.len() < n && guard < 100 {
			guard += 1;
			let i = w.rng.below(base_len as u64) as usize;
			if !ops.contains(&i) {
				ops.push(i);
			}
		}
		let mut pushed = 0;
		match mi % 3 {
			0 => {
				// offset >= group order: silently skipped by to_secrets
				let mut p = w.pool[ops[0]].clone();
				let mut b = [0xffu8; 32];
				b[31] = w.rng.next() as u8;
				p.tx.offset = BlindingFactor::from_slice(&b);
				w.pool.push(p);
				ops[0] = w.pool.len() - 1;
				pushed = 1;
			}
			1 => {
				// body not in hash order
				let mut p = w.pool[ops[0]].clone();
				let mut outs = p.tx.outputs().to_vec();
				outs.reverse();
				let mut ins: Vec<CommitWrapper> = p.tx.inputs().into();
				ins.reverse();
				p.tx = Transaction {
					offset: p.tx.offset.clone(),
					body: p.tx.body.clone().replace_outputs(&outs).replace_inputs(Inputs::CommitOnly(ins)),
				};
				w.pool.push(p);
				ops[0] = w.pool.len() - 1;
				pushed = 1;
			}
			_ => {
				// an aggregate together with one of its parts
				let mk: Vec<usize> = (base_len..w.pool.len()).filter(|i| !w.pool[*i].parts.is_empty()).collect();
				if !mk.is_empty() {
					let a = *w.rng.pick(&mk);
					let part = w.pool[a].parts[0];
					ops.retain(|o| *o != part && *o != a);
					ops.push(a);
					ops.push(part);
				}
			}
		}
		shuffle(&mut w.rng, &mut ops);
		case_no += 1;
		malformed += 1;
		run_case(&mut out, &mut w, &ops, false, thorough, case_no);
		for _ in 0..pushed {
			w.pool.pop();
		}
	}
	out.raw(&format!("#STAT malformed-operand cases={} (offset not a scalar / unsorted body / aggregate with one of its parts)", malformed));

	eprintln!("tx phase {} at {:?}", 4, t_start.elapsed());
	// ---- offsets that cancel, generated in numbers: a set of conflict-free operands out of the pool
	// plus one fresh independent transaction whose offset is minus the sum of all the others' offsets
	// (the aggregate's offset is zero), or minus the offset of one other operand (a group / a
	// remainder with zero offset); de-aggregation of everything but the cancelling part and of the
	// whole set; the block is built on a previous total offset that cancels the
	// aggregate's offset.  All ordinary oracles apply.
	let ncancel = if thorough { 240 } else { 36 };
	for ci in 0..ncancel {
		let n = w.rng.range(1, 6) as usize;
		let mut ops: Vec<usize> = vec![];
		let mut independent = true;
		let excluded = |ops: &Vec<usize>, pool: &Vec<PTx>, i: usize| -> bool {
			ops.iter().any(|o| *o == i || pool[*o].parts.contains(&i) || pool[i].parts.contains(o)
				|| pool[*o].parts.iter().any(|p| pool[i].parts.contains(p)))
		};
		if ci % 3 != 2 {
			// independent operands: one tx from each of n distinct conflict-free families
			let mut fams: Vec<usize> = (0..nfam).filter(|f| f % 4 != 3).collect();
			shuffle(&mut w.rng, &mut fams);
			for f in fams.into_iter().take(n) {
				let c: Vec<usize> = (0..w.pool.len()).filter(|i| w.pool[*i].family == f).collect();
				let i = *w.rng.pick(&c);
				if !excluded(&ops, &w.pool, i) {
					ops.push(i);
				}
			}
		} else {
			// a whole conflict-free chained family
			let fams: Vec<usize> = (0..nfam).filter(|f| f % 4 == 1 || f % 4 == 2).collect();
			let f = *w.rng.pick(&fams);
			let mut c: Vec<usize> = (0..w.pool.len()).filter(|i| w.pool[*i].family == f).collect();
			shuffle(&mut w.rng, &mut c);
			for i in c {
				if !excluded(&ops, &w.pool, i) {
					ops.push(i);
				}
			}
			independent = !ops.iter().any(|i| w.pool[*i].parents.iter().any(|p| ops.iter().any(|o| o == p || w.pool[*o].parts.contains(p))));
		}
		if ops.is_empty() {
			continue;
		}
		let otx: Vec<Transaction> = ops.iter().map(|i| w.pool[*i].tx.clone()).collect();
		// what the fresh transaction cancels: everything (ci even) or one operand (ci odd)
		let total = ci % 2 == 0;
		let (target, partner): (Option<BlindingFactor>, Option<usize>) = if total {
			(sum_offsets(w.kc, &otx), None)
		} else {
			let nz: Vec<usize> = (0..otx.len()).filter(|i| has_scalar_offset(w.kc, &otx[*i])).collect();
			if nz.is_empty() {
				(None, None)
			} else {
				let k = *w.rng.pick(&nz);
				(Some(otx[k].offset.clone()), Some(k))
			}
		};
		let target = match target {
			Some(t) => t,
			None => continue,
		};
		let (k1, k2) = (w.fresh_key(), w.fresh_key());
		let v = w.rng.range(50, 5000);
		let fee = w.rng.range(1, 9);
		let features = w.rand_features(fee as u32);
		let fresh = w.build_tx(&[(v, k1)], &[(v - fee, k2)], features, OffMode::Random, Some(negate(w.kc, &target)));
		if fresh.validate(Weighting::AsTransaction).is_err() {
			oracle_fail(&mut out, &mut w.st, &format!("cancelling case {}: the fresh transaction with offset {} is not valid", ci, hex(fresh.offset.as_ref())));
		}
		w.pool.push(PTx { tx: fresh, family: 20000 + ci, parents: vec![], conflict: false, parts: vec![] });
		ops.push(w.pool.len() - 1);
		let mut pushed = 1;
		// positions after the shuffle
		shuffle(&mut w.rng, &mut ops);
		let fresh_pos = ops.iter().position(|o| *o == w.pool.len() - 1).unwrap();
		if w.rng.chance(1, 6) {
			// a features-and-commit representation of one operand
			let k = w.rng.below(ops.len() as u64) as usize;
			let mut p = w.pool[ops[k]].clone();
			p.tx = to_v2(&p.tx);
			w.pool.push(p);
			ops[k] = w.pool.len() - 1;
			pushed += 1;
		}
		let m = ops.len();
		let mut subs: Vec<Vec<usize>> = vec![(0..m).collect()];
		match partner {
			None => {
				// known subset = everything but the fresh one, and the fresh one alone
				subs.push((0..m).filter(|i| *i != fresh_pos).collect());
				subs.push(vec![fresh_pos]);
			}
			Some(k) => {
				// known subset = everything but the cancelling pair: the remainder's offset is zero
				let ppos = (0..m).find(|i| *i != fresh_pos && w.pool[ops[*i]].tx.offset == otx[k].offset);
				if let Some(ppos) = ppos {
					subs.push((0..m).filter(|i| *i != fresh_pos && *i != ppos).collect());
					subs.push(vec![fresh_pos, ppos]);
				}
			}
		}
		w.extra_subs = subs;
		w.cancel_prev = true;
		w.st.cancel_cases += 1;
		case_no += 1;
		run_case(&mut out, &mut w, &ops, independent, thorough, case_no);
		w.extra_subs.clear();
		w.cancel_prev = false;
		for _ in 0..pushed {
			w.pool.pop();
		}
	}

	eprintln!("tx phase {} at {:?}", 5, t_start.elapsed());
	// ---- offset sums at special values: operands with chosen offsets k and (v - k) mod n for
	// v in {0, 1, 2, n-2, n-1} and k in {1, 2, random, n-2, n-1} (both operand orders, groupings,
	// de-aggregation of either part, block on a previous total offset such that previous + aggregate
	// is again a special value); the same pair plus a random third operand (remainder offset = v,
	// subset offset = v); three and four operands whose partial sums pass through 0 / n-1 in some
	// order (all permutations are run).  Rule-fixed answer: the aggregate exists, carries offset v,
	// validates, and de-aggregates back.
	{
		let specials = special_values();
		let rounds = if thorough { 3 } else { 1 };
		let mut bt = 0usize; // block target, cycling through the special values
		for round in 0..rounds {
			for (vi, (v, vname)) in specials.iter().enumerate() {
				for ki in 0..5usize {
					let k: [u8; 32] = match ki {
						0 => scalar_u64(1),
						1 => scalar_u64(2),
						2 => bytes32(&w.rand_scalar()[..]),
						3 => order_minus(2),
						_ => order_minus(1),
					};
					let rest = sub_mod(v, &k);
					// (A) the pair, in one order here and in the other by the permutation loop
					let pair = if (round + vi + ki) % 2 == 0 { vec![k, rest] } else { vec![rest, k] };
					bt += 1;
					special_case(&mut out, &mut w, &pair, (*v, *vname), vec![vec![0], vec![1], vec![0, 1], vec![1, 0]], specials[bt % 5].0, thorough, &mut case_no);
					// (B) the pair and a random third operand: remainder {k, v-k} has offset v; known
					// subset {k, v-k} has offset v
					// (quick tier: (B) and (C) for k in {1, random, n-1} only)
					if !thorough && ki % 2 == 1 {
						continue;
					}
					let r = bytes32(&w.rand_scalar()[..]);
					let (tot, _) = {
						let (sum, carry) = be_add(v, &r);
						let (red, borrow) = be_sub(&sum, &ORDER);
						if carry || !borrow { (red, true) } else { (sum, false) }
					};
					let tname = special_name(&tot).unwrap_or("other");
					bt += 1;
					special_case(&mut out, &mut w, &[k, r, rest], (tot, tname), vec![vec![1], vec![0, 2], vec![2, 0], vec![0], vec![2], vec![0, 1, 2]], specials[bt % 5].0, thorough, &mut case_no);
					// (C) three operands, the partial sum of the first two is p (0 or n-1), the total v
					for (pi, p) in [scalar_u64(0), order_minus(1)].iter().enumerate() {
						if (ki / 2 + vi + pi + round) % 2 == 1 && !thorough {
							continue;
						}
						let offs = [k, sub_mod(p, &k), sub_mod(v, p)];
						bt += 1;
						w.st.sp_partial3 += 1;
						special_case(&mut out, &mut w, &offs, (*v, *vname), vec![vec![0, 1], vec![2], vec![1, 2], vec![0], vec![0, 1, 2]], specials[bt % 5].0, thorough, &mut case_no);
					}
				}
				// (D) four operands, partial sums k, p1, p2, v with (p1, p2) = (0, n-1) and (n-1, 0)
				for (di, (p1, p2)) in [(scalar_u64(0), order_minus(1)), (order_minus(1), scalar_u64(0))].iter().enumerate() {
					if !thorough && (vi + di) % 2 == 1 {
						continue;
					}
					let k: [u8; 32] = match (round + vi + di) % 3 {
						0 => bytes32(&w.rand_scalar()[..]),
						1 => scalar_u64(1),
						_ => order_minus(1),
					};
					let offs = [k, sub_mod(p1, &k), sub_mod(p2, p1), sub_mod(v, p2)];
					bt += 1;
					w.st.sp_partial4 += 1;
					special_case(&mut out, &mut w, &offs, (*v, *vname), vec![vec![0, 1], vec![2, 3], vec![0, 1, 2], vec![3], vec![1, 2], vec![0, 1, 2, 3]], specials[bt % 5].0, thorough, &mut case_no);
				}
			}
		}
	}

	eprintln!("tx phase {} at {:?}", 6, t_start.elapsed());
	// ---- deliberate probes of the two offset corner cases (recorded findings, repaired in /repo:
	// the #KNOWN-PROBE lines below must not appear any more)
	{
		// (1) offsets x and n - x: both transactions valid, the aggregate has offset zero
		let k1 = w.fresh_key();
		let k2 = w.fresh_key();
		let k3 = w.fresh_key();
		let k4 = w.fresh_key();
		let a = w.build_tx(&[(100, k1)], &[(98, k2)], KernelFeatures::Plain { fee: 2u32.into() }, OffMode::Random, None);
		let neg = negate(w.kc, &a.offset);
		let b = w.build_tx(&[(200, k3)], &[(197, k4)], KernelFeatures::Plain { fee: 3u32.into() }, OffMode::Random, Some(neg));
		let va = a.validate(Weighting::AsTransaction).is_ok();
		let vb = b.validate(Weighting::AsTransaction).is_ok();
		out.raw(&format!("# probe offsets x, n-x: a valid={} b valid={}", va, vb));
		w.pool.push(PTx { tx: a, family: 9999, parents: vec![], conflict: false, parts: vec![] });
		w.pool.push(PTx { tx: b, family: 9998, parents: vec![], conflict: false, parts: vec![] });
		let l = w.pool.len();
		case_no += 1;
		w.extra_subs = vec![vec![0, 1], vec![0], vec![1]];
		run_case(&mut out, &mut w, &[l - 2, l - 1], true, thorough, case_no);
		// (2) remainder with zero offset
		let k5 = w.fresh_key();
		let k6 = w.fresh_key();
		let z = w.build_tx(&[(300, k5)], &[(296, k6)], KernelFeatures::Plain { fee: 4u32.into() }, OffMode::Zero, None);
		w.pool.push(PTx { tx: z, family: 9997, parents: vec![], conflict: false, parts: vec![] });
		let l = w.pool.len();
		for _ in 0..3 {
			case_no += 1;
			w.extra_subs = vec![vec![0], vec![0, 1]];
			run_case(&mut out, &mut w, &[l - 3, l - 1], true, thorough, case_no);
		}
	}

	// ---- kernel-heavy blocks: one long cut-through chain A -> X1 -> X2 -> ... (every prefix of
	// length n aggregates to 1 input, 1 output, n kernels), taken in prefixes of n = 1 .. 80
	// transactions (the block weight limit of the testing chain, 250, is reached at 68 kernels:
	// the lengths go well past max_block_weight / 25 and past the limit itself), as single-kernel
	// operands and as two- / four-kernel operands; each block goes through a real proof of work,
	// the wire form of its compact block, both readers and hydration (heavy_case); the shorter
	// ones also through the ordinary modelled case.
	{
		let nchain = 80usize;
		let mut chain: Vec<Transaction> = vec![];
		let mut v = 5000u64;
		let mut key = w.fresh_key();
		for i in 0..nchain {
			let nk = w.fresh_key();
			let feat = if i % 7 == 3 {
				KernelFeatures::HeightLocked { fee: 1u32.into(), lock_height: 1 }
			} else {
				KernelFeatures::Plain { fee: 1u32.into() }
			};
			let mode = if i % 5 == 0 { OffMode::Zero } else { OffMode::Random };
			let t = w.build_tx(&[(v, key.clone())], &[(v - 1, nk.clone())], feat, mode, None);
			v -= 1;
			key = nk;
			chain.push(t);
		}
		let lens: Vec<usize> = if thorough { (1..=nchain).collect() } else { vec![1, 2, 3, 5, 8, 9, 10, 11, 12, 13, 16, 20, 25, 32, 40, 50, 60, 66, 67, 68, 69, 72, 80] };
		for n in &lens {
			heavy_case(&mut out, &mut w, &chain[..*n], "chain prefix, single-kernel operands");
			if *n >= 4 {
				// the same prefix handed over as multi-kernel operands
				let mut quads = vec![];
				let mut ok = true;
				for ch in chain[..*n].chunks(4) {
					match transaction::aggregate(ch) {
						Ok(t) => quads.push(t),
						Err(_) => ok = false,
					}
				}
				if ok {
					heavy_case(&mut out, &mut w, &quads, "chain prefix, four-kernel operands");
				}
			}
		}
		// ... and through the ordinary case (model comparison, groupings, de-aggregation)
		let base = w.pool.len();
		for t in chain.iter().take(24) {
			w.pool.push(PTx { tx: t.clone(), family: usize::MAX, parents: vec![], conflict: false, parts: vec![] });
		}
		for n in [9usize, 12, 17, 24] {
			let ops: Vec<usize> = (base..base + n).collect();
			case_no += 1;
			run_case(&mut out, &mut w, &ops, false, thorough, case_no);
		}
		w.pool.truncate(base);
		out.raw(&format!(
			"#STAT kernel-heavy blocks: {} blocks went through proof of work, compact wire form, both readers and hydration unchanged; kernels per block {:?}; compact blocks of the ordinary cases written and read back unchanged: {}",
			w.st.heavy_ok, w.st.heavy_kernels, w.st.cb_wire_ok
		));
	}

	eprintln!("tx phase {} at {:?}", 7, t_start.elapsed());
	// ---- size boundaries: aggregates and blocks of exactly the maximal weight, and an aggregate
	// with more than a thousand outputs (validated without a weight limit)
	{
		let max_tx = global::max_tx_weight();
		let max_blk = global::max_block_weight();
		let mut lim: Vec<Transaction> = vec![];
		// weight of a 1-in/1-out tx is 1 + 21 + 3 = 25; fill up to exactly max_tx with one wider tx
		let n25 = (max_tx / 25) as usize - 1;
		for _ in 0..n25 {
			let (k1, k2) = (w.fresh_key(), w.fresh_key());
			lim.push(w.build_tx(&[(1000, k1)], &[(990, k2)], KernelFeatures::Plain { fee: 10u32.into() }, OffMode::Random, None));
		}
		let rest = max_tx - 25 * n25 as u64; // 26..50: extra inputs on the last tx
		let extra_in = (rest - 25) as usize;
		let mut ins = vec![];
		for _ in 0..(1 + extra_in) {
			ins.push((500u64, w.fresh_key()));
		}
		let total: u64 = ins.iter().map(|x| x.0).sum();
		let ko = w.fresh_key();
		lim.push(w.build_tx(&ins, &[(total - 10, ko)], KernelFeatures::Plain { fee: 10u32.into() }, OffMode::Random, None));
		for order in 0..2 {
			let mut ts = lim.clone();
			if order == 1 {
				ts.reverse();
			}
			match transaction::aggregate(&ts) {
				Ok(agg) => {
					let wgt = agg.weight();
					let v = agg.validate(Weighting::AsTransaction);
					out.raw(&format!("#STAT boundary: aggregate of {} transactions has weight {} (limit {}): validate = {:?}", ts.len(), wgt, max_tx, v.as_ref().map(|_| ()).map_err(err_name)));
					if wgt == max_tx && v.is_err() {
						oracle_fail(&mut out, &mut w.st, &format!("aggregate of valid transactions with weight exactly the transaction limit {} is refused: {}", max_tx, err_name(v.as_ref().unwrap_err())));
					}
					// the block built from them has exactly the maximal block weight
					let prev = BlockHeader::default();
					let fees: u64 = ts.iter().map(|t| t.fee()).sum();
					let kr = w.fresh_key();
					let (rout, rkern) = reward::output(w.kc, &w.pb, &kr, fees, false).unwrap();
					match Block::from_reward(&prev, &ts, rout, rkern, Difficulty::min_dma()) {
						Ok(b) => {
							let bw = b.body.weight();
							let bv = b.validate(&prev.total_kernel_offset());
							out.raw(&format!("#STAT boundary: block weight {} (limit {}): validate = {:?}", bw, max_blk, bv.as_ref().map(|_| ()).map_err(block_err_name)));
							if bw == max_blk && bv.is_err() {
								oracle_fail(&mut out, &mut w.st, &format!("block of valid transactions with weight exactly the block limit {} is refused: {}", max_blk, block_err_name(bv.as_ref().unwrap_err())));
							}
							let cb: CompactBlock = b.clone().into();
							match Block::hydrate_from(cb, &ts) {
								Ok(hb) => {
									if hb.body != b.body || hb.validate(&prev.total_kernel_offset()).is_err() {
										oracle_fail(&mut out, &mut w.st, "block of exactly the maximal weight does not re-hydrate to the identical valid block");
									}
								}
								Err(e) => oracle_fail(&mut out, &mut w.st, &format!("block of exactly the maximal weight does not re-hydrate: {}", block_err_name(&e))),
							}
						}
						Err(e) => oracle_fail(&mut out, &mut w.st, &format!("block of exactly the maximal weight cannot be built: {}", block_err_name(&e))),
					}
				}
				Err(e) => oracle_fail(&mut out, &mut w.st, &format!("aggregate at the weight limit fails: {}", err_name(&e))),
			}
		}
		// one input more: over the limit, must be refused as a transaction
		{
			let (k1, k2) = (w.fresh_key(), w.fresh_key());
			let mut ts = lim.clone();
			ts.push(w.build_tx(&[(1000, k1)], &[(990, k2)], KernelFeatures::Plain { fee: 10u32.into() }, OffMode::Random, None));
			if let Ok(agg) = transaction::aggregate(&ts) {
				if agg.validate(Weighting::AsTransaction).is_ok() {
					oracle_fail(&mut out, &mut w.st, &format!("aggregate of weight {} above the transaction limit {} validates as a transaction", agg.weight(), max_tx));
				}
			}
		}
		// more than a thousand outputs in one body
		let per = 126usize;
		let ntx = if thorough { 9 } else { 8 };
		let mut big: Vec<Transaction> = vec![];
		for _ in 0..ntx {
			let kin = w.fresh_key();
			let mut outs = vec![];
			for _ in 0..per {
				outs.push((7u64, w.fresh_key()));
			}
			big.push(w.build_tx(&[(7 * per as u64 + 50, kin)], &outs, KernelFeatures::Plain { fee: 50u32.into() }, OffMode::Random, None));
		}
		for k in [ntx - 1, ntx] {
			match transaction::aggregate(&big[..k]) {
				Ok(agg) => {
					let v = agg.validate(Weighting::NoLimit);
					out.raw(&format!("#STAT boundary: aggregate with {} outputs: validate(NoLimit) = {:?}", agg.outputs().len(), v.as_ref().map(|_| ()).map_err(err_name)));
					if v.is_err() {
						oracle_fail(&mut out, &mut w.st, &format!("aggregate of {} valid transactions with {} outputs in all is refused: {}", k, agg.outputs().len(), err_name(v.as_ref().unwrap_err())));
					}
				}
				Err(e) => oracle_fail(&mut out, &mut w.st, &format!("aggregate of {} large transactions fails: {}", k, err_name(&e))),
			}
		}
	}

	eprintln!("tx phase {} at {:?}", 8, t_start.elapsed());
	let st = &w.st;
	out.raw(&format!(
		"#STAT cases={} independent={} chained={} with-conflicts={} with-multikernel-operand={} with-v2-operand={} sizes={:?}",
		st.cases, st.indep, st.chained, st.conflict, st.with_multikernel, st.with_v2, st.sizes
	));
	out.raw(&format!(
		"#STAT kernels built: plain={} height-locked={} nrd={} sharing-the-previous-excess={}; offsets: zero={} nonzero={}",
		st.kern_plain, st.kern_hl, st.kern_nrd, st.shared_excess, st.off_zero, st.off_nonzero
	));
	out.raw(&format!(
		"#STAT block-validate-zero-total-offset cases={} (blocks from_reward built with the zero total offset on a non-zero previous total: Block::validate answers KernelSumMismatch, as the model predicts); Block::validate of all built blocks (valid operands) by outcome={:?}; compact blocks whose short ids were recomputed by the model={}",
		st.bval_zero_total, st.bval, st.sid_lines
	));
	out.raw(&format!(
		"#STAT aggregate: ok={} err={:?} cut-through pairs (flat)={} permutations={} groupings={} (inner error {}) validate runs={} validate errors={:?}",
		st.agg_ok, st.agg_err, st.cut_pairs, st.perms, st.groupings, st.group_inner_err, st.validates, st.validate_err
	));
	out.raw(&format!("#STAT deaggregate in odd shapes (foreign / repeated / superset known list, single or empty multi-kernel side; model-compared): {:?}", st.deagg_odd));
	out.raw(&format!(
		"#STAT deaggregate: runs={} errors={:?} remainder-oracle evaluated={}; with a spend link between the known subset and the remainder (result = remainder minus both ends of every link, checked)={} (result validates {}, does not validate {}); cut_through direct: runs={} errors={}",
		st.deaggs, st.deagg_err, st.deagg_oracle_checked, st.deagg_linked, st.deagg_linked_valid, st.deagg_linked_invalid, st.cuts, st.cut_err
	));
	out.raw(&format!(
		"#STAT cancelling offsets (repaired findings aggregate-offset-sum-zero / deaggregate-zero-remainder-offset): dedicated cases={}; aggregates whose non-zero offsets sum to zero: succeeded={} (conflict-free {}, validate() ok {}) failed-although-conflict-free={}; inner groups with cancelling offsets aggregated={}; de-aggregations with zero remainder offset (mk offset == subset offset != 0): succeeded={} (whole set de-aggregated {}, equal to the remainder by the oracle {}) failed={}; blocks whose previous total offset cancels the aggregate's offset: built with zero total offset={} failed={}",
		st.cancel_cases, st.agg_cancel, st.agg_cancel_cf, st.agg_cancel_valid, st.agg_cancel_failed, st.group_cancel,
		st.deagg_zero_rem_ok, st.deagg_whole_ok, st.deagg_zero_rem_oracle_equal, st.deagg_zero_rem_err,
		st.block_cancel_ok, st.block_cancel_err
	));
	out.raw(&format!(
		"#STAT special offset sums (v in 0,1,2,n-2,n-1): cases per target sum={:?}; aggregate exists and carries the target={:?}; operands whose own offset is special={:?}; three-operand partial-sum cases={} four-operand={}; de-aggregations (ok) by special value of the remainder's offset={:?} of the known subset's offset={:?}; blocks with previous + aggregate offset at a special value={:?}",
		st.sp_cases, st.sp_agg, st.sp_operand, st.sp_partial3, st.sp_partial4, st.sp_deagg_rem, st.sp_deagg_sub, st.sp_block
	));
	out.raw(&format!(
		"#STAT blocks={} (errors {}) hydrates={} (input-representation mismatches {}) known-probes={} oracle-fails={}",
		st.blocks, st.block_err, st.hydrates, st.hydrate_variant_mismatch, st.known_probes, st.oracle_fails
	));
	out.flush();
}
