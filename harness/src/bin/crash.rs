//! C09 fault enumeration: for each scenario, run the interrupted input once with the crash-point
//! log on (the list of durable steps the real code executes), then for every step n re-run it in
//! a child process armed to die at step n, reopen the chain in the parent and check the
//! property's oracle: opens, head is old/new/ancestor, full validation passes, re-delivery
//! reaches the uninterrupted state.
use grin_chain::Chain;
use grin_core::core::hash::Hashed;
use grin_core::core::{Block, BlockHeader};
use grin_core::ser::{self, DeserializationMode, ProtocolVersion};
use grin_store::verif_hooks;
use gvharness::chainkit::*;
use gvharness::*;
use std::path::Path;
use std::process::Command;

fn write_block(path: &str, b: &Block) {
	let v = ser::ser_vec(b, ProtocolVersion::local()).unwrap();
	std::fs::write(path, v).unwrap();
}

fn read_block(path: &str) -> Block {
	let v = std::fs::read(path).unwrap();
	ser::deserialize(&mut &v[..], ProtocolVersion::local(), DeserializationMode::default()).unwrap()
}

fn copy_dir(src: &Path, dst: &Path) {
	std::fs::create_dir_all(dst).unwrap();
	for e in std::fs::read_dir(src).unwrap() {
		let e = e.unwrap();
		let p = e.path();
		let d = dst.join(e.file_name());
		if p.is_dir() {
			copy_dir(&p, &d);
		} else {
			std::fs::copy(&p, &d).unwrap();
		}
	}
}

fn do_input(chain: &Chain, kind: &str, block: Option<&Block>) -> String {
	match kind {
		"block" => match chain.process_block(block.unwrap().clone(), grin_chain::Options::SKIP_POW) {
			Ok(Some(_)) => "ok:head".into(),
			Ok(None) => "ok:fork".into(),
			Err(e) => format!("err:{}", error_class(&e)),
		},
		"header" => match chain.process_block_header(&block.unwrap().header, grin_chain::Options::SKIP_POW) {
			Ok(_) => "ok".into(),
			Err(e) => format!("err:{}", error_class(&e)),
		},
		"compact" => match chain.compact() {
			Ok(_) => "ok".into(),
			Err(e) => format!("err:{}", error_class(&e)),
		},
		_ => "err:unknown-kind".into(),
	}
}

/// child: open the chain, arm the n-th crash point, perform the input
fn child(args: &[String]) {
	setup_globals();
	let dir = &args[0];
	let genesis = read_block(&args[1]);
	let kind = &args[2];
	let n: i64 = args[3].parse().unwrap();
	let block = if args.len() > 4 && args[4] != "-" { Some(read_block(&args[4])) } else { None };
	let chain = match init_chain(dir, genesis) {
		Ok(c) => c,
		Err(_) => std::process::exit(3),
	};
	verif_hooks::arm(n);
	let _ = do_input(&chain, kind, block.as_ref());
	verif_hooks::arm(0);
	std::process::exit(0);
}

struct Snap {
	head: String,
	hhead: String,
	roots: String,
	utxo: Vec<usize>,
}

fn snap(c: &Chain, kit: &Kit) -> Snap {
	let h = c.head().unwrap();
	let hh = c.header_head().unwrap();
	let roots = {
		let ts = c.txhashset();
		let ts = ts.read();
		match ts.roots() {
			Ok(r) => format!(
				"{}:{}:{}:{}",
				hex(&r.output_roots.pmmr_root.as_bytes()[..6]),
				hex(&r.output_roots.bitmap_root.as_bytes()[..6]),
				hex(&r.rproof_root.as_bytes()[..6]),
				hex(&r.kernel_root.as_bytes()[..6])
			),
			Err(_) => "roots-err".into(),
		}
	};
	let mut utxo = vec![];
	for o in &kit.outs {
		if let Ok(Some(_)) = c.get_unspent(o.commit) {
			utxo.push(o.id);
		}
	}
	Snap {
		head: kit.bid(&h.last_block_h),
		hhead: kit.bid(&hh.last_block_h),
		roots,
		utxo,
	}
}

struct Scenario {
	name: &'static str,
	/// blocks delivered (uninterrupted) to form the base state
	pre: Vec<usize>,
	compact_pre: bool,
	kind: &'static str,
	input: Option<usize>,
	/// a further header delivered after the (re-)delivered input: its outcome must equal the
	/// uninterrupted node's (exposes silent damage to the header MMR)
	followup: Option<usize>,
}

fn main() {
	quiet_panics();
	let args: Vec<String> = std::env::args().collect();
	if args.len() > 1 && args[1] == "child" {
		child(&args[2..]);
		return;
	}
	setup_globals();
	let exe = std::env::current_exe().unwrap();
	let work = std::env::var("VERIF_WORK").unwrap_or_else(|_| "/verif/work/crash.d".to_string());
	let _ = std::fs::remove_dir_all(&work);
	std::fs::create_dir_all(&work).unwrap();
	let mut rng = Rng::new(seed_from_env());
	let thorough = tier_thorough();
	let mut out = Out::stdout();

	// ---- build the block tree on the builder chain ----
	let mut kit = Kit::new(&format!("{}/builder", work));
	let long = args.iter().any(|a| a == "long") || thorough;
	let n_trunk: usize = if long { 84 } else { 12 };
	let mut tip = 0usize;
	let mut trunk = vec![0usize];
	let mut spendable: Vec<(usize, u64)> = vec![(0, 0)]; // (out id, created height)
	for h in 1..=n_trunk as u64 {
		// spend the oldest mature coinbase / plain output in most blocks
		let mut specs = vec![];
		if h >= 4 && (h % 3 != 0 || h + 3 >= n_trunk as u64) {
			if let Some(pos) = spendable.iter().position(|(o, c)| !kit.outs[*o].coinbase || h >= *c + 3) {
				let (o, _) = spendable.remove(pos);
				let v = kit.outs[o].value;
				let a = rng.range(1, v / 2);
				specs.push(TxSpec {
					inputs: vec![o],
					outputs: vec![(a, None), (v - a - 1, None)],
					kernel: KSpec::Plain(1),
				});
			}
		}
		let before = kit.outs.len();
		match kit.new_block(tip, 2, &specs) {
			Ok(id) => {
				tip = id;
				trunk.push(id);
				for o in before..kit.outs.len() {
					spendable.push((o, h));
				}
			}
			Err(e) => {
				out.raw(&format!("#STAT generator-error {}", e));
			}
		}
	}
	let n = trunk.len() - 1;
	// fork block on trunk[n-1] with less work than the tip; reorg block on trunk[n-2] with more
	let spend_for_fork = |kit: &Kit, spendable: &Vec<(usize, u64)>, h: u64| -> Vec<TxSpec> {
		for (o, c) in spendable {
			if !kit.outs[*o].coinbase || h >= *c + 3 {
				let v = kit.outs[*o].value;
				return vec![TxSpec { inputs: vec![*o], outputs: vec![(v - 1, None)], kernel: KSpec::Plain(1) }];
			}
		}
		vec![]
	};
	// outputs unspent at trunk[n-2] that are still unspent at the tip are in `spendable`
	let fork_specs = spend_for_fork(&kit, &spendable, kit.blks[trunk[n - 1]].height + 1);
	let fork_blk = kit.new_block(trunk[n - 1], 1, &fork_specs).ok();
	let reorg_specs = spend_for_fork(&kit, &spendable, kit.blks[trunk[n - 2]].height + 1);
	let reorg_blk = kit.new_block(trunk[n - 2], 9, &reorg_specs).ok();
	// a block on top of the tip for "compaction then block"
	let next_specs = spend_for_fork(&kit, &spendable, kit.blks[tip].height + 1);
	let next_blk = kit.new_block(tip, 20, &next_specs).ok();

	// a heavier coinbase-only block two blocks below the tip: a reorganisation that rewinds two
	// blocks and spends nothing
	let reorg_empty = kit.new_block(trunk[n - 2], 12, &[]).ok();
	// a block on top of the tip that spends nothing (coinbase only)
	let empty_blk = kit.new_block(tip, 3, &[]).ok();
	// a sibling of the tip with more work (equal height), and a child of it
	let eq_specs = spend_for_fork(&kit, &spendable, kit.blks[trunk[n - 1]].height + 1);
	let eq_blk = kit.new_block(trunk[n - 1], 15, &eq_specs).ok();
	let eq_child = eq_blk.and_then(|e| kit.new_block(e, 2, &[]).ok());
	// a sibling of the tip with exactly the tip's total work (first seen wins: no reorganisation)
	let eqw_blk = kit.new_block(trunk[n - 1], 2, &[]).ok();
	std::fs::create_dir_all(format!("{}/blocks", work)).unwrap();
	let gen_path = format!("{}/blocks/genesis.bin", work);
	write_block(&gen_path, &kit.genesis);
	for r in &kit.blks {
		write_block(&format!("{}/blocks/b{}.bin", work, r.id), &r.block);
	}

	let mut scenarios = vec![
		Scenario { name: "plain-extension", pre: trunk[1..n].to_vec(), compact_pre: false, kind: "block", input: Some(trunk[n]), followup: None },
	];
	if let Some(e) = empty_blk {
		scenarios.push(Scenario { name: "coinbase-only-extension", pre: trunk[1..=n].to_vec(), compact_pre: false, kind: "block", input: Some(e), followup: None });
	}
	if let Some(f) = fork_blk {
		scenarios.push(Scenario { name: "fork-block", pre: trunk[1..=n].to_vec(), compact_pre: false, kind: "block", input: Some(f), followup: None });
	}
	if let Some(r) = reorg_blk {
		scenarios.push(Scenario { name: "reorg-with-spends", pre: trunk[1..=n].to_vec(), compact_pre: false, kind: "block", input: Some(r), followup: None });
		scenarios.push(Scenario { name: "header-only-reorg", pre: trunk[1..=n].to_vec(), compact_pre: false, kind: "header", input: Some(r), followup: None });
	}
	if let Some(r) = reorg_empty {
		scenarios.push(Scenario { name: "reorg-coinbase-only", pre: trunk[1..=n].to_vec(), compact_pre: false, kind: "block", input: Some(r), followup: None });
	}
	if let (Some(e), Some(ec)) = (eq_blk, eq_child) {
		scenarios.push(Scenario { name: "header-reorg-equal-height", pre: trunk[1..=n].to_vec(), compact_pre: false, kind: "header", input: Some(e), followup: Some(ec) });
		scenarios.push(Scenario { name: "block-reorg-equal-height", pre: trunk[1..=n].to_vec(), compact_pre: false, kind: "block", input: Some(e), followup: Some(ec) });
	}
	if let Some(e) = eqw_blk {
		if kit.blks[e].work == kit.blks[trunk[n]].work {
			scenarios.push(Scenario { name: "equal-work-fork-block", pre: trunk[1..=n].to_vec(), compact_pre: false, kind: "block", input: Some(e), followup: None });
			scenarios.push(Scenario { name: "equal-work-fork-header", pre: trunk[1..=n].to_vec(), compact_pre: false, kind: "header", input: Some(e), followup: None });
		}
	}
	if long {
		scenarios.push(Scenario { name: "compaction", pre: trunk[1..=n].to_vec(), compact_pre: false, kind: "compact", input: None, followup: None });
		if let Some(nb) = next_blk {
			scenarios.push(Scenario { name: "compaction-then-block", pre: trunk[1..=n].to_vec(), compact_pre: true, kind: "block", input: Some(nb), followup: None });
		}
	}

	out.raw("crash reset");
	for r in &kit.blks {
		out.raw(&kit.blk_line(r.id).replacen("chain blk", "crash blk", 1));
	}
	let mut total_points = 0u64;
	let mut total_fail = 0u64;
	for sc in &scenarios {
		// ---- base state ----
		let base = format!("{}/{}-base", work, sc.name);
		{
			let c = init_chain(&base, kit.genesis.clone()).unwrap();
			for i in &sc.pre {
				c.process_block(kit.blks[*i].block.clone(), grin_chain::Options::SKIP_POW).unwrap();
			}
			if sc.compact_pre {
				c.compact().unwrap();
			}
		}
		let input_block = sc.input.map(|i| kit.blks[i].block.clone());
		let input_path = sc.input.map(|i| format!("{}/blocks/b{}.bin", work, i)).unwrap_or("-".into());
		// ---- reference: uninterrupted, with the step log ----
		let refdir = format!("{}/{}-ref", work, sc.name);
		copy_dir(Path::new(&base), Path::new(&refdir));
		let mut ref_followup: Option<String> = None;
		let (old, new_, labels, res) = {
			let c = init_chain(&refdir, kit.genesis.clone()).unwrap();
			let old = snap(&c, &kit);
			verif_hooks::start_log();
			let res = do_input(&c, sc.kind, input_block.as_ref());
			let raw_labels = verif_hooks::take_log();
			// LMDB commits carry no file name: qualify them by the last file step before them
			let mut labels = vec![];
			let mut last_file = "start".to_string();
			for l in raw_labels {
				if let Some(i) = l.find('[') {
					last_file = l[i + 1..l.len() - 1].to_string();
					labels.push(l);
				} else {
					labels.push(format!("{}(after:{})", l, last_file));
				}
			}
			let new_ = snap(&c, &kit);
			let fu = sc.followup.map(|f| do_input(&c, "header", Some(&kit.blks[f].block)));
			ref_followup = fu;
			(old, new_, labels, res)
		};
		out.line(
			&format!("crash scenario {} kind={} input={}", sc.name, sc.kind, sc.input.map(|i| format!("b{}", i)).unwrap_or("-".into())),
			&format!("{} steps={} old={} new={}", res, labels.len(), old.head, new_.head),
		);
		out.raw(&format!("crash steps {} {}", sc.name, labels.join(",")));
		// ancestors of the old and new head (allowed heads after recovery)
		let mut allowed: Vec<String> = vec![];
		for start in [&old.head, &new_.head] {
			if let Some(mut i) = start.strip_prefix('b').and_then(|s| s.parse::<usize>().ok()) {
				loop {
					allowed.push(format!("b{}", i));
					match kit.blks[i].parent {
						Some(p) => i = p,
						None => break,
					}
				}
			}
		}
		// ---- every crash point ----
		let stride = if thorough || labels.len() <= 40 { 1 } else { 1 };
		for n in (1..=labels.len()).step_by(stride) {
			total_points += 1;
			let dir = format!("{}/{}-c{}", work, sc.name, n);
			copy_dir(Path::new(&base), Path::new(&dir));
			let st = Command::new(&exe)
				.args(["child", &dir, &gen_path, sc.kind, &n.to_string(), &input_path])
				.status()
				.unwrap();
			let code = st.code().unwrap_or(-1);
			let label = &labels[n - 1];
			let lhs = format!("crash case {} {} {}", sc.name, n, label);
			if code != 86 {
				out.line(&lhs, &format!("child-exit={}", code));
				out.raw(&format!("#ORACLE-FAIL C09 harness: child did not die at the armed step: scenario={} n={} label={} exit={}", sc.name, n, label, code));
				continue;
			}
			// reopen
			let gen = kit.genesis.clone();
			let dir2 = dir.clone();
			let opened = catch(move || init_chain(&dir2, gen));
			let verdict = match opened {
				Err(p) => format!("open=panic:{}", p.chars().take(60).collect::<String>()),
				Ok(Err(e)) => format!("open=err:{}", error_class(&e)),
				Ok(Ok(c)) => {
					let s = snap(&c, &kit);
					let head_ok = allowed.contains(&s.head);
					let val = match catch(std::panic::AssertUnwindSafe(|| c.validate(false))) {
						Ok(Ok(_)) => "ok".to_string(),
						Ok(Err(e)) => format!("err:{}", error_class(&e)),
						Err(_) => "panic".to_string(),
					};
					// index consistency: what the node reports as unspent = replay of its head's path
					// (checked by the model from the utxo list); then re-deliver the interrupted input
					let redo = match catch(std::panic::AssertUnwindSafe(|| do_input(&c, sc.kind, input_block.as_ref()))) {
						Ok(r) => r,
						Err(_) => "panic".into(),
					};
					let after = snap(&c, &kit);
					let fu = sc.followup.map(|f| {
						catch(std::panic::AssertUnwindSafe(|| do_input(&c, "header", Some(&kit.blks[f].block)))).unwrap_or("panic".into())
					});
					let fu_same = fu == ref_followup;
					let same = after.head == new_.head && after.roots == new_.roots && after.utxo == new_.utxo && fu_same;
					let u: Vec<String> = s.utxo.iter().map(|i| format!("o{}", i)).collect();
					format!(
						"open=ok head={} head_allowed={} validate={} utxo=[{}] redeliver={} final={}",
						s.head,
						head_ok,
						val,
						u.join(","),
						redo.split(':').next().unwrap_or(""),
						if same {
							"same".to_string()
						} else {
							format!(
								"differs(head={} want={} roots={} utxo={})",
								after.head,
								new_.head,
								if after.roots == new_.roots { "same".to_string() } else { format!("{}!={}", after.roots, new_.roots) },
								if after.utxo == new_.utxo { "same".to_string() } else { format!("{}vs{}", after.utxo.len(), new_.utxo.len()) }
							) + &format!(" followup={:?} want={:?}", fu, ref_followup)
						}
					)
				}
			};
			out.line(&lhs, &verdict);
			let good = verdict.starts_with("open=ok")
				&& verdict.contains("head_allowed=true")
				&& verdict.contains("validate=ok")
				&& verdict.contains("final=same");
			if !good {
				total_fail += 1;
				out.raw(&format!(
					"#ORACLE-FAIL C09 crash-recovery scenario={} step={}/{} label={} :: {}",
					sc.name,
					n,
					labels.len(),
					label,
					verdict.chars().take(300).collect::<String>()
				));
			}
			let _ = std::fs::remove_dir_all(&dir);
		}
		let _ = std::fs::remove_dir_all(&base);
		let _ = std::fs::remove_dir_all(&refdir);
	}
	out.raw(&format!("#STAT scenarios={} crash_points={} failing={}", scenarios.len(), total_points, total_fail));
	out.flush();
	let _: Option<BlockHeader> = None;
}
