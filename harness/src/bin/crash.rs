//! C09 fault enumeration: for each scenario, run the interrupted input once with the crash-point
//! log on (the list of durable steps the real code executes), then for every step n re-run it in
//! a child process armed to die at step n, reopen the chain in the parent and check the
//! property's oracle: opens, head is old/new/ancestor, full validation passes, re-delivery
//! reaches the uninterrupted state.
use grin_chain::Chain;
use grin_core::core::hash::Hashed;
use grin_core::core::{Block, BlockHeader};
use grin_core::ser::{self, DeserializationMode, ProtocolVersion};
use grin_store::verif_hooks;
use gvharness::chainkit::*;
use gvharness::*;
use std::path::Path;
use std::process::Command;

fn write_block(path: &str, b: &Block) {
	let v = ser::ser_vec(b, ProtocolVersion::local()).unwrap();
	std::fs::write(path, v).unwrap();
}

fn read_block(path: &str) -> Block {
	let v = std::fs::read(path).unwrap();
	ser::deserialize(&mut &v[..], ProtocolVersion::local(), DeserializationMode::default()).unwrap()
}

fn copy_dir(src: &Path, dst: &Path) {
	std::fs::create_dir_all(dst).unwrap();
	for e in std::fs::read_dir(src).unwrap() {
		let e = e.unwrap();
		let p = e.path();
		let d = dst.join(e.file_name());
		if p.is_dir() {
			copy_dir(&p, &d);
		} else {
			std::fs::copy(&p, &d).unwrap();
		}
	}
}

fn cls<T>(r: Result<T, grin_chain::Error>, ok: &str) -> String {
	match r {
		Ok(_) => ok.to_string(),
		Err(e) => format!("err:{}", error_class(&e)),
	}
}

/// the interrupted input. Kinds: `block` (Chain::process_block), `header`
/// (Chain::process_block_header), `headers` (Chain::sync_block_headers of the whole list, sync
/// head = header head), `orphans` (blocks = parent, child: the child is delivered first and parked
/// in the orphan pool, the parent's acceptance then triggers check_orphans = two acceptances in one
/// call), `compact` (Chain::compact), `reset` (Chain::reset_chain_head(block, true))
fn do_input(chain: &Chain, kind: &str, blocks: &[Block], aux: &str) -> String {
	let opts = grin_chain::Options::SKIP_POW;
	match kind {
		"block" => match chain.process_block(blocks[0].clone(), opts) {
			Ok(Some(_)) => "ok:head".into(),
			Ok(None) => "ok:fork".into(),
			Err(e) => format!("err:{}", error_class(&e)),
		},
		"header" => cls(chain.process_block_header(&blocks[0].header, opts), "ok"),
		"headers" => {
			let hs: Vec<BlockHeader> = blocks.iter().map(|b| b.header.clone()).collect();
			match chain.header_head() {
				Ok(sync_head) => cls(chain.sync_block_headers(&hs, sync_head, opts), "ok"),
				Err(e) => format!("err:{}", error_class(&e)),
			}
		}
		"orphans" => {
			// a re-delivery after a restart finds the child either accepted already or not known
			let r0 = cls(chain.process_block(blocks[1].clone(), opts), "ok");
			let r1 = cls(chain.process_block(blocks[0].clone(), opts), "ok");
			let r2 = cls(chain.process_block(blocks[1].clone(), opts), "ok");
			let any_ok = r0 == "ok" || r1 == "ok" || r2 == "ok";
			if any_ok { "ok".into() } else { format!("{}", r1) }
		}
		"compact" => cls(chain.compact(), "ok"),
		// state sync install: `aux` = path of the zip a source node produced with txhashset_read for
		// the archive header blocks[0]
		"zip" => match std::fs::File::open(aux) {
			Ok(f) => {
				let status = grin_chain::types::SyncState::new();
				match chain.txhashset_write(blocks[0].header.hash(), f, &status) {
					Ok(false) => "ok".into(),
					Ok(true) => "ban".into(),
					Err(e) => format!("err:{}", error_class(&e)),
				}
			}
			Err(_) => "err:no-zip".into(),
		},
		"reset" => cls(chain.reset_chain_head(grin_chain::Tip::from_header(&blocks[0].header), true), "ok"),
		_ => "err:unknown-kind".into(),
	}
}


// ---------------------------------------------------------------------------------------------
// `crash aof`: the real DataFile<T> / AppendOnlyFile<T> (store/src/types.rs), fixed-size and
// variable-size (size file), driven through random histories of append / rewind / discard / flush /
// reopen with a process death at the k-th crash point of a flush or of an open (forked child armed
// with verif_hooks::arm(k)); after every operation the durable bytes of both files and the elements
// the file shows are printed and recomputed by Model/CrashAof.lean.
// ---------------------------------------------------------------------------------------------
mod aof {
	use grin_core::ser::{self, ProtocolVersion, Readable, Reader, Writeable, Writer};
	use grin_store::types::{AppendOnlyFile, DataFile, SizeEntry, SizeInfo};
	use grin_store::verif_hooks;
	use gvharness::*;

	/// variable-size element: one length byte L >= 1, then L bytes
	#[derive(Debug, Clone)]
	pub struct Blob(pub Vec<u8>);
	impl Writeable for Blob {
		fn write<W: Writer>(&self, w: &mut W) -> Result<(), ser::Error> {
			w.write_u8(self.0.len() as u8)?;
			w.write_fixed_bytes(&self.0)
		}
	}
	impl Readable for Blob {
		fn read<R: Reader>(r: &mut R) -> Result<Blob, ser::Error> {
			let l = r.read_u8()?;
			if l == 0 {
				return Err(ser::Error::CorruptedData);
			}
			Ok(Blob(r.read_fixed_bytes(l as usize)?))
		}
	}
	/// fixed-size element of 4 bytes
	#[derive(Debug, Clone)]
	pub struct Fix4(pub Vec<u8>);
	impl Writeable for Fix4 {
		fn write<W: Writer>(&self, w: &mut W) -> Result<(), ser::Error> {
			w.write_fixed_bytes(&self.0)
		}
	}
	impl Readable for Fix4 {
		fn read<R: Reader>(r: &mut R) -> Result<Fix4, ser::Error> {
			Ok(Fix4(r.read_fixed_bytes(4)?))
		}
	}

	pub enum F {
		Var(DataFile<Blob>),
		Fix(DataFile<Fix4>),
	}

	fn hx(b: &[u8]) -> String {
		if b.is_empty() { "-".into() } else { hex(b) }
	}

	pub fn open(dir: &str, var: bool) -> std::io::Result<F> {
		let v = ProtocolVersion(1);
		if var {
			let sf: AppendOnlyFile<SizeEntry> =
				AppendOnlyFile::open(format!("{}/pmmr_size.bin", dir), SizeInfo::FixedSize(SizeEntry::LEN), v)?;
			Ok(F::Var(DataFile::open(format!("{}/pmmr_data.bin", dir), SizeInfo::VariableSize(Box::new(sf)), v)?))
		} else {
			Ok(F::Fix(DataFile::open(format!("{}/pmmr_data.bin", dir), SizeInfo::FixedSize(4), v)?))
		}
	}

	impl F {
		fn append(&mut self, b: &[u8]) -> bool {
			match self {
				// the element's encoding is `b`: strip the length byte for Blob
				F::Var(d) => d.append(&Blob(b[1..].to_vec())).is_ok(),
				F::Fix(d) => d.append(&Fix4(b.to_vec())).is_ok(),
			}
		}
		fn rewind(&mut self, p: u64) {
			match self {
				F::Var(d) => d.rewind(p),
				F::Fix(d) => d.rewind(p),
			}
		}
		fn discard(&mut self) {
			match self {
				F::Var(d) => d.discard(),
				F::Fix(d) => d.discard(),
			}
		}
		fn flush(&mut self) -> bool {
			match self {
				F::Var(d) => d.flush().is_ok(),
				F::Fix(d) => d.flush().is_ok(),
			}
		}
		fn size(&self) -> u64 {
			match self {
				F::Var(d) => d.size(),
				F::Fix(d) => d.size(),
			}
		}
		fn read(&self, pos1: u64) -> String {
			match self {
				F::Var(d) => match d.read(pos1) {
					Some(e) => hx(&ser::ser_vec(&e, ProtocolVersion(1)).unwrap()),
					None => "none".into(),
				},
				F::Fix(d) => match d.read(pos1) {
					Some(e) => hx(&e.0),
					None => "none".into(),
				},
			}
		}
	}

	fn disk(dir: &str, var: bool) -> String {
		let d = std::fs::read(format!("{}/pmmr_data.bin", dir)).unwrap_or_default();
		let s = if var { std::fs::read(format!("{}/pmmr_size.bin", dir)).unwrap_or_default() } else { vec![] };
		format!("size={} data={}", hx(&s), hx(&d))
	}

	/// `aof.flush:before-truncate[a/pmmr_size.bin]` -> `before-truncate@size`
	fn canon(l: &str) -> String {
		let l = l.strip_prefix("aof.").unwrap_or(l);
		let l = l.strip_prefix("flush:").unwrap_or(l);
		let (pt, file) = match l.find('[') {
			Some(i) => (&l[..i], &l[i..]),
			None => (l, ""),
		};
		format!("{}@{}", pt, if file.contains("pmmr_size") { "size" } else { "data" })
	}

	fn steps() -> String {
		let v: Vec<String> = verif_hooks::take_log().iter().map(|l| canon(l)).collect();
		format!("[{}]", v.join(","))
	}

	/// run `f` in a forked child armed to die at its k-th crash point; true = it died there
	fn killed_at<G: FnOnce()>(k: i64, f: G) -> bool {
		let pid = unsafe { libc::fork() };
		if pid == 0 {
			verif_hooks::arm(k);
			f();
			unsafe { libc::_exit(0) };
		}
		let mut status: libc::c_int = 0;
		unsafe { libc::waitpid(pid, &mut status, 0) };
		libc::WIFEXITED(status) && libc::WEXITSTATUS(status) == 86
	}

	/// one line; the tag (session.operation) makes every case distinct
	fn emit(out: &mut Out, tag: &mut u64, sn: u64, op: &str, res: &str) {
		*tag += 1;
		out.line(&format!("crash aof @{}.{} {}", sn, tag, op), res);
	}

	pub fn run(out: &mut Out, work: &str, seed: u64, thorough: bool) {
		let mut rng = Rng::new(seed ^ 0xa0f);
		let sessions: u64 = if thorough { 1500 } else { 260 };
		let mut st = std::collections::BTreeMap::<&'static str, u64>::new();
		let mut bump = |k: &'static str| *st.entry(k).or_insert(0) += 1;
		out.raw("crash reset");
		for sn in 0..sessions {
			let var = sn % 4 != 3;
			let mut tag = 0u64;
			let dir = format!("{}/aof/s{}/a", work, sn);
			let _ = std::fs::remove_dir_all(&dir);
			std::fs::create_dir_all(&dir).unwrap();
			emit(out, &mut tag, sn, &format!("new {}", if var { "var" } else { "fix4" }), "ok");
			let mut f: Option<F> = None;
			// elements the harness believes are in the file + pending (only to size the read-back)
			let mut hi: u64 = 0;
			let nops = rng.range(6, 28);
			let mut i = 0;
			// most sessions start from a populated, synced file; one var session in eight is the
			// "equal sums" history: [a b c] synced, rewind 1, append d with |d| = |b| + |c|, killed
			// between the size file's flush and the data file's truncation
			let mut script: Vec<String> = vec![];
			if var && sn % 8 == 5 {
				let lb = rng.range(1, 4) as usize;
				let lc = rng.range(1, 4) as usize;
				for l in [rng.range(1, 7) as usize, lb, lc] {
					script.push(format!("a{}", l));
				}
				script.push("f".into());
				script.push("r1".into());
				script.push(format!("a{}", lb + lc + 1));
				script.push(format!("k{}", rng.range(4, 6)));
			} else if sn % 5 != 0 {
				for _ in 0..rng.range(2, 8) {
					script.push(format!("a{}", if var { rng.range(1, 7) } else { 4 }));
				}
				script.push("f".into());
			}
			script.reverse();
			while i < nops {
				i += 1;
				if f.is_none() {
					// (re)open; sometimes with a process death inside the open (the size file's rebuild)
					if rng.chance(1, 3) {
						let k = rng.range(1, 4) as i64;
						let d2 = dir.clone();
						let died = killed_at(k, move || {
							let _ = open(&d2, var);
						});
						bump(if died { "killopen:killed" } else { "killopen:done" });
						emit(out, &mut tag, sn, &format!("killopen {}", k), &format!("{} {}", if died { "killed" } else { "done" }, disk(&dir, var)));
					}
					verif_hooks::start_log();
					let r = open(&dir, var);
					let st_ = steps();
					match r {
						Ok(x) => {
							if st_ != "[]" {
								bump("open:rebuild");
							}
							emit(out, &mut tag, sn, "open", &format!("ok steps={} n={} {}", st_, x.size(), disk(&dir, var)));
							hi = hi.max(x.size());
							f = Some(x);
						}
						Err(_) => {
							emit(out, &mut tag, sn, "open", &format!("err steps={}", st_));
							break;
						}
					}
					let ff = f.as_ref().unwrap();
					let n = hi + 2;
					let es: Vec<String> = (1..=n).map(|p| ff.read(p)).collect();
					emit(out, &mut tag, sn, &format!("readall {}", n), &format!("[{}]", es.join(",")));
					continue;
				}
				let ff = f.as_mut().unwrap();
				let sc_op = script.pop();
				let mut force_len = 0usize;
				let mut force_p: Option<u64> = None;
				let mut force_k: Option<i64> = None;
				let c = match &sc_op {
					Some(o) if o.starts_with('a') => {
						force_len = o[1..].parse().unwrap();
						0
					}
					Some(o) if o.starts_with('r') => {
						force_p = o[1..].parse().ok();
						40
					}
					Some(o) if o.starts_with('k') => {
						force_k = o[1..].parse().ok();
						90
					}
					Some(_) => 70,
					None => rng.below(100),
				};
				if c < 38 {
					let cnt = if force_len > 0 { 1 } else { rng.range(1, 4) };
					for _ in 0..cnt {
						let b: Vec<u8> = if var {
							let l = if force_len > 0 { force_len } else { rng.range(1, 7) as usize };
							let mut v = vec![l as u8];
							v.extend((0..l).map(|_| rng.range(1, 256) as u8));
							v
						} else {
							(0..4).map(|_| rng.range(0, 256) as u8).collect()
						};
						let ok = ff.append(&b);
						bump(if ok { "append:ok" } else { "append:err" });
						if ok {
							hi += 1;
						}
						emit(out, &mut tag, sn, &format!("append {}", hx(&b)), if ok { "ok" } else { "err" });
					}
				} else if c < 55 {
					// mostly inside the file, sometimes 0, sometimes beyond its end
					let n = ff.size();
					let p = match (force_p, rng.below(12)) {
						(Some(p), _) => p,
						(_, 0) => 0,
						(_, 1) => n + rng.range(1, 4),
						(_, 2) => n,
						_ => rng.range(0, n + 1),
					};
					bump(if p > n { "rewind:beyond" } else if p == 0 { "rewind:zero" } else { "rewind:inside" });
					ff.rewind(p);
					hi = hi.max(p);
					emit(out, &mut tag, sn, &format!("rewind {}", p), "ok");
				} else if c < 62 {
					ff.discard();
					bump("discard");
					emit(out, &mut tag, sn, "discard", "ok");
				} else if c < 80 {
					verif_hooks::start_log();
					let ok = ff.flush();
					let st_ = steps();
					bump(if ok { "flush:ok" } else { "flush:err" });
					emit(out, &mut tag, sn, "flush", &format!("{} steps={} n={} {}", if ok { "ok" } else { "err" }, st_, ff.size(), disk(&dir, var)));
				} else if c < 95 {
					let k = force_k.unwrap_or(rng.range(1, 12) as i64);
					let mut x = f.take().unwrap();
					let died = killed_at(k, move || {
						let _ = x.flush();
					});
					bump(if died { "kill:killed" } else { "kill:done" });
					emit(out, &mut tag, sn, &format!("kill {}", k), &format!("{} {}", if died { "killed" } else { "done" }, disk(&dir, var)));
					continue;
				} else {
					// stop without flushing: the unsynced tail is lost
					f = None;
					bump("reopen");
					continue;
				}
				let ff = f.as_ref().unwrap();
				let n = hi + 2;
				let es: Vec<String> = (1..=n).map(|p| ff.read(p)).collect();
				emit(out, &mut tag, sn, &format!("readall {}", n), &format!("[{}]", es.join(",")));
			}
			drop(f);
			let _ = std::fs::remove_dir_all(format!("{}/aof/s{}", work, sn));
		}
		let v: Vec<String> = st.iter().map(|(k, v)| format!("{}={}", k, v)).collect();
		out.raw(&format!("#STAT aof sessions={} {}", sessions, v.join(" ")));
		out.flush();
	}
}

/// child: open the chain, arm the n-th crash point, perform the input
fn child(args: &[String]) {
	setup_globals();
	let dir = &args[0];
	let genesis = read_block(&args[1]);
	let kind = &args[2];
	let n: i64 = args[3].parse().unwrap();
	let blocks: Vec<Block> = if args.len() > 4 && args[4] != "-" {
		args[4].split(',').map(|p| read_block(p)).collect()
	} else {
		vec![]
	};
	let chain = match init_chain(dir, genesis) {
		Ok(c) => c,
		Err(_) => std::process::exit(3),
	};
	let aux = if args.len() > 5 { args[5].clone() } else { String::new() };
	verif_hooks::arm(n);
	let _ = do_input(&chain, kind, &blocks, &aux);
	verif_hooks::arm(0);
	std::process::exit(0);
}

/// child: restart the node (Chain::init = start-up recovery) with the m-th crash point armed
fn child_reopen(args: &[String]) {
	setup_globals();
	let dir = &args[0];
	let genesis = read_block(&args[1]);
	let m: i64 = args[2].parse().unwrap();
	verif_hooks::arm(m);
	let r = init_chain(dir, genesis);
	verif_hooks::arm(0);
	std::process::exit(if r.is_ok() { 0 } else { 4 });
}

struct Snap {
	head: String,
	hhead: String,
	roots: String,
	utxo: Vec<usize>,
}

fn snap(c: &Chain, kit: &Kit) -> Snap {
	let h = c.head().unwrap();
	let hh = c.header_head().unwrap();
	let roots = {
		let ts = c.txhashset();
		let ts = ts.read();
		match ts.roots() {
			Ok(r) => format!(
				"{}:{}:{}:{}",
				hex(&r.output_roots.pmmr_root.as_bytes()[..6]),
				hex(&r.output_roots.bitmap_root.as_bytes()[..6]),
				hex(&r.rproof_root.as_bytes()[..6]),
				hex(&r.kernel_root.as_bytes()[..6])
			),
			Err(_) => "roots-err".into(),
		}
	};
	let mut utxo = vec![];
	for o in &kit.outs {
		if let Ok(Some(_)) = c.get_unspent(o.commit) {
			utxo.push(o.id);
		}
	}
	Snap {
		head: kit.bid(&h.last_block_h),
		hhead: kit.bid(&hh.last_block_h),
		roots,
		utxo,
	}
}

#[derive(Clone)]
struct Scenario {
	name: &'static str,
	/// blocks delivered (uninterrupted) to form the base state
	pre: Vec<usize>,
	/// headers delivered after them (one sync_block_headers batch)
	pre_headers: Vec<usize>,
	compact_pre: bool,
	kind: &'static str,
	input: Vec<usize>,
	/// further inputs delivered after the (re-)delivered input: their outcomes and the head /
	/// header head they lead to must equal the uninterrupted node's (exposes silent damage, e.g. to
	/// the header MMR)
	followup: Vec<(&'static str, usize)>,
	/// quick tier: enumerate second process deaths during the restart (thorough: every scenario)
	second: bool,
	/// the chain directory inside the scenario directory ("" = the directory itself; the state sync
	/// sandbox lives next to the chain directory)
	sub: &'static str,
	/// blocks delivered after `compact_pre` (a node that goes on after a compaction)
	pre2: Vec<usize>,
	/// thorough tier only
	thorough_only: bool,
	/// quick tier: every second crash point
	half: bool,
}

fn sc(name: &'static str, pre: &[usize], kind: &'static str, input: &[usize]) -> Scenario {
	Scenario { name, pre: pre.to_vec(), pre_headers: vec![], compact_pre: false, kind, input: input.to_vec(), followup: vec![], second: false, sub: "", pre2: vec![], thorough_only: false, half: false }
}

/// LMDB commits carry no file name: qualify them by the last file step before them
fn qualify(raw_labels: Vec<String>) -> Vec<String> {
	let mut labels = vec![];
	let mut last_file = "start".to_string();
	for l in raw_labels {
		if let Some(i) = l.find('[') {
			last_file = l[i + 1..l.len() - 1].to_string();
			labels.push(l);
		} else if !l.starts_with("lmdb:") {
			labels.push(l);
		} else {
			labels.push(format!("{}(after:{})", l, last_file));
		}
	}
	labels
}

/// false for the crash points between which the process has written nothing
fn state_distinct(label: &str) -> bool {
	!(label.starts_with("aof.flush:before-truncate")
		|| label.starts_with("aof.flush:before-append")
		|| label.starts_with("aof.flush:after-sync")
		|| label.starts_with("lmdb:before-commit"))
}

/// a crash point after which the durable state differs from the state at the previous point
fn state_changing(label: &str) -> bool {
	label.starts_with("aof.flush:after-truncate")
		|| label.starts_with("aof.flush:after-append")
		|| label.starts_with("tmpfile:after-rename")
		|| label.starts_with("aof.replace:between")
		|| label.starts_with("aof.replace:after-rename")
		|| label.starts_with("lmdb:after-commit")
		|| label.starts_with("txhashset_replace:")
		|| label.starts_with("lmdb:before-resize")
		|| label.starts_with("lmdb:after-resize")
}

struct Ctx<'a> {
	kit: &'a Kit,
	sc: &'a Scenario,
	input_blocks: Vec<Block>,
	allowed: Vec<String>,
	new_: Snap,
	ref_followup: Vec<String>,
	ref_after_followup: (String, String),
	aux: String,
	/// the MMR files of the uninterrupted node after the input and the follow-ups
	ref_files: std::collections::BTreeMap<String, Vec<u8>>,
}

/// every file under txhashset/ and header/ of a chain directory (the MMR files; not LMDB)
fn mmr_files(db_root: &str) -> std::collections::BTreeMap<String, Vec<u8>> {
	fn walk(root: &Path, p: &Path, m: &mut std::collections::BTreeMap<String, Vec<u8>>) {
		if let Ok(rd) = std::fs::read_dir(p) {
			for e in rd.flatten() {
				let q = e.path();
				if q.is_dir() {
					walk(root, &q, m);
				} else if let Ok(b) = std::fs::read(&q) {
					let name = q.strip_prefix(root).unwrap().to_string_lossy().to_string();
					// snapshots / temp copies are not part of the state
					if name.ends_with(".tmp") || name.contains("pmmr_leaf.bin.") {
						continue;
					}
					m.insert(name, b);
				}
			}
		}
	}
	let mut m = std::collections::BTreeMap::new();
	let root = Path::new(db_root);
	walk(root, &root.join("txhashset"), &mut m);
	walk(root, &root.join("header"), &mut m);
	m
}

struct Eval {
	verdict: String,
	good: bool,
	rec_labels: Vec<String>,
}

/// restart the node on the directory a killed process left and evaluate the property's oracle
fn evaluate(cx: &Ctx, dir: &str) -> Eval {
	let kit = cx.kit;
	let gen = kit.genesis.clone();
	let dir2 = format!("{}{}", dir, cx.sc.sub);
	let db_root = dir2.clone();
	verif_hooks::start_log();
	let opened = catch(move || init_chain(&dir2, gen));
	let rec_labels = qualify(verif_hooks::take_log());
	let verdict = match opened {
		Err(p) => format!("open=panic:{}", p.chars().take(60).collect::<String>()),
		Ok(Err(e)) => {
			if std::env::var("VERIF_CRASH_DEBUG").is_ok() {
				eprintln!("open error in {}: {:?}", dir, e);
			}
			format!("open=err:{}", error_class(&e))
		}
		Ok(Ok(c)) => {
			let s = snap(&c, kit);
			let head_ok = cx.allowed.contains(&s.head);
			let val = match catch(std::panic::AssertUnwindSafe(|| c.validate(false))) {
				Ok(Ok(_)) => "ok".to_string(),
				Ok(Err(e)) => format!("err:{}", error_class(&e)),
				Err(_) => "panic".to_string(),
			};
			// index consistency: what the node reports as unspent = replay of its head's path
			// (checked by the model from the utxo list); then re-deliver the interrupted input
			let redo = match catch(std::panic::AssertUnwindSafe(|| do_input(&c, cx.sc.kind, &cx.input_blocks, &cx.aux))) {
				Ok(r) => r,
				Err(_) => "panic".into(),
			};
			let after = snap(&c, kit);
			let fu: Vec<String> = cx
				.sc
				.followup
				.iter()
				.map(|(k, f)| {
					let b = [kit.blks[*f].block.clone()];
					catch(std::panic::AssertUnwindSafe(|| do_input(&c, k, &b, ""))).unwrap_or("panic".into())
				})
				.collect();
			let fu_same = fu == cx.ref_followup;
			let after_fu = snap(&c, kit);
			let fu_state_same = (after_fu.head.clone(), after_fu.hhead.clone()) == cx.ref_after_followup;
			let new_ = &cx.new_;
			let same = after.head == new_.head
				&& after.hhead == new_.hhead
				&& after.roots == new_.roots
				&& after.utxo == new_.utxo
				&& fu_same && fu_state_same;
			let u: Vec<String> = s.utxo.iter().map(|i| format!("o{}", i)).collect();
			// byte-level oracle: a node that ends in the uninterrupted logical state must hold the
			// uninterrupted node's MMR files, byte for byte
			drop(c);
			// a node whose full validation fails (or, thorough tier, any node) is stopped and started
			// once more: the state the recovery left must at least open again
			let again = if val != "ok" || tier_thorough() {
				let g2 = kit.genesis.clone();
				let d3 = db_root.clone();
				match catch(move || init_chain(&d3, g2).map(|_| ())) {
					Ok(Ok(_)) => " again=ok".to_string(),
					Ok(Err(e)) => format!(" again=err:{}", error_class(&e)),
					Err(_) => " again=panic".to_string(),
				}
			} else {
				String::new()
			};
			let files = if same {
				let mine = mmr_files(&db_root);
				let mut bad = vec![];
				for (k, v) in &cx.ref_files {
					match mine.get(k) {
						None => bad.push(format!("{}:missing", k)),
						Some(w) if w != v => bad.push(format!("{}:{}vs{}", k, w.len(), v.len())),
						_ => {}
					}
				}
				for k in mine.keys() {
					if !cx.ref_files.contains_key(k) {
						bad.push(format!("{}:extra", k));
					}
				}
				if bad.is_empty() { "same".to_string() } else { format!("differ({})", bad.join(";")) }
			} else {
				"-".to_string()
			};
			format!(
				"open=ok head={} head_allowed={} validate={} utxo=[{}] redeliver={} files={} final={}{}",
				s.head,
				head_ok,
				val,
				u.join(","),
				redo.split(':').next().unwrap_or(""),
				files,
				if same {
					"same".to_string()
				} else {
					format!(
						"differs(head={} want={} hhead={} want={} roots={} utxo={})",
						after.head,
						new_.head,
						after.hhead,
						new_.hhead,
						if after.roots == new_.roots { "same".to_string() } else { format!("{}!={}", after.roots, new_.roots) },
						if after.utxo == new_.utxo { "same".to_string() } else { format!("{}vs{}", after.utxo.len(), new_.utxo.len()) }
					) + &format!(" followup={:?}:{}/{} want={:?}:{}/{}", fu, after_fu.head, after_fu.hhead, cx.ref_followup, cx.ref_after_followup.0, cx.ref_after_followup.1)
				},
				again
			)
		}
	};
	let good = verdict.starts_with("open=ok")
		&& verdict.contains("head_allowed=true")
		&& verdict.contains("validate=ok")
		&& verdict.contains("files=same")
		&& verdict.contains("final=same");
	Eval { verdict, good, rec_labels }
}

/// the part of a verdict two restarts of the same durable history must agree on
fn verdict_class(v: &str) -> String {
	let mut keep = vec![];
	for t in v.split(' ') {
		if t.starts_with("open=") || t.starts_with("head=") || t.starts_with("head_allowed=") || t.starts_with("validate=") || t.starts_with("utxo=") || t.starts_with("redeliver=") || t.starts_with("files=same") {
			keep.push(t.to_string());
		} else if t.starts_with("final=") {
			keep.push(if t == "final=same" { "final=same".to_string() } else { "final=differs".to_string() });
		}
	}
	keep.join(" ")
}

/// outcome class of a restart without block ids (shared between scenarios)
fn outcome_class(v: &str) -> String {
	verdict_class(v).split(' ').filter(|t| !t.starts_with("head=") && !t.starts_with("utxo=")).collect::<Vec<_>>().join(" ")
}

#[derive(Default)]
struct Tot {
	skipped: u64,
	points: u64,
	failing: u64,
	second_classes: u64,
	second_points: u64,
	second_failing: u64,
	second_differs: u64,
}

fn run_scenario(kit: &Kit, sc: &Scenario, work: &str, exe: &Path, gen_path: &str, thorough: bool, seed: u64) -> (Vec<String>, Tot) {
	let mut out: Vec<String> = vec![];
	let mut tot = Tot::default();
	let t_start = std::time::Instant::now();
	// ---- base state ----
	let base = format!("{}/{}-base", work, sc.name);
	let aux = format!("{}/blocks/archive.zip", work);
	{
		std::fs::create_dir_all(format!("{}{}", base, sc.sub)).unwrap();
		let c = init_chain(&format!("{}{}", base, sc.sub), kit.genesis.clone()).unwrap();
		for i in &sc.pre {
			c.process_block(kit.blks[*i].block.clone(), grin_chain::Options::SKIP_POW).unwrap();
		}
		if !sc.pre_headers.is_empty() {
			let hs: Vec<BlockHeader> = sc.pre_headers.iter().map(|i| kit.blks[*i].block.header.clone()).collect();
			c.sync_block_headers(&hs, c.header_head().unwrap(), grin_chain::Options::SKIP_POW).unwrap();
		}
		if sc.compact_pre {
			c.compact().unwrap();
		}
		for i in &sc.pre2 {
			c.process_block(kit.blks[*i].block.clone(), grin_chain::Options::SKIP_POW).unwrap();
		}
	}
	let input_blocks: Vec<Block> = sc.input.iter().map(|i| kit.blks[*i].block.clone()).collect();
	let input_path = if sc.input.is_empty() {
		"-".to_string()
	} else {
		sc.input.iter().map(|i| format!("{}/blocks/b{}.bin", work, i)).collect::<Vec<_>>().join(",")
	};
	// ---- reference: uninterrupted, with the step log ----
	let refdir = format!("{}/{}-ref", work, sc.name);
	copy_dir(Path::new(&base), Path::new(&refdir));
	let (old, new_, mut labels, res, ref_followup, ref_after_followup) = {
		let c = init_chain(&format!("{}{}", refdir, sc.sub), kit.genesis.clone()).unwrap();
		let old = snap(&c, kit);
		verif_hooks::start_log();
		let res = do_input(&c, sc.kind, &input_blocks, &aux);
		let labels = qualify(verif_hooks::take_log());
		let new_ = snap(&c, kit);
		let fu: Vec<String> = sc.followup.iter().map(|(k, f)| do_input(&c, k, &[kit.blks[*f].block.clone()], "")).collect();
		let af = snap(&c, kit);
		(old, new_, labels, res, fu, (af.head, af.hhead))
	};
	let ref_files = mmr_files(&format!("{}{}", refdir, sc.sub));
	let real_steps = labels.len();
	// a node that was stopped after its last completed input and started again stands on that input
	// (nothing was interrupted yet): "head after restart = last committed block"
	{
		let last_pre = sc.pre2.last().or(sc.pre.last());
		let want_old = match last_pre {
			Some(i) => format!("b{}", i),
			None => "b0".to_string(),
		};
		if old.head != want_old {
			out.push(format!(
				"#ORACLE-FAIL C09 restart-lost-committed-head scenario={} :: a node stopped after its last completed block {} restarts on {} (header head {})",
				sc.name, want_old, old.head, old.hhead
			));
		}
		// the uninterrupted input ends where the chain rule says: a heavier block becomes the head
		if sc.kind == "block" || sc.kind == "orphans" {
			if let (Some(last), Some(o)) = (sc.input.last(), old.head.strip_prefix('b').and_then(|x| x.parse::<usize>().ok())) {
				let want_new = if kit.blks[*last].work > kit.blks[o].work { format!("b{}", last) } else { old.head.clone() };
				if new_.head != want_new {
					out.push(format!(
						"#ORACLE-FAIL C09 uninterrupted-input-wrong-head scenario={} :: input {:?} on {} ends on {} (expected {}) result={}",
						sc.name, sc.input, old.head, new_.head, want_new, res
					));
				}
			}
		}
	}
	// state sync: `txhashset_replace` has real crash points after the removal of the old txhashset
	// directory and after the rename of the sandbox; the state of a removal under way (directory
	// half removed) is produced here by hand from the state of a process killed right after the
	// LMDB commit that precedes it (label `emu.`)
	let zip_commit = if sc.kind == "zip" {
		labels.iter().rposition(|l| l.starts_with("lmdb:after-commit(after:kernel/pmmr_prun.bin)")).map(|i| i + 1)
	} else {
		None
	};
	if zip_commit.is_some() {
		labels.push("emu.replace:clean-partial[txhashset]".to_string());
	}
	let ids: Vec<String> = sc.input.iter().map(|i| format!("b{}", i)).collect();
	out.push(format!(
		"crash scenario {} kind={} input={} => {} steps={} old={} new={} oldhh={} newhh={}{}",
		sc.name,
		sc.kind,
		if ids.is_empty() { "-".to_string() } else { ids.join(",") },
		res,
		labels.len(),
		old.head,
		new_.head,
		old.hhead,
		new_.hhead,
		if sc.compact_pre && sc.kind == "compact" { format!(" compacted_at={}", sc.pre.len()) } else { String::new() }
	));
	out.push(format!("crash steps {} {}", sc.name, labels.join(",")));
	// ancestors of the old and new head (allowed heads after recovery)
	let mut allowed: Vec<String> = vec![];
	for start in [&old.head, &new_.head] {
		if let Some(mut i) = start.strip_prefix('b').and_then(|s| s.parse::<usize>().ok()) {
			loop {
				allowed.push(format!("b{}", i));
				match kit.blks[i].parent {
					Some(p) => i = p,
					None => break,
				}
			}
		}
	}
	let cx = Ctx { kit, sc, input_blocks, allowed, new_, ref_followup, ref_after_followup, aux: aux.clone(), ref_files };
	let run_child = |dir: &str, n: usize| -> i32 {
		// emulated points: the process is killed at the commit, the directory swap is then carried
		// out by hand up to the point named
		let (n_real, emu) = if n > real_steps { (zip_commit.unwrap_or(real_steps), n - real_steps) } else { (n, 0) };
		let code = Command::new(exe)
			.args(["child", &format!("{}{}", dir, sc.sub), gen_path, sc.kind, &n_real.to_string(), &input_path, &aux])
			.status()
			.unwrap()
			.code()
			.unwrap_or(-1);
		if emu > 0 && code == 86 {
			let ts = format!("{}{}/txhashset", dir, sc.sub);
			let _ = std::fs::remove_dir_all(format!("{}/output", ts));
			let _ = std::fs::remove_file(format!("{}/kernel/pmmr_data.bin", ts));
		}
		return code;
		#[allow(unreachable_code)]
		Command::new(exe)
			.args(["child", dir, gen_path, sc.kind, &n.to_string(), &input_path])
			.status()
			.unwrap()
			.code()
			.unwrap_or(-1)
	};
	let mut seen_classes: std::collections::HashSet<String> = std::collections::HashSet::new();
	// compaction: the crash points between the end of the OUTPUT backend's compaction (its prune list
	// renamed into place) and the first removal of the RANGE-PROOF backend's: each backend is
	// self-consistent there, the node must reopen on its head; always enumerated
	let gap: (usize, usize) = if sc.kind == "compact" {
		let a = labels.iter().position(|l| l.starts_with("tmpfile:after-rename[output/pmmr_prun.bin]")).map(|i| i + 1);
		let b = labels.iter().position(|l| l.starts_with("aof.replace:before-remove[rangeproof/pmmr_hash.bin]")).map(|i| i + 1);
		match (a, b) {
			(Some(a), Some(b)) if a <= b => (a, b),
			_ => (1, 0),
		}
	} else {
		(1, 0)
	};
	let mut gap_points = 0u64;
	let mut gap_failing = 0u64;
	// ---- every crash point ----
	for n in 1..=labels.len() {
		let in_gap = gap.0 <= n && n <= gap.1;
		// quick tier: a crash point whose durable state is that of the previous point (before a
		// truncate / append / commit, after an fsync: nothing was written in between) is taken one
		// time in four (seed-dependent); thorough tier: every point
		if !thorough && !in_gap && !state_distinct(&labels[n - 1]) && (n as u64 + seed) % 4 != 0 {
			tot.skipped += 1;
			continue;
		}
		// quick tier, scenarios that repeat the step list of another scenario from a different base
		// state (orphan chain, block after its header): every second of the remaining points
		if !thorough && !in_gap && sc.half && (n as u64 + seed) % 2 != 0 {
			tot.skipped += 1;
			continue;
		}
		tot.points += 1;
		let dir = format!("{}/{}-c{}", work, sc.name, n);
		copy_dir(Path::new(&base), Path::new(&dir));
		let code = run_child(&dir, n);
		let label = &labels[n - 1];
		let lhs = format!("crash case {} {} {}", sc.name, n, label);
		if code != 86 {
			out.push(format!("{} => child-exit={}", lhs, code));
			out.push(format!("#ORACLE-FAIL C09 harness: child did not die at the armed step: scenario={} n={} label={} exit={}", sc.name, n, label, code));
			continue;
		}
		let ev = evaluate(&cx, &dir);
		out.push(format!("{} => {}", lhs, ev.verdict));
		if in_gap {
			gap_points += 1;
			if !ev.good {
				gap_failing += 1;
			}
		}
		if !ev.good {
			tot.failing += 1;
			out.push(format!(
				"#ORACLE-FAIL C09 crash-recovery scenario={} step={}/{} label={} :: {}",
				sc.name,
				n,
				labels.len(),
				label,
				ev.verdict.chars().take(300).collect::<String>()
			));
		}
		let _ = std::fs::remove_dir_all(&dir);

		// ---- a second process death, during the start-up recovery of this durable state ----
		// one representative first crash point per class (same recovery step list, same outcome);
		// quick tier: the second death right after each state-changing recovery step, thorough: at
		// every recovery step
		let class = format!("{}|{}", ev.rec_labels.join(","), outcome_class(&ev.verdict));
		if !(thorough || sc.second) || ev.rec_labels.is_empty() || !seen_classes.insert(class) {
			continue;
		}
		tot.second_classes += 1;
		out.push(format!("crash rsteps {} {} {}", sc.name, n, ev.rec_labels.join(",")));
		let crashed = format!("{}/{}-x{}", work, sc.name, n);
		copy_dir(Path::new(&base), Path::new(&crashed));
		if run_child(&crashed, n) != 86 {
			let _ = std::fs::remove_dir_all(&crashed);
			continue;
		}
		let ms: Vec<usize> = (1..=ev.rec_labels.len())
			.filter(|m| thorough || state_changing(&ev.rec_labels[*m - 1]))
			.collect();
		// at most 3 (quick) / 48 (thorough) second crash points per class, a seed-dependent selection
		let cap = if thorough { 48 } else { 3 };
		let ms: Vec<usize> = if ms.len() <= cap {
			ms
		} else {
			let stride = (ms.len() + cap - 1) / cap;
			let off = (seed as usize + n) % stride;
			ms.iter().cloned().enumerate().filter(|(i, _)| i % stride == off).map(|(_, m)| m).collect()
		};
		// the map resize of a restart is always taken
		let mut ms = ms;
		for m in 1..=ev.rec_labels.len() {
			if ev.rec_labels[m - 1].contains("resize") && !ms.contains(&m) {
				ms.push(m);
			}
		}
		for m in ms {
			tot.second_points += 1;
			let dir = format!("{}/{}-x{}-r{}", work, sc.name, n, m);
			copy_dir(Path::new(&crashed), Path::new(&dir));
			let code = Command::new(exe)
				.args(["reopen", &format!("{}{}", dir, sc.sub), gen_path, &m.to_string()])
				.status()
				.unwrap()
				.code()
				.unwrap_or(-1);
			let label2 = &ev.rec_labels[m - 1];
			let lhs = format!("crash case2 {} {} {} {} {}", sc.name, n, m, label, label2);
			if code != 86 {
				out.push(format!("{} => child-exit={}", lhs, code));
				out.push(format!(
					"#ORACLE-FAIL C09 harness: restarted child did not die at the armed recovery step: scenario={} n={} m={} label2={} exit={}",
					sc.name, n, m, label2, code
				));
				let _ = std::fs::remove_dir_all(&dir);
				continue;
			}
			let ev2 = evaluate(&cx, &dir);
			out.push(format!("{} => {}", lhs, ev2.verdict));
			if !ev2.good {
				tot.second_failing += 1;
				out.push(format!(
					"#ORACLE-FAIL C09 crash-recovery scenario={}+recrash step={}/{} label={} :: {} second={}/{} label2={}",
					sc.name,
					n,
					labels.len(),
					label,
					ev2.verdict.chars().take(300).collect::<String>(),
					m,
					ev.rec_labels.len(),
					label2
				));
			}
			// recovery must be restartable: dying inside it and restarting again ends where the
			// uninterrupted recovery ends
			if verdict_class(&ev2.verdict) != verdict_class(&ev.verdict) {
				tot.second_differs += 1;
				out.push(format!(
					"#ORACLE-FAIL C09 crash-recrash-differs scenario={} step={}/{} label={} second={}/{} label2={} :: uninterrupted recovery: {} ;; recovery killed and restarted: {}",
					sc.name,
					n,
					labels.len(),
					label,
					m,
					ev.rec_labels.len(),
					label2,
					ev.verdict.chars().take(260).collect::<String>(),
					ev2.verdict.chars().take(260).collect::<String>()
				));
			}
			let _ = std::fs::remove_dir_all(&dir);
		}
		let _ = std::fs::remove_dir_all(&crashed);
	}
	let _ = std::fs::remove_dir_all(&base);
	let _ = std::fs::remove_dir_all(&refdir);
	if sc.kind == "compact" {
		out.push(format!(
			"#STAT scenario={} gap between the output backend's compaction and the range-proof backend's: steps {}..{} enumerated={} failing={}",
			sc.name, gap.0, gap.1, gap_points, gap_failing
		));
		if gap.1 < gap.0 || gap_points != (gap.1 - gap.0 + 1) as u64 {
			out.push(format!("#ORACLE-FAIL C09 harness: compaction gap not covered in scenario {} (labels {}..{}, enumerated {})", sc.name, gap.0, gap.1, gap_points));
		}
	}
	out.push(format!(
		"#STAT scenario={} kind={} steps={} enumerated={} skipped_same_state={} failing={} recovery_classes={} second_crash_points={} second_failing={} second_differs={} seconds={}",
		sc.name, sc.kind, labels.len(), tot.points, tot.skipped, tot.failing, tot.second_classes, tot.second_points, tot.second_failing, tot.second_differs,
		t_start.elapsed().as_secs()
	));
	(out, tot)
}


// ---------------------------------------------------------------------------------------------
// `crash startup`: Chain::init -> setup_head on start-up states that are NOT left by a crash:
// an empty directory (genesis is installed), a database with a head but no txhashset directory, a
// PIBD head marker above the body head (init skips rewinding and validation). Each is started,
// described, stopped and started again; the first two also with a death at every crash point of that
// first start (child armed before Chain::init).
// ---------------------------------------------------------------------------------------------
fn startup_mode(out: &mut Out, work: &str, exe: &Path) {
	let mut kit = Kit::new(&format!("{}/builder", work));
	// two chains above genesis: `spend` (built first: b1..b9, its fifth block spends the genesis
	// coinbase) and `trunk` (coinbase-only)
	let mut build_chain = |kit: &mut Kit, out: &mut Out, spend_at: u64| -> Vec<usize> {
		let mut tip = 0usize;
		let mut v = vec![0usize];
		for h in 1..=9u64 {
			let specs = if h == spend_at {
				let val = kit.outs[0].value;
				vec![TxSpec { inputs: vec![0], outputs: vec![(val - 1, None)], kernel: KSpec::Plain(1) }]
			} else {
				vec![]
			};
			match kit.new_block(tip, 2, &specs) {
				Ok(id) => {
					tip = id;
					v.push(id);
				}
				Err(e) => out.raw(&format!("#STAT startup generator-error h={} {}", h, e)),
			}
		}
		v
	};
	let spend = build_chain(&mut kit, out, 5);
	let trunk = build_chain(&mut kit, out, 0);
	let tip = *trunk.last().unwrap();
	std::fs::create_dir_all(format!("{}/blocks", work)).unwrap();
	let gen_path = format!("{}/blocks/genesis.bin", work);
	write_block(&gen_path, &kit.genesis);
	out.raw("crash reset");
	for r in &kit.blks {
		out.raw(&kit.blk_line(r.id).replacen("chain blk", "crash blk", 1));
	}
	// the recorded instances of known finding C09-genesis-install-window (19 of the 47 crash points)
	const RECORDED: [&str; 19] = [
		"aof.flush:after-append[header_head/pmmr_hash.bin]",
		"aof.flush:after-sync[header_head/pmmr_hash.bin]",
		"aof.flush:before-append[header_head/pmmr_data.bin]",
		"aof.flush:after-append[output/pmmr_hash.bin]",
		"aof.flush:after-sync[output/pmmr_hash.bin]",
		"aof.flush:before-append[output/pmmr_data.bin]",
		"aof.flush:after-append[output/pmmr_data.bin]",
		"aof.flush:after-sync[output/pmmr_data.bin]",
		"tmpfile:before-rename[output/pmmr_leaf.bin]",
		"tmpfile:after-rename[output/pmmr_leaf.bin]",
		"tmpfile:before-rename[output/pmmr_prun.bin]",
		"tmpfile:after-rename[output/pmmr_prun.bin]",
		"aof.flush:before-append[rangeproof/pmmr_hash.bin]",
		"aof.flush:after-append[kernel/pmmr_hash.bin]",
		"aof.flush:after-sync[kernel/pmmr_hash.bin]",
		"aof.flush:before-append[kernel/pmmr_size.bin]",
		"aof.flush:after-append[kernel/pmmr_size.bin]",
		"aof.flush:after-sync[kernel/pmmr_size.bin]",
		"aof.flush:before-append[kernel/pmmr_data.bin]",
	];
	// the recorded instances of known finding C09-genesis-reinstall-duplicates-leaf (15 points: genesis is
	// installed a second time on top of stale output + range-proof files; seen only by a chain that
	// spends the genesis coinbase); the LMDB label is the commit of setup_head (the last but one)
	const RECORDED_DUP: [&str; 15] = [
		"aof.flush:after-append[rangeproof/pmmr_hash.bin]",
		"aof.flush:after-sync[rangeproof/pmmr_hash.bin]",
		"aof.flush:before-append[rangeproof/pmmr_data.bin]",
		"aof.flush:after-append[rangeproof/pmmr_data.bin]",
		"aof.flush:after-sync[rangeproof/pmmr_data.bin]",
		"tmpfile:before-rename[rangeproof/pmmr_leaf.bin]",
		"tmpfile:after-rename[rangeproof/pmmr_leaf.bin]",
		"tmpfile:before-rename[rangeproof/pmmr_prun.bin]",
		"tmpfile:after-rename[rangeproof/pmmr_prun.bin]",
		"aof.flush:before-append[kernel/pmmr_hash.bin]",
		"aof.flush:after-append[kernel/pmmr_data.bin]",
		"aof.flush:after-sync[kernel/pmmr_data.bin]",
		"tmpfile:before-rename[kernel/pmmr_prun.bin]",
		"tmpfile:after-rename[kernel/pmmr_prun.bin]",
		"lmdb:before-commit",
	];
	let describe = |dir: &str, kit: &Kit| -> String {
		let g = kit.genesis.clone();
		let d = dir.to_string();
		match catch(move || init_chain(&d, g)) {
			Err(_) => "open=panic".to_string(),
			Ok(Err(e)) => format!("open=err:{}", error_class(&e)),
			Ok(Ok(c)) => {
				let s = snap(&c, kit);
				let v = match catch(std::panic::AssertUnwindSafe(|| c.validate(false))) {
					Ok(Ok(_)) => "ok".to_string(),
					Ok(Err(e)) => format!("err:{}", error_class(&e)),
					Err(_) => "panic".to_string(),
				};
				format!("open=ok head={} hhead={} validate={}", s.head, s.hhead, v)
			}
		}
	};
	let build = |dir: &str, kit: &Kit, trunk: &Vec<usize>| {
		let c = init_chain(dir, kit.genesis.clone()).unwrap();
		for i in &trunk[1..] {
			c.process_block(kit.blks[*i].block.clone(), grin_chain::Options::SKIP_POW).unwrap();
		}
	};
	// ---- empty directory ----
	{
		let dir = format!("{}/st-empty", work);
		std::fs::create_dir_all(&dir).unwrap();
		verif_hooks::start_log();
		let first = describe(&dir, &kit);
		let labels = qualify(verif_hooks::take_log());
		let again = describe(&dir, &kit);
		out.line(&format!("crash startup steps {}", labels.join(",")), "ok");
		out.line("crash startup empty first", &first);
		out.line("crash startup empty again", &again);
		let mut probes = 0u64;
		let mut probes_dup = 0u64;
		let before_commits: Vec<usize> = labels.iter().enumerate().filter(|(_, l)| l.starts_with("lmdb:before-commit")).map(|(i, _)| i + 1).collect();
		let setup_commit = if before_commits.len() >= 2 { before_commits[before_commits.len() - 2] } else { 0 };
		for (variant, chain) in [("empty-killed", &trunk), ("empty-killed-spend", &spend)] {
			let chain_tip = *chain.last().unwrap();
			for m in 1..=labels.len() {
				let d = format!("{}/st-{}-{}", work, variant, m);
				std::fs::create_dir_all(&d).unwrap();
				let code = Command::new(exe).args(["reopen", &d, &gen_path, &m.to_string()]).status().unwrap().code().unwrap_or(-1);
				let mut r = describe(&d, &kit);
				// the node must also be able to go on: the chain is delivered to it
				if r.starts_with("open=ok") {
					let g = kit.genesis.clone();
					let d2 = d.clone();
					let kit_ref = &kit;
					let fin = match catch(std::panic::AssertUnwindSafe(move || {
						let c = init_chain(&d2, g)?;
						let mut firsterr = String::new();
						for i in &chain[1..] {
							if let Err(e) = c.process_block(kit_ref.blks[*i].block.clone(), grin_chain::Options::SKIP_POW) {
								if firsterr.is_empty() {
									firsterr = format!("b{}:{}", i, error_class(&e));
								}
							}
						}
						let s = snap(&c, kit_ref);
						Ok::<String, grin_chain::Error>(format!("head={} first_err={}", s.head, if firsterr.is_empty() { "-".to_string() } else { firsterr }))
					})) {
						Ok(Ok(x)) => x,
						Ok(Err(e)) => format!("reopen-err:{}", error_class(&e)),
						Err(_) => "panic".to_string(),
					};
					let reached = fin.starts_with(&format!("head=b{} ", chain_tip));
					r = format!("{} sync:{} chain={}", r, fin, if reached { "ok" } else { "refused" });
				}
				out.line(&format!("crash startup {} {} {}", variant, m, labels[m - 1]), &r);
				if code != 86 {
					out.raw(&format!("#ORACLE-FAIL C09 harness: first-start child did not die at the armed step m={} exit={}", m, code));
				}
				let good = r.starts_with("open=ok head=b0 hhead=b0 validate=ok") && r.contains(&format!("sync:head=b{} first_err=-", chain_tip));
				let bare = labels[m - 1].split("(after:").next().unwrap_or("").to_string();
				let recorded = RECORDED.contains(&bare.as_str());
				let recorded_dup = variant == "empty-killed-spend"
					&& RECORDED_DUP.contains(&bare.as_str())
					&& (!bare.starts_with("lmdb:") || m == setup_commit);
				if !good {
					let text = format!(
						"C09 startup scenario=first-start step={}/{} label={} :: {}",
						m, labels.len(), labels[m - 1], r.chars().take(200).collect::<String>()
					);
					if recorded && r.starts_with("open=err") {
						probes += 1;
						out.raw(&format!("#KNOWN-PROBE {}", text));
					} else if recorded_dup && r.starts_with("open=ok") {
						probes_dup += 1;
						out.raw(&format!("#KNOWN-PROBE {}", text));
					} else {
						out.raw(&format!("#ORACLE-FAIL {}", text));
					}
				} else if recorded || recorded_dup {
					out.raw(&format!("#STAT startup: recorded instance {} ({}) did not fail", labels[m - 1], variant));
				}
				let _ = std::fs::remove_dir_all(&d);
			}
		}
		out.raw(&format!("#STAT startup: genesis-reinstall-duplicates-leaf instances reproduced={} (setup_head commit = step {})", probes_dup, setup_commit));
		out.raw(&format!("#STAT startup empty: crash points of the first start={} recorded_instances_reproduced={}", labels.len(), probes));
	}
	// ---- head in the database, txhashset directory missing ----
	{
		let dir = format!("{}/st-notx", work);
		build(&dir, &kit, &trunk);
		let _ = std::fs::remove_dir_all(format!("{}/txhashset", dir));
		let first = describe(&dir, &kit);
		let again = describe(&dir, &kit);
		out.line(&format!("crash startup no-txhashset b{}", tip), &first);
		// not a crash (the directory was removed by hand): observation only
		out.raw(&format!("#STAT startup no-txhashset: first start: {} ;; clean stop, second start: {}", first, again));
	}
	// ---- PIBD head marker above the body head ----
	{
		let dir = format!("{}/st-pibd", work);
		build(&dir, &kit, &trunk);
		{
			// body head reset three blocks back (headers stay), PIBD head = header head
			let c = init_chain(&dir, kit.genesis.clone()).unwrap();
			let t = grin_chain::Tip::from_header(&kit.blks[trunk[trunk.len() - 4]].block.header);
			let _ = c.reset_chain_head(t, false);
			let store = c.store();
			let b = store.batch().unwrap();
			let mut b = b;
			b.save_pibd_head(&grin_chain::Tip::from_header(&kit.blks[tip].block.header)).unwrap();
			b.commit().unwrap();
		}
		let first = describe(&dir, &kit);
		let again = describe(&dir, &kit);
		out.line(&format!("crash startup pibd-marker b{} b{}", trunk[trunk.len() - 4], tip), &first);
		out.line(&format!("crash startup pibd-marker b{} b{}", trunk[trunk.len() - 4], tip), &again);
	}
	out.flush();
}

fn main() {
	quiet_panics();
	let args: Vec<String> = std::env::args().collect();
	if args.len() > 1 && args[1] == "child" {
		child(&args[2..]);
		return;
	}
	if args.len() > 1 && args[1] == "reopen" {
		child_reopen(&args[2..]);
		return;
	}
	setup_globals();
	let exe = std::env::current_exe().unwrap();
	let work = std::env::var("VERIF_WORK").unwrap_or_else(|_| "/verif/work/crash.d".to_string());
	let _ = std::fs::remove_dir_all(&work);
	std::fs::create_dir_all(&work).unwrap();
	let seed = seed_from_env();
	let mut rng = Rng::new(seed);
	let thorough = tier_thorough();
	let mut out = Out::stdout();
	if args.iter().any(|a| a == "aof") {
		aof::run(&mut out, &work, seed, thorough);
		return;
	}
	if args.iter().any(|a| a == "startup") {
		startup_mode(&mut out, &work, &exe);
		return;
	}

	// ---- build the block tree on the builder chain ----
	let mut kit = Kit::new(&format!("{}/builder", work));
	let long = args.iter().any(|a| a == "long") || thorough;
	let only: Option<Vec<String>> = args.iter().find(|a| a.starts_with("only=")).map(|a| a[5..].split(',').map(|s| s.to_string()).collect());
	let n_trunk: usize = if long { 84 } else { 12 };
	let mut tip = 0usize;
	let mut trunk = vec![0usize];
	let mut spendable: Vec<(usize, u64)> = vec![(0, 0)]; // (out id, created height)
	let mut balanced_blocks = 0u64;
	for h in 1..=n_trunk as u64 {
		// spend the oldest mature coinbase / plain output in most blocks
		let mut specs = vec![];
		// the last two trunk blocks are BALANCED: one 2-in / 1-out transaction + the coinbase, so the
		// block spends exactly as many outputs as it creates (the leaf set changes, its cardinality
		// does not). trunk[n] is the interrupted input of plain-extension / block-after-header /
		// orphan-chain; trunk[n-1] is the last completed block before them (and the fork point's child in
		// the fork / reorg scenarios), so a leaf set that was not rewritten by a balanced block is on
		// disk when the next input is killed.
		if long && h + 1 >= n_trunk as u64 {
			let mut picked: Vec<usize> = vec![];
			while picked.len() < 2 {
				match spendable.iter().position(|(o, c)| !kit.outs[*o].coinbase || h >= *c + 3) {
					Some(pos) => picked.push(spendable.remove(pos).0),
					None => break,
				}
			}
			if picked.len() == 2 {
				let v = kit.outs[picked[0]].value + kit.outs[picked[1]].value;
				specs.push(TxSpec { inputs: picked.clone(), outputs: vec![(v - 1, None)], kernel: KSpec::Plain(1) });
				balanced_blocks += 1;
			}
		} else if h >= 4 && (h % 3 != 0 || h + 3 >= n_trunk as u64) {
			if let Some(pos) = spendable.iter().position(|(o, c)| !kit.outs[*o].coinbase || h >= *c + 3) {
				let (o, _) = spendable.remove(pos);
				let v = kit.outs[o].value;
				let a = rng.range(1, v / 2);
				specs.push(TxSpec {
					inputs: vec![o],
					outputs: vec![(a, None), (v - a - 1, None)],
					kernel: KSpec::Plain(1),
				});
			}
		}
		let before = kit.outs.len();
		match kit.new_block(tip, 2, &specs) {
			Ok(id) => {
				tip = id;
				trunk.push(id);
				for o in before..kit.outs.len() {
					spendable.push((o, h));
				}
			}
			Err(e) => {
				out.raw(&format!("#STAT generator-error {}", e));
			}
		}
	}
	let n = trunk.len() - 1;
	// fork block on trunk[n-1] with less work than the tip; reorg block on trunk[n-2] with more
	let spend_for_fork = |kit: &Kit, spendable: &Vec<(usize, u64)>, h: u64| -> Vec<TxSpec> {
		for (o, c) in spendable {
			if !kit.outs[*o].coinbase || h >= *c + 3 {
				let v = kit.outs[*o].value;
				return vec![TxSpec { inputs: vec![*o], outputs: vec![(v - 1, None)], kernel: KSpec::Plain(1) }];
			}
		}
		vec![]
	};
	// outputs unspent at trunk[n-2] that are still unspent at the tip are in `spendable`
	let fork_specs = spend_for_fork(&kit, &spendable, kit.blks[trunk[n - 1]].height + 1);
	let fork_blk = kit.new_block(trunk[n - 1], 1, &fork_specs).ok();
	let reorg_specs = spend_for_fork(&kit, &spendable, kit.blks[trunk[n - 2]].height + 1);
	let reorg_blk = kit.new_block(trunk[n - 2], 9, &reorg_specs).ok();
	// a block on top of the tip for "compaction then block"
	let next_specs = spend_for_fork(&kit, &spendable, kit.blks[tip].height + 1);
	let next_blk = kit.new_block(tip, 20, &next_specs).ok();

	// a heavier coinbase-only block two blocks below the tip: a reorganisation that rewinds two
	// blocks and spends nothing
	let reorg_empty = kit.new_block(trunk[n - 2], 12, &[]).ok();
	// a block on top of the tip that spends nothing (coinbase only)
	let empty_blk = kit.new_block(tip, 3, &[]).ok();
	// a sibling of the tip with more work (equal height), and a child of it
	let eq_specs = spend_for_fork(&kit, &spendable, kit.blks[trunk[n - 1]].height + 1);
	let eq_blk = kit.new_block(trunk[n - 1], 15, &eq_specs).ok();
	let eq_child = eq_blk.and_then(|e| kit.new_block(e, 2, &[]).ok());
	// a sibling of the tip with exactly the tip's total work (first seen wins: no reorganisation)
	let eqw_blk = kit.new_block(trunk[n - 1], 2, &[]).ok();
	// a child of the heavier coinbase-only fork block: a two-header batch that wins
	let reorg_empty_child = reorg_empty.and_then(|e| kit.new_block(e, 2, &[]).ok());
	// a light two-block fork three blocks below the tip: a header batch that does not win
	let light_a = kit.new_block(trunk[n - 3], 1, &[]).ok();
	let light_b = light_a.and_then(|e| kit.new_block(e, 1, &[]).ok());
	// sixty coinbase-only blocks on top of the trunk: a node that is compacted at the trunk's tip,
	// goes on and is compacted a second time (thorough tier)
	let mut ext: Vec<usize> = vec![];
	if long && thorough {
		let mut t = tip;
		for _ in 0..60 {
			match kit.new_block(t, 2, &[]) {
				Ok(id) => {
					t = id;
					ext.push(id);
				}
				Err(_) => break,
			}
		}
	}
	// ---- LMDB map resize (store/src/lmdb.rs maybe_resize, hook ff7c31d82): coinbase-only blocks on top
	// of the trunk until the chain database crosses the resize threshold (test mode: 1 MB chunks, 90 %).
	// `Store::batch()` resizes at the START of a batch, from the size the LAST commit left: block
	// rz[x-1] is the one whose commit crosses the threshold, the batch of rz[x] is the one that resizes.
	// Found on a probe node, then confirmed on a node built exactly as the scenarios build theirs (base
	// in one process, reopened, then the two blocks).
	let mut rz: Vec<usize> = vec![];
	let mut rz_x: Option<usize> = None;
	if long && args.iter().any(|a| a == "resize") {
		let opts = grin_chain::Options::SKIP_POW;
		let probe = format!("{}/rzprobe", work);
		let mut r_cont: Option<usize> = None;
		{
			let c = init_chain(&probe, kit.genesis.clone()).unwrap();
			for i in &trunk[1..] {
				c.process_block(kit.blks[*i].block.clone(), opts).unwrap();
			}
			let mut t = tip;
			for _ in 0..260 {
				match kit.new_block(t, 2, &[]) {
					Ok(id) => {
						t = id;
						rz.push(id);
						if r_cont.is_none() {
							verif_hooks::start_log();
							let _ = c.process_block(kit.blks[id].block.clone(), opts);
							if verif_hooks::take_log().iter().any(|l| l.contains("resize")) {
								r_cont = Some(rz.len() - 1);
							}
						} else if rz.len() >= r_cont.unwrap() + 4 {
							break;
						}
					}
					Err(_) => break,
				}
			}
		}
		let _ = std::fs::remove_dir_all(&probe);
		if let Some(rc) = r_cont {
			let lo = rc.saturating_sub(3).max(1);
			for x in lo..(rc + 3).min(rz.len()) {
				let d = format!("{}/rzmimic", work);
				let _ = std::fs::remove_dir_all(&d);
				{
					let c = init_chain(&d, kit.genesis.clone()).unwrap();
					for i in trunk[1..].iter().chain(rz[..x - 1].iter()) {
						c.process_block(kit.blks[*i].block.clone(), opts).unwrap();
					}
				}
				let c = init_chain(&d, kit.genesis.clone()).unwrap();
				verif_hooks::start_log();
				let _ = c.process_block(kit.blks[rz[x - 1]].block.clone(), opts);
				let a = verif_hooks::take_log().iter().any(|l| l.contains("resize"));
				verif_hooks::start_log();
				let _ = c.process_block(kit.blks[rz[x]].block.clone(), opts);
				let b = verif_hooks::take_log().iter().any(|l| l.contains("resize"));
				drop(c);
				let _ = std::fs::remove_dir_all(&d);
				if !a && b {
					rz_x = Some(x);
					break;
				}
			}
		}
		out.raw(&format!(
			"#STAT lmdb-resize probe: blocks_above_trunk={} first_resize_on_probe={:?} crossing_block_index={:?}",
			rz.len(),
			r_cont,
			rz_x
		));
	}
	std::fs::create_dir_all(format!("{}/blocks", work)).unwrap();
	let gen_path = format!("{}/blocks/genesis.bin", work);
	write_block(&gen_path, &kit.genesis);
	for r in &kit.blks {
		write_block(&format!("{}/blocks/b{}.bin", work, r.id), &r.block);
	}

	let full = &trunk[1..=n];
	let mut scenarios = vec![sc("plain-extension", &trunk[1..n], "block", &[trunk[n]])];
	if let Some(e) = empty_blk {
		scenarios.push(sc("coinbase-only-extension", full, "block", &[e]));
	}
	if let Some(f) = fork_blk {
		scenarios.push(sc("fork-block", full, "block", &[f]));
	}
	if let Some(r) = reorg_blk {
		scenarios.push(sc("reorg-with-spends", full, "block", &[r]));
		scenarios.push(sc("header-only-reorg", full, "header", &[r]));
	}
	if let Some(r) = reorg_empty {
		scenarios.push(sc("reorg-coinbase-only", full, "block", &[r]));
	}
	if let (Some(e), Some(ec)) = (eq_blk, eq_child) {
		let mut a = sc("header-reorg-equal-height", full, "header", &[e]);
		a.followup = vec![("header", ec)];
		scenarios.push(a);
		let mut b = sc("block-reorg-equal-height", full, "block", &[e]);
		b.followup = vec![("header", ec)];
		scenarios.push(b);
	}
	if let Some(e) = eqw_blk {
		if kit.blks[e].work == kit.blks[trunk[n]].work {
			scenarios.push(sc("equal-work-fork-block", full, "block", &[e]));
			scenarios.push(sc("equal-work-fork-header", full, "header", &[e]));
		}
	}
	// header batches (Chain::sync_block_headers): three headers extending the header chain of a node
	// whose body is three blocks behind, then the bodies; a two-header batch of a heavier fork
	// (header reorganisation by batch), then the bodies (block reorganisation on known headers); a
	// batch of a lighter fork (stored, header MMR rolled back)
	if n >= 6 {
		let mut a = sc("header-batch-extension", &trunk[1..=n - 3], "headers", &trunk[n - 2..=n]);
		a.followup = trunk[n - 2..=n].iter().map(|b| ("block", *b)).collect();
		scenarios.push(a);
	}
	if let (Some(e), Some(ec)) = (reorg_empty, reorg_empty_child) {
		let mut a = sc("header-batch-reorg", full, "headers", &[e, ec]);
		a.followup = vec![("block", e), ("block", ec)];
		scenarios.push(a);
	}
	if let (Some(a), Some(b)) = (light_a, light_b) {
		let mut s = sc("header-batch-light-fork", full, "headers", &[a, b]);
		s.followup = vec![("block", a)];
		scenarios.push(s);
	}
	// two acceptances in one call: the headers of the last two blocks are known, the last block
	// arrives first and waits in the orphan pool, its parent's acceptance then pulls it in
	if n >= 6 {
		let mut s = sc("orphan-chain", &trunk[1..=n - 2], "orphans", &[trunk[n - 1], trunk[n]]);
		s.pre_headers = vec![trunk[n - 1], trunk[n]];
		scenarios.push(s);
		// a block whose header arrived first (header-first propagation)
		let mut s = sc("block-after-header", &trunk[1..n], "block", &[trunk[n]]);
		s.pre_headers = vec![trunk[n]];
		scenarios.push(s);
	}
	// Chain::reset_chain_head (owner API): head and header head reset three blocks back
	if n >= 6 {
		scenarios.push(sc("reset-head", full, "reset", &[trunk[n - 3]]));
	}
	// state sync: a source node on the trunk zips its state at its archive header
	// (Chain::txhashset_read); a fresh node that has the trunk's headers installs it
	// (Chain::txhashset_write: sandbox, validation, LMDB commit of head + tail, directory swap), then
	// receives the blocks above the archive header
	if long {
		use std::io::Read;
		let srcdir = format!("{}/zipsrc", work);
		let src = init_chain(&srcdir, kit.genesis.clone()).unwrap();
		for i in full {
			src.process_block(kit.blks[*i].block.clone(), grin_chain::Options::SKIP_POW).unwrap();
		}
		match src.txhashset_archive_header().and_then(|ah| src.txhashset_read(ah.hash()).map(|r| (ah, r))) {
			Ok((ah, (_, _, mut f))) => {
				let mut v = vec![];
				f.read_to_end(&mut v).unwrap();
				std::fs::write(format!("{}/blocks/archive.zip", work), &v).unwrap();
				let a = ah.height as usize;
				let mut s = sc("state-sync-install", &[], "zip", &[trunk[a]]);
				s.pre_headers = full.to_vec();
				s.sub = "/chain";
				s.followup = trunk[a + 1..=n].iter().map(|b| ("block", *b)).collect();
				out.raw(&format!("#STAT state-sync archive_height={} zip_bytes={}", a, v.len()));
				scenarios.push(s);
			}
			Err(e) => out.raw(&format!("#STAT state-sync source failed: {}", error_class(&e))),
		}
	}
	if ext.len() == 60 {
		let mut s = sc("compaction-again", full, "compact", &[]);
		s.compact_pre = true;
		s.pre2 = ext.clone();
		s.thorough_only = true;
		scenarios.push(s);
	}
	if long {
		scenarios.push(sc("compaction", full, "compact", &[]));
		if let Some(nb) = next_blk {
			let mut s = sc("compaction-then-block", full, "block", &[nb]);
			s.compact_pre = true;
			scenarios.push(s);
		}
	}
	// the LMDB map resize as crash points: (1) the block whose commit takes the database over the
	// threshold (its header known in advance): every death, and for the deaths after its commit the
	// RESTART is the one that resizes (second deaths before / after the resize); (2) that block and its
	// child in one call (the child parked as an orphan): the resize happens between the two acceptances
	if let Some(x) = rz_x {
		let base: Vec<usize> = trunk[1..].iter().chain(rz[..x - 1].iter()).cloned().collect();
		let mut a = sc("resize-crossing-block", &base, "block", &[rz[x - 1]]);
		a.pre_headers = vec![rz[x - 1]];
		a.followup = vec![("block", rz[x])];
		scenarios.push(a);
		// (the same two blocks in ONE call - the child parked as an orphan - are not a registered
		// scenario: the reference run logs no resize crash point inside the call; the resize is taken
		// by the restart, as here, or handed to maybe_resize's waiter thread, whose crash points would
		// interleave with the main thread's at no fixed position)
		let _ = &rz[x];
	}
	for s in scenarios.iter_mut() {
		s.second = [
			"plain-extension",
			"reorg-with-spends",
			"reset-head",
			"state-sync-install",
			"resize-crossing-block",
		]
		.contains(&s.name);
		s.half = ["orphan-chain", "block-after-header"].contains(&s.name);
	}
	scenarios.retain(|s| thorough || !s.thorough_only);
	if let Some(only) = &only {
		scenarios.retain(|s| only.iter().any(|o| o == s.name));
	}

	out.raw(&format!("#STAT balanced blocks (spent = created) at the trunk's tip: {}", balanced_blocks));
	out.raw("crash reset");
	for r in &kit.blks {
		out.raw(&kit.blk_line(r.id).replacen("chain blk", "crash blk", 1));
	}
	out.flush();

	// ---- the scenarios, several at a time, each in a forked process of its own (the crash-point
	// counter and log of the hooks are per process); output in scenario order ----
	let jobs: usize = std::env::var("VERIF_CRASH_JOBS").ok().and_then(|v| v.parse().ok()).unwrap_or(8).max(1);
	let mut running: Vec<(usize, libc::pid_t)> = vec![];
	let mut next = 0usize;
	let mut failed_children = vec![];
	// launch order: the scenarios that take longest first (measured: state sync install, the scenarios
	// with second deaths, the one-call orphan chain), so that they do not start when the others are
	// done; the OUTPUT stays in scenario order
	let slow = ["state-sync-install", "compaction-again", "plain-extension", "reorg-with-spends", "orphan-chain", "block-reorg-equal-height", "compaction", "reset-head"];
	let mut order: Vec<usize> = (0..scenarios.len()).collect();
	order.sort_by_key(|i| slow.iter().position(|n| *n == scenarios[*i].name).unwrap_or(slow.len()));
	while next < scenarios.len() || !running.is_empty() {
		while next < scenarios.len() && running.len() < jobs {
			let pid = unsafe { libc::fork() };
			if pid == 0 {
				let s = &scenarios[order[next]];
				let (lines, _) = run_scenario(&kit, s, &work, &exe, &gen_path, thorough, seed);
				let p = format!("{}/out-{}.txt", work, s.name);
				let ok = std::fs::write(&p, lines.join("\n") + "\n").is_ok();
				unsafe { libc::_exit(if ok { 0 } else { 1 }) };
			}
			running.push((order[next], pid));
			next += 1;
		}
		let mut status: libc::c_int = 0;
		let done = unsafe { libc::wait(&mut status) };
		if let Some(pos) = running.iter().position(|(_, p)| *p == done) {
			let (i, _) = running.remove(pos);
			if !(libc::WIFEXITED(status) && libc::WEXITSTATUS(status) == 0) {
				failed_children.push(scenarios[i].name);
			}
		} else if done < 0 {
			break;
		}
	}
	let mut total_points = 0u64;
	let mut total_fail = 0u64;
	let mut total_second = 0u64;
	for s in &scenarios {
		let p = format!("{}/out-{}.txt", work, s.name);
		match std::fs::read_to_string(&p) {
			Ok(t) => {
				for l in t.lines() {
					if l.starts_with("crash case ") {
						total_points += 1;
					}
					if l.starts_with("crash case2 ") {
						total_second += 1;
					}
					if l.starts_with("#ORACLE-FAIL") {
						total_fail += 1;
					}
					if l.starts_with('#') || !l.contains(" => ") {
						out.raw(l);
					} else {
						let i = l.find(" => ").unwrap();
						out.line(&l[..i], &l[i + 4..]);
					}
				}
			}
			Err(_) => {
				out.raw(&format!("#ORACLE-FAIL C09 harness: scenario {} produced no output (worker process failed)", s.name));
			}
		}
	}
	for f in failed_children {
		out.raw(&format!("#ORACLE-FAIL C09 harness: worker process of scenario {} failed", f));
	}
	out.raw(&format!(
		"#STAT scenarios={} crash_points={} second_crash_points={} oracle_failures={}",
		scenarios.len(),
		total_points,
		total_second,
		total_fail
	));
	out.flush();
}
