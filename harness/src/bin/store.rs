//! C08 correspondence: the prunable MMR backend (`grin_store::pmmr::PMMRBackend`) under
//! protocol-respecting histories of units of work (optional rewind, appends + removals,
//! commit | discard) interleaved with compaction at earlier boundaries and drop + reopen;
//! fixed-size and variable-size elements.  A second stream drives `PruneList` directly.
//!
//! Runs: `fixed` / `var` (scripted families + random histories), `cutoff` (the deterministic family
//! around the compaction cutoff: the boundary's last leaf spent inside the horizon, compaction at
//! that boundary, rewind that un-spends it, sibling spent, second compaction, reopen - for every
//! boundary leaf count), `bulk` (large un-synced batches after a rewind, rolled back: files on
//! disk and in-memory view compared byte for byte with the state before the unit), `rough`
//! (out-of-protocol, model only), `prunelist`.
//!
//! Oracles evaluated on the implementation itself (`#ORACLE-FAIL C08 … | history: …`): the reference
//! oracle after every single step (`observe_inner`), the deep oracle for every unspent leaf after
//! every compaction / rewind / reopen / commit / discard (`deep_oracle`), the byte comparisons of
//! the bulk run (`compare_files`).
//!
//! The harness tracks the chain-level bookkeeping (block boundaries = committed sizes with their
//! unspent sets) that the chain keeps in its database, so that `rewind_rm_pos` and the compaction
//! cutoff follow the usage protocol of `chain/src/txhashset/txhashset.rs`.
use croaring::Bitmap;
use grin_core::core::hash::{DefaultHashable, Hash, Hashed, ZERO_HASH};
use grin_core::core::pmmr::{self, Backend, ReadablePMMR, VecBackend, PMMR};
use grin_core::ser::{self, PMMRIndexHashable, PMMRable, ProtocolVersion, Readable, Reader, Writeable, Writer};
use grin_store::pmmr::PMMRBackend;
use grin_store::prune_list::PruneList;
use gvharness::elem::Elem;
use gvharness::*;
use std::collections::{BTreeMap, BTreeSet};
use std::panic::AssertUnwindSafe;
use std::path::PathBuf;

/// Variable-size element: one length byte then that many bytes (`elmt_size() = None`).
#[derive(Clone, Debug, PartialEq, Eq)]
pub struct VarElem(pub Vec<u8>);
impl DefaultHashable for VarElem {}
impl Writeable for VarElem {
	fn write<W: Writer>(&self, writer: &mut W) -> Result<(), ser::Error> {
		writer.write_u8(self.0.len() as u8)?;
		writer.write_fixed_bytes(&self.0)
	}
}
impl Readable for VarElem {
	fn read<R: Reader>(reader: &mut R) -> Result<VarElem, ser::Error> {
		let n = reader.read_u8()?;
		Ok(VarElem(reader.read_fixed_bytes(n as usize)?))
	}
}
impl PMMRable for VarElem {
	type E = Self;
	fn as_elmt(&self) -> Self::E {
		self.clone()
	}
	fn elmt_size() -> Option<u16> {
		None
	}
}

/// Oversize probe element: a 4-byte big-endian length, then that many bytes (`elmt_size() = None`).
#[derive(Clone, Debug, PartialEq, Eq)]
pub struct BigElem(pub Vec<u8>);
impl DefaultHashable for BigElem {}
impl Writeable for BigElem {
	fn write<W: Writer>(&self, writer: &mut W) -> Result<(), ser::Error> {
		writer.write_u32(self.0.len() as u32)?;
		writer.write_fixed_bytes(&self.0)
	}
}
impl Readable for BigElem {
	fn read<R: Reader>(reader: &mut R) -> Result<BigElem, ser::Error> {
		let n = reader.read_u32()?;
		Ok(BigElem(reader.read_fixed_bytes(n as usize)?))
	}
}
impl PMMRable for BigElem {
	type E = Self;
	fn as_elmt(&self) -> Self::E {
		self.clone()
	}
	fn elmt_size() -> Option<u16> {
		None
	}
}

/// Model tie only: elements whose encoding has 65535 / 65536 / 65537 / 70000 / 131072+4 bytes in a
/// variable-size data file.  `SizeEntry.size` is `bytes.len() as u16`: from 65536 bytes on the entry
/// holds the length modulo 2^16, `append` still answers Ok, the element cannot be read back and the
/// elements after it are addressed from a wrong offset; after reopen `rebuild_size_file` (its sum
/// differs from the file length) wraps the same way.  No grin type is that large.
fn oversize_probe(out: &mut Out, rng: &mut Rng) {
	let work = std::env::var("VERIF_WORK").expect("VERIF_WORK not set");
	let dir = PathBuf::from(work).join("oversize");
	let mut lost = 0u64;
	let mut rounds = 0u64;
	for enc_len in [65_535usize, 65_536, 65_537, 70_000, 131_076] {
		for small_first in [true, false] {
			rounds += 1;
			let _ = std::fs::remove_dir_all(&dir);
			std::fs::create_dir_all(&dir).unwrap();
			let mut be: PMMRBackend<BigElem> = PMMRBackend::new(&dir, true, ProtocolVersion(1), None).unwrap();
			out.line("store new big", "ok");
			let mut size = 0u64;
			let mut lens: Vec<usize> = vec![];
			if small_first {
				lens.push(rng.range(1, 40) as usize);
			}
			lens.push(enc_len - 4);
			lens.push(rng.range(1, 40) as usize);
			lens.push(rng.range(1, 40) as usize);
			let mut push = |be: &mut PMMRBackend<BigElem>, size: &mut u64, len: usize, byte: u8, out: &mut Out| {
				let e = BigElem(vec![byte; len]);
				let res = catch(AssertUnwindSafe(|| {
					let mut p = PMMR::at(be, *size);
					p.push(&e).map(|_| p.size)
				}));
				let rhs = match res {
					Ok(Ok(sz)) => {
						*size = sz;
						sz.to_string()
					}
					Ok(Err(_)) => "err".to_string(),
					Err(_) => "panic".to_string(),
				};
				out.line(&format!("store xpushrun {} {}", len, byte), &rhs);
			};
			for (i, l) in lens.iter().enumerate() {
				push(&mut be, &mut size, *l, 0x30 + i as u8, out);
			}
			let mut read_all = |be: &mut PMMRBackend<BigElem>, size: u64, out: &mut Out, lost: &mut u64| {
				for i in 0..pmmr::n_leaves(size) {
					let p = pmmr::insertion_to_pmmr_index(i);
					let d = catch(AssertUnwindSafe(|| PMMR::at(be, size).get_data(p)));
					let rhs = match d {
						Ok(Some(e)) => {
							let mut enc = (e.0.len() as u32).to_be_bytes().to_vec();
							enc.extend_from_slice(&e.0);
							format!("{}:{}", enc.len(), hex(blake(&enc).as_bytes()))
						}
						Ok(None) => {
							*lost += 1;
							"none".to_string()
						}
						Err(_) => "panic".to_string(),
					};
					out.line(&format!("store xdatalen {}", p), &rhs);
				}
			};
			read_all(&mut be, size, out, &mut lost);
			out.line("store sync", if be.sync().is_ok() { "ok" } else { "err" });
			read_all(&mut be, size, out, &mut lost);
			drop(be);
			let mut be: PMMRBackend<BigElem> = PMMRBackend::new(&dir, true, ProtocolVersion(1), None).unwrap();
			out.line("store reopen", "ok");
			read_all(&mut be, size, out, &mut lost);
			push(&mut be, &mut size, 7, 0x39, out);
			out.line("store sync", if be.sync().is_ok() { "ok" } else { "err" });
			read_all(&mut be, size, out, &mut lost);
		}
	}
	out.raw(&format!(
		"#STAT [oversize] rounds={} (encodings of 65535 / 65536 / 65537 / 70000 / 131076 bytes between small elements; model tie only) reads that returned None although the leaf is unspent={} (the u16 size cast: none below 65536 bytes)",
		rounds, lost
	));
}

/// `clean_rewind_files` (last step of `check_compact`): before a compaction the directory gets old
/// and fresh leaf-set snapshot files, look-alikes (`pmmr_leaf.binx`, a name equal to the prefix, a
/// directory with a snapshot name, an unrelated old file, a file with an access time in the future)
/// and EVERY file of the MMR itself is aged 48 h.  Afterwards: which of the names that were there
/// are gone (compared with the model), and the MMR files must all still be there and the store
/// must read as before (oracle).
fn clean_probe(out: &mut Out, rng: &mut Rng) {
	use std::time::{Duration, SystemTime};
	let work = std::env::var("VERIF_WORK").expect("VERIF_WORK not set");
	let dir = PathBuf::from(work).join("cleanprobe");
	let mut n_deleted = 0u64;
	let mut n_fail = 0u64;
	let rounds = 6;
	for round in 0..rounds {
		let _ = std::fs::remove_dir_all(&dir);
		std::fs::create_dir_all(&dir).unwrap();
		let mut be: PMMRBackend<Elem> = PMMRBackend::new(&dir, true, ProtocolVersion(1), None).unwrap();
		let mut size = 0u64;
		let n = rng.range(4, 12);
		for _ in 0..n {
			let e = Elem(rng.bytes(8));
			let mut p = PMMR::at(&mut be, size);
			p.push(&e).unwrap();
			size = p.size;
		}
		{
			let mut p = PMMR::at(&mut be, size);
			let _ = p.prune(0);
			let _ = p.prune(1);
		}
		be.sync().unwrap();
		let root0 = PMMR::at(&mut be, size).root();
		// decoys: (name, age in seconds or None = future, directory?)
		let day = 86_400u64;
		let decoys: Vec<(String, Option<u64>, bool)> = vec![
			(format!("pmmr_leaf.bin.{:016x}", rng.next()), Some(2 * day), false),
			(format!("pmmr_leaf.bin.{:016x}", rng.next()), Some(day + 600), false),
			(format!("pmmr_leaf.bin.{:016x}", rng.next()), Some(day - 3600), false),
			(format!("pmmr_leaf.bin.{:016x}", rng.next()), Some(30), false),
			("pmmr_leaf.binx".to_string(), Some(3 * day), false),
			("pmmr_leaf.bin.".to_string(), Some(3 * day), false),
			("pmmr_leaf.bin.dir".to_string(), Some(3 * day), true),
			("unrelated.bin".to_string(), Some(5 * day), false),
			("pmmr_leaf.bin.future".to_string(), None, false),
		];
		let now = SystemTime::now();
		let set_age = |path: &std::path::Path, age: Option<u64>| {
			let t = match age {
				Some(a) => now - Duration::from_secs(a),
				None => now + Duration::from_secs(3 * 86_400),
			};
			if let Ok(f) = std::fs::File::open(path) {
				let _ = f.set_times(std::fs::FileTimes::new().set_accessed(t).set_modified(t));
			}
		};
		for (name, age, is_dir) in decoys.iter() {
			let p = dir.join(name);
			if *is_dir {
				std::fs::create_dir_all(&p).unwrap();
			} else {
				std::fs::write(&p, b"decoy").unwrap();
			}
			set_age(&p, *age);
		}
		let core = ["pmmr_hash.bin", "pmmr_data.bin", "pmmr_leaf.bin", "pmmr_prun.bin"];
		let mut listing: Vec<String> = vec![];
		for (name, age, is_dir) in decoys.iter() {
			listing.push(format!("{}:{}:{}", name, age.map(|a| a.to_string()).unwrap_or_else(|| "-".to_string()), if *is_dir { "d" } else { "f" }));
		}
		for name in core.iter() {
			if dir.join(name).exists() {
				set_age(&dir.join(name), Some(2 * day));
				// the compaction rewrites every one of them before it cleans up: fresh by then
				listing.push(format!("{}:{}:f", name, 0));
			}
		}
		let before: BTreeSet<String> = std::fs::read_dir(&dir).unwrap().map(|e| e.unwrap().file_name().to_string_lossy().to_string()).collect();
		let rm = Bitmap::new();
		let ok = be.check_compact(size, &rm).is_ok();
		let after: BTreeSet<String> = std::fs::read_dir(&dir).unwrap().map(|e| e.unwrap().file_name().to_string_lossy().to_string()).collect();
		let gone: Vec<String> = before.difference(&after).cloned().collect();
		n_deleted += gone.len() as u64;
		out.line(&format!("store clean [{}] @{}", listing.join(","), round), &format!("[{}]", gone.join(",")));
		let mut fails = vec![];
		if !ok {
			fails.push("check_compact failed".to_string());
		}
		for name in core.iter() {
			if before.contains(*name) && !after.contains(*name) {
				fails.push(format!("{} was deleted by the clean-up", name));
			}
		}
		let root1 = PMMR::at(&mut be, size).root();
		if root0 != root1 {
			fails.push(format!("root changed by the compaction with clean-up: {:?} -> {:?}", root0, root1));
		}
		drop(be);
		match PMMRBackend::<Elem>::new(&dir, true, ProtocolVersion(1), None) {
			Ok(mut be2) => {
				if PMMR::at(&mut be2, size).root() != root0 {
					fails.push("root after reopen differs".to_string());
				}
			}
			Err(e) => fails.push(format!("reopen after the clean-up failed: {}", e)),
		}
		if !fails.is_empty() {
			n_fail += 1;
			out.raw(&format!("#ORACLE-FAIL C08 clean_rewind_files: {} | directory before: {:?}", fails.join("; "), before));
		}
	}
	out.raw(&format!(
		"#STAT [cleanprobe] compactions={} with aged decoys (old / fresh snapshots, look-alike names, a directory, future access time) and every MMR file aged 48 h: entries deleted={} (old snapshots only), oracle failures={}",
		rounds, n_deleted, n_fail
	));
}

/// Fixed-size element of 683 bytes (the record size of the rangeproof MMR).
#[derive(Clone, Debug, PartialEq, Eq)]
pub struct RpElem(pub Vec<u8>);
impl DefaultHashable for RpElem {}
impl Writeable for RpElem {
	fn write<W: Writer>(&self, writer: &mut W) -> Result<(), ser::Error> {
		writer.write_fixed_bytes(&self.0)
	}
}
impl Readable for RpElem {
	fn read<R: Reader>(reader: &mut R) -> Result<RpElem, ser::Error> {
		Ok(RpElem(reader.read_fixed_bytes(683)?))
	}
}
impl PMMRable for RpElem {
	type E = Self;
	fn as_elmt(&self) -> Self::E {
		self.clone()
	}
	fn elmt_size() -> Option<u16> {
		Some(683)
	}
}

/// What the harness needs from an element kind.
trait Kind: PMMRable<E = Self> + Clone + PartialEq + std::fmt::Debug {
	const NAME: &'static str;
	fn gen(rng: &mut Rng) -> Self;
	/// elements of the bulk batches (as large as the kind allows)
	fn gen_big(rng: &mut Rng) -> Self {
		Self::gen(rng)
	}
	fn ser(&self) -> Vec<u8>;
}
impl Kind for RpElem {
	const NAME: &'static str = "rp";
	fn gen(rng: &mut Rng) -> Self {
		RpElem(rng.bytes(683))
	}
	fn ser(&self) -> Vec<u8> {
		self.0.clone()
	}
}
impl Kind for Elem {
	const NAME: &'static str = "fixed";
	fn gen(rng: &mut Rng) -> Self {
		Elem(rng.bytes(8))
	}
	fn ser(&self) -> Vec<u8> {
		self.0.clone()
	}
}
impl Kind for VarElem {
	const NAME: &'static str = "var";
	fn gen(rng: &mut Rng) -> Self {
		let n = if rng.chance(1, 10) { 0 } else { rng.range(1, 40) as usize };
		VarElem(rng.bytes(n))
	}
	fn gen_big(rng: &mut Rng) -> Self {
		let n = rng.range(120, 255) as usize;
		VarElem(rng.bytes(n))
	}
	fn ser(&self) -> Vec<u8> {
		let mut v = vec![self.0.len() as u8];
		v.extend_from_slice(&self.0);
		v
	}
}

fn blake(bytes: &[u8]) -> Hash {
	Elem(bytes.to_vec()).hash()
}

fn bm_list(b: &Bitmap) -> String {
	nat_list(&b.iter().map(|x| x as u64).collect::<Vec<_>>())
}

fn opt_hash(h: Option<Hash>) -> String {
	match h {
		Some(h) => hex(h.as_bytes()),
		None => "none".to_string(),
	}
}

fn root_str(r: Result<Hash, String>) -> String {
	match r {
		Ok(h) => {
			if h == ZERO_HASH {
				"zero".to_string()
			} else {
				hex(h.as_bytes())
			}
		}
		Err(_) => "err".to_string(),
	}
}

#[derive(Clone)]
struct Boundary {
	size: u64,
	unspent: BTreeSet<u64>,
}

/// The chain-side bookkeeping of one history (what the chain db knows).
#[derive(Clone)]
struct Book<T: PMMRable> {
	size: u64,
	elems: Vec<T>,
	unspent: BTreeSet<u64>,
	/// committed boundaries of the current history, oldest first (index 0 = empty MMR)
	chain: Vec<Boundary>,
	/// index into `chain` of the lowest boundary a rewind may still target (last compaction cutoff)
	min_idx: usize,
	/// the never-pruned reference MMR: a `VecBackend` fed the same appends and rewinds
	refb: VecBackend<T>,
}

#[derive(Default)]
struct Stats {
	/// run `varopen`: reopens that found a replaced size file
	size_files_replaced: u64,
	/// run `siblings`
	sibling_histories: u64,
	sibling_left_protected: u64,
	sibling_right_protected: u64,
	sibling_lone_root_next_to_protected: u64,
	last_leaf_histories: u64,
	last_leaf_is_lone_peak: u64,
	ops: BTreeMap<String, u64>,
	patterns: BTreeMap<String, u64>,
	compactions: u64,
	compactions_removed: u64,
	prune_list_sizes: Vec<u64>,
	rewinds: u64,
	rewinds_stepwise: u64,
	rewind_depth_sum: u64,
	rewinds_over_compacted: u64,
	/// compactions after which the data file held 0 elements
	compactions_data_empty: u64,
	/// … of those, followed by appends in the same session (no reopen in between)
	empty_then_append: u64,
	/// compactions after which the hash file held only pruned roots / nothing unspent
	compactions_all_spent: u64,
	scripted: u64,
	reopens: u64,
	discards: u64,
	commits: u64,
	max_leaves: u64,
	histories: u64,
	oracle_fails: u64,
	/// evaluations of the reference oracle (after every step, printed or silent)
	oracle_evals: u64,
	/// histories of the unit-kind family, by kind sequence
	kind_histories: u64,
	kind_units: BTreeMap<String, u64>,
	/// rewinds whose target position equals the current size (undoing removal-only / empty units)
	rewinds_same_size: u64,
	/// … of those with a non-empty `rewind_rm_pos`
	rewinds_same_size_readding: u64,
	/// rewinds committed with nothing else in the unit, followed by reopen
	rewind_only_commits: u64,
	/// committed units by kind in the random histories
	unit_kinds_random: BTreeMap<String, u64>,
	/// evaluations of the deep oracle (every unspent leaf: proof, ancestors, prune-list cover)
	deep_evals: u64,
	deep_proofs: u64,
	deep_protected: u64,
	/// cutoff family
	cutoff_histories: u64,
	cutoff_boundary_on_leaf: u64,
	cutoff_boundary_on_parent: u64,
	/// compactions whose cutoff boundary ends on a leaf that was spent inside the horizon
	/// (the leaf at the cutoff position itself is in `rewind_rm_pos`)
	compact_cutoff_leaf_protected: u64,
	/// rewinds that made a leaf unspent again which a compaction had to protect
	rewinds_unspend_protected: u64,
	/// leaves spent whose sibling had been protected by a compaction and re-added by a rewind
	sibling_of_readded_spent: u64,
	/// bulk batches
	bulk_batches: u64,
	bulk_discarded: u64,
	bulk_max_hash_buf: u64,
	bulk_max_data_buf: u64,
	bulk_file_compares: u64,
	/// compaction shapes (measured on the prune list read from its file before / after)
	compact_nth: BTreeMap<u64, u64>,
	compactions_in_history: u64,
	lone_leaf_roots_created: u64,
	lone_leaf_roots_rolled_up: u64,
	higher_roots_rolled_up: u64,
	cutoff_lone_leaf_unspent: u64,
	cutoff_lone_leaf_spent: u64,
	cutoff_lone_leaf_protected: u64,
	cutoff_pos_parent: u64,
	chain_histories: u64,
	/// snapshot round trips
	snapshots: u64,
	snapshots_at_head: u64,
	snapshots_after_compaction: u64,
	snapshot_missing_file: u64,
	/// import family (state sync)
	imports: u64,
	import_subtrees: u64,
	import_max_height: u64,
	import_spent_leaves: u64,
	import_half: u64,
}
impl Stats {
	fn op(&mut self, k: &str) {
		*self.ops.entry(k.to_string()).or_insert(0) += 1;
	}
	fn pat(&mut self, k: &str) {
		*self.patterns.entry(k.to_string()).or_insert(0) += 1;
	}
}

struct Run<'a, T: Kind> {
	out: &'a mut Out,
	rng: &'a mut Rng,
	st: &'a mut Stats,
	dir: PathBuf,
	backend: Option<PMMRBackend<T>>,
	bk: Book<T>,
	/// leaves re-added to the unspent set by the rewind of the current unit
	readded: Vec<u64>,
	compacted_once: bool,
	/// the last compaction emptied the data file and the backend has not been reopened since
	empty_data_pending: bool,
	/// the operations of the current history (printed with every oracle failure)
	hist: Vec<String>,
	fails_in_history: u64,
	/// leaves that were in `rewind_rm_pos` of some compaction of this history
	protected_once: BTreeSet<u64>,
	/// … of those, the ones a later rewind made unspent again
	readded_protected: BTreeSet<u64>,
	/// oracle-only history: nothing is printed for the driver (its list-based model is quadratic
	/// in the batch size); the harness' own oracles are evaluated as always
	mute: bool,
	/// `PMMRBackend::new(.., prunable, ..)`: false = the kernel / header MMR flavour
	prunable: bool,
	/// run `varopen`: before a reopen the size file of a variable-size data file is replaced
	tamper_sizes: bool,
}

impl<'a, T: Kind> Run<'a, T> {
	/// one line for the driver - unless the history is oracle-only (`mute`)
	fn emit(&mut self, lhs: &str, rhs: &str) {
		if !self.mute {
			self.out.line(lhs, rhs);
		}
	}

	fn be(&mut self) -> &mut PMMRBackend<T> {
		self.backend.as_mut().unwrap()
	}

	fn open(&mut self) {
		self.backend = Some(PMMRBackend::new(&self.dir, self.prunable, ProtocolVersion(1), None).unwrap());
	}

	/// Run `varopen`, backend closed: `pmmr_size.bin` of a variable-size data file is deleted /
	/// truncated / shifted / extended with a junk entry / zero-filled / replaced by garbage (state
	/// sync ships no size file; a crash can leave a stale one).  Only replacements whose size sum
	/// differs from the data file length are kept - those `AppendOnlyFile::open` must notice and
	/// repair (`rebuild_size_file`), so every observation that follows is still compared with the
	/// never-pruned reference.  One line tells the driver what the file holds now.
	fn tamper_size_file(&mut self) {
		if !self.tamper_sizes || T::elmt_size().is_some() {
			return;
		}
		let path = self.dir.join("pmmr_size.bin");
		let data_len = std::fs::metadata(self.dir.join("pmmr_data.bin")).map(|m| m.len()).unwrap_or(0);
		let old = std::fs::read(&path).unwrap_or_default();
		let n = old.len() / 10;
		let kind = self.rng.below(7);
		let (mut name, new): (&str, Vec<u8>) = match kind {
			0 => ("deleted", vec![]),
			1 => {
				let k = (1 + self.rng.below(3) as usize).min(n);
				("truncated", old[..10 * (n - k)].to_vec())
			}
			2 => ("first-entry-dropped", old[10.min(old.len())..].to_vec()),
			3 => {
				let mut v = old.clone();
				v.extend_from_slice(&(self.rng.below(100_000)).to_be_bytes());
				v.extend_from_slice(&(self.rng.range(1, 300) as u16).to_be_bytes());
				("junk-entry-appended", v)
			}
			4 => ("zero-filled", vec![0u8; old.len()]),
			5 => {
				let k = self.rng.range(1, n as u64 + 3) as usize;
				("garbage", self.rng.bytes(10 * k))
			}
			_ => ("untouched", old.clone()),
		};
		let sum: u64 = new.chunks_exact(10).map(|c| u16::from_be_bytes([c[8], c[9]]) as u64).sum();
		let new = if name != "untouched" && sum == data_len {
			// not noticeable by `open` (its check is the sum only): outside what the property promises
			name = "same-sum-skipped";
			old.clone()
		} else {
			new
		};
		if name == "deleted" {
			let _ = std::fs::remove_file(&path);
		} else {
			std::fs::write(&path, &new).unwrap();
		}
		self.st.op(&format!("sizefile:{}", name));
		if new != old {
			self.st.size_files_replaced += 1;
		}
		self.emit(&format!("store sizefile {}", hex(&new)), "ok");
		self.hist.push(format!("sizefile {}", name));
	}

	fn fresh(&mut self) {
		self.backend = None;
		let _ = std::fs::remove_dir_all(&self.dir);
		std::fs::create_dir_all(&self.dir).unwrap();
		self.open();
		self.bk = Book {
			size: 0,
			elems: vec![],
			unspent: BTreeSet::new(),
			chain: vec![Boundary {
				size: 0,
				unspent: BTreeSet::new(),
			}],
			min_idx: 0,
			refb: VecBackend::new(),
		};
		self.compacted_once = false;
		self.empty_data_pending = false;
		self.hist.clear();
		self.fails_in_history = 0;
		self.protected_once.clear();
		self.readded_protected.clear();
		self.st.compactions_in_history = 0;
		self.st.histories += 1;
		let np = if self.prunable { "" } else { "np" };
		self.emit(&format!("store new {}{}", np, T::NAME), "ok");
	}

	fn oracle_fail(&mut self, msg: String) {
		self.st.oracle_fails += 1;
		self.fails_in_history += 1;
		if self.fails_in_history > 8 {
			// the history is printed with the first failures; do not flood the output
			return;
		}
		self.out.raw(&format!(
			"#ORACLE-FAIL C08 [{}] {} | history: {}",
			T::NAME,
			msg,
			self.hist_text()
		));
	}

	/// the operations of the current history, runs of pushes collapsed
	fn hist_text(&self) -> String {
		let mut parts: Vec<String> = vec![];
		let mut pushes = 0u64;
		for h in self.hist.iter() {
			if h == "push" {
				pushes += 1;
				continue;
			}
			if pushes > 0 {
				parts.push(format!("push*{}", pushes));
				pushes = 0;
			}
			parts.push(h.clone());
		}
		if pushes > 0 {
			parts.push(format!("push*{}", pushes));
		}
		parts.join("; ")
	}

	// ---- mutating ops -------------------------------------------------------------------

	fn push(&mut self) {
		let e = T::gen(self.rng);
		self.push_elem(e, true);
	}

	/// `check` = evaluate the reference oracle right after the push (the bulk batches do that at
	/// chosen points only: the oracle is linear in the size of the MMR)
	fn push_elem(&mut self, e: T, check: bool) {
		let size = self.bk.size;
		let res = {
			let be = self.backend.as_mut().unwrap();
			catch(AssertUnwindSafe(|| {
				let mut p = PMMR::at(be, size);
				p.push(&e).map(|_| p.size)
			}))
		};
		let rhs = match res {
			Ok(Ok(sz)) => {
				self.bk.unspent.insert(size);
				self.bk.elems.push(e.clone());
				self.bk.size = sz;
				// the reference gets the same append
				let rsz = {
					let mut p = PMMR::at(&mut self.bk.refb, size);
					p.push(&e).map(|_| p.size)
				};
				if rsz != Ok(sz) {
					self.oracle_fail(format!("push at size {} gave size {} but the unpruned reference {:?}", size, sz, rsz));
				}
				if self.empty_data_pending {
					self.empty_data_pending = false;
					self.st.empty_then_append += 1;
				}
				sz.to_string()
			}
			Ok(Err(_)) => "err".to_string(),
			Err(_) => "panic".to_string(),
		};
		self.st.op("push");
		self.hist.push("push".into());
		self.emit(&format!("store push {}", hex(&e.ser())), &rhs);
		if check {
			self.check(false);
		}
	}

	fn prune(&mut self, pos0: u64) {
		let size = self.bk.size;
		let res = {
			let be = self.backend.as_mut().unwrap();
			catch(AssertUnwindSafe(|| PMMR::at(be, size).prune(pos0)))
		};
		let rhs = match res {
			Ok(Ok(b)) => {
				let was = self.bk.unspent.remove(&pos0);
				if was != b {
					self.oracle_fail(format!("prune({}) returned {} but the leaf was unspent={}", pos0, b, was));
				}
				b.to_string()
			}
			Ok(Err(_)) => "err".to_string(),
			Err(_) => "panic".to_string(),
		};
		self.st.op("prune");
		self.hist.push(format!("prune {}", pos0));
		if rhs == "true" && pmmr::is_leaf(pos0) {
			let i = pmmr::n_leaves(pos0 + 1) - 1;
			let sib = pmmr::insertion_to_pmmr_index(i ^ 1);
			if self.readded_protected.contains(&sib) && self.bk.unspent.contains(&sib) {
				self.st.sibling_of_readded_spent += 1;
			}
		}
		self.emit(&format!("store prune {}", pos0), &rhs);
		self.check(false);
	}

	/// rewind the MMR to committed boundary `j` of the current history
	fn rewind_to(&mut self, j: usize) {
		let target = self.bk.chain[j].clone();
		// positions spent since: unspent at the boundary, not unspent now
		let rm: Vec<u64> = target
			.unspent
			.iter()
			.filter(|p| !self.bk.unspent.contains(p))
			.cloned()
			.collect();
		let bitmap: Bitmap = rm.iter().map(|p| (*p + 1) as u32).collect();
		let size = self.bk.size;
		let res = {
			let be = self.backend.as_mut().unwrap();
			catch(AssertUnwindSafe(|| {
				let mut p = PMMR::at(be, size);
				p.rewind(target.size, &bitmap).map(|_| p.size)
			}))
		};
		let rhs = match res {
			Ok(Ok(sz)) => sz.to_string(),
			Ok(Err(_)) => "err".to_string(),
			Err(_) => "panic".to_string(),
		};
		self.emit(&format!("store rewind {} {}", target.size, bm_list(&bitmap)), &rhs);
		self.st.op("rewind");
		self.hist.push(format!("rewind {} {}", target.size, bm_list(&bitmap)));
		for p in rm.iter() {
			if self.protected_once.contains(p) && self.readded_protected.insert(*p) {
				self.st.rewinds_unspend_protected += 1;
			}
		}
		// the reference gets the same rewind
		let _ = self.bk.refb.rewind(target.size, &bitmap);
		if target.size == self.bk.size {
			self.st.rewinds_same_size += 1;
			if !rm.is_empty() {
				self.st.rewinds_same_size_readding += 1;
			}
		}
		self.readded.extend(rm.iter());
		self.bk.size = target.size;
		self.bk.unspent = target.unspent.clone();
		self.bk.elems.truncate(pmmr::n_leaves(target.size) as usize);
		self.bk.chain.truncate(j + 1);
		// the oracle right after the rewind: the re-added leaves are unspent again
		self.check(false);
		self.deep_oracle("rewind", false);
	}

	fn sync(&mut self) {
		let res = {
			let be = self.backend.as_mut().unwrap();
			catch(AssertUnwindSafe(|| be.sync().is_ok()))
		};
		let rhs = match res {
			Ok(true) => "ok",
			Ok(false) => "err",
			Err(_) => "panic",
		};
		self.emit("store sync", rhs);
		self.st.op("sync");
		self.hist.push("sync".into());
		self.st.commits += 1;
		// every commit is a boundary of its own, also when the size did not change (a unit that
		// only removes leaves, or an empty unit): a later rewind can target the boundary before it
		let b = Boundary {
			size: self.bk.size,
			unspent: self.bk.unspent.clone(),
		};
		self.bk.chain.push(b);
		self.check(true);
		self.deep_oracle("sync", true);
	}

	fn discard(&mut self, saved: Book<T>) {
		self.be().discard();
		self.bk = saved;
		self.emit("store discard", "ok");
		self.st.op("discard");
		self.hist.push("discard".into());
		self.st.discards += 1;
		self.check(true);
		self.deep_oracle("discard", true);
	}

	fn compact(&mut self) {
		let n = self.bk.chain.len();
		// cutoff boundary: anywhere between the last cutoff and the head, biased to recent
		let lo = self.bk.min_idx;
		// boundaries whose last leaf was unspent there and has been spent since (inside the horizon
		// if that boundary is the cutoff)
		let cands: Vec<usize> = (lo..n.saturating_sub(1))
			.filter(|&c| {
				let b = &self.bk.chain[c];
				let nl = pmmr::n_leaves(b.size);
				nl > 0 && {
					let p = pmmr::insertion_to_pmmr_index(nl - 1);
					b.unspent.contains(&p) && !self.bk.unspent.contains(&p)
				}
			})
			.collect();
		let c = if !cands.is_empty() && self.rng.chance(1, 3) {
			*self.rng.pick(&cands)
		} else if self.rng.chance(1, 2) {
			self.rng.range(lo as u64, (n - 1) as u64) as usize
		} else {
			let back = self.rng.range(0, 3) as usize;
			(n - 1).saturating_sub(back).max(lo)
		};
		self.compact_at(c);
	}

	/// `check_compact` with the cutoff at committed boundary `c` of the current history
	fn compact_at(&mut self, c: usize) {
		let n = self.bk.chain.len();
		let cutoff = self.bk.chain[c].size;
		// input_pos_to_rewind(horizon, head): everything spent by the blocks after the cutoff
		let mut rm: BTreeSet<u64> = BTreeSet::new();
		for k in c + 1..n {
			for p in self.bk.chain[k - 1].unspent.iter() {
				if !self.bk.chain[k].unspent.contains(p) {
					rm.insert(*p);
				}
			}
		}
		let mut bitmap: Bitmap = rm.iter().map(|p| (*p + 1) as u32).collect();
		// Self-test of the oracles (never set by `check`): hand the store a `rewind_rm_pos` that lacks
		// the cutoff position itself, as a chain with an off-by-one in `input_pos_to_rewind` would.
		// The store then compacts a leaf the harness' bookkeeping still protects.
		if std::env::var("VERIF_STORE_SELFTEST").as_deref() == Ok("drop-cutoff-from-rm") {
			bitmap.remove(cutoff as u32);
		}
		let before = (self.be().hash_size(), self.be().data_size());
		let pl_before: BTreeSet<u64> = PruneList::open(self.dir.join("pmmr_prun.bin")).map(|pl| pl.to_vec().into_iter().collect()).unwrap_or_default();
		// the shape of the cutoff: does the cutoff position (1-based = boundary size) sit on a leaf
		// (the MMR of that size ends in a lone single-leaf peak: sizes 1, 4, 8, 11, 16, ...) and is
		// that leaf unspent (its bit is the last one `removed_pre_cutoff` keeps), spent for good, or
		// spent inside the horizon (in rewind_rm_pos)
		if cutoff > 0 && pmmr::is_leaf(cutoff - 1) {
			if self.bk.unspent.contains(&(cutoff - 1)) {
				self.st.cutoff_lone_leaf_unspent += 1;
			} else if rm.contains(&(cutoff - 1)) {
				self.st.cutoff_lone_leaf_protected += 1;
			} else {
				self.st.cutoff_lone_leaf_spent += 1;
			}
		} else if cutoff > 0 {
			self.st.cutoff_pos_parent += 1;
		}
		let res = {
			let be = self.backend.as_mut().unwrap();
			catch(AssertUnwindSafe(|| be.check_compact(cutoff, &bitmap).is_ok()))
		};
		{
			let pl_after: BTreeSet<u64> = PruneList::open(self.dir.join("pmmr_prun.bin")).map(|pl| pl.to_vec().into_iter().collect()).unwrap_or_default();
			for p1 in pl_after.difference(&pl_before) {
				if pmmr::is_leaf(*p1 - 1) {
					self.st.lone_leaf_roots_created += 1;
				}
			}
			for p1 in pl_before.difference(&pl_after) {
				// a root of the old list that is gone: rolled up into a higher root (pos_to_rm's
				// "sibling previously pruned" path pushed it back onto the removal list)
				if pmmr::is_leaf(*p1 - 1) {
					self.st.lone_leaf_roots_rolled_up += 1;
				} else {
					self.st.higher_roots_rolled_up += 1;
				}
			}
			self.st.compactions_in_history += 1;
			*self.st.compact_nth.entry(self.st.compactions_in_history.min(4)).or_insert(0) += 1;
		}
		let rhs = match res {
			Ok(true) => "ok",
			Ok(false) => "err",
			Err(_) => "panic",
		};
		self.emit(&format!("store compact {} {}", cutoff, bm_list(&bitmap)), rhs);
		self.st.op("compact");
		self.hist.push(format!("compact {} {}", cutoff, bm_list(&bitmap)));
		self.protected_once.extend(rm.iter());
		if cutoff > 0 && pmmr::is_leaf(cutoff - 1) && rm.contains(&(cutoff - 1)) {
			self.st.compact_cutoff_leaf_protected += 1;
		}
		self.st.compactions += 1;
		let after = (self.be().hash_size(), self.be().data_size());
		if after != before {
			self.st.compactions_removed += 1;
		}
		self.bk.min_idx = c;
		self.compacted_once = true;
		if after.1 == 0 && self.bk.size > 0 {
			self.st.compactions_data_empty += 1;
			self.empty_data_pending = true;
		}
		if self.bk.unspent.is_empty() && self.bk.size > 0 {
			self.st.compactions_all_spent += 1;
		}
		if let Ok(pl) = PruneList::open(self.dir.join("pmmr_prun.bin")) {
			self.st.prune_list_sizes.push(pl.len());
		}
		self.check(true);
		self.deep_oracle("compact", true);
	}

	fn reopen(&mut self) {
		self.backend = None;
		self.tamper_size_file();
		self.open();
		self.empty_data_pending = false;
		self.emit("store reopen", "ok");
		self.st.op("reopen");
		self.hist.push("reopen".into());
		self.st.reopens += 1;
		self.check(true);
		self.deep_oracle("reopen", true);
	}

	// ---- observations -------------------------------------------------------------------

	fn reference_root(&self) -> Result<Hash, String> {
		let mut ba = VecBackend::<T>::new();
		let mut size = 0;
		for e in self.bk.elems.iter() {
			let mut p = PMMR::at(&mut ba, size);
			p.push(e)?;
			size = p.size;
		}
		PMMR::at(&mut ba, size).root()
	}

	/// the reference oracle alone (nothing printed): evaluated after every step
	fn check(&mut self, committed: bool) {
		self.observe_inner(committed, false, false);
	}

	/// every leaf a permitted rewind can still make unspent: the leaves unspent now or at any
	/// committed boundary from the last compaction cutoff on (harness bookkeeping, not the store's)
	fn protected_leaves(&self) -> BTreeSet<u64> {
		let mut s = self.bk.unspent.clone();
		for b in self.bk.chain[self.bk.min_idx.min(self.bk.chain.len())..].iter() {
			s.extend(b.unspent.iter());
		}
		s
	}

	/// the protected leaves that lie in a pruned subtree according to the prune list on disk
	/// (`is_pruned`: the leaf is a pruned root itself or lies below one)
	fn covered_by_prune_list(&self, protected: &BTreeSet<u64>) -> Vec<u64> {
		match PruneList::open(self.dir.join("pmmr_prun.bin")) {
			Ok(pl) => protected.iter().cloned().filter(|p| pl.is_pruned(*p)).collect(),
			Err(_) => vec![],
		}
	}

	/// The oracle the property fixes, evaluated on the implementation after every compaction,
	/// rewind, reopen, commit and discard, for EVERY leaf that is unspent according to the harness'
	/// own bookkeeping of the history: `get_data` = the element appended there, `get_hash` = its
	/// hash, a Merkle proof can be built and verifies against the root of the never-pruned
	/// reference MMR (a `VecBackend` fed the same appends and rewinds), every ancestor and every
	/// Merkle-path sibling reads the reference hash from the hash file, the root is the reference
	/// root; and no prune-list entry covers a leaf that is unspent or that a permitted rewind can
	/// make unspent again (the prune list is read from its file: `synced` states only).
	fn deep_oracle(&mut self, after: &str, synced: bool) {
		self.st.deep_evals += 1;
		let size = self.bk.size;
		let unspent: Vec<u64> = self.bk.unspent.iter().cloned().collect();
		let mut fails: Vec<String> = vec![];
		{
			let elems = &self.bk.elems;
			let refh = &self.bk.refb.hashes;
			if refh.len() as u64 != size {
				fails.push(format!("reference MMR has {} hashes, the history says size {}", refh.len(), size));
			}
			let ref_root = {
				let mut rb = self.bk.refb.clone();
				let r = PMMR::at(&mut rb, size).root();
				r
			};
			let be = self.backend.as_mut().unwrap();
			let pmmr: PMMR<'_, T, _> = PMMR::at(be, size);
			let root = pmmr.root();
			if root != ref_root || root.is_err() && size > 0 {
				fails.push(format!(
					"after {}: root {} differs from the root {} of the never-pruned reference (size {})",
					after,
					root_str(root.clone()),
					root_str(ref_root.clone()),
					size
				));
			}
			for &p in unspent.iter() {
				if p >= size {
					fails.push(format!("after {}: unspent leaf {} beyond size {}", after, p, size));
					continue;
				}
				let i = (pmmr::n_leaves(p + 1) - 1) as usize;
				let d = pmmr.get_data(p);
				if d.as_ref() != Some(&elems[i]) {
					fails.push(format!("after {}: get_data({}) of an unspent leaf = {:?}, appended {:?}", after, p, d.map(|x| hex(&x.ser())), hex(&elems[i].ser())));
				}
				let h = pmmr.get_hash(p);
				if h != Some(elems[i].hash_with_index(p)) || h != refh.get(p as usize).cloned() {
					fails.push(format!("after {}: get_hash({}) of an unspent leaf = {}", after, p, opt_hash(h)));
				}
				// the leaf itself and every ancestor / path sibling must still be in the hash file
				if pmmr.get_from_file(p) != refh.get(p as usize).cloned() {
					fails.push(format!("after {}: get_from_file({}) of an unspent leaf = {} (compacted away?)", after, p, opt_hash(pmmr.get_from_file(p))));
				}
				for (parent, sibling) in pmmr::family_branch(p, size) {
					for q in [parent, sibling] {
						let got = pmmr.get_from_file(q);
						if got.is_none() || got != refh.get(q as usize).cloned() {
							fails.push(format!(
								"after {}: position {} ({} of the unspent leaf {}) reads {} from the hash file, reference {}",
								after,
								q,
								if q == parent { "ancestor" } else { "path sibling" },
								p,
								opt_hash(got),
								opt_hash(refh.get(q as usize).cloned())
							));
						}
					}
				}
				self.st.deep_proofs += 1;
				match pmmr.merkle_proof(p) {
					Ok(pr) => {
						if let Ok(r) = &ref_root {
							if pr.verify(*r, &elems[i], p).is_err() {
								fails.push(format!("after {}: merkle_proof({}) does not verify against the reference root (size {})", after, p, size));
							}
						}
					}
					Err(_) => fails.push(format!("after {}: merkle_proof({}) of an unspent leaf cannot be built (size {})", after, p, size)),
				}
			}
		}
		if synced {
			let prot = self.protected_leaves();
			self.st.deep_protected += prot.len() as u64;
			let cov = self.covered_by_prune_list(&prot);
			if !cov.is_empty() {
				fails.push(format!(
					"after {}: the prune list covers the leaves {:?}, which are unspent or can be made unspent by a rewind inside the horizon (unspent now: {:?})",
					after,
					cov,
					cov.iter().filter(|p| self.bk.unspent.contains(p)).collect::<Vec<_>>()
				));
			}
		}
		// one failure per kind is enough for a history
		fails.truncate(4);
		for f in fails {
			self.oracle_fail(f);
		}
	}

	/// observables; `committed` = the backend is in a synced state
	fn observe(&mut self, committed: bool, full: bool) {
		self.observe_inner(committed, full, true);
	}

	/// `emit` = print the observation lines for the driver; the comparison with the unpruned
	/// reference (root, size, leaf set, n_unpruned_leaves, data and hash of every leaf, proofs) is
	/// evaluated either way
	fn observe_inner(&mut self, committed: bool, full: bool, emit: bool) {
		self.st.oracle_evals += 1;
		let size = self.bk.size;
		let n_leaves = pmmr::n_leaves(size);
		self.st.max_leaves = self.st.max_leaves.max(n_leaves);
		let expect_unspent: Vec<u64> = self.bk.unspent.iter().cloned().collect();
		let ref_root = self.reference_root();
		let mut fails: Vec<String> = vec![];
		let mut lines: Vec<(String, String)> = vec![];
		{
			let elems = &self.bk.elems;
			// the silent oracle must not disturb the generator: it samples with a generator of its own
			let mut own = Rng::new(size.wrapping_mul(0x9e37_79b9_7f4a_7c15) ^ expect_unspent.len() as u64 ^ self.st.oracle_evals);
			let rng: &mut Rng = if emit { &mut *self.rng } else { &mut own };
			let be = self.backend.as_mut().unwrap();
			let usize_ = be.unpruned_size();
			let sizes = format!("{} {}", be.hash_size(), be.data_size());
			let pmmr: PMMR<'_, T, _> = PMMR::at(be, size);
			let root = pmmr.root();
			if root != ref_root {
				fails.push(format!(
					"root {} differs from the unpruned reference root {} at size {}",
					root_str(root.clone()),
					root_str(ref_root.clone()),
					size
				));
			}
			lines.push(("store root".into(), root_str(root.clone())));
			if committed {
				if usize_ != size {
					fails.push(format!("unpruned_size {} != reference size {}", usize_, size));
				}
				lines.push(("store usize".into(), usize_.to_string()));
			} else {
				lines.push(("store usize_mid".into(), usize_.to_string()));
			}
			let nl = pmmr.n_unpruned_leaves();
			lines.push(("store nleaves".into(), nl.to_string()));
			let leaves: Vec<u64> = pmmr.leaf_pos_iter().collect();
			if leaves != expect_unspent || nl != expect_unspent.len() as u64 {
				fails.push(format!(
					"leaf set {:?} (n={}) differs from the unspent set {:?}",
					leaves, nl, expect_unspent
				));
			}
			lines.push(("store leaves".into(), nat_list(&leaves)));
			// digest over data+hash of every leaf
			let mut cat: Vec<u8> = vec![];
			for i in 0..n_leaves {
				let p = pmmr::insertion_to_pmmr_index(i);
				if p >= size {
					continue;
				}
				cat.extend_from_slice(&p.to_be_bytes());
				let d = pmmr.get_data(p);
				let h = pmmr.get_hash(p);
				let unspent = expect_unspent.binary_search(&p).is_ok();
				if unspent {
					if d.as_ref() != Some(&elems[i as usize]) {
						fails.push(format!("get_data({}) of an unspent leaf = {:?}", p, d));
					}
					if h != Some(elems[i as usize].hash_with_index(p)) {
						fails.push(format!("get_hash({}) of an unspent leaf = {:?}", p, h));
					}
				} else if d.is_some() || h.is_some() {
					fails.push(format!("spent leaf {} still readable", p));
				}
				if let Some(d) = d {
					cat.extend_from_slice(&d.ser());
				}
				if let Some(h) = h {
					cat.extend_from_slice(h.as_bytes());
				}
			}
			lines.push(("store leafobs".into(), hex(blake(&cat).as_bytes())));
			// samples: individual leaves (spent and unspent), inner nodes, proofs
			let nsamp = if full { 6 } else { 3 };
			if n_leaves > 0 {
				for _ in 0..nsamp {
					let p = pmmr::insertion_to_pmmr_index(rng.below(n_leaves));
					if p >= size {
						continue;
					}
					let d = pmmr.get_data(p);
					lines.push((
						format!("store data {}", p),
						match d {
							Some(d) => hex(&d.ser()),
							None => "none".into(),
						},
					));
					lines.push((format!("store hash {}", p), opt_hash(pmmr.get_hash(p))));
				}
				for _ in 0..2 {
					let p = rng.below(size + 2);
					if !pmmr::is_leaf(p) {
						lines.push((format!("store node {}", p), opt_hash(pmmr.get_hash(p))));
					}
				}
			}
			// Merkle proofs for a sample of unspent leaves (all of them when few)
			let mut proof_pos: Vec<u64> = vec![];
			if expect_unspent.len() <= 6 {
				proof_pos.extend(expect_unspent.iter());
			} else {
				for _ in 0..(if full { 6 } else { 2 }) {
					proof_pos.push(*rng.pick(&expect_unspent));
				}
			}
			// and a spent leaf / non-leaf: must be refused
			if n_leaves > 0 {
				proof_pos.push(pmmr::insertion_to_pmmr_index(rng.below(n_leaves)));
			}
			for p in proof_pos {
				if p >= size {
					continue;
				}
				let unspent = expect_unspent.binary_search(&p).is_ok();
				match pmmr.merkle_proof(p) {
					Ok(pr) => {
						lines.push((
							format!("store proof {}", p),
							format!(
								"{} [{}]",
								pr.mmr_size,
								pr.path.iter().map(|h| hex(h.as_bytes())).collect::<Vec<_>>().join(",")
							),
						));
						if !unspent {
							fails.push(format!("merkle_proof({}) of a spent leaf succeeded", p));
						} else if let Ok(r) = &ref_root {
							let i = pmmr::n_leaves(p + 1) - 1;
							if pr.verify(*r, &elems[i as usize], p).is_err() {
								fails.push(format!(
									"merkle_proof({}) does not verify against the reference root (size {})",
									p, size
								));
							}
						}
					}
					Err(_) => {
						lines.push((format!("store proof {}", p), "err".into()));
						if unspent {
							fails.push(format!("merkle_proof({}) of an unspent leaf failed (size {})", p, size));
						}
					}
				}
			}
			if full {
				// get_from_file over every position: which are gone, digest of the rest
				let mut nones: Vec<u64> = vec![];
				let mut cat: Vec<u8> = vec![];
				for p in 0..size {
					match pmmr.get_from_file(p) {
						Some(h) => cat.extend_from_slice(h.as_bytes()),
						None => nones.push(p),
					}
				}
				lines.push((
					"store file".into(),
					format!("{} {}", nat_list(&nones), hex(blake(&cat).as_bytes())),
				));
				lines.push(("store sizes".into(), {
					let pl = PruneList::open(self.dir.join("pmmr_prun.bin")).unwrap();
					format!("{} {}", sizes, pl.len())
				}));
				// the leaf-set views used by the bitmap accumulator and the segmenter:
				// `n_unpruned_leaves_to_index(i)` counts the 1-based leaf-set positions below i,
				// `leaf_idx_iter(from)` lists the insertion indices of the unspent leaves from `from` on
				for _ in 0..2 {
					let i = rng.below(size + 3);
					let got = pmmr.n_unpruned_leaves_to_index(i);
					let want = expect_unspent.iter().filter(|p| **p + 1 < i).count() as u64;
					if got != want {
						fails.push(format!("n_unpruned_leaves_to_index({}) = {} but {} unspent leaves lie below", i, got, want));
					}
					lines.push((format!("store nleaves_to {}", i), got.to_string()));
					let from = rng.below(n_leaves + 2);
					let got: Vec<u64> = pmmr.leaf_idx_iter(from).collect();
					let want: Vec<u64> = expect_unspent
						.iter()
						.map(|p| pmmr::n_leaves(*p + 1) - 1)
						.filter(|k| *k >= from)
						.collect();
					if got != want {
						fails.push(format!("leaf_idx_iter({}) = {:?}, unspent insertion indices from there {:?}", from, got, want));
					}
					lines.push((format!("store leafidx {}", from), nat_list(&got)));
				}
			}
		}
		if emit {
			for (l, r) in lines {
				// `@n`: position in the run (ignored by the driver) - the same query at a different
				// point of the history is a different case
				let tag = self.out.lines;
				self.emit(&format!("{} @{}", l, tag), &r);
			}
		}
		for f in fails {
			self.oracle_fail(f);
		}
	}

	fn observe_prune_file(&mut self) {
		let pl = PruneList::open(self.dir.join("pmmr_prun.bin")).unwrap();
		let tag = self.out.lines;
		self.emit(&format!("store prunelist @{}", tag), &pl_str(&pl));
		// which of the leaves a permitted rewind can still bring back lie in a pruned subtree: none
		let prot = self.protected_leaves();
		let cov = self.covered_by_prune_list(&prot);
		let tag = self.out.lines;
		self.emit(
			&format!("store covered {} @{}", nat_list(&prot.iter().cloned().collect::<Vec<_>>()), tag),
			&nat_list(&cov),
		);
	}

	// ---- spend patterns -----------------------------------------------------------------

	/// leaf positions to spend in this unit, by pattern
	fn pick_spends(&mut self, limit_size: u64) -> Vec<u64> {
		let n_leaves = pmmr::n_leaves(limit_size);
		if n_leaves == 0 {
			return vec![];
		}
		let leaf = |i: u64| pmmr::insertion_to_pmmr_index(i);
		let mut v: Vec<u64> = vec![];
		let kind = if !self.readded.is_empty() && self.rng.chance(1, 2) { 5 } else { self.rng.below(11) };
		match kind {
			0 => {
				// sibling pair
				let i = self.rng.below(n_leaves) & !1;
				v.push(leaf(i));
				if i + 1 < n_leaves {
					v.push(leaf(i + 1));
				}
				self.st.pat("sibling-pair");
			}
			1 => {
				// whole subtree of height h
				let h = self.rng.range(1, 5);
				let w = 1u64 << h;
				let k = self.rng.below((n_leaves + w - 1) / w);
				for i in k * w..((k + 1) * w).min(n_leaves) {
					v.push(leaf(i));
				}
				self.st.pat("subtree");
			}
			2 => {
				// whole peak
				let peaks = pmmr::peaks(limit_size);
				if !peaks.is_empty() {
					let pk = *self.rng.pick(&peaks);
					// prefer smaller peaks so the MMR does not empty out every time
					let pk = if pmmr::bintree_postorder_height(pk) > 5 && self.rng.chance(3, 4) {
						*peaks.last().unwrap()
					} else {
						pk
					};
					v.extend(pmmr::bintree_leaf_pos_iter(pk));
				}
				self.st.pat("peak");
			}
			3 => {
				// alternating leaves over a range
				let a = self.rng.below(n_leaves);
				let len = self.rng.range(2, 24);
				let par = self.rng.below(2);
				for i in a..(a + len).min(n_leaves) {
					if i % 2 == par {
						v.push(leaf(i));
					}
				}
				self.st.pat("alternating");
			}
			4 => {
				// the siblings of already spent leaves (completes pairs across compactions)
				for _ in 0..self.rng.range(1, 4) {
					let i = self.rng.below(n_leaves);
					let p = leaf(i);
					if !self.bk.unspent.contains(&p) {
						let s = leaf(i ^ 1);
						if s < limit_size {
							v.push(s);
						}
					}
				}
				self.st.pat("complete-sibling");
			}
			5 => {
				// leaves re-added by the rewind of this unit
				let r = self.readded.clone();
				for p in r {
					if self.rng.chance(2, 3) {
						v.push(p);
					}
				}
				self.st.pat(if self.readded.is_empty() { "readded(none)" } else { "readded" });
			}
			9 => {
				// exactly the last leaf of an earlier boundary a rewind can still reach
				let lo = self.bk.min_idx;
				let n = self.bk.chain.len();
				if n > 0 {
					let k = self.rng.range(lo as u64, (n - 1) as u64) as usize;
					let nl = pmmr::n_leaves(self.bk.chain[k].size);
					if nl > 0 {
						v.push(leaf(nl - 1));
					}
				}
				self.st.pat("boundary-last-leaf");
			}
			10 => {
				// the siblings of leaves a compaction protected and a rewind made unspent again
				let r: Vec<u64> = self.readded_protected.iter().cloned().collect();
				for p in r {
					if self.bk.unspent.contains(&p) && self.rng.chance(2, 3) {
						let i = pmmr::n_leaves(p + 1) - 1;
						v.push(leaf(i ^ 1));
					}
				}
				self.st.pat(if self.readded_protected.is_empty() { "sibling-of-readded-protected(none)" } else { "sibling-of-readded-protected" });
			}
			6 => {
				// a contiguous run
				let a = self.rng.below(n_leaves);
				let len = self.rng.range(1, 12);
				for i in a..(a + len).min(n_leaves) {
					v.push(leaf(i));
				}
				self.st.pat("run");
			}
			_ => {
				for _ in 0..self.rng.range(1, 5) {
					v.push(leaf(self.rng.below(n_leaves)));
				}
				self.st.pat("random");
			}
		}
		v.retain(|p| *p < limit_size);
		v
	}

	// ---- one unit of work ---------------------------------------------------------------

	fn unit(&mut self, burst: bool) {
		let saved = self.bk.clone();
		self.readded.clear();
		// 1. optional rewind to an earlier boundary (never below the last compaction cutoff)
		let n = self.bk.chain.len();
		if n > 1 && self.rng.chance(1, 4) {
			let lo = self.bk.min_idx;
			let j = if self.rng.chance(1, 2) {
				(n - 1).saturating_sub(self.rng.range(0, 4) as usize).max(lo)
			} else {
				self.rng.range(lo as u64, (n - 1) as u64) as usize
			};
			self.st.rewinds += 1;
			self.st.rewind_depth_sum += (n - 1 - j) as u64;
			if self.compacted_once {
				self.st.rewinds_over_compacted += 1;
			}
			if self.rng.chance(1, 2) && j + 1 < n {
				// block by block, like `rewind_single_block`
				self.st.rewinds_stepwise += 1;
				let mut k = n - 1;
				while k > j {
					k -= 1;
					self.rewind_to(k);
				}
			} else {
				self.rewind_to(j);
			}
			// look at the state right after the rewind (driver lines as well)
			if self.rng.chance(1, 2) {
				self.observe(false, false);
			}
		}
		// 2. appends and removals
		let size0 = self.bk.size;
		let unspent0 = self.bk.unspent.clone();
		let n_app = if burst {
			self.rng.range(8, 40)
		} else if self.rng.chance(1, 5) {
			0
		} else {
			self.rng.range(1, 6)
		};
		let mut spends: Vec<u64> = vec![];
		let n_pat = if !self.readded.is_empty() { self.rng.range(1, 2) } else { self.rng.range(0, 2) };
		for _ in 0..n_pat {
			// mostly leaves that existed before this unit; sometimes this unit's own
			let lim = if self.rng.chance(1, 8) {
				pmmr::insertion_to_pmmr_index(pmmr::n_leaves(size0) + n_app)
			} else {
				size0
			};
			spends.extend(self.pick_spends(lim));
		}
		let mut apps = n_app;
		let mut si = 0;
		while apps > 0 || si < spends.len() {
			let do_app = apps > 0 && (si >= spends.len() || self.rng.chance(1, 2));
			if do_app {
				self.push();
				apps -= 1;
			} else {
				let p = spends[si];
				si += 1;
				if p < self.bk.size {
					self.prune(p);
				}
			}
		}
		if self.rng.chance(1, 10) && self.bk.size > 2 {
			// a non-leaf position: refused
			let p = self.rng.below(self.bk.size);
			if !pmmr::is_leaf(p) {
				self.prune(p);
			}
		}
		// 3. look at the uncommitted state (the chain validates roots before committing)
		if self.rng.chance(1, 3) {
			self.observe(false, false);
		}
		// 4. commit or discard
		if self.rng.chance(1, 6) {
			self.discard(saved);
		} else {
			let appended = self.bk.size != size0;
			let removed = saved_unspent_removed(&self.bk.unspent, &unspent0);
			let kind = match (appended, removed) {
				(false, false) => "empty",
				(true, false) => "append-only",
				(false, true) => "remove-only",
				(true, true) => "both",
			};
			*self.st.unit_kinds_random.entry(kind.to_string()).or_insert(0) += 1;
			self.sync();
		}
		self.observe(true, true);
	}

	/// a simple unit: `n_app` appends, the given spends, then commit or discard; observe
	fn plain_unit(&mut self, n_app: u64, spends: &[u64], commit: bool) {
		let saved = self.bk.clone();
		self.readded.clear();
		for _ in 0..n_app {
			self.push();
		}
		for p in spends {
			self.prune(*p);
		}
		self.observe(false, false);
		if commit {
			self.sync();
		} else {
			self.discard(saved);
		}
		self.observe(true, true);
	}

	/// Deterministic family: append 2k leaves, commit, spend (all | all but the last | whole
	/// peaks only), commit, compact at the latest boundary (optionally at an earlier one first),
	/// then - WITHOUT reopening - append more leaves over committed and discarded units, observe,
	/// and only then reopen and observe again.  Targets the state "compacted data file holds 0
	/// elements, backend kept open, appends follow".
	fn scripted(&mut self) {
		for &k in &[1u64, 2, 3, 4, 6, 8] {
			for variant in 0..3 {
				for earlier_first in [false, true] {
					self.fresh();
					self.st.scripted += 1;
					let n = 2 * k;
					// two units so that an earlier boundary exists
					let first = if earlier_first { k } else { n };
					self.plain_unit(first, &[], true);
					if first < n {
						self.plain_unit(n - first, &[], true);
					}
					let size = self.bk.size;
					let all: Vec<u64> = (0..n).map(pmmr::insertion_to_pmmr_index).collect();
					let spends: Vec<u64> = match variant {
						0 => all.clone(),
						1 => all[..all.len() - 1].to_vec(),
						_ => {
							// whole peaks only: every peak except (when there are several) the last
							let peaks = pmmr::peaks(size);
							let keep = if peaks.len() > 1 { peaks.len() - 1 } else { peaks.len() };
							let mut v = vec![];
							for pk in &peaks[..keep] {
								v.extend(pmmr::bintree_leaf_pos_iter(*pk));
							}
							v
						}
					};
					self.st.pat(match variant {
						0 => "scripted-spend-all",
						1 => "scripted-all-but-last",
						_ => "scripted-whole-peaks",
					});
					self.plain_unit(0, &spends, true);
					let head = self.bk.chain.len() - 1;
					if earlier_first && head >= 1 {
						// cutoff at an earlier boundary first (everything was spent after it: nothing to do)
						self.compact_at(head - 1);
						self.observe(true, true);
						self.observe_prune_file();
					}
					self.compact_at(head);
					self.observe(true, true);
					self.observe_prune_file();
					// same session, no reopen: keep appending
					let a1 = 1 + (k + variant as u64) % 5;
					self.plain_unit(a1, &[], true);
					self.plain_unit(1 + k % 3, &[], false);
					let a2 = 1 + (k + 2 * variant as u64 + earlier_first as u64) % 5;
					let sp: Vec<u64> = self.bk.unspent.iter().cloned().take(1).collect();
					self.plain_unit(a2, &sp, true);
					// compact again at the head and append once more in the same session
					let head = self.bk.chain.len() - 1;
					self.compact_at(head);
					self.observe(true, true);
					self.plain_unit(2, &[], true);
					// only now drop + reopen
					self.reopen();
					self.observe(true, true);
					self.observe_prune_file();
					self.plain_unit(1, &[], true);
					self.backend = None;
				}
			}
		}
	}

	/// random mix: spend every unspent leaf, commit, compact at the head boundary, and leave the
	/// backend open so that the following units append to the emptied files
	fn spend_everything_then_compact(&mut self) {
		let spends: Vec<u64> = self.bk.unspent.iter().cloned().collect();
		self.st.pat("spend-everything+compact");
		self.plain_unit(0, &spends, true);
		let head = self.bk.chain.len() - 1;
		self.compact_at(head);
		self.observe(true, true);
		self.observe_prune_file();
		// at least one append-only unit right away, same session
		let n = self.rng.range(1, 5);
		self.plain_unit(n, &[], true);
	}

	// ---- units of every kind, and the rewinds that undo them ------------------------------

	/// one committed unit of the given kind: 'R' removes leaves and appends nothing (the MMR size
	/// does not change), 'A' only appends, 'B' does both, 'E' is empty
	fn kind_unit(&mut self, k: char, salt: u64) {
		let n_app = match k {
			'A' | 'B' => 1 + salt % 3,
			_ => 0,
		};
		let mut spends: Vec<u64> = vec![];
		if k == 'R' || k == 'B' {
			let us: Vec<u64> = self.bk.unspent.iter().cloned().collect();
			if !us.is_empty() {
				let p = us[(salt as usize * 5 + 1) % us.len()];
				spends.push(p);
				// every other time the sibling leaf as well (when it is unspent), or a second leaf
				let i = pmmr::n_leaves(p + 1) - 1;
				let sib = pmmr::insertion_to_pmmr_index(i ^ 1);
				if salt % 2 == 0 && self.bk.unspent.contains(&sib) {
					spends.push(sib);
				} else if salt % 3 == 0 && us.len() > 2 {
					let q = us[(salt as usize * 3 + 2) % us.len()];
					if q != p {
						spends.push(q);
					}
				}
			}
		}
		*self.st.kind_units.entry(k.to_string()).or_insert(0) += 1;
		self.plain_unit(n_app, &spends, true);
	}

	/// Deterministic family over all sequences of unit kinds up to `max_len`: a base history
	/// (optionally with a compaction, so that the prune list holds a subtree root and a lone
	/// leaf), the units of the sequence, each committed, then a rewind across the last `depth`
	/// of them with `rewind_rm_pos` = the leaves those units removed - for a sequence ending in
	/// removal-only / empty units the rewind position EQUALS the current size.  The state is
	/// observed right after the rewind, then the rewind is (0) committed as a unit of its own and
	/// the backend reopened, (1) discarded and the backend reopened, or (2) followed by new
	/// appends and a removal of a re-added leaf in the same unit, committed and reopened.
	fn unit_kinds(&mut self, max_len: usize) {
		let kinds = ['R', 'A', 'B', 'E'];
		let mut seqs: Vec<Vec<char>> = vec![];
		let mut layer: Vec<Vec<char>> = vec![vec![]];
		for _ in 0..max_len {
			let mut next = vec![];
			for s in &layer {
				for k in kinds.iter() {
					let mut t = s.clone();
					t.push(*k);
					next.push(t);
				}
			}
			seqs.extend(next.iter().cloned());
			layer = next;
		}
		let leaf = |i: u64| pmmr::insertion_to_pmmr_index(i);
		for (si, seq) in seqs.iter().enumerate() {
			for with_compact in [false, true] {
				let depths: Vec<usize> = if seq.len() == 1 { vec![1] } else { vec![1, seq.len()] };
				for (di, depth) in depths.iter().enumerate() {
					let variant = (si + di + with_compact as usize) % 3;
					let salt = si as u64 * 7 + di as u64 * 3 + with_compact as u64;
					self.fresh();
					self.st.kind_histories += 1;
					// base: two committed append-only units
					self.plain_unit(3 + salt % 2, &[], true);
					self.plain_unit(3 + (salt / 2) % 3, &[], true);
					if with_compact {
						// spend a sibling pair and a lone leaf, commit, compact at the head
						let sp = vec![leaf(0), leaf(1), leaf(4)];
						self.plain_unit(0, &sp, true);
						let head = self.bk.chain.len() - 1;
						self.compact_at(head);
						self.observe(true, true);
						self.observe_prune_file();
					}
					for (ui, k) in seq.iter().enumerate() {
						self.kind_unit(*k, salt + ui as u64);
					}
					// rewind across the last `depth` units
					let n = self.bk.chain.len();
					let j = n - 1 - depth;
					let saved = self.bk.clone();
					self.readded.clear();
					self.st.rewinds += 1;
					self.st.rewind_depth_sum += *depth as u64;
					if self.compacted_once {
						self.st.rewinds_over_compacted += 1;
					}
					if (si + di) % 2 == 1 && *depth > 1 {
						self.st.rewinds_stepwise += 1;
						let mut k = n - 1;
						while k > j {
							k -= 1;
							self.rewind_to(k);
						}
					} else {
						self.rewind_to(j);
					}
					self.observe(false, true);
					match variant {
						0 => {
							// the rewind alone is the unit of work
							self.st.rewind_only_commits += 1;
							self.sync();
							self.observe(true, true);
						}
						1 => {
							self.discard(saved);
							self.observe(true, true);
						}
						_ => {
							for _ in 0..(1 + salt % 2) {
								self.push();
							}
							if let Some(p) = self.readded.first().cloned() {
								self.prune(p);
							}
							self.observe(false, false);
							self.sync();
							self.observe(true, true);
						}
					}
					self.reopen();
					self.observe(true, true);
					self.observe_prune_file();
					// the history goes on
					self.kind_unit('B', salt + 5);
					self.backend = None;
				}
			}
		}
	}


	// ---- the cutoff family: the leaf at the compaction cutoff, spent inside the horizon -----

	/// rewind to committed boundary `j`, in one step or block by block (`rewind_single_block`)
	fn rewind_unit_start(&mut self, j: usize, stepwise: bool) {
		let n = self.bk.chain.len();
		self.readded.clear();
		self.st.rewinds += 1;
		self.st.rewind_depth_sum += (n - 1 - j) as u64;
		if self.compacted_once {
			self.st.rewinds_over_compacted += 1;
		}
		if stepwise && j + 2 < n {
			self.st.rewinds_stepwise += 1;
			let mut k = n - 1;
			while k > j {
				k -= 1;
				self.rewind_to(k);
			}
		} else {
			self.rewind_to(j);
		}
	}

	/// One history of the family.  `l` = leaf count of the boundary B1 that becomes the compaction
	/// cutoff (odd: the boundary ends on a leaf, i.e. the 1-based cutoff position IS that leaf;
	/// even: it ends on a parent).  A later block spends exactly the last leaf of B1 (`mode` 0:
	/// the next block, together with appends; 1: the block after next, a removal-only unit when
	/// `l` is even; 2: the next block, which also creates AND spends the first leaf after the
	/// boundary).  `sib_first`: the sibling of that leaf was spent before the boundary.  Then
	/// check_compact with B1 as cutoff while the spend is inside the horizon (passed in
	/// `rewind_rm_pos`), a rewind to the boundary before the spend (the leaf is unspent again),
	/// its sibling is spent, more blocks, check_compact at the head (nothing protected any more),
	/// reopen; finally the leaf is spent for good, compaction, reopen.
	fn cutoff_history(&mut self, l: u64, mode: u64, sib_first: bool, stepwise: bool) {
		let leaf = |i: u64| pmmr::insertion_to_pmmr_index(i);
		self.fresh();
		self.st.cutoff_histories += 1;
		if l % 2 == 1 {
			self.st.cutoff_boundary_on_leaf += 1;
		} else {
			self.st.cutoff_boundary_on_parent += 1;
		}
		// B1: `l` leaves, in two blocks when possible (so that an earlier boundary exists)
		let first = (l + 1) / 2;
		self.plain_unit(first, &[], true);
		if first < l {
			let sp: Vec<u64> = if sib_first && l >= 2 { vec![leaf((l - 1) ^ 1)] } else { vec![] };
			self.plain_unit(l - first, &sp, true);
		}
		let b1 = self.bk.chain.len() - 1;
		assert_eq!(self.bk.chain[b1].size, leaf(l));
		let last = leaf(l - 1);
		match mode {
			0 => self.plain_unit(1 + l % 3, &[last], true),
			1 => {
				self.plain_unit(1 + l % 3, &[], true);
				self.plain_unit(l % 2, &[last], true);
			}
			_ => {
				// creates leaf(l) (0-based position = the cutoff size) and spends it at once
				self.plain_unit(2, &[leaf(l), last], true);
			}
		}
		let b_spend = self.bk.chain.len() - 1;
		self.plain_unit(1 + (l / 2) % 2, &[], true);
		// first compaction: cutoff = B1, the spend of its last leaf is inside the horizon
		self.compact_at(b1);
		self.observe(true, true);
		self.observe_prune_file();
		if l % 4 == 3 {
			self.reopen();
			self.observe(true, true);
		}
		// a fork: rewind to the boundary before the spend - the leaf is unspent again
		let saved = self.bk.clone();
		self.rewind_unit_start(b_spend - 1, stepwise);
		self.observe(false, true);
		if mode == 2 && l % 5 == 0 {
			// the rewind alone, discarded: back on the old fork; then the same rewind again
			self.discard(saved);
			self.observe(true, true);
			self.rewind_unit_start(b_spend - 1, stepwise);
		}
		// spend the sibling of the re-added leaf (created now if it does not exist yet)
		let sib = (l - 1) ^ 1;
		while pmmr::n_leaves(self.bk.size) <= sib.max(if mode == 2 { l + 1 } else { 0 }) {
			self.push();
		}
		self.prune(leaf(sib));
		if mode == 2 && l % 2 == 0 {
			// the re-created first leaf after the boundary stays unspent; its sibling goes
			self.prune(leaf(l + 1));
		}
		for _ in 0..(1 + l % 2) {
			self.push();
		}
		self.observe(false, false);
		self.sync();
		self.observe(true, true);
		self.plain_unit(1, &[], true);
		// second compaction, at the head: every spend so far is outside the horizon now
		let head = self.bk.chain.len() - 1;
		self.compact_at(head);
		self.observe(true, true);
		self.observe_prune_file();
		self.reopen();
		self.observe(true, true);
		self.observe_prune_file();
		// now the leaf is spent for good: this time the pair may be rolled up
		self.plain_unit(1, &[last], true);
		let head = self.bk.chain.len() - 1;
		self.compact_at(head);
		self.observe(true, true);
		self.observe_prune_file();
		self.reopen();
		self.observe(true, true);
		self.plain_unit(1, &[], true);
		self.backend = None;
	}

	fn cutoff_family(&mut self, max_l: u64) {
		for l in 1..=max_l {
			for mode in 0..3 {
				for sib_first in [false, true] {
					if sib_first && l % 2 == 1 {
						// the sibling of the last leaf of an odd boundary does not exist yet
						continue;
					}
					for stepwise in [false, true] {
						self.cutoff_history(l, mode, sib_first, stepwise);
					}
				}
			}
		}
	}


	// ---- sibling pairs around a compaction boundary; the boundary's last leaf as a lone peak ---

	/// Leaf `t` and its sibling `s = t ^ 1` (both inside the boundary): the SIBLING is spent by the
	/// boundary block, `t` by a later block; `check_compact` at the boundary with the spend of `t`
	/// inside the horizon - `s` becomes a pruned root of a single leaf right next to the protected
	/// `t` (for a LEFT `t` the position after it); a later unit of work rewinds to before the spend of
	/// `t`: the leaf must be unspent again with its data, hash and proof, also after the rewind is
	/// committed (alone, or with appends) and the store reopened.  Then `t` is spent for good and the
	/// pair rolled up.
	fn sibling_history(&mut self, l: u64, t: u64, mode: u64, stepwise: bool, alone: bool) {
		let leaf = |i: u64| pmmr::insertion_to_pmmr_index(i);
		let s = t ^ 1;
		assert!(t < l && s < l);
		self.fresh();
		self.st.sibling_histories += 1;
		if t % 2 == 0 {
			self.st.sibling_left_protected += 1;
		} else {
			self.st.sibling_right_protected += 1;
		}
		self.plain_unit(l, &[], true);
		// the boundary block spends the sibling
		self.plain_unit(if mode == 1 { 0 } else { 1 }, &[leaf(s)], true);
		let b1 = self.bk.chain.len() - 1;
		self.plain_unit(1 + l % 2, &[leaf(t)], true);
		let b_spend = self.bk.chain.len() - 1;
		self.plain_unit(1, &[], true);
		self.compact_at(b1);
		self.observe(true, true);
		self.observe_prune_file();
		if let Ok(pl) = PruneList::open(self.dir.join("pmmr_prun.bin")) {
			if pl.is_pruned_root(leaf(s)) {
				self.st.sibling_lone_root_next_to_protected += 1;
			}
		}
		if l % 3 == 0 {
			self.reopen();
			self.observe(true, true);
		}
		self.rewind_unit_start(b_spend - 1, stepwise);
		self.observe(false, true);
		if alone {
			self.sync();
		} else {
			self.push();
			self.push();
			self.observe(false, false);
			self.sync();
		}
		self.observe(true, true);
		self.reopen();
		self.observe(true, true);
		self.plain_unit(1, &[leaf(t)], true);
		let head = self.bk.chain.len() - 1;
		self.compact_at(head);
		self.observe(true, true);
		self.observe_prune_file();
		self.reopen();
		self.observe(true, true);
		self.backend = None;
	}

	/// Exactly ONE block rewound whose spends contain the last leaf of the previous boundary - for an
	/// odd leaf count a lone single-leaf peak, 1-based position == the boundary size, the largest
	/// position a `rewind_rm_pos` can hold: it must be unspent again; the rewind committed (and the
	/// store reopened) or discarded.
	fn last_leaf_history(&mut self, l: u64, commit: bool) {
		let leaf = |i: u64| pmmr::insertion_to_pmmr_index(i);
		self.fresh();
		self.st.last_leaf_histories += 1;
		let first = (l + 1) / 2;
		self.plain_unit(first, &[], true);
		if first < l {
			self.plain_unit(l - first, &[], true);
		}
		let b1 = self.bk.chain.len() - 1;
		let last = leaf(l - 1);
		if last + 1 == self.bk.chain[b1].size {
			self.st.last_leaf_is_lone_peak += 1;
		}
		self.plain_unit(1 + l % 2, &[last], true);
		let saved = self.bk.clone();
		self.rewind_unit_start(b1, false);
		self.observe(false, true);
		if commit {
			self.sync();
			self.observe(true, true);
			self.reopen();
			self.observe(true, true);
		} else {
			self.discard(saved);
			self.observe(true, true);
		}
		self.plain_unit(1, &[], true);
		self.backend = None;
	}

	fn sibling_family(&mut self, max_l: u64, max_last: u64) {
		for l in 2..=max_l {
			let last_pair = if l % 2 == 0 { l - 2 } else { l - 3 };
			let mut pairs = vec![0u64, (l / 4) * 2, last_pair];
			pairs.sort();
			pairs.dedup();
			for (pi, p) in pairs.iter().enumerate() {
				if p + 1 >= l {
					continue;
				}
				for t in [*p, *p + 1] {
					for mode in 0..2 {
						let stepwise = (l + pi as u64 + mode) % 2 == 0;
						let alone = (l + t + mode) % 2 == 0;
						self.sibling_history(l, t, mode, stepwise, alone);
					}
				}
			}
		}
		for l in 1..=max_last {
			self.last_leaf_history(l, true);
			self.last_leaf_history(l, false);
		}
	}

	// ---- bulk batches: large un-synced appends after a rewind, rolled back -------------------

	/// bytes of every file of the backend directory
	fn dir_files(&self) -> BTreeMap<String, Vec<u8>> {
		let mut m = BTreeMap::new();
		for e in std::fs::read_dir(&self.dir).unwrap() {
			let e = e.unwrap();
			if e.path().is_file() {
				m.insert(e.file_name().to_string_lossy().to_string(), std::fs::read(e.path()).unwrap());
			}
		}
		m
	}

	/// everything the in-memory view answers at the current size: root, sizes, leaf set, data and
	/// hash of every leaf, `get_from_file` of every position
	fn view(&mut self) -> Vec<String> {
		let size = self.bk.size;
		let be = self.backend.as_mut().unwrap();
		let mut v = vec![
			format!("unpruned_size={}", be.unpruned_size()),
			format!("hash_size={}", be.hash_size()),
			format!("data_size={}", be.data_size()),
		];
		let pmmr: PMMR<'_, T, _> = PMMR::at(be, size);
		v.push(format!("root={}", root_str(pmmr.root())));
		v.push(format!("leaves={}", hex(blake(nat_list(&pmmr.leaf_pos_iter().collect::<Vec<_>>()).as_bytes()).as_bytes())));
		let mut cat: Vec<u8> = vec![];
		for p in 0..size {
			cat.extend_from_slice(&p.to_be_bytes());
			match pmmr.get_from_file(p) {
				Some(h) => cat.extend_from_slice(h.as_bytes()),
				None => cat.push(0),
			}
			if pmmr::is_leaf(p) {
				match pmmr.get_data(p) {
					Some(d) => cat.extend_from_slice(&d.ser()),
					None => cat.push(1),
				}
				match pmmr.get_hash(p) {
					Some(h) => cat.extend_from_slice(h.as_bytes()),
					None => cat.push(2),
				}
			}
		}
		v.push(format!("reads={}", hex(blake(&cat).as_bytes())));
		v
	}

	/// the files on disk as the driver's model sees them: hash file, data file, size file
	fn disk_line(&mut self) {
		let f = self.dir_files();
		let part = |name: &str| match f.get(name) {
			Some(b) => format!("{} {}", b.len(), hex(blake(b).as_bytes())),
			None => "0 -".to_string(),
		};
		let tag = self.out.lines;
		self.emit(
			&format!("store disk @{}", tag),
			&format!("{} {} {}", part("pmmr_hash.bin"), part("pmmr_data.bin"), part("pmmr_size.bin")),
		);
	}

	fn compare_files(&mut self, before: &BTreeMap<String, Vec<u8>>, what: &str) {
		self.st.bulk_file_compares += 1;
		let now = self.dir_files();
		let names: BTreeSet<&String> = before.keys().chain(now.keys()).collect();
		let mut msgs = vec![];
		for n in names {
			match (before.get(n), now.get(n)) {
				(Some(a), Some(b)) if a == b => {}
				(Some(a), Some(b)) => {
					let d = a.iter().zip(b.iter()).position(|(x, y)| x != y).unwrap_or(a.len().min(b.len()));
					msgs.push(format!("{}: {} -> {} bytes, first difference at byte {}", n, a.len(), b.len(), d));
				}
				(Some(a), None) => msgs.push(format!("{}: {} bytes -> file gone", n, a.len())),
				(None, Some(b)) => msgs.push(format!("{}: new file of {} bytes", n, b.len())),
				(None, None) => {}
			}
		}
		if !msgs.is_empty() {
			self.oracle_fail(format!("file changed by {}: {}", what, msgs.join(", ")));
		}
	}

	/// One unit of work with a large un-synced batch: optional rewind to boundary `rewind_to`,
	/// then appends until the un-synced buffer holds at least `target` bytes (hash file buffer:
	/// 32-byte hashes, for the 8-byte kind; data file buffer for the 683-byte and the
	/// variable-size kind, the latter with its size file), the files on disk compared with their state
	/// before the unit at four points inside the batch (nothing is written before `sync`), then
	/// commit, or discard and compare files and in-memory view with the state before the unit.
	fn bulk_batch(&mut self, target: u64, rewind_to: Option<usize>, commit: bool, spend_some: bool) {
		let saved = self.bk.clone();
		let files0 = self.dir_files();
		let view0 = self.view();
		self.disk_line();
		self.st.bulk_batches += 1;
		if let Some(j) = rewind_to {
			self.rewind_unit_start(j, false);
			self.compare_files(&files0, "a rewind (nothing synced yet)");
		}
		let (mut hb, mut db, mut k) = (0u64, 0u64, 0u64);
		let mut next_cmp = target / 4;
		loop {
			let done = match T::NAME {
				// the 8-byte kind fills the hash file buffer, the others the data file buffer
				"fixed" => hb >= target,
				_ => db >= target,
			};
			if done {
				break;
			}
			let e = T::gen_big(self.rng);
			let size0 = self.bk.size;
			db += e.ser().len() as u64;
			self.push_elem(e, false);
			hb += 32 * (self.bk.size - size0);
			k += 1;
			if spend_some && k % 97 == 5 {
				// removals inside the batch: an old leaf (re-added by the rewind if there is one) and a new one
				let old = self.readded.first().cloned().or_else(|| self.bk.unspent.iter().next().cloned());
				if let Some(p) = old {
					self.prune(p);
				}
				let p = pmmr::insertion_to_pmmr_index(pmmr::n_leaves(self.bk.size) - 2);
				self.prune(p);
			}
			// Self-test of the oracles (never set by `check`): a flush in the middle of the batch, as an
			// append path writing through to disk would do
			if k == 50 && std::env::var("VERIF_STORE_SELFTEST").as_deref() == Ok("sync-mid-batch") {
				let _ = self.be().sync();
			}
			if hb.max(db) >= next_cmp {
				next_cmp += target / 4;
				self.compare_files(&files0, "an append before any sync (mid-batch)");
			}
		}
		self.st.bulk_max_hash_buf = self.st.bulk_max_hash_buf.max(hb);
		self.st.bulk_max_data_buf = self.st.bulk_max_data_buf.max(db);
		self.compare_files(&files0, "a batch of appends before any sync");
		self.disk_line();
		// the uncommitted state answers like the reference
		self.observe(false, false);
		if commit {
			self.sync();
			self.observe(true, false);
			self.disk_line();
		} else {
			self.st.bulk_discarded += 1;
			self.discard(saved);
			self.compare_files(&files0, "a discarded batch");
			let view1 = self.view();
			if view1 != view0 {
				let d: Vec<String> = view0.iter().zip(view1.iter()).filter(|(a, b)| a != b).map(|(a, b)| format!("{} -> {}", a, b)).collect();
				self.oracle_fail(format!("in-memory view changed by a discarded batch: {}", d.join(", ")));
			}
			self.observe(true, false);
			self.disk_line();
		}
	}

	/// `target` bytes per batch.  Base: three small blocks with spends, optionally compacted (then
	/// the rewind positions are shifted by the prune list).  (1) rewind one block + big batch,
	/// discarded - the files on disk are still small; (2) big batch, committed - the files are
	/// large now; (3) rewind to an early boundary (a truncation of nearly the whole file is
	/// pending) + big batch, discarded; (4) reopen: files and view unchanged; (5) rewind one block
	/// + big batch with removals, discarded; (6) rewind to the early boundary + big batch,
	/// committed (the truncation really happens), reopen.  `short`: stop after (4).
	fn bulk_history(&mut self, target: u64, with_compact: bool, short: bool) {
		let leaf = |i: u64| pmmr::insertion_to_pmmr_index(i);
		self.fresh();
		self.plain_unit(5, &[], true);
		self.plain_unit(4, &[leaf(0), leaf(1), leaf(4)], true);
		self.plain_unit(3, &[leaf(6)], true);
		self.plain_unit(2, &[], true);
		if with_compact {
			self.compact_at(2);
			self.observe(true, true);
			self.observe_prune_file();
		}
		let early = if with_compact { 2 } else { 1 };
		let n = self.bk.chain.len();
		self.bulk_batch(target, Some(n - 2), false, false);
		self.bulk_batch(target, None, true, false);
		self.bulk_batch(target, Some(early), false, false);
		let files = self.dir_files();
		let view = self.view();
		self.reopen();
		self.compare_files(&files, "drop + reopen");
		if self.view() != view {
			self.oracle_fail("in-memory view changed by drop + reopen".into());
		}
		self.observe(true, false);
		if short {
			// the short histories stop here
			self.disk_line();
			self.backend = None;
			return;
		}
		let n = self.bk.chain.len();
		self.bulk_batch(target / 2, Some(n - 2), false, true);
		self.bulk_batch(target, Some(early), true, true);
		self.reopen();
		self.observe(true, false);
		self.disk_line();
		self.plain_unit(2, &[], true);
		self.backend = None;
	}


	// ---- the import path of state sync (PIBD) ---------------------------------------------

	/// `PMMR::push_pruned_subtree(hash, pos0)` for the subtree of height `h >= 1` whose leaves are
	/// the next `2^h` leaves of the history (all spent, compacted away on the sending side).  The
	/// leaf data only goes to the bookkeeping and the reference; the store gets the root hash.
	fn push_pruned(&mut self, leaves: Vec<T>) {
		let size = self.bk.size;
		// the reference gets the leaves
		let mut rsz = size;
		for e in leaves.iter() {
			let mut p = PMMR::at(&mut self.bk.refb, rsz);
			let _ = p.push(e);
			rsz = p.size;
			self.bk.elems.push(e.clone());
		}
		// root of the subtree: the last position before the parents that merge it with its left peaks
		let w = leaves.len() as u64;
		let pos0 = size + 2 * w - 2;
		let hash = self.bk.refb.hashes[pos0 as usize];
		let res = {
			let be = self.backend.as_mut().unwrap();
			catch(AssertUnwindSafe(|| {
				let mut p = PMMR::at(be, size);
				p.push_pruned_subtree(hash, pos0).map(|_| p.size)
			}))
		};
		let rhs = match res {
			Ok(Ok(sz)) => {
				if sz != rsz {
					self.oracle_fail(format!("push_pruned_subtree({}) at size {} gave size {} but the unpruned reference has {}", pos0, size, sz, rsz));
				}
				self.bk.size = sz;
				sz.to_string()
			}
			Ok(Err(e)) => {
				self.oracle_fail(format!("push_pruned_subtree({}) at size {} refused: {}", pos0, size, e));
				"err".to_string()
			}
			Err(_) => {
				self.oracle_fail(format!("push_pruned_subtree({}) at size {} panicked", pos0, size));
				"panic".to_string()
			}
		};
		self.st.op("pushpruned");
		self.hist.push(format!("pushpruned {} (h={})", pos0, w.trailing_zeros()));
		let datas = format!("[{}]", leaves.iter().map(|e| hex(&e.ser())).collect::<Vec<_>>().join(","));
		self.emit(&format!("store pushpruned {} {} {}", pos0, hex(hash.as_bytes()), datas), &rhs);
		self.check(false);
	}

	/// `remove_from_leaf_set(pos0)`: a leaf that arrived with its data but is spent
	fn rm_leaf(&mut self, pos0: u64) {
		let size = self.bk.size;
		{
			let be = self.backend.as_mut().unwrap();
			PMMR::at(be, size).remove_from_leaf_set(pos0);
		}
		self.bk.unspent.remove(&pos0);
		self.st.op("rmleaf");
		self.hist.push(format!("rmleaf {}", pos0));
		self.emit(&format!("store rmleaf {}", pos0), "ok");
		self.check(false);
	}

	/// A store filled the way state sync fills it, then used like any other: a leaf history of
	/// `n` leaves with a spent set; the maximal completely spent aligned subtrees of height >= 1
	/// arrive as pruned subtrees (or, some of them, only one half, or leaf by leaf: spent but not
	/// yet compacted on the sending side), everything else as leaves, spent ones removed from the
	/// leaf set right away; commits in between (one per "segment"); the import boundary is the
	/// lowest boundary a rewind may target.  Then ordinary units, compactions, rewinds, reopen.
	fn import_history(&mut self, n: u64, units: u64, max_leaves: u64) {
		self.fresh();
		self.st.imports += 1;
		// spent set: a few aligned subtrees, sibling pairs, singles
		let mut spent = vec![false; n as usize];
		for _ in 0..self.rng.range(1, 6) {
			let h = self.rng.range(1, 4);
			let w = 1u64 << h;
			if n >= w {
				let k = self.rng.below(n / w);
				for i in k * w..(k + 1) * w {
					spent[i as usize] = true;
				}
			}
		}
		for _ in 0..self.rng.range(0, n / 3 + 1) {
			spent[self.rng.below(n) as usize] = true;
		}
		if self.rng.chance(1, 6) {
			// a long completely spent prefix (old part of the chain)
			for i in 0..(n * 2 / 3) {
				spent[i as usize] = true;
			}
		}
		let seg = 1u64 << self.rng.range(2, 5);
		let mut i = 0u64;
		while i < n {
			// largest aligned completely spent subtree starting at leaf i that fits
			let mut h = 0u32;
			while i % (1u64 << (h + 1)) == 0
				&& i + (1u64 << (h + 1)) <= n
				&& (i..i + (1u64 << (h + 1))).all(|k| spent[k as usize])
			{
				h += 1;
			}
			// how the sending side holds it: compacted as a whole | only one half | not at all
			let mode = if h == 0 { 2 } else { self.rng.below(4).min(2) };
			let w = 1u64 << h;
			let as_pruned = |r: &mut Self, a: u64, b: u64| {
				let leaves: Vec<T> = (a..b).map(|_| T::gen(r.rng)).collect();
				r.st.import_subtrees += 1;
				r.st.import_max_height = r.st.import_max_height.max((b - a).trailing_zeros() as u64);
				r.push_pruned(leaves);
			};
			let as_leaves = |r: &mut Self, a: u64, b: u64, spent: &Vec<bool>| {
				for k in a..b {
					let pos = r.bk.size;
					r.push();
					if spent[k as usize] {
						r.st.import_spent_leaves += 1;
						r.rm_leaf(pos);
					}
				}
			};
			if mode == 0 || (mode == 1 && h < 2) {
				as_pruned(self, i, i + w);
			} else if mode == 1 {
				if self.rng.chance(1, 2) {
					as_pruned(self, i, i + w / 2);
					as_leaves(self, i + w / 2, i + w, &spent);
				} else {
					as_leaves(self, i, i + w / 2, &spent);
					as_pruned(self, i + w / 2, i + w);
				}
				self.st.import_half += 1;
			} else {
				as_leaves(self, i, i + w, &spent);
			}
			i += w;
			if i % seg == 0 && i < n && self.rng.chance(1, 2) {
				self.sync();
			}
		}
		self.sync();
		// nothing below the import boundary can be rewound to
		self.bk.min_idx = self.bk.chain.len() - 1;
		self.observe(true, true);
		self.observe_prune_file();
		self.reopen();
		self.observe(true, true);
		self.observe_prune_file();
		// from here on an ordinary history
		let compact_den = *self.rng.pick(&[2u64, 3, 5]);
		for u in 0..units {
			if pmmr::n_leaves(self.bk.size) >= max_leaves {
				break;
			}
			let burst = u == 0 && self.rng.chance(1, 3);
			self.unit(burst);
			if self.bk.chain.len() > self.bk.min_idx + 1 && self.rng.chance(1, compact_den) {
				self.compact();
				self.observe(true, true);
				self.observe_prune_file();
			}
			if self.rng.chance(1, 6) {
				self.reopen();
				self.observe(true, true);
				self.observe_prune_file();
			}
		}
		self.backend = None;
	}

	// ---- the non-prunable backend ------------------------------------------------------------

	/// observation of a non-prunable backend: every leaf is there for ever
	fn np_observe(&mut self, committed: bool) {
		let size = self.bk.size;
		let n_leaves = pmmr::n_leaves(size);
		let ref_root = self.reference_root();
		let mut fails: Vec<String> = vec![];
		let mut lines: Vec<(String, String)> = vec![];
		{
			let elems = &self.bk.elems;
			let refh = &self.bk.refb.hashes;
			let rng = &mut *self.rng;
			let be = self.backend.as_mut().unwrap();
			let usize_ = be.unpruned_size();
			let sizes = format!("{} {} 0", be.hash_size(), be.data_size());
			let pmmr: PMMR<'_, T, _> = PMMR::at(be, size);
			let root = pmmr.root();
			if root != ref_root {
				fails.push(format!("non-prunable: root {} differs from the reference root {} at size {}", root_str(root.clone()), root_str(ref_root.clone()), size));
			}
			lines.push(("store root".into(), root_str(root)));
			let nl = pmmr.n_unpruned_leaves();
			if committed {
				if usize_ != size {
					fails.push(format!("non-prunable: unpruned_size {} != reference size {}", usize_, size));
				}
				if nl != n_leaves {
					fails.push(format!("non-prunable: n_unpruned_leaves {} != {} leaves", nl, n_leaves));
				}
				lines.push(("store usize".into(), usize_.to_string()));
				lines.push(("store nleaves_sync".into(), nl.to_string()));
			} else {
				lines.push(("store usize_mid".into(), usize_.to_string()));
				lines.push(("store nleaves".into(), nl.to_string()));
			}
			let i = rng.below(n_leaves + 3);
			lines.push((format!("store nleaves_to {}", i), pmmr.n_unpruned_leaves_to_index(i).to_string()));
			let mut cat: Vec<u8> = vec![];
			for i in 0..n_leaves {
				let p = pmmr::insertion_to_pmmr_index(i);
				if p >= size {
					continue;
				}
				cat.extend_from_slice(&p.to_be_bytes());
				let d = pmmr.get_data(p);
				let h = pmmr.get_hash(p);
				if d.as_ref() != Some(&elems[i as usize]) {
					fails.push(format!("non-prunable: get_data({}) = {:?}", p, d));
				}
				if h != refh.get(p as usize).cloned() || h.is_none() {
					fails.push(format!("non-prunable: get_hash({}) = {:?}", p, h));
				}
				if let Some(d) = d {
					cat.extend_from_slice(&d.ser());
				}
				if let Some(h) = h {
					cat.extend_from_slice(h.as_bytes());
				}
			}
			lines.push(("store leafobs".into(), hex(blake(&cat).as_bytes())));
			if n_leaves > 0 {
				for _ in 0..3 {
					let p = pmmr::insertion_to_pmmr_index(rng.below(n_leaves));
					if p >= size {
						continue;
					}
					lines.push((format!("store data {}", p), match pmmr.get_data(p) {
						Some(d) => hex(&d.ser()),
						None => "none".into(),
					}));
					lines.push((format!("store hash {}", p), opt_hash(pmmr.get_hash(p))));
					match pmmr.merkle_proof(p) {
						Ok(pr) => {
							if let Ok(r) = &ref_root {
								let i = pmmr::n_leaves(p + 1) - 1;
								if pr.verify(*r, &elems[i as usize], p).is_err() {
									fails.push(format!("non-prunable: merkle_proof({}) does not verify against the reference root", p));
								}
							}
							lines.push((
								format!("store proof {}", p),
								format!("{} [{}]", pr.mmr_size, pr.path.iter().map(|h| hex(h.as_bytes())).collect::<Vec<_>>().join(",")),
							));
						}
						Err(_) => {
							fails.push(format!("non-prunable: merkle_proof({}) failed", p));
							lines.push((format!("store proof {}", p), "err".into()));
						}
					}
				}
				for _ in 0..2 {
					let p = rng.below(size + 2);
					if !pmmr::is_leaf(p) {
						lines.push((format!("store node {}", p), opt_hash(pmmr.get_hash(p))));
					}
				}
			}
			lines.push(("store sizes".into(), sizes));
		}
		for (l, r) in lines {
			let tag = self.out.lines;
			self.emit(&format!("{} @{}", l, tag), &r);
		}
		for f in fails {
			self.oracle_fail(f);
		}
	}

	/// histories of a non-prunable backend (`prunable == false`: the kernel MMR - variable-size
	/// elements - and the header MMR): units of optional rewind to an earlier boundary + appends,
	/// commit | discard, reopen; a removal is refused by an assertion (`remove`), nothing changes
	fn np_history(&mut self, units: u64) {
		self.prunable = false;
		self.fresh();
		for u in 0..units {
			let saved = self.bk.clone();
			let n = self.bk.chain.len();
			if n > 1 && self.rng.chance(1, 3) {
				let j = if self.rng.chance(1, 2) { (n - 1).saturating_sub(self.rng.range(0, 3) as usize) } else { self.rng.below(n as u64) as usize };
				self.st.rewinds += 1;
				self.rewind_np(j);
				if self.rng.chance(1, 2) {
					self.np_observe(false);
				}
			}
			let n_app = if u == 0 { self.rng.range(3, 20) } else if self.rng.chance(1, 6) { 0 } else { self.rng.range(1, 9) };
			for _ in 0..n_app {
				self.push_np();
			}
			if self.rng.chance(1, 5) && self.bk.size > 0 {
				// `PMMR::prune` on a non-prunable backend: `remove` asserts
				let p = pmmr::insertion_to_pmmr_index(self.rng.below(pmmr::n_leaves(self.bk.size)));
				if p < self.bk.size {
					let size = self.bk.size;
					let res = {
						let be = self.backend.as_mut().unwrap();
						catch(AssertUnwindSafe(|| PMMR::at(be, size).prune(p)))
					};
					let rhs = match res {
						Ok(Ok(b)) => b.to_string(),
						Ok(Err(_)) => "err".to_string(),
						Err(_) => "panic".to_string(),
					};
					self.st.op("prune(np)");
					self.emit(&format!("store prune {}", p), &rhs);
				}
			}
			if self.rng.chance(1, 3) {
				self.np_observe(false);
			}
			if self.rng.chance(1, 5) {
				self.be().discard();
				self.bk = saved;
				self.emit("store discard", "ok");
				self.st.op("discard");
				self.st.discards += 1;
			} else {
				let ok = {
					let be = self.backend.as_mut().unwrap();
					catch(AssertUnwindSafe(|| be.sync().is_ok()))
				};
				self.emit("store sync", match ok {
					Ok(true) => "ok",
					Ok(false) => "err",
					Err(_) => "panic",
				});
				self.st.op("sync");
				self.st.commits += 1;
				let b = Boundary { size: self.bk.size, unspent: self.bk.unspent.clone() };
				self.bk.chain.push(b);
			}
			self.np_observe(true);
			if self.rng.chance(1, if self.tamper_sizes { 2 } else { 5 }) {
				self.backend = None;
				self.tamper_size_file();
				self.open();
				self.emit("store reopen", "ok");
				self.st.op("reopen");
				self.st.reopens += 1;
				self.np_observe(true);
			}
		}
		self.backend = None;
		self.prunable = true;
	}

	fn push_np(&mut self) {
		let e = T::gen(self.rng);
		let size = self.bk.size;
		let res = {
			let be = self.backend.as_mut().unwrap();
			catch(AssertUnwindSafe(|| {
				let mut p = PMMR::at(be, size);
				p.push(&e).map(|_| p.size)
			}))
		};
		let rhs = match res {
			Ok(Ok(sz)) => {
				self.bk.unspent.insert(size);
				self.bk.elems.push(e.clone());
				self.bk.size = sz;
				let rsz = {
					let mut p = PMMR::at(&mut self.bk.refb, size);
					p.push(&e).map(|_| p.size)
				};
				if rsz != Ok(sz) {
					self.oracle_fail(format!("non-prunable: push at size {} gave size {} but the reference {:?}", size, sz, rsz));
				}
				sz.to_string()
			}
			Ok(Err(_)) => "err".to_string(),
			Err(_) => "panic".to_string(),
		};
		self.st.op("push");
		self.emit(&format!("store push {}", hex(&e.ser())), &rhs);
	}

	fn rewind_np(&mut self, j: usize) {
		let target = self.bk.chain[j].clone();
		let bitmap = Bitmap::new();
		let size = self.bk.size;
		let res = {
			let be = self.backend.as_mut().unwrap();
			catch(AssertUnwindSafe(|| {
				let mut p = PMMR::at(be, size);
				p.rewind(target.size, &bitmap).map(|_| p.size)
			}))
		};
		let rhs = match res {
			Ok(Ok(sz)) => sz.to_string(),
			Ok(Err(_)) => "err".to_string(),
			Err(_) => "panic".to_string(),
		};
		self.emit(&format!("store rewind {} []", target.size), &rhs);
		self.st.op("rewind");
		let _ = self.bk.refb.rewind(target.size, &bitmap);
		self.bk.size = target.size;
		self.bk.unspent = target.unspent.clone();
		self.bk.elems.truncate(pmmr::n_leaves(target.size) as usize);
		self.bk.chain.truncate(j + 1);
	}


	// ---- chains of compactions ---------------------------------------------------------------

	/// One history of the chain family.  `l` leaves in the first block; leaf `a` (and, for `both`,
	/// nothing else yet) is spent by the next block; blocks follow so that the cutoff of the first
	/// compaction lies after the spend and the spend is outside the horizon: `a` becomes a pruned
	/// root of a single leaf.  Then the sibling of `a` is spent (created first if `a` is the last
	/// leaf of an odd `l`), blocks, second compaction: `pos_to_rm` finds the sibling previously
	/// pruned and rolls both up into their parent.  Then the neighbouring pair is spent and a third
	/// compaction rolls up to height 2.  `cut_on_b1`: the first compaction's cutoff is the first
	/// block's boundary itself when `l` is odd (the cutoff position is the lone last leaf: unspent,
	/// or spent inside the horizon) - the spend of `a` is then inside the horizon and the leaf
	/// only goes at the second compaction.  Reopen after some of the compactions; a rewind inside
	/// the horizon and a re-spend at the end.
	fn chain_history(&mut self, l: u64, a: u64, cut_on_b1: bool, reopen_mask: u64) {
		self.fresh();
		self.st.chain_histories += 1;
		let leaf = |i: u64| pmmr::insertion_to_pmmr_index(i);
		self.plain_unit(l, &[], true); // boundary 1 = B1
		let b1 = self.bk.chain.len() - 1;
		self.plain_unit(1, &[leaf(a)], true); // the spend of `a`, one new leaf
		self.plain_unit(2, &[], true);
		let c1 = if cut_on_b1 { b1 } else { self.bk.chain.len() - 1 };
		self.compact_at(c1);
		self.observe(true, true);
		self.observe_prune_file();
		if reopen_mask & 1 != 0 {
			self.reopen();
			self.observe(true, true);
		}
		// the sibling of `a` (it exists by now: at least three more leaves were appended)
		let sib = a ^ 1;
		if self.bk.unspent.contains(&leaf(sib)) {
			self.plain_unit(1, &[leaf(sib)], true);
		} else {
			self.plain_unit(1, &[], true);
		}
		self.plain_unit(1, &[], true);
		let head = self.bk.chain.len() - 1;
		self.compact_at(head);
		self.observe(true, true);
		self.observe_prune_file();
		if reopen_mask & 2 != 0 {
			self.reopen();
			self.observe(true, true);
		}
		// a boundary whose last leaf is a lone leaf that is spent for good when the cutoff falls on it:
		// the block that makes the leaf count odd spends its own last leaf
		{
			let nl = pmmr::n_leaves(self.bk.size);
			let add = if nl % 2 == 0 { 1 } else { 2 };
			self.plain_unit(add, &[leaf(nl + add - 1)], true);
			let head = self.bk.chain.len() - 1;
			self.compact_at(head);
			self.observe(true, true);
			self.observe_prune_file();
		}
		// the neighbouring pair: rolls the parent up into the height-2 root
		let base = (a / 4) * 4;
		let nl = pmmr::n_leaves(self.bk.size);
		let more: Vec<u64> = (base..base + 4).filter(|i| *i < nl && self.bk.unspent.contains(&leaf(*i))).map(leaf).collect();
		self.plain_unit(2, &more, true);
		// this spend stays inside the horizon of the third compaction: cutoff one block back
		let sp: Vec<u64> = self.bk.unspent.iter().cloned().take(1).collect();
		self.plain_unit(1, &sp, true);
		let head = self.bk.chain.len() - 1;
		self.compact_at(head - 1);
		self.observe(true, true);
		self.observe_prune_file();
		if reopen_mask & 4 != 0 {
			self.reopen();
			self.observe(true, true);
			self.observe_prune_file();
		}
		// a fork inside the horizon: the protected spend is undone, the sibling of that leaf goes
		let saved = self.bk.clone();
		self.readded.clear();
		let n = self.bk.chain.len();
		self.rewind_to(n - 2);
		let re = self.readded.clone();
		let mut spends: Vec<u64> = vec![];
		for p in re {
			let i = pmmr::n_leaves(p + 1) - 1;
			let s = leaf(i ^ 1);
			if self.bk.unspent.contains(&s) {
				spends.push(s);
			}
		}
		self.push();
		for p in spends {
			self.prune(p);
		}
		if a % 3 == 0 {
			self.discard(saved);
		} else {
			self.sync();
		}
		self.observe(true, true);
		let head = self.bk.chain.len() - 1;
		self.compact_at(head);
		self.observe(true, true);
		self.observe_prune_file();
		self.reopen();
		self.observe(true, true);
		self.plain_unit(2, &[], true);
		self.backend = None;
	}

	fn chain_family(&mut self, max_l: u64) {
		let mut k = 0u64;
		for l in 2..=max_l {
			// `a`: both members of the first pair, of a middle pair, of the last pair, and the lone
			// last leaf of an odd count
			let mut cands: Vec<u64> = vec![0, 1];
			if l >= 4 {
				cands.push((l / 2) & !1);
				cands.push(((l / 2) & !1) + 1);
			}
			cands.push(l - 1);
			if l >= 2 {
				cands.push(l - 2);
			}
			cands.sort();
			cands.dedup();
			for a in cands {
				if a >= l {
					continue;
				}
				k += 1;
				self.chain_history(l, a, false, k % 8);
				if l % 2 == 1 {
					// cutoff on the first boundary: its position is the lone last leaf
					self.chain_history(l, a, true, (k + 3) % 8);
				}
			}
		}
	}

	// ---- the leaf-set snapshot (txhashset zip) -----------------------------------------------

	/// What `Chain::txhashset_read` and `txhashset_write` do to one backend: in a unit of work
	/// rewound to committed boundary `j` (block by block or at once; `j` may be the head) the leaf
	/// set is written to a side file tagged with a header hash (`LeafSet::snapshot`), the unit is
	/// discarded; the files as they are then (the zip) are opened with that header
	/// (`PMMRBackend::new(.., Some(header))`: `copy_snapshot` puts the snapshot in place of the leaf
	/// set), rewound to the boundary with nothing to re-add, committed.  From then on the history
	/// continues from boundary `j`.  `with_file = false`: a header nobody took a snapshot for - a
	/// plain reopen.
	fn snapshot_roundtrip(&mut self, with_file: bool) {
		let n = self.bk.chain.len();
		if n < 2 {
			return;
		}
		let lo = self.bk.min_idx;
		let j = if self.rng.chance(1, 3) { n - 1 } else { self.rng.range(lo as u64, (n - 1) as u64) as usize };
		self.st.snapshots += 1;
		if j == n - 1 {
			self.st.snapshots_at_head += 1;
		}
		if self.compacted_once {
			self.st.snapshots_after_compaction += 1;
		}
		let mut header = grin_core::core::BlockHeader::default();
		// the header hash covers the cycle of the proof of work only: a header of its own per snapshot
		header.height = self.st.snapshots;
		header.pow.nonce = self.st.snapshots;
		let uniq = self.st.snapshots + 100_000 * self.st.histories;
		if header.pow.proof.nonces.is_empty() {
			header.pow.proof.nonces.push(uniq);
		} else {
			header.pow.proof.nonces[0] = uniq;
		}
		let tag = hex(&header.hash().as_bytes()[..6]);
		if !with_file {
			self.st.snapshot_missing_file += 1;
			self.backend = None;
			self.backend = Some(PMMRBackend::new(&self.dir, true, ProtocolVersion(1), Some(&header)).unwrap());
			self.emit("store reopen", "ok");
			self.st.op("reopen(header without snapshot)");
			self.hist.push("reopen(header, no snapshot file)".into());
			self.check(true);
			self.deep_oracle("reopen", true);
			self.observe(true, true);
			return;
		}
		let saved = self.bk.clone();
		self.readded.clear();
		if j < n - 1 {
			if self.rng.chance(1, 2) {
				let mut k = n - 1;
				while k > j {
					k -= 1;
					self.rewind_to(k);
				}
			} else {
				self.rewind_to(j);
			}
		}
		let target = self.bk.chain[j].clone();
		{
			let size = self.bk.size;
			let be = self.backend.as_mut().unwrap();
			let r = PMMR::at(be, size).snapshot(&header);
			if r.is_err() {
				self.oracle_fail(format!("snapshot at boundary {} failed: {:?}", j, r));
			}
		}
		self.emit(&format!("store snapshot {}", tag), "ok");
		self.st.op("snapshot");
		self.hist.push(format!("snapshot@{}", target.size));
		self.discard(saved);
		// the receiving side: the same files, opened with the header
		self.backend = None;
		self.backend = Some(PMMRBackend::new(&self.dir, true, ProtocolVersion(1), Some(&header)).unwrap());
		self.emit(&format!("store reopen_snap {}", tag), "ok");
		self.st.op("reopen_snap");
		self.hist.push("reopen with snapshot header".into());
		// its leaf set is the one of the boundary; the files are still the long ones
		self.bk.unspent = target.unspent.clone();
		self.readded.clear();
		self.rewind_to(j);
		self.sync();
		self.observe(true, true);
		self.observe_prune_file();
		// the leaf-set file on disk is the snapshot: a plain reopen must find the same state
		if self.rng.chance(1, 2) {
			self.reopen();
			self.observe(true, true);
		}
	}

	fn snapshot_history(&mut self, units: u64, max_leaves: u64) {
		self.fresh();
		let compact_den = *self.rng.pick(&[2u64, 4, 6]);
		for u in 0..units {
			if pmmr::n_leaves(self.bk.size) >= max_leaves {
				break;
			}
			self.unit(u == 0);
			if self.bk.chain.len() > 1 && self.rng.chance(1, compact_den) {
				self.compact();
				self.observe(true, true);
				self.observe_prune_file();
			}
			if u >= 1 && self.rng.chance(1, 3) {
				let with_file = !self.rng.chance(1, 8);
				self.snapshot_roundtrip(with_file);
			}
		}
		self.backend = None;
	}

	fn history(&mut self, units: u64, max_leaves: u64) {
		self.fresh();
		// some histories compact often (short rewinds), some rarely (deep rewinds possible)
		let compact_den = *self.rng.pick(&[3u64, 5, 5, 12]);
		for u in 0..units {
			if pmmr::n_leaves(self.bk.size) >= max_leaves {
				break;
			}
			let burst = u == 0 || self.rng.chance(1, 10);
			self.unit(burst);
			if self.bk.chain.len() > 1 && self.rng.chance(1, 14) {
				self.spend_everything_then_compact();
				// no reopen in this round
				continue;
			}
			if self.bk.chain.len() > 1 && self.rng.chance(1, compact_den) {
				self.compact();
				self.observe(true, true);
				self.observe_prune_file();
			}
			if self.rng.chance(1, 8) {
				self.reopen();
				self.observe(true, true);
				self.observe_prune_file();
			}
		}
		self.backend = None;
	}
}

/// did the unit remove a leaf that was unspent when it started (after its rewind)?
fn saved_unspent_removed(now: &BTreeSet<u64>, before: &BTreeSet<u64>) -> bool {
	before.iter().any(|p| !now.contains(p))
}

fn pl_str(pl: &PruneList) -> String {
	format!(
		"{} {} {}",
		nat_list(&pl.to_vec()),
		nat_list(pl.shift_cache()),
		nat_list(pl.leaf_shift_cache())
	)
}

/// direct `PruneList` stream: ascending appends of leaves / subtree roots, queries at every
/// position, reopen (rebuild of the caches from the bitmap)
fn prune_list_stream(out: &mut Out, rng: &mut Rng, st: &mut Stats, rounds: u64, dir: &PathBuf) {
	for round in 0..rounds {
		let mut pl = PruneList::empty();
		out.raw("store pl_new");
		let n_leaves = rng.range(4, 80);
		let size = pmmr::insertion_to_pmmr_index(n_leaves);
		let density = rng.range(1, 9);
		let mut i = 0u64;
		let mut appended = 0u64;
		while i < n_leaves {
			if rng.below(10) < density {
				let use_root = rng.chance(1, 5);
				let mut pos = pmmr::insertion_to_pmmr_index(i);
				let mut adv = 1;
				if use_root && i % 2 == 0 {
					// an aligned subtree root entirely inside the MMR
					let h = rng.range(1, 3);
					if i % (1 << h) == 0 && i + (1 << h) <= n_leaves {
						let last = pmmr::insertion_to_pmmr_index(i + (1 << h) - 1);
						pos = last + h;
						adv = 1 << h;
					}
				}
				// "prune list append only"
				let max = pl.to_vec().last().cloned().unwrap_or(0);
				if pos >= max {
					match catch(AssertUnwindSafe(|| pl.append(pos))) {
						Ok(_) => out.line(&format!("store pl_append {}", pos), &pl_str(&pl)),
						Err(_) => out.line(&format!("store pl_append {}", pos), "panic"),
					}
					appended += 1;
					st.op("pl_append");
				}
				i += adv;
			} else {
				i += 1;
			}
		}
		for p in 0..size + 3 {
			out.line(
				&format!("store pl_q {}", p),
				&format!(
					"{} {} {} {}",
					pl.get_shift(p),
					pl.get_leaf_shift(p),
					pl.is_pruned(p),
					pl.is_pruned_root(p)
				),
			);
		}
		out.line(
			"store pl_total",
			&format!("{} {}", pl.get_total_shift(), pl.get_total_leaf_shift()),
		);
		// malformed appends: at / left of the last root the "prune list append only" assertion
		// fires (a panic, the list untouched); one position right of it is fine
		let max = pl.to_vec().last().cloned().unwrap_or(0);
		if max > 0 {
			let mut tries = vec![max - 1, rng.below(max)];
			if rng.chance(1, 2) {
				tries.push(max);
			}
			for p in tries {
				match catch(AssertUnwindSafe(|| pl.append(p))) {
					Ok(_) => {
						st.op("pl_try(ok)");
						out.line(&format!("store pl_try {}", p), &pl_str(&pl))
					}
					Err(_) => {
						st.op("pl_try(panic)");
						out.line(&format!("store pl_try {}", p), "panic")
					}
				}
			}
		}
		// flush to a file and reopen: caches rebuilt from the bitmap
		let path = dir.join(format!("pl_{}.bin", round));
		let bitmap: Bitmap = pl.to_vec().iter().map(|x| *x as u32).collect();
		let mut pl2 = PruneList::new(Some(path.clone()), bitmap);
		pl2.flush().unwrap();
		let pl3 = PruneList::open(&path).unwrap();
		out.line("store pl_reopen", &pl_str(&pl3));
		if pl_str(&pl3) != pl_str(&pl) {
			out.raw(&format!(
				"#ORACLE-FAIL C08 prune list changed by flush+open: {} -> {}",
				pl_str(&pl),
				pl_str(&pl3)
			));
		}
		let _ = appended;
	}
}

fn print_stats(out: &mut Out, name: &str, st: &Stats) {
	let ops: Vec<String> = st.ops.iter().map(|(k, v)| format!("{}={}", k, v)).collect();
	out.raw(&format!("#STAT [{}] ops: {}", name, ops.join(" ")));
	let pats: Vec<String> = st.patterns.iter().map(|(k, v)| format!("{}={}", k, v)).collect();
	out.raw(&format!("#STAT [{}] spend patterns: {}", name, pats.join(" ")));
	let pls = &st.prune_list_sizes;
	out.raw(&format!(
		"#STAT [{}] histories={} commits={} discards={} reopens={} compactions={} (removed data: {}) prune-list sizes after compaction: max={} mean={:.1}",
		name,
		st.histories,
		st.commits,
		st.discards,
		st.reopens,
		st.compactions,
		st.compactions_removed,
		pls.iter().max().cloned().unwrap_or(0),
		if pls.is_empty() { 0.0 } else { pls.iter().sum::<u64>() as f64 / pls.len() as f64 }
	));
	out.raw(&format!(
		"#STAT [{}] scripted histories={} compactions leaving the data file with 0 elements={} of which followed by appends before any reopen={} compactions with every leaf spent={}",
		name, st.scripted, st.compactions_data_empty, st.empty_then_append, st.compactions_all_spent
	));
	out.raw(&format!(
		"#STAT [{}] rewinds={} (stepwise {}; mean depth {:.2} boundaries; after a compaction {}) max leaves={} oracle failures={}",
		name,
		st.rewinds,
		st.rewinds_stepwise,
		if st.rewinds == 0 { 0.0 } else { st.rewind_depth_sum as f64 / st.rewinds as f64 },
		st.rewinds_over_compacted,
		st.max_leaves,
		st.oracle_fails
	));
}

fn print_kind_stats(out: &mut Out, name: &str, st: &Stats) {
	let ku: Vec<String> = st.kind_units.iter().map(|(k, v)| format!("{}={}", k, v)).collect();
	let kr: Vec<String> = st.unit_kinds_random.iter().map(|(k, v)| format!("{}={}", k, v)).collect();
	out.raw(&format!(
		"#STAT [{}] unit-kind family: histories={} units by kind (R remove-only, A append-only, B both, E empty): {}; rewinds with target position == current size: {} (re-adding leaves: {}); rewind-only units committed then reopened: {}; committed units of the random histories by kind: {}; reference oracle evaluated {} times (after every step)",
		name,
		st.kind_histories,
		ku.join(" "),
		st.rewinds_same_size,
		st.rewinds_same_size_readding,
		st.rewind_only_commits,
		kr.join(" "),
		st.oracle_evals
	));
}

fn new_run<'a, T: Kind>(out: &'a mut Out, rng: &'a mut Rng, st: &'a mut Stats, dir: PathBuf) -> Run<'a, T> {
	Run {
		out,
		rng,
		st,
		dir,
		backend: None,
		bk: Book {
			size: 0,
			elems: vec![],
			unspent: BTreeSet::new(),
			chain: vec![],
			min_idx: 0,
			refb: VecBackend::new(),
		},
		readded: vec![],
		compacted_once: false,
		empty_data_pending: false,
		hist: vec![],
		fails_in_history: 0,
		protected_once: BTreeSet::new(),
		readded_protected: BTreeSet::new(),
		mute: false,
		prunable: true,
		tamper_sizes: false,
	}
}

fn run_kind<T: Kind>(out: &mut Out, rng: &mut Rng, histories: u64, units: u64, max_leaves: u64) {
	let work = std::env::var("VERIF_WORK").expect("VERIF_WORK not set");
	let dir = PathBuf::from(work).join(format!("store_{}", T::NAME));
	let mut st = Stats::default();
	{
		let mut run: Run<'_, T> = new_run(out, rng, &mut st, dir);
		run.scripted();
		run.unit_kinds(if tier_thorough() { 3 } else { 2 });
		for _ in 0..histories {
			run.history(units, max_leaves);
		}
	}
	print_stats(out, T::NAME, &st);
	print_kind_stats(out, T::NAME, &st);
	print_deep_stats(out, T::NAME, &st);
}

fn print_deep_stats(out: &mut Out, name: &str, st: &Stats) {
	out.raw(&format!(
		"#STAT [{}] deep oracle (every unspent leaf: data, hash, proof verified against the reference root, ancestors and path siblings in the hash file; no prune-list entry over a leaf a rewind can bring back): evaluations={} proofs built and verified={} protected leaves checked against the prune list={}; compactions whose cutoff position is a leaf spent inside the horizon={}; rewinds that un-spent a leaf a compaction had protected={}; spends of the sibling of such a leaf={}",
		name,
		st.deep_evals,
		st.deep_proofs,
		st.deep_protected,
		st.compact_cutoff_leaf_protected,
		st.rewinds_unspend_protected,
		st.sibling_of_readded_spent
	));
	let nth: Vec<String> = st.compact_nth.iter().map(|(k, v)| format!("{}{}={}", k, if *k >= 4 { "+" } else { "" }, v)).collect();
	out.raw(&format!(
		"#STAT [{}] compaction chains: compactions by their number inside the history: {}; single-leaf pruned roots created={} single-leaf pruned roots of an earlier compaction rolled up by a later one (pos_to_rm: sibling previously pruned)={} higher roots rolled up={}; cutoff position on a leaf (MMR of the cutoff size ends in a lone leaf): that leaf unspent={} spent for good={} spent inside the horizon (protected)={}; cutoff position on a parent={}; chain-family histories={}; snapshot round trips={} (at the head {}, after a compaction {}, header without a snapshot file {})",
		name, nth.join(" "), st.lone_leaf_roots_created, st.lone_leaf_roots_rolled_up, st.higher_roots_rolled_up,
		st.cutoff_lone_leaf_unspent, st.cutoff_lone_leaf_spent, st.cutoff_lone_leaf_protected, st.cutoff_pos_parent,
		st.chain_histories, st.snapshots, st.snapshots_at_head, st.snapshots_after_compaction, st.snapshot_missing_file
	));
}

/// `store cutoff`: the deterministic family around the compaction cutoff, all boundary leaf counts
/// `1..=max_l`, both element kinds
fn run_cutoff<T: Kind>(out: &mut Out, rng: &mut Rng, max_l: u64) {
	let work = std::env::var("VERIF_WORK").expect("VERIF_WORK not set");
	let dir = PathBuf::from(work).join(format!("cutoff_{}", T::NAME));
	let mut st = Stats::default();
	{
		let mut run: Run<'_, T> = new_run(out, rng, &mut st, dir);
		run.cutoff_family(max_l);
	}
	print_stats(out, &format!("cutoff-{}", T::NAME), &st);
	out.raw(&format!(
		"#STAT [cutoff-{}] cutoff family: histories={} boundary leaf counts 1..={} (cutoff position is a leaf: {} histories, a parent: {}); each: spend of the boundary's last leaf by a later block, check_compact at that boundary with the spend in rewind_rm_pos, rewind to before the spend (single step / block by block), sibling spent, check_compact at the head, reopen, final spend + compaction + reopen",
		T::NAME, st.cutoff_histories, max_l, st.cutoff_boundary_on_leaf, st.cutoff_boundary_on_parent
	));
	print_deep_stats(out, &format!("cutoff-{}", T::NAME), &st);
}

/// `store siblings`: the deterministic families around sibling pairs at a compaction boundary and
/// around the boundary's last leaf, both element kinds
fn run_siblings<T: Kind>(out: &mut Out, rng: &mut Rng, max_l: u64, max_last: u64) {
	let work = std::env::var("VERIF_WORK").expect("VERIF_WORK not set");
	let dir = PathBuf::from(work).join(format!("siblings_{}", T::NAME));
	let mut st = Stats::default();
	{
		let mut run: Run<'_, T> = new_run(out, rng, &mut st, dir);
		run.sibling_family(max_l, max_last);
	}
	print_stats(out, &format!("siblings-{}", T::NAME), &st);
	out.raw(&format!(
		"#STAT [siblings-{}] sibling family: histories={} (leaf counts 2..={}, first / middle / last pair; protected leaf is the LEFT one: {}, the RIGHT one: {}); after the compaction the spent sibling is a single-leaf pruned root next to the protected leaf in {} of them; each: sibling spent by the boundary block, the leaf by a later block, check_compact at the boundary, rewind across the leaf's spend (single step / block by block), committed alone or with appends, reopen, final spend + compaction + reopen. last-leaf family: histories={} (leaf counts 1..={}, exactly one block rewound whose spends hold the boundary's last leaf; that leaf a lone single-leaf peak with 1-based position == boundary size: {}), committed + reopened / discarded",
		T::NAME, st.sibling_histories, max_l, st.sibling_left_protected, st.sibling_right_protected,
		st.sibling_lone_root_next_to_protected, st.last_leaf_histories, max_last, st.last_leaf_is_lone_peak
	));
	print_deep_stats(out, &format!("siblings-{}", T::NAME), &st);
}

/// `store bulk`: large un-synced batches after a rewind, rolled back
fn run_bulk<T: Kind>(out: &mut Out, rng: &mut Rng, thorough: bool) {
	let work = std::env::var("VERIF_WORK").expect("VERIF_WORK not set");
	let dir = PathBuf::from(work).join(format!("bulk_{}", T::NAME));
	let mut st = Stats::default();
	{
		let mut run: Run<'_, T> = new_run(out, rng, &mut st, dir);
		// tied to the model by the driver: 64 KiB batches (and 1 MiB for the 683-byte kind, thorough)
		run.bulk_history(64 * 1024, false, false);
		run.bulk_history(64 * 1024, true, false);
		if thorough && T::NAME == "rp" {
			run.bulk_history(1024 * 1024, true, true);
		}
		// oracle-only (byte comparisons, view comparison, reference and deep oracle; no driver lines)
		run.mute = true;
		if thorough {
			run.bulk_history(1024 * 1024, true, false);
			run.bulk_history(4 * 1024 * 1024, false, true);
		} else {
			run.bulk_history(1024 * 1024, true, true);
		}
		run.mute = false;
	}
	print_stats(out, &format!("bulk-{}", T::NAME), &st);
	out.raw(&format!(
		"#STAT [bulk-{}] bulk batches={} (discarded {}); batches of 64 KiB tied to the model by the driver, batches of {} oracle-only; largest un-synced hash buffer {} bytes, data buffer {} bytes; byte-for-byte comparisons of all files of the directory: {}",
		T::NAME, st.bulk_batches, st.bulk_discarded, if thorough { "1 MiB and 4 MiB" } else { "1 MiB" }, st.bulk_max_hash_buf, st.bulk_max_data_buf, st.bulk_file_compares
	));
	print_deep_stats(out, &format!("bulk-{}", T::NAME), &st);
}



/// `store chains`: the deterministic family of two, three and four compactions in one history
fn run_chains<T: Kind>(out: &mut Out, rng: &mut Rng, max_l: u64) {
	let work = std::env::var("VERIF_WORK").expect("VERIF_WORK not set");
	let dir = PathBuf::from(work).join(format!("chains_{}", T::NAME));
	let mut st = Stats::default();
	{
		let mut run: Run<'_, T> = new_run(out, rng, &mut st, dir);
		run.chain_family(max_l);
	}
	print_stats(out, &format!("chains-{}", T::NAME), &st);
	print_deep_stats(out, &format!("chains-{}", T::NAME), &st);
}

/// `store snapshot`: histories with leaf-set snapshot round trips
fn run_snapshot<T: Kind>(out: &mut Out, rng: &mut Rng, histories: u64, units: u64) {
	let work = std::env::var("VERIF_WORK").expect("VERIF_WORK not set");
	let dir = PathBuf::from(work).join(format!("snap_{}", T::NAME));
	let mut st = Stats::default();
	{
		let mut run: Run<'_, T> = new_run(out, rng, &mut st, dir);
		for _ in 0..histories {
			run.snapshot_history(units, 160);
		}
	}
	print_stats(out, &format!("snapshot-{}", T::NAME), &st);
	print_deep_stats(out, &format!("snapshot-{}", T::NAME), &st);
}

/// `store imported`: stores filled through the import path of state sync, then ordinary histories
fn run_import<T: Kind>(out: &mut Out, rng: &mut Rng, histories: u64, units: u64) {
	let work = std::env::var("VERIF_WORK").expect("VERIF_WORK not set");
	let dir = PathBuf::from(work).join(format!("import_{}", T::NAME));
	let mut st = Stats::default();
	{
		let mut run: Run<'_, T> = new_run(out, rng, &mut st, dir);
		for k in 0..histories {
			// small leaf counts first (every shape of a few leaves), then larger ones
			let n = if k < 12 { 2 + k } else { run.rng.range(8, 70) };
			run.import_history(n, units, 140);
		}
	}
	print_stats(out, &format!("import-{}", T::NAME), &st);
	out.raw(&format!(
		"#STAT [import-{}] import family: histories={} pruned subtrees pushed={} (max height {}) of which halves of a spent subtree={} leaves pushed and removed from the leaf set at once={}; each followed by commit, reopen and an ordinary history with the import boundary as the lowest rewind target",
		T::NAME, st.imports, st.import_subtrees, st.import_max_height, st.import_half, st.import_spent_leaves
	));
	print_deep_stats(out, &format!("import-{}", T::NAME), &st);
}

/// `store nonprunable`: histories of a backend opened with `prunable == false`
fn run_np<T: Kind>(out: &mut Out, rng: &mut Rng, histories: u64, units: u64) {
	let work = std::env::var("VERIF_WORK").expect("VERIF_WORK not set");
	let dir = PathBuf::from(work).join(format!("np_{}", T::NAME));
	let mut st = Stats::default();
	{
		let mut run: Run<'_, T> = new_run(out, rng, &mut st, dir);
		for _ in 0..histories {
			run.np_history(units);
		}
	}
	print_stats(out, &format!("np-{}", T::NAME), &st);
}

/// Malformed import stream (model tie only): `push_pruned_subtree` at leaf height, for two sibling
/// subtrees in a row (the second is refused: its left sibling disappeared under the rolled-up
/// parent), mixed with pushes, `remove_from_leaf_set`, `reset_prune_list`, commits, discards,
/// reopen; the handle keeps whatever size the code left in `PMMR::size`.
fn import_rough<T: Kind>(out: &mut Out, rng: &mut Rng, histories: u64, steps: u64) {
	let work = std::env::var("VERIF_WORK").expect("VERIF_WORK not set");
	let dir = PathBuf::from(work).join(format!("import_rough_{}", T::NAME));
	let mut ops: BTreeMap<&'static str, u64> = BTreeMap::new();
	for _ in 0..histories {
		let _ = std::fs::remove_dir_all(&dir);
		std::fs::create_dir_all(&dir).unwrap();
		let mut be: PMMRBackend<T> = PMMRBackend::new(&dir, true, ProtocolVersion(1), None).unwrap();
		out.line(&format!("store new {}", T::NAME), "ok");
		let mut size = 0u64;
		let mut synced = true;
		let mut broken = false;
		// highest position handed to the prune list (in memory / as of the last sync): a second
		// append at or below it trips the "prune list append only" assertion, which the model
		// treats as a precondition
		let mut last_pruned: Option<u64> = None;
		let mut last_pruned_synced: Option<u64> = None;
		for _ in 0..steps {
			let r = rng.below(100);
			if r < 35 {
				let e = T::gen(rng);
				let res = catch(AssertUnwindSafe(|| {
					let mut p = PMMR::at(&mut be, size);
					p.push(&e).map(|_| p.size)
				}));
				let rhs = match res {
					Ok(Ok(sz)) => {
						size = sz;
						sz.to_string()
					}
					Ok(Err(_)) => "err".to_string(),
					Err(_) => "panic".to_string(),
				};
				out.line(&format!("store xpush {}", hex(&e.ser())), &rhs);
				synced = false;
				*ops.entry("xpush").or_insert(0) += 1;
			} else if r < 60 {
				// a pruned subtree of height h whose leaves would be the next 2^h leaves; `size` must be
				// a leaf boundary for the position to mean anything
				if size != pmmr::round_up_to_leaf_pos(size) || broken {
					continue;
				}
				let nl = pmmr::n_leaves(size);
				let maxh = if nl == 0 { 3 } else { (nl.trailing_zeros() as u64).min(3) };
				let h = rng.range(0, maxh);
				let pos0 = size + (2u64 << h) - 2;
				if last_pruned.map_or(false, |l| pos0 <= l) {
					*ops.entry("xpushpruned-skipped(same position twice)").or_insert(0) += 1;
					continue;
				}
				last_pruned = Some(pos0);
				let hash = blake(&rng.bytes(8));
				let mut after = size;
				let res = catch(AssertUnwindSafe(|| {
					let mut p = PMMR::at(&mut be, size);
					let r = p.push_pruned_subtree(hash, pos0);
					after = p.size;
					r
				}));
				let rhs = match res {
					Ok(Ok(())) => {
						size = after;
						after.to_string()
					}
					Ok(Err(_)) => {
						size = after;
						*ops.entry("xpushpruned-refused").or_insert(0) += 1;
						// the handle is at `pos0 + 1`, not a leaf boundary: only discard makes sense now
						broken = true;
						"err".to_string()
					}
					Err(_) => "panic".to_string(),
				};
				out.line(&format!("store xpushpruned {} {}", pos0, hex(hash.as_bytes())), &rhs);
				synced = false;
				*ops.entry(if h == 0 { "xpushpruned(leaf)" } else { "xpushpruned" }).or_insert(0) += 1;
			} else if r < 68 {
				if size == 0 {
					continue;
				}
				let p = pmmr::insertion_to_pmmr_index(rng.below(pmmr::n_leaves(size)));
				PMMR::at(&mut be, size).remove_from_leaf_set(p);
				out.line(&format!("store rmleaf {}", p), "ok");
				synced = false;
				*ops.entry("rmleaf").or_insert(0) += 1;
			} else if r < 78 {
				if broken {
					continue;
				}
				let ok = catch(AssertUnwindSafe(|| be.sync().is_ok()));
				out.line("store sync", match ok {
					Ok(true) => "ok",
					Ok(false) => "err",
					Err(_) => "panic",
				});
				synced = true;
				last_pruned_synced = last_pruned;
				*ops.entry("sync").or_insert(0) += 1;
			} else if r < 86 {
				be.discard();
				out.line("store discard", "ok");
				// the prune list is not part of what `discard` restores: reopen as the node does
				drop(be);
				be = PMMRBackend::new(&dir, true, ProtocolVersion(1), None).unwrap();
				out.line("store reopen", "ok");
				size = be.unpruned_size();
				out.line(&format!("store xsetsize {}", size), "ok");
				synced = true;
				broken = false;
				last_pruned = last_pruned_synced;
				*ops.entry("discard+reopen").or_insert(0) += 1;
			} else if r < 88 {
				if !synced {
					continue;
				}
				PMMR::at(&mut be, size).reset_prune_list();
				last_pruned = None;
				last_pruned_synced = None;
				out.line("store resetpl", "ok");
				*ops.entry("resetpl").or_insert(0) += 1;
			} else {
				let tag = out.lines;
				out.line(&format!("store xsizes @{}", tag), &format!("{} {}", be.hash_size(), be.data_size()));
				out.line(&format!("store usize_mid @{}", tag), &be.unpruned_size().to_string());
				if broken {
					continue;
				}
				let pmmr: PMMR<'_, T, _> = PMMR::at(&mut be, size);
				out.line(&format!("store xroot @{}", tag), &root_str(pmmr.root()));
				let leaves: Vec<u64> = pmmr.leaf_pos_iter().collect();
				out.line(&format!("store xleaves @{}", tag), &nat_list(&leaves));
				let mut cat: Vec<u8> = vec![];
				for i in 0..pmmr::n_leaves(size) {
					let p = pmmr::insertion_to_pmmr_index(i);
					if p >= size {
						continue;
					}
					cat.extend_from_slice(&p.to_be_bytes());
					if let Some(d) = pmmr.get_data(p) {
						cat.extend_from_slice(&d.ser());
					}
					if let Some(h) = pmmr.get_hash(p) {
						cat.extend_from_slice(h.as_bytes());
					}
				}
				out.line(&format!("store xleafobs @{}", tag), &hex(blake(&cat).as_bytes()));
				let mut nones: Vec<u64> = vec![];
				let mut cat: Vec<u8> = vec![];
				for p in 0..size {
					match pmmr.get_from_file(p) {
						Some(h) => cat.extend_from_slice(h.as_bytes()),
						None => nones.push(p),
					}
				}
				out.line(&format!("store xfile @{}", tag), &format!("{} {}", nat_list(&nones), hex(blake(&cat).as_bytes())));
				*ops.entry("observe").or_insert(0) += 1;
			}
		}
	}
	let v: Vec<String> = ops.iter().map(|(k, v)| format!("{}={}", k, v)).collect();
	out.raw(&format!("#STAT [import-rough-{}] malformed import ops: {}", T::NAME, v.join(" ")));
}

/// Out-of-protocol stream (model tie only, no reference oracle): rewinds to any earlier committed
/// size (also below a compaction cutoff) with arbitrary `rewind_rm_pos`, rewinds after appends
/// inside a unit, compaction with arbitrary `rewind_rm_pos`.  The model is a model of the code,
/// not of the protocol, so it has to follow the implementation here too.
fn rough<T: Kind>(out: &mut Out, rng: &mut Rng, histories: u64, steps: u64) {
	let work = std::env::var("VERIF_WORK").expect("VERIF_WORK not set");
	let dir = PathBuf::from(work).join(format!("rough_{}", T::NAME));
	let mut ops: BTreeMap<&'static str, u64> = BTreeMap::new();
	for _ in 0..histories {
		let _ = std::fs::remove_dir_all(&dir);
		std::fs::create_dir_all(&dir).unwrap();
		let mut be: PMMRBackend<T> = PMMRBackend::new(&dir, true, ProtocolVersion(1), None).unwrap();
		out.line(&format!("store new {}", T::NAME), "ok");
		let mut size = 0u64;
		let mut committed: Vec<u64> = vec![0];
		let mut synced = true;
		for _ in 0..steps {
			let r = rng.below(100);
			if r < 40 {
				let e = T::gen(rng);
				let res = catch(AssertUnwindSafe(|| {
					let mut p = PMMR::at(&mut be, size);
					p.push(&e).map(|_| p.size)
				}));
				let rhs = match res {
					Ok(Ok(sz)) => {
						size = sz;
						sz.to_string()
					}
					Ok(Err(_)) => "err".to_string(),
					Err(_) => "panic".to_string(),
				};
				out.line(&format!("store xpush {}", hex(&e.ser())), &rhs);
				synced = false;
				*ops.entry("xpush").or_insert(0) += 1;
			} else if r < 62 {
				if size == 0 {
					continue;
				}
				let p = if rng.chance(9, 10) {
					pmmr::insertion_to_pmmr_index(rng.below(pmmr::n_leaves(size)))
				} else {
					rng.below(size + 3)
				};
				let res = catch(AssertUnwindSafe(|| PMMR::at(&mut be, size).prune(p)));
				let rhs = match res {
					Ok(Ok(b)) => b.to_string(),
					Ok(Err(_)) => "err".to_string(),
					Err(_) => "panic".to_string(),
				};
				out.line(&format!("store xprune {}", p), &rhs);
				synced = false;
				*ops.entry("xprune").or_insert(0) += 1;
			} else if r < 70 {
				// rewind to any committed size not above the current one, arbitrary rm bitmap
				let cands: Vec<u64> = committed.iter().cloned().filter(|c| *c <= size).collect();
				let target = *rng.pick(&cands);
				// stay inside what the model covers: `flush` after a rewind beyond the end of a
				// file would zero-extend it (`set_len`), the model only truncates
				{
					let pl = PruneList::open(dir.join("pmmr_prun.bin")).unwrap();
					let lp = pmmr::round_up_to_leaf_pos(target);
					let sh = if lp == 0 { 0 } else { pl.get_shift(lp - 1) };
					let lsh = if lp == 0 { 0 } else { pl.get_leaf_shift(lp) };
					if lp.saturating_sub(sh) > be.hash_size()
						|| pmmr::n_leaves(lp).saturating_sub(lsh) > be.data_size()
						|| lp < sh || pmmr::n_leaves(lp) < lsh
					{
						*ops.entry("xrewind-skipped(beyond file end)").or_insert(0) += 1;
						continue;
					}
				}
				let mut rm = Bitmap::new();
				let nl = pmmr::n_leaves(size);
				if nl > 0 {
					for _ in 0..rng.range(0, 4) {
						rm.add((pmmr::insertion_to_pmmr_index(rng.below(nl)) + 1) as u32);
					}
				}
				let res = catch(AssertUnwindSafe(|| {
					let mut p = PMMR::at(&mut be, size);
					p.rewind(target, &rm).map(|_| p.size)
				}));
				let rhs = match res {
					Ok(Ok(sz)) => {
						size = sz;
						sz.to_string()
					}
					Ok(Err(_)) => "err".to_string(),
					Err(_) => "panic".to_string(),
				};
				out.line(&format!("store xrewind {} {}", target, bm_list(&rm)), &rhs);
				synced = false;
				*ops.entry("xrewind").or_insert(0) += 1;
			} else if r < 82 {
				let ok = catch(AssertUnwindSafe(|| be.sync().is_ok()));
				out.line("store sync", match ok {
					Ok(true) => "ok",
					Ok(false) => "err",
					Err(_) => "panic",
				});
				committed.retain(|c| *c < size);
				committed.push(size);
				synced = true;
				*ops.entry("sync").or_insert(0) += 1;
			} else if r < 87 {
				be.discard();
				out.line("store discard", "ok");
				size = be.unpruned_size();
				out.line(&format!("store xsetsize {}", size), "ok");
				synced = true;
				*ops.entry("discard").or_insert(0) += 1;
			} else if r < 92 {
				if !synced {
					continue;
				}
				let cutoff = *rng.pick(&committed);
				let mut rm = Bitmap::new();
				let nl = pmmr::n_leaves(size);
				if nl > 0 {
					for _ in 0..rng.range(0, 5) {
						rm.add((pmmr::insertion_to_pmmr_index(rng.below(nl)) + 1) as u32);
					}
				}
				let ok = catch(AssertUnwindSafe(|| be.check_compact(cutoff, &rm).is_ok()));
				out.line(
					&format!("store compact {} {}", cutoff, bm_list(&rm)),
					match ok {
						Ok(true) => "ok",
						Ok(false) => "err",
						Err(_) => "panic",
					},
				);
				*ops.entry("compact").or_insert(0) += 1;
			} else if r < 95 {
				if !synced {
					continue;
				}
				drop(be);
				be = PMMRBackend::new(&dir, true, ProtocolVersion(1), None).unwrap();
				out.line("store reopen", "ok");
				*ops.entry("reopen").or_insert(0) += 1;
			} else {
				// observe (model only)
				let tag = out.lines;
				let usize_ = be.unpruned_size();
				out.line(
					&format!("store xsizes @{}", tag),
					&format!("{} {}", be.hash_size(), be.data_size()),
				);
				let pmmr: PMMR<'_, T, _> = PMMR::at(&mut be, size);
				if std::env::var("VERIF_STORE_VERBOSE").is_ok() {
					for i in 0..pmmr::n_leaves(size) {
						let p = pmmr::insertion_to_pmmr_index(i);
						if p < size {
							out.line(
								&format!("store xdata {} @{}", p, tag),
								&match pmmr.get_data(p) {
									Some(d) => hex(&d.ser()),
									None => "none".into(),
								},
							);
						}
					}
				}
				out.line(&format!("store xroot @{}", tag), &root_str(pmmr.root()));
				out.line(&format!("store usize_mid @{}", tag), &usize_.to_string());
				let leaves: Vec<u64> = pmmr.leaf_pos_iter().collect();
				out.line(&format!("store xleaves @{}", tag), &nat_list(&leaves));
				let mut cat: Vec<u8> = vec![];
				for i in 0..pmmr::n_leaves(size) {
					let p = pmmr::insertion_to_pmmr_index(i);
					if p >= size {
						continue;
					}
					cat.extend_from_slice(&p.to_be_bytes());
					if let Some(d) = pmmr.get_data(p) {
						cat.extend_from_slice(&d.ser());
					}
					if let Some(h) = pmmr.get_hash(p) {
						cat.extend_from_slice(h.as_bytes());
					}
				}
				out.line(&format!("store xleafobs @{}", tag), &hex(blake(&cat).as_bytes()));
				let mut nones: Vec<u64> = vec![];
				let mut cat: Vec<u8> = vec![];
				for p in 0..size {
					match pmmr.get_from_file(p) {
						Some(h) => cat.extend_from_slice(h.as_bytes()),
						None => nones.push(p),
					}
				}
				out.line(
					&format!("store xfile @{}", tag),
					&format!("{} {}", nat_list(&nones), hex(blake(&cat).as_bytes())),
				);
				*ops.entry("observe").or_insert(0) += 1;
			}
		}
	}
	let v: Vec<String> = ops.iter().map(|(k, v)| format!("{}={}", k, v)).collect();
	out.raw(&format!("#STAT [rough-{}] out-of-protocol ops: {}", T::NAME, v.join(" ")));
}

/// `store varopen`: variable-size data files reopened over a missing / stale size file
/// (`AppendOnlyFile::open`: `sum_sizes() != size` -> `rebuild_size_file` -> `init`), on the
/// non-prunable backend (the kernel MMR flavour) and on the prunable one, inside ordinary
/// protocol-respecting histories (rewinds, discards, compactions, further appends after the repair).
fn run_varopen(out: &mut Out, rng: &mut Rng, histories: u64, units: u64, max_leaves: u64) {
	let work = std::env::var("VERIF_WORK").expect("VERIF_WORK not set");
	let mut st = Stats::default();
	{
		let dir = PathBuf::from(&work).join("varopen_np");
		let mut run: Run<'_, VarElem> = new_run(out, rng, &mut st, dir);
		run.tamper_sizes = true;
		for _ in 0..histories {
			run.np_history(units);
		}
	}
	print_stats(out, "varopen-np", &st);
	let replaced_np = st.size_files_replaced;
	let mut st2 = Stats::default();
	{
		let dir = PathBuf::from(&work).join("varopen_pr");
		let mut run: Run<'_, VarElem> = new_run(out, rng, &mut st2, dir);
		run.tamper_sizes = true;
		for _ in 0..histories {
			run.history(units, max_leaves);
		}
	}
	print_stats(out, "varopen-prunable", &st2);
	out.raw(&format!(
		"#STAT [varopen] reopens over a replaced size file: non-prunable={} prunable={} (kinds in the ops lists: sizefile:*)",
		replaced_np, st2.size_files_replaced
	));
}

/// Model tie only: a size file with the RIGHT sum and WRONG entries (the sizes of two neighbouring
/// elements of different length swapped) is not noticed by `open` - its check is the sum.  What the
/// getters then return is whatever the entries address; the model (`VarFile.ofDisk`) says the same.
fn varopen_same_sum(out: &mut Out, rng: &mut Rng, rounds: u64) {
	let work = std::env::var("VERIF_WORK").expect("VERIF_WORK not set");
	let dir = PathBuf::from(work).join("varopen_same_sum");
	let mut done = 0u64;
	for _ in 0..rounds {
		let _ = std::fs::remove_dir_all(&dir);
		std::fs::create_dir_all(&dir).unwrap();
		let mut be: PMMRBackend<VarElem> = PMMRBackend::new(&dir, true, ProtocolVersion(1), None).unwrap();
		out.line("store new var", "ok");
		let mut size = 0u64;
		let n = rng.range(2, 9);
		for _ in 0..n {
			let e = VarElem::gen(rng);
			let res = {
				let mut p = PMMR::at(&mut be, size);
				p.push(&e).map(|_| p.size)
			};
			let rhs = match res {
				Ok(sz) => {
					size = sz;
					sz.to_string()
				}
				Err(_) => "err".to_string(),
			};
			out.line(&format!("store xpush {}", hex(&e.ser())), &rhs);
		}
		out.line("store sync", if be.sync().is_ok() { "ok" } else { "err" });
		drop(be);
		let path = dir.join("pmmr_size.bin");
		let mut bytes = std::fs::read(&path).unwrap();
		let cnt = bytes.len() / 10;
		// first neighbouring pair with different sizes
		let mut swapped = false;
		for i in 0..cnt.saturating_sub(1) {
			let s0 = u16::from_be_bytes([bytes[10 * i + 8], bytes[10 * i + 9]]);
			let s1 = u16::from_be_bytes([bytes[10 * i + 18], bytes[10 * i + 19]]);
			if s0 != s1 {
				let o0 = u64::from_be_bytes(bytes[10 * i..10 * i + 8].try_into().unwrap());
				bytes[10 * i + 8..10 * i + 10].copy_from_slice(&s1.to_be_bytes());
				bytes[10 * i + 10..10 * i + 18].copy_from_slice(&(o0 + s1 as u64).to_be_bytes());
				bytes[10 * i + 18..10 * i + 20].copy_from_slice(&s0.to_be_bytes());
				swapped = true;
				break;
			}
		}
		if swapped {
			done += 1;
		}
		std::fs::write(&path, &bytes).unwrap();
		out.line(&format!("store sizefile {}", hex(&bytes)), "ok");
		let mut be: PMMRBackend<VarElem> = PMMRBackend::new(&dir, true, ProtocolVersion(1), None).unwrap();
		out.line("store reopen", "ok");
		for i in 0..pmmr::n_leaves(size) {
			let p = pmmr::insertion_to_pmmr_index(i);
			let d = catch(AssertUnwindSafe(|| PMMR::at(&mut be, size).get_data(p)));
			let rhs = match d {
				Ok(Some(e)) => hex(&e.ser()),
				Ok(None) => "none".to_string(),
				Err(_) => "panic".to_string(),
			};
			out.line(&format!("store xdata {}", p), &rhs);
		}
		// appends after the unnoticed damage continue from the (wrong) last entry
		for _ in 0..2 {
			let e = VarElem::gen(rng);
			let res = {
				let mut p = PMMR::at(&mut be, size);
				p.push(&e).map(|_| p.size)
			};
			let rhs = match res {
				Ok(sz) => {
					size = sz;
					sz.to_string()
				}
				Err(_) => "err".to_string(),
			};
			out.line(&format!("store xpush {}", hex(&e.ser())), &rhs);
		}
		out.line("store sync", if be.sync().is_ok() { "ok" } else { "err" });
		for i in 0..pmmr::n_leaves(size) {
			let p = pmmr::insertion_to_pmmr_index(i);
			let d = catch(AssertUnwindSafe(|| PMMR::at(&mut be, size).get_data(p)));
			let rhs = match d {
				Ok(Some(e)) => hex(&e.ser()),
				Ok(None) => "none".to_string(),
				Err(_) => "panic".to_string(),
			};
			out.line(&format!("store xdata {}", p), &rhs);
		}
	}
	out.raw(&format!(
		"#STAT [varopen-same-sum] rounds={} with a swapped pair of neighbouring size entries={} (model tie only: open's consistency check is the sum)",
		rounds, done
	));
}

fn main() {
	if std::env::var("VERIF_STORE_LOUD").is_err() {
		quiet_panics();
	}
	// `BlockHeader::default()` (the header a leaf-set snapshot is tagged with) asks for the chain type
	grin_core::global::set_local_chain_type(grin_core::global::ChainTypes::AutomatedTesting);
	let args: Vec<String> = std::env::args().collect();
	let mode = args.get(1).map(|s| s.as_str()).unwrap_or("all");
	let mut rng = Rng::new(seed_from_env());
	let thorough = tier_thorough();
	let mut out = Out::stdout();
	let (histories, units, max_leaves) = if thorough { (40, 120, 400) } else { (14, 70, 220) };
	if mode == "fixed" || mode == "all" {
		run_kind::<Elem>(&mut out, &mut rng, histories, units, max_leaves);
	}
	if mode == "var" || mode == "all" {
		run_kind::<VarElem>(&mut out, &mut rng, histories, units, max_leaves * 2 / 3);
	}
	if mode == "cutoff" || mode == "all" {
		let max_l = if thorough { 40 } else { 20 };
		run_cutoff::<Elem>(&mut out, &mut rng, max_l);
		run_cutoff::<VarElem>(&mut out, &mut rng, max_l);
	}
	if mode == "siblings" || mode == "all" {
		let (max_l, max_last) = if thorough { (24, 64) } else { (12, 40) };
		run_siblings::<Elem>(&mut out, &mut rng, max_l, max_last);
		run_siblings::<VarElem>(&mut out, &mut rng, max_l * 2 / 3, max_last / 2);
	}
	if mode == "bulk" || mode == "all" {
		run_bulk::<Elem>(&mut out, &mut rng, thorough);
		run_bulk::<RpElem>(&mut out, &mut rng, thorough);
		run_bulk::<VarElem>(&mut out, &mut rng, thorough);
	}
	if mode == "chains" || mode == "all" {
		let max_l = if thorough { 24 } else { 11 };
		run_chains::<Elem>(&mut out, &mut rng, max_l);
		run_chains::<VarElem>(&mut out, &mut rng, max_l * 2 / 3);
	}
	if mode == "snapshot" || mode == "all" {
		let (h, u) = if thorough { (30, 40) } else { (10, 22) };
		run_snapshot::<Elem>(&mut out, &mut rng, h, u);
		run_snapshot::<VarElem>(&mut out, &mut rng, h * 2 / 3, u);
	}
	if mode == "imported" || mode == "all" {
		let (h, u) = if thorough { (60, 40) } else { (26, 14) };
		run_import::<Elem>(&mut out, &mut rng, h, u);
		run_import::<VarElem>(&mut out, &mut rng, h * 2 / 3, u);
		let (h, n) = if thorough { (20, 300) } else { (8, 160) };
		import_rough::<Elem>(&mut out, &mut rng, h, n);
		import_rough::<VarElem>(&mut out, &mut rng, h, n);
	}
	if mode == "nonprunable" || mode == "all" {
		let (h, u) = if thorough { (24, 60) } else { (8, 30) };
		run_np::<VarElem>(&mut out, &mut rng, h, u);
		run_np::<Elem>(&mut out, &mut rng, h, u);
	}
	if mode == "varopen" || mode == "all" {
		let (h, u, l) = if thorough { (30, 40, 120) } else { (10, 24, 80) };
		run_varopen(&mut out, &mut rng, h, u, l);
		varopen_same_sum(&mut out, &mut rng, if thorough { 200 } else { 60 });
		oversize_probe(&mut out, &mut rng);
		clean_probe(&mut out, &mut rng);
	}
	if mode == "rough" || mode == "all" {
		let (h, n) = if thorough { (20, 600) } else { (6, 400) };
		rough::<Elem>(&mut out, &mut rng, h, n);
		rough::<VarElem>(&mut out, &mut rng, h, n);
	}
	if mode == "prunelist" || mode == "all" {
		let work = std::env::var("VERIF_WORK").expect("VERIF_WORK not set");
		let dir = PathBuf::from(work);
		std::fs::create_dir_all(&dir).unwrap();
		let mut st = Stats::default();
		let rounds = if thorough { 400 } else { 60 };
		prune_list_stream(&mut out, &mut rng, &mut st, rounds, &dir);
		out.raw(&format!(
			"#STAT [prunelist] {} direct PruneList sequences, {} appends (leaves and aligned subtree roots), every position queried, flush+open each; malformed appends at / left of the last root: {} refused by the assertion (panic), {} accepted (one right of the last root)",
			rounds,
			st.ops.get("pl_append").cloned().unwrap_or(0),
			st.ops.get("pl_try(panic)").cloned().unwrap_or(0),
			st.ops.get("pl_try(ok)").cloned().unwrap_or(0)
		));
	}
	out.flush();
}
