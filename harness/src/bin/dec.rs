//! C11 correspondence: every decoder reachable from the network / the API is fed valid encodings,
//! structure-aware mutations of them, splices and random bytes, at protocol versions 1, 2, 3, 1000,
//! under a counting global allocator (largest single request), `catch_unwind` and a watchdog, in a
//! child process (so that an abort is observed by the parent instead of killing the run).
//!
//! Lines (see lean/GrinVerif/Drv/CodecD.lean):
//!   codec dec <D> <bin|buf> <ver> <hex> => ok <consumed> <canon> <maxreq> | err <E> <maxreq> | panic <maxreq>
//!   codec hex <utf8-hex>                => ok <bytes> <maxreq> | err <maxreq> | panic <maxreq>
//!   codec merklehex <utf8-hex>          => ok <canon> <maxreq> | err <maxreq> | panic <maxreq>
//!   codec bound <D> <k> <len>           => <ok|err> <maxreq>
//!
//! Oracle evaluated here on the implementation (`#ORACLE-FAIL C11 …`): a panic, abort, hang
//! (> 20 s without progress) or an allocation request above `16·len + k_D` in any decoder.  The five
//! defects this harness found first (`MerkleProof::read` capacity, `MerkleProof::from_hex` unwrap,
//! `util::from_hex` char boundary, `Segment::validate` unwrap) are repaired in /repo; their witnesses are
//! replayed as regression probes (`#ORACLE-FAIL` if one of them panics or over-allocates again).
use grin_chain::txhashset::BitmapSegment;
use grin_core::core::hash::Hash;
use grin_core::core::merkle_proof::MerkleProof;
use grin_core::core::pmmr::segment::{Segment, SegmentIdentifier, SegmentProof};
use grin_core::core::{
	KernelFeatures, OutputIdentifier, Transaction, TxKernel, UntrustedBlock, UntrustedBlockHeader,
	UntrustedCompactBlock,
};
use grin_core::global::{self, ChainTypes};
use grin_core::pow::Difficulty;
use grin_core::ser::{
	self, BufReader, DeserializationMode, ProtocolVersion, Readable, Writeable,
};
use grin_p2p::msg::{
	BanReason, GetPeerAddrs, Hand, Locator, MsgHeaderWrapper, OutputBitmapSegmentResponse,
	OutputSegmentResponse, PeerAddrs, PeerError, Ping, Pong, SegmentRequest, SegmentResponse, Shake,
	TxHashSetArchive, TxHashSetRequest,
};
use grin_p2p::types::{Capabilities, PeerAddr, ReasonForBan};
use grin_util::secp::pedersen::RangeProof;
use gvharness::*;
use std::alloc::{GlobalAlloc, Layout, System};
use std::collections::BTreeMap;
use std::io::{BufRead, Write};
use std::sync::atomic::{AtomicU64, AtomicUsize, Ordering};

// ---------------------------------------------------------------------------------------------
// counting allocator

static MAX_REQ: AtomicUsize = AtomicUsize::new(0);
/// requests above this are refused (null) after a note on stderr: the process then aborts exactly as
/// it does when the system allocator fails
const REFUSE_ABOVE: usize = 1 << 32;

struct Counting;

fn note(size: usize) {
	MAX_REQ.fetch_max(size, Ordering::Relaxed);
}

fn refuse(size: usize) {
	// no allocation, no locks: raw write to stderr
	let mut buf = [0u8; 48];
	let pre = b"#ALLOC-REFUSED ";
	buf[..pre.len()].copy_from_slice(pre);
	let mut n = size;
	let mut digits = [0u8; 24];
	let mut k = 0;
	if n == 0 {
		digits[0] = b'0';
		k = 1;
	}
	while n > 0 {
		digits[k] = b'0' + (n % 10) as u8;
		n /= 10;
		k += 1;
	}
	let mut p = pre.len();
	for i in (0..k).rev() {
		buf[p] = digits[i];
		p += 1;
	}
	buf[p] = b'\n';
	p += 1;
	unsafe {
		libc::write(2, buf.as_ptr() as *const libc::c_void, p);
	}
}

unsafe impl GlobalAlloc for Counting {
	unsafe fn alloc(&self, l: Layout) -> *mut u8 {
		note(l.size());
		if l.size() > REFUSE_ABOVE {
			refuse(l.size());
			return std::ptr::null_mut();
		}
		System.alloc(l)
	}
	unsafe fn alloc_zeroed(&self, l: Layout) -> *mut u8 {
		note(l.size());
		if l.size() > REFUSE_ABOVE {
			refuse(l.size());
			return std::ptr::null_mut();
		}
		System.alloc_zeroed(l)
	}
	unsafe fn dealloc(&self, p: *mut u8, l: Layout) {
		System.dealloc(p, l)
	}
	unsafe fn realloc(&self, p: *mut u8, l: Layout, new_size: usize) -> *mut u8 {
		note(new_size);
		if new_size > REFUSE_ABOVE {
			refuse(new_size);
			return std::ptr::null_mut();
		}
		System.realloc(p, l, new_size)
	}
}

#[global_allocator]
static GLOBAL: Counting = Counting;

static HEARTBEAT: AtomicU64 = AtomicU64::new(0);

/// run `f` under `catch_unwind`, returning its result and the largest allocation request it made
fn measured<R, F: FnOnce() -> R + std::panic::UnwindSafe>(f: F) -> (Result<R, String>, usize) {
	HEARTBEAT.fetch_add(1, Ordering::Relaxed);
	MAX_REQ.store(0, Ordering::Relaxed);
	let r = catch(f);
	let m = MAX_REQ.load(Ordering::Relaxed);
	(r, m)
}

// ---------------------------------------------------------------------------------------------

const VERSIONS: [u32; 4] = [1, 2, 3, 1000];

#[derive(Default)]
struct DStat {
	cases: u64,
	ok: u64,
	err: u64,
	panic: u64,
	max_ratio_milli: u64,
	max_req: usize,
	kinds: BTreeMap<String, u64>,
}

struct Ctx {
	out: Out,
	rng: Rng,
	thorough: bool,
	stats: BTreeMap<String, DStat>,
	oracle_fails: u64,
}

fn err_name(e: &ser::Error) -> String {
	match e {
		ser::Error::IOErr(_, _) => "IOErr".to_string(),
		ser::Error::UnexpectedData { .. } => "UnexpectedData".to_string(),
		ser::Error::CorruptedData => "CorruptedData".to_string(),
		ser::Error::CountError => "CountError".to_string(),
		ser::Error::TooLargeReadErr => "TooLargeReadErr".to_string(),
		ser::Error::SortError => "SortError".to_string(),
		ser::Error::DuplicateError => "DuplicateError".to_string(),
		ser::Error::InvalidBlockVersion => "InvalidBlockVersion".to_string(),
		ser::Error::UnsupportedProtocolVersion => "UnsupportedProtocolVersion".to_string(),
		_ => "Other".to_string(),
	}
}

/// outcome of one real decode: class text (without maxreq), largest request
enum Out1 {
	Ok(usize, String),
	Err(String),
	Panic(String),
}

fn read_with<T: Readable>(buf: bool, bytes: &[u8], ver: u32) -> (Result<Result<(T, usize), ser::Error>, String>, usize) {
	if buf {
		let mut b = bytes::Bytes::copy_from_slice(bytes);
		measured(move || {
			let mut rdr = BufReader::new(&mut b, ProtocolVersion(ver));
			let r = T::read(&mut rdr);
			let n = rdr.bytes_read() as usize;
			r.map(|v| (v, n))
		})
	} else {
		let owned = bytes.to_vec();
		measured(move || {
			let mut slice = &owned[..];
			let r = ser::deserialize::<T, _>(&mut slice, ProtocolVersion(ver), DeserializationMode::default());
			let n = owned.len() - slice.len();
			r.map(|v| (v, n))
		})
	}
}

fn classify<T, F: Fn(&T) -> String>(r: Result<Result<(T, usize), ser::Error>, String>, canon: F) -> Out1 {
	match r {
		Ok(Ok((v, n))) => Out1::Ok(n, canon(&v)),
		Ok(Err(e)) => Out1::Err(err_name(&e)),
		Err(p) => Out1::Panic(p),
	}
}

fn canon_w<T: Writeable>(ver: u32) -> impl Fn(&T) -> String {
	move |v: &T| match ser::ser_vec(v, ProtocolVersion(ver)) {
		Ok(b) => hex(&b),
		Err(_) => "E".to_string(),
	}
}

impl Ctx {
	/// record one case; `known_defective` = the model predicts the panics of this decoder, so a panic
	/// is left to the driver's comparison instead of being an oracle failure here
	fn emit(&mut self, lhs: &str, dname: &str, len: usize, k: usize, o: Out1, maxreq: usize, known_defective: bool) {
		let st = self.stats.entry(dname.to_string()).or_default();
		st.cases += 1;
		st.max_req = st.max_req.max(maxreq);
		let ratio = (maxreq as u64 * 1000) / (len.max(1) as u64);
		st.max_ratio_milli = st.max_ratio_milli.max(ratio);
		let rhs = match &o {
			Out1::Ok(n, c) => {
				st.ok += 1;
				if c.is_empty() {
					format!("ok {}", maxreq)
				} else {
					format!("ok {} {} {}", n, c, maxreq)
				}
			}
			Out1::Err(e) => {
				st.err += 1;
				*st.kinds.entry(e.clone()).or_insert(0) += 1;
				if e.is_empty() {
					format!("err {}", maxreq)
				} else {
					format!("err {} {}", e, maxreq)
				}
			}
			Out1::Panic(_) => {
				st.panic += 1;
				format!("panic {}", maxreq)
			}
		};
		if let Out1::Panic(msg) = &o {
			if !known_defective {
				self.oracle_fails += 1;
				self.out.raw(&format!("#ORACLE-FAIL C11 panic in {} ({}): {}", dname, msg.replace('\n', " "), lhs));
			}
		}
		if maxreq > 16 * len + k && !known_defective {
			self.oracle_fails += 1;
			self.out.raw(&format!(
				"#ORACLE-FAIL C11 over-allocation in {}: request {} > 16*{}+{}: {}",
				dname, maxreq, len, k, lhs
			));
		}
		self.out.line(lhs, &rhs);
	}

	fn dec<T: Readable, F: Fn(&T) -> String>(&mut self, d: &str, buf: bool, ver: u32, bytes: &[u8], k: usize, canon: F, known_defective: bool) {
		let (r, maxreq) = read_with::<T>(buf, bytes, ver);
		let o = classify(r, canon);
		let lhs = format!("codec dec {} {} {} {}", d, if buf { "buf" } else { "bin" }, ver, hex(bytes));
		self.emit(&lhs, d, bytes.len(), k, o, maxreq, known_defective);
	}

	/// decoders modelled by other domains: only no-panic and the allocation bound
	fn bound<T: Readable>(&mut self, d: &str, ver: u32, bytes: &[u8], k: usize) {
		let (r, maxreq) = read_with::<T>(true, bytes, ver);
		let o = match r {
			Ok(Ok(_)) => Out1::Ok(0, String::new()),
			Ok(Err(_)) => Out1::Err(String::new()),
			Err(p) => Out1::Panic(p),
		};
		if let Out1::Panic(msg) = &o {
			self.oracle_fails += 1;
			self.out.raw(&format!("#ORACLE-FAIL C11 panic in {} ver {} ({}): input {}", d, ver, msg.replace('\n', " "), hex(bytes)));
		}
		if maxreq > 16 * bytes.len() + k {
			self.oracle_fails += 1;
			self.out.raw(&format!(
				"#ORACLE-FAIL C11 over-allocation in {} ver {}: request {} > 16*{}+{}: input {}",
				d, ver, maxreq, bytes.len(), k, hex(bytes)
			));
		}
		let lhs = format!("codec bound {}@{} {} {}", d, ver, k, bytes.len());
		// `emit` would re-check; record stats and the line directly
		let st = self.stats.entry(d.to_string()).or_default();
		st.cases += 1;
		st.max_req = st.max_req.max(maxreq);
		let ratio = (maxreq as u64 * 1000) / (bytes.len().max(1) as u64);
		st.max_ratio_milli = st.max_ratio_milli.max(ratio);
		let rhs = match o {
			Out1::Ok(..) => {
				st.ok += 1;
				format!("ok {}", maxreq)
			}
			Out1::Err(_) => {
				st.err += 1;
				format!("err {}", maxreq)
			}
			Out1::Panic(_) => {
				st.panic += 1;
				format!("panic {}", maxreq)
			}
		};
		self.out.line(&lhs, &rhs);
	}
}

// ---------------------------------------------------------------------------------------------
// mutation engine

const BOUNDARY: [u64; 8] = [0, 1, u64::MAX, 1 << 32, 1 << 63, u64::MAX - 1, 0xffff_ffff, 0x1_0000_0000 - 2];

/// offsets to mutate: all of them for short inputs (or `dense`), otherwise the first 24 (tags and
/// counts live there) plus an even sample of the rest
fn offsets(n: usize, dense: bool) -> Vec<usize> {
	if (dense && n <= 160) || n <= 40 {
		return (0..n).collect();
	}
	let mut v: Vec<usize> = (0..24).collect();
	let step = (n - 24) / 24 + 1;
	let mut i = 24;
	while i < n {
		v.push(i);
		i += step;
	}
	if *v.last().unwrap() != n - 1 {
		v.push(n - 1);
	}
	v
}

/// structure-aware mutations of a valid encoding: truncation at every (sampled) offset, bytes swept
/// over tag values, every u64/u32/u16/u8 window set to boundary and huge values (`caps` = limits of
/// the type's count fields, tried as max-1, max, max+1), splices with `other`
fn mutations(rng: &mut Rng, base: &[u8], caps: &[u64], other: &[u8], dense: bool) -> Vec<Vec<u8>> {
	let mut v: Vec<Vec<u8>> = vec![base.to_vec()];
	let n = base.len();
	let offs = offsets(n, dense);
	// truncations
	for &i in &offs {
		v.push(base[..i].to_vec());
	}
	// tag sweeps
	let tags: &[u8] = if dense { &[0u8, 1, 2, 3, 4, 0x7f, 0x80, 0xff] } else { &[0u8, 1, 2, 3, 0xff] };
	for &i in &offs {
		for &t in tags {
			if base[i] != t {
				let mut m = base.to_vec();
				m[i] = t;
				v.push(m);
			}
		}
	}
	// length / count fields
	let mut vals: Vec<u64> = if dense { BOUNDARY.to_vec() } else { BOUNDARY[..5].to_vec() };
	for c in caps {
		vals.push(c.wrapping_sub(1));
		vals.push(*c);
		vals.push(c.wrapping_add(1));
	}
	for &i in &offs {
		for w in [8usize, 4, 2, 1] {
			if i + w <= n {
				for val in &vals {
					let be = val.to_be_bytes();
					let mut m = base.to_vec();
					m[i..i + w].copy_from_slice(&be[8 - w..]);
					if m != base {
						v.push(m);
					}
				}
			}
		}
	}
	// splices
	for _ in 0..6 {
		if !other.is_empty() && n > 0 {
			let a = rng.below(n as u64 + 1) as usize;
			let b = rng.below(other.len() as u64 + 1) as usize;
			let mut m = base[..a].to_vec();
			m.extend_from_slice(&other[b..]);
			v.push(m);
		}
	}
	// appended junk
	let mut m = base.to_vec();
	m.extend_from_slice(&rng.bytes(9));
	v.push(m);
	v
}

fn random_inputs(rng: &mut Rng, count: usize, maxlen: u64) -> Vec<Vec<u8>> {
	(0..count)
		.map(|_| {
			let l = rng.below(maxlen + 1) as usize;
			let mut b = rng.bytes(l);
			// bias the leading bytes towards small values so that tags / counts are often plausible
			if rng.chance(1, 2) {
				for x in b.iter_mut().take(12) {
					if rng.chance(2, 3) {
						*x = (rng.below(4)) as u8;
					}
				}
			}
			b
		})
		.collect()
}

// ---------------------------------------------------------------------------------------------
// value generators

fn hash32(rng: &mut Rng) -> Hash {
	Hash::from_vec(&rng.bytes(32))
}

fn pick_u64(rng: &mut Rng) -> u64 {
	match rng.below(6) {
		0 => 0,
		1 => 1,
		2 => u64::MAX,
		3 => rng.below(1 << 20),
		_ => rng.next(),
	}
}

fn gen_addr(rng: &mut Rng) -> PeerAddr {
	use std::net::{IpAddr, Ipv4Addr, Ipv6Addr, SocketAddr};
	let port = pick_u64(rng) as u16;
	if rng.chance(1, 2) {
		let b = rng.bytes(4);
		PeerAddr(SocketAddr::new(IpAddr::V4(Ipv4Addr::new(b[0], b[1], b[2], b[3])), port))
	} else {
		let mut s = [0u16; 8];
		let mode = rng.below(5);
		for (i, x) in s.iter_mut().enumerate() {
			*x = match mode {
				0 => rng.next() as u16,
				1 => {
					if i < 6 {
						0
					} else {
						rng.next() as u16
					}
				} // ::a.b.c.d
				2 => {
					if i < 5 {
						0
					} else if i == 5 {
						0xffff
					} else {
						rng.next() as u16
					}
				} // ::ffff:a.b.c.d
				3 => {
					if i == 7 {
						1
					} else {
						0
					}
				} // ::1
				_ => {
					if i == 0 {
						0x2001
					} else {
						rng.below(3) as u16
					}
				}
			};
		}
		PeerAddr(SocketAddr::new(
			IpAddr::V6(Ipv6Addr::new(s[0], s[1], s[2], s[3], s[4], s[5], s[6], s[7])),
			port,
		))
	}
}

fn gen_agent(rng: &mut Rng) -> String {
	match rng.below(4) {
		0 => String::new(),
		1 => "MW/Grin 5.4.0".to_string(),
		2 => "grïn/€/𝔾 5".to_string(),
		_ => (0..rng.below(40)).map(|_| (b'a' + rng.below(26) as u8) as char).collect(),
	}
}

fn sv<T: Writeable>(v: &T, ver: u32) -> Vec<u8> {
	ser::ser_vec(v, ProtocolVersion(ver)).unwrap()
}

fn be64(x: u64) -> [u8; 8] {
	x.to_be_bytes()
}

/// wire bytes of a `Segment<T>` with the given leaf encodings (positions strictly increasing)
fn gen_segment_bytes(rng: &mut Rng, leaf: &dyn Fn(&mut Rng) -> Vec<u8>) -> Vec<u8> {
	let mut b = vec![rng.below(14) as u8];
	b.extend_from_slice(&be64(rng.below(1 << 20)));
	let nh = rng.below(5);
	b.extend_from_slice(&be64(nh));
	let mut p = 0u64;
	for _ in 0..nh {
		p += 1 + rng.below(9);
		b.extend_from_slice(&be64(p));
	}
	for _ in 0..nh {
		b.extend_from_slice(&rng.bytes(32));
	}
	let nl = rng.below(5);
	b.extend_from_slice(&be64(nl));
	let mut p = 0u64;
	for _ in 0..nl {
		p += 1 + rng.below(9);
		b.extend_from_slice(&be64(p));
	}
	for _ in 0..nl {
		b.extend_from_slice(&leaf(rng));
	}
	let np = rng.below(5);
	b.extend_from_slice(&be64(np));
	for _ in 0..np {
		b.extend_from_slice(&rng.bytes(32));
	}
	b
}

fn gen_kernel_bytes(rng: &mut Rng, ver: u32) -> Vec<u8> {
	let fee = {
		let raw = (rng.below(1 << 30) + 1).to_be_bytes();
		ser::deserialize::<grin_core::core::FeeFields, _>(&mut &raw[..], ProtocolVersion(1), DeserializationMode::default()).unwrap()
	};
	let features = match rng.below(3) {
		0 => KernelFeatures::Plain { fee },
		1 => KernelFeatures::Coinbase,
		_ => KernelFeatures::HeightLocked {
			fee,
			lock_height: pick_u64(rng),
		},
	};
	let mut k = TxKernel::with_features(features);
	k.excess = grin_util::secp::pedersen::Commitment::from_vec(rng.bytes(33));
	sv(&k, ver)
}

// ---------------------------------------------------------------------------------------------
// the streams

fn budget(cx: &Ctx, quick: usize, thorough: usize) -> usize {
	if cx.thorough {
		thorough
	} else {
		quick
	}
}

/// one native decoder: valid samples × mutations, then random bytes, with both readers
fn stream<T: Readable + Writeable>(
	cx: &mut Ctx,
	d: &str,
	k: usize,
	caps: &[u64],
	gen: &dyn Fn(&mut Rng, u32) -> Vec<u8>,
	samples: usize,
	randoms: usize,
) {
	let other = {
		let mut r = Rng::new(cx.rng.next());
		let mut o = r.bytes(40);
		o[0] = 0;
		o
	};
	for s in 0..samples {
		let ver = VERSIONS[s % 4];
		let mut r = Rng::new(cx.rng.next());
		let base = gen(&mut r, ver);
		let ms = mutations(&mut r, &base, caps, &other, cx.thorough);
		for (i, m) in ms.iter().enumerate() {
			let buf = (i + s) % 2 == 0;
			cx.dec::<T, _>(d, buf, ver, m, k, canon_w::<T>(ver), false);
			if i == 0 {
				cx.dec::<T, _>(d, !buf, ver, m, k, canon_w::<T>(ver), false);
			}
		}
	}
	let mut r = Rng::new(cx.rng.next());
	for (i, m) in random_inputs(&mut r, randoms, 120).iter().enumerate() {
		cx.dec::<T, _>(d, i % 2 == 0, VERSIONS[i % 4], m, k, canon_w::<T>(VERSIONS[i % 4]), false);
	}
}

fn hdr_stream(cx: &mut Ctx) {
	let nets: [(&str, ChainTypes, [u8; 2]); 3] = [
		("A", ChainTypes::AutomatedTesting, [73, 43]),
		("M", ChainTypes::Mainnet, [97, 61]),
		("T", ChainTypes::Testnet, [83, 59]),
	];
	for (tag, ct, magic) in nets.iter() {
		global::set_local_chain_type(*ct);
		let mbw: u64 = global::max_block_weight();
		let mbs = mbw / 21 * 708;
		let d = format!("hdr:{}", tag);
		let canon = |h: &MsgHeaderWrapper| match h {
			MsgHeaderWrapper::Known(h) => format!("known:{}:{}", h.msg_type as u8, h.msg_len),
			MsgHeaderWrapper::Unknown(len, t) => format!("unknown:{}:{}", len, t),
		};
		// every type byte × boundary lengths around every plausible limit
		let mut lens: Vec<u64> = vec![0, 1, 2, 10, 11, 12, 63, 64, 65, 511, 512, 513, u64::MAX, 1 << 63, 1 << 32];
		for base in [16u64, 4, 128, 88, 32, 40, 41, 64, 365, 4 + 19 * 256, 1 + 32 * 20, 2 + 365 * 512, mbs, mbs / 10, 2 * mbs] {
			for f in [1u64, 4] {
				let l = base * f;
				lens.push(l.wrapping_sub(1));
				lens.push(l);
				lens.push(l + 1);
			}
		}
		for t in 0..=255u8 {
			let tl: Vec<u64> = if t <= 30 || t == 255 || cx.thorough { lens.clone() } else { vec![0, 4 * mbs, 4 * mbs + 1] };
			for l in tl {
				let mut b = vec![magic[0], magic[1], t];
				b.extend_from_slice(&be64(l));
				cx.dec::<MsgHeaderWrapper, _>(&d, (t as u64 + l) % 2 == 0, 1 + (t as u32 % 3), &b, 256, canon, false);
			}
		}
		// wrong magic, truncation, junk
		let mut good = vec![magic[0], magic[1], 3];
		good.extend_from_slice(&be64(16));
		let mut r = Rng::new(cx.rng.next());
		for m in mutations(&mut r, &good, &[64, 65], &[1, 2, 3], cx.thorough) {
			cx.dec::<MsgHeaderWrapper, _>(&d, m.len() % 2 == 0, 1000, &m, 256, canon, false);
		}
		for m in random_inputs(&mut r, 200, 14) {
			cx.dec::<MsgHeaderWrapper, _>(&d, false, 2, &m, 256, canon, false);
		}
	}
	global::set_local_chain_type(ChainTypes::AutomatedTesting);
}

fn native_streams(cx: &mut Ctx) {
	let s = budget(cx, 2, 6);
	let rn = budget(cx, 150, 800);
	stream::<Hand>(cx, "hand", 100_000 + 4096, &[100_000], &|r, _| {
		sv(
			&Hand {
				version: ProtocolVersion(*r.pick(&[1u32, 2, 3, 1000, u32::MAX])),
				capabilities: Capabilities::from_bits_truncate(r.next() as u32),
				nonce: pick_u64(r),
				genesis: hash32(r),
				total_difficulty: Difficulty::from_num(pick_u64(r)),
				sender_addr: gen_addr(r),
				receiver_addr: gen_addr(r),
				user_agent: gen_agent(r),
			},
			1,
		)
	}, s, rn);
	stream::<Shake>(cx, "shake", 100_000 + 4096, &[100_000], &|r, _| {
		sv(
			&Shake {
				version: ProtocolVersion(*r.pick(&[1u32, 2, 3, 1000, 0])),
				capabilities: Capabilities::from_bits_truncate(r.next() as u32),
				genesis: hash32(r),
				total_difficulty: Difficulty::from_num(pick_u64(r)),
				user_agent: gen_agent(r),
			},
			1,
		)
	}, s, rn);
	stream::<PeerAddr>(cx, "peeraddr", 4096, &[], &|r, _| sv(&gen_addr(r), 1), budget(cx, 4, 12), rn);
	stream::<PeerError>(cx, "peererror", 100_000 + 4096, &[100_000], &|r, _| {
		sv(
			&PeerError {
				code: r.next() as u32,
				message: gen_agent(r),
			},
			1,
		)
	}, s, rn);
	stream::<SegmentIdentifier>(cx, "segid", 4096, &[], &|r, _| {
		sv(
			&SegmentIdentifier {
				height: r.next() as u8,
				idx: pick_u64(r),
			},
			1,
		)
	}, s, rn);
	// bodies, by message type byte
	stream::<Ping>(cx, "body:3", 4096, &[], &|r, _| {
		sv(&Ping { total_difficulty: Difficulty::from_num(pick_u64(r)), height: pick_u64(r) }, 1)
	}, s, rn);
	stream::<Pong>(cx, "body:4", 4096, &[], &|r, _| {
		sv(&Pong { total_difficulty: Difficulty::from_num(pick_u64(r)), height: pick_u64(r) }, 1)
	}, s, rn);
	stream::<GetPeerAddrs>(cx, "body:5", 4096, &[], &|r, _| {
		sv(&GetPeerAddrs { capabilities: Capabilities::from_bits_truncate(r.next() as u32) }, 1)
	}, s, rn);
	stream::<PeerAddrs>(cx, "body:6", 8192 + 4096, &[256], &|r, _| {
		let n = *r.pick(&[0usize, 1, 2, 5, 17]);
		sv(&PeerAddrs { peers: (0..n).map(|_| gen_addr(r)).collect() }, 1)
	}, budget(cx, 3, 8), rn);
	stream::<Locator>(cx, "body:7", 4096, &[20], &|r, _| {
		let n = *r.pick(&[0usize, 1, 2, 19, 20]);
		sv(&Locator { hashes: (0..n).map(|_| hash32(r)).collect() }, 1)
	}, s, rn);
	for t in [10u8, 12, 19, 20] {
		stream::<Hash>(cx, &format!("body:{}", t), 4096, &[], &|r, _| sv(&hash32(r), 1), 1, rn / 4);
	}
	stream::<TxHashSetRequest>(cx, "body:16", 4096, &[], &|r, _| {
		sv(&TxHashSetRequest { hash: hash32(r), height: pick_u64(r) }, 1)
	}, s, rn);
	stream::<TxHashSetArchive>(cx, "body:17", 4096, &[], &|r, _| {
		sv(&TxHashSetArchive { hash: hash32(r), height: pick_u64(r), bytes: pick_u64(r) }, 1)
	}, s, rn);
	stream::<BanReason>(cx, "body:18", 4096, &[7], &|r, _| {
		let reasons = [
			ReasonForBan::None,
			ReasonForBan::BadBlock,
			ReasonForBan::BadCompactBlock,
			ReasonForBan::BadBlockHeader,
			ReasonForBan::BadTxHashSet,
			ReasonForBan::ManualBan,
			ReasonForBan::FraudHeight,
			ReasonForBan::BadHandshake,
		];
		sv(&BanReason { ban_reason: *r.pick(&reasons) }, 1)
	}, s, rn);
	for t in [21u8, 23, 25, 27] {
		stream::<SegmentRequest>(cx, &format!("body:{}", t), 4096, &[], &|r, _| {
			sv(
				&SegmentRequest {
					block_hash: hash32(r),
					identifier: SegmentIdentifier { height: r.next() as u8, idx: pick_u64(r) },
				},
				1,
			)
		}, 1, rn / 4);
	}
}

fn segment_streams(cx: &mut Ctx) {
	let s = budget(cx, 2, 5);
	let rn = budget(cx, 150, 800);
	let caps = [1_000_000u64, 1024];
	stream::<SegmentProof>(cx, "segproof", 32 * 1024 + 4096, &caps, &|r, _| {
		let n = r.below(6);
		let mut b = be64(n).to_vec();
		for _ in 0..n {
			b.extend_from_slice(&r.bytes(32));
		}
		b
	}, s, rn);
	stream::<Segment<OutputIdentifier>>(cx, "seg:outid", 81920 + 1024 * 40 + 4096, &caps, &|r, _| {
		gen_segment_bytes(r, &|r| {
			let mut b = vec![r.below(2) as u8];
			b.extend_from_slice(&r.bytes(33));
			b
		})
	}, s, rn);
	stream::<Segment<RangeProof>>(cx, "seg:rproof", 81920 + 1024 * 688 + 4096, &caps, &|r, _| {
		gen_segment_bytes(r, &|r| {
			let mut b = be64(675).to_vec();
			b.extend_from_slice(&r.bytes(675));
			b
		})
	}, budget(cx, 2, 3), rn);
	stream::<Segment<TxKernel>>(cx, "seg:kernel", 81920 + 1024 * 128 + 4096, &caps, &|r, ver| {
		gen_segment_bytes(r, &|r| gen_kernel_bytes(r, ver))
	}, s, rn);
}

/// `MerkleProof::read` (pre-allocation capped at 64 hashes since 28eb6068d): every path_len in-process
fn merkle_stream(cx: &mut Ctx) {
	let s = budget(cx, 3, 8);
	for i in 0..s {
		let mut r = Rng::new(cx.rng.next());
		let n = *r.pick(&[0usize, 1, 2, 7, 20, 64, 65]);
		let base = sv(&MerkleProof { mmr_size: pick_u64(&mut r), path: (0..n).map(|_| hash32(&mut r)).collect() }, 1);
		for (j, m) in mutations(&mut r, &base, &[1 << 58, 1 << 16, 64], &[0; 40], cx.thorough).iter().enumerate() {
			cx.dec::<MerkleProof, _>("merkle", (i + j) % 2 == 0, 1, m, 4096, canon_w::<MerkleProof>(1), false);
		}
	}
	let mut r = Rng::new(cx.rng.next());
	for (j, m) in random_inputs(&mut r, budget(cx, 300, 1500), 100).iter().enumerate() {
		cx.dec::<MerkleProof, _>("merkle", j % 2 == 0, 1, m, 4096, canon_w::<MerkleProof>(1), false);
	}
}

fn hex_streams(cx: &mut Ctx) {
	// util::from_hex on arbitrary strings, MerkleProof::from_hex on strings whose decoded path_len is safe
	let mut strings: Vec<String> = vec![
		"".into(), "0".into(), "00".into(), "0x".into(), "0x0x00".into(), "0X00".into(), " 00 ".into(), "\t0a0B\n".into(),
		"zz".into(), "+f".into(), "-f".into(), "+-".into(), "++".into(), "f+".into(), "0g".into(), "€a".into(), "a€".into(),
		"é".into(), "éé".into(), "aé0".into(), "𝔾".into(), "𝔾00".into(), "0𝔾0".into(), "\u{a0}00\u{3000}".into(),
		"\u{2003}ff".into(), "ff\u{85}".into(), "0x\u{a0}".into(), "00€".into(), "0€0".into(), "\u{1680}".into(),
		"x0".into(), "0x0".into(), "0x+1".into(), "¡¡".into(), "ÿ".into(), "0ÿ".into(),
	];
	let alphabet: Vec<char> = "0123456789abcdefABCDEF+-xX \t\nzg€éÿ𝔾\u{a0}\u{2028}".chars().collect();
	let mut r = Rng::new(cx.rng.next());
	for _ in 0..budget(cx, 2500, 12000) {
		let n = r.below(12);
		let ascii_only = r.chance(1, 2);
		let s: String = (0..n)
			.map(|_| {
				let c = *r.pick(&alphabet);
				if ascii_only && !c.is_ascii() {
					'0'
				} else {
					c
				}
			})
			.collect();
		strings.push(s);
	}
	for s in &strings {
		let owned = s.clone();
		let (res, maxreq) = measured(move || grin_util::from_hex(&owned));
		let o = match res {
			Ok(Ok(b)) => Out1::Ok(0, hex(&b)),
			Ok(Err(_)) => Out1::Err(String::new()),
			Err(p) => Out1::Panic(p),
		};
		// print `ok <bytes>` without a consumed count
		let lhs = format!("codec hex {}", hex(s.as_bytes()));
		let st = cx.stats.entry("hex".to_string()).or_default();
		st.cases += 1;
		st.max_req = st.max_req.max(maxreq);
		let rhs = match &o {
			Out1::Ok(_, c) => {
				st.ok += 1;
				format!("ok {} {}", c, maxreq)
			}
			Out1::Err(_) => {
				st.err += 1;
				format!("err {}", maxreq)
			}
			Out1::Panic(msg) => {
				st.panic += 1;
				cx.oracle_fails += 1;
				cx.out.raw(&format!("#ORACLE-FAIL C11 panic in util::from_hex ({}) on the string with UTF-8 bytes {}", msg.replace('\n', " "), hex(s.as_bytes())));
				format!("panic {}", maxreq)
			}
		};
		if maxreq > 16 * s.len() + 4096 {
			cx.oracle_fails += 1;
			cx.out.raw(&format!("#ORACLE-FAIL C11 over-allocation in util::from_hex: {} bytes for the string {}", maxreq, hex(s.as_bytes())));
		}
		cx.out.line(&lhs, &rhs);
	}
	// MerkleProof::from_hex
	let mut hexes: Vec<String> = vec!["zz".into(), "0".into(), "".into(), "00".into(), "€a".into(), " 0x00 ".into()];
	for _ in 0..budget(cx, 200, 1000) {
		let n = *r.pick(&[0usize, 1, 2, 3]);
		let p = MerkleProof { mmr_size: pick_u64(&mut r), path: (0..n).map(|_| hash32(&mut r)).collect() };
		let mut h = p.to_hex();
		match r.below(6) {
			0 => {
				h.truncate(r.below(h.len() as u64 + 1) as usize);
			}
			1 => {
				let i = r.below(h.len() as u64) as usize;
				h.replace_range(i..i + 1, "g");
			}
			2 => h = format!(" 0x{} ", h),
			3 => {
				// path_len → n+1 (short read) or 0
				let v = if r.chance(1, 2) { n as u64 + 1 } else { 0 };
				h.replace_range(16..32, &format!("{:016x}", v));
			}
			_ => {}
		}
		hexes.push(h);
	}
	for h in &hexes {
		let owned = h.clone();
		let (res, maxreq) = measured(move || MerkleProof::from_hex(&owned));
		let st = cx.stats.entry("merklehex".to_string()).or_default();
		st.cases += 1;
		st.max_req = st.max_req.max(maxreq);
		let rhs = match res {
			Ok(Ok(p)) => {
				st.ok += 1;
				format!("ok {} {}", hex(&sv(&p, 1)), maxreq)
			}
			Ok(Err(_)) => {
				st.err += 1;
				format!("err {}", maxreq)
			}
			Err(msg) => {
				st.panic += 1;
				cx.oracle_fails += 1;
				cx.out.raw(&format!("#ORACLE-FAIL C11 panic in MerkleProof::from_hex ({}) on the string with UTF-8 bytes {}", msg.replace('\n', " "), hex(h.as_bytes())));
				format!("panic {}", maxreq)
			}
		};
		if maxreq > 16 * h.len() + 4096 {
			cx.oracle_fails += 1;
			cx.out.raw(&format!("#ORACLE-FAIL C11 over-allocation in MerkleProof::from_hex: {} bytes for the string {}", maxreq, hex(h.as_bytes())));
		}
		cx.out.line(&format!("codec merklehex {}", hex(h.as_bytes())), &rhs);
	}
}

/// payload decoders owned by other domains: no-panic and allocation bound only
fn payload_streams(cx: &mut Ctx) {
	let rn = budget(cx, 120, 800);
	let mut r = Rng::new(cx.rng.next());
	let mbs_k = 1 << 20; // additive constant granted to the big payload types
	for v in VERSIONS {
		for m in random_inputs(&mut r, rn, 300) {
			cx.bound::<Transaction>("tx", v, &m, mbs_k);
			cx.bound::<UntrustedBlock>("block", v, &m, mbs_k);
			cx.bound::<UntrustedCompactBlock>("cblock", v, &m, mbs_k);
			cx.bound::<UntrustedBlockHeader>("header", v, &m, mbs_k);
			cx.bound::<BitmapSegment>("bitmapseg", v, &m, mbs_k);
			cx.bound::<OutputBitmapSegmentResponse>("resp:22", v, &m, mbs_k);
			cx.bound::<OutputSegmentResponse>("resp:24", v, &m, mbs_k);
			cx.bound::<SegmentResponse<RangeProof>>("resp:26", v, &m, mbs_k);
			cx.bound::<SegmentResponse<TxKernel>>("resp:28", v, &m, mbs_k);
		}
	}
	// structured: a valid transaction body skeleton with count fields mutated
	for v in VERSIONS {
		// offset (32) + counts: v1/v2 body = u64 × 3 counts
		let mut base = r.bytes(32);
		base.extend_from_slice(&be64(1));
		base.extend_from_slice(&be64(1));
		base.extend_from_slice(&be64(1));
		base.extend_from_slice(&r.bytes(200));
		for m in mutations(&mut r, &base, &[1_000_000, 250, 40000], &[0; 64], cx.thorough) {
			cx.bound::<Transaction>("tx", v, &m, mbs_k);
			cx.bound::<UntrustedBlock>("block", v, &m, mbs_k);
		}
	}
}

// ---------------------------------------------------------------------------------------------
// regression probes: the witnesses of the defects repaired in /repo (fixed: entries of known_findings.json)

fn regress(cx: &mut Ctx, tag: &str, ok: bool, detail: String) {
	if ok {
		cx.out.raw(&format!("#STAT regression probe {}: repaired behaviour confirmed ({})", tag, detail));
	} else {
		cx.oracle_fails += 1;
		cx.out.raw(&format!("#ORACLE-FAIL C11 regression of repaired defect {}: {}", tag, detail));
	}
}

fn probe_in_process(cx: &mut Ctx) {
	// 1. MerkleProof::read: path_len = 2^58 (was: capacity-overflow panic) and 2^32 (was: 128 GiB request)
	for (tag, pl) in [("merkleproof-read-capacity-panic", 1u64 << 58), ("merkleproof-read-prealloc", 1u64 << 32)] {
		for buf in [false, true] {
			let mut w = be64(0).to_vec();
			w.extend_from_slice(&be64(pl));
			let (r, maxreq) = read_with::<MerkleProof>(buf, &w, 1);
			let ok = matches!(r, Ok(Err(_))) && maxreq <= 4096;
			regress(cx, tag, ok, format!(
				"MerkleProof::read on {} via {}: {} largest request {}",
				hex(&w), if buf { "BufReader" } else { "BinReader" },
				match &r { Ok(Ok(_)) => "ok".to_string(), Ok(Err(e)) => format!("err {}", err_name(e)), Err(p) => format!("PANIC {}", p) },
				maxreq
			));
		}
	}
	// 2. util::from_hex / Hash::from_hex on a multi-byte character
	let (r, _) = measured(|| grin_util::from_hex("€a"));
	regress(cx, "util-from-hex-char-boundary", matches!(r, Ok(Err(_))), format!("util::from_hex(\"€a\") -> {}", match &r { Ok(Ok(_)) => "ok".into(), Ok(Err(_)) => "err".into(), Err(p) => format!("PANIC {}", p.replace('\n', " ")) }));
	let (r, _) = measured(|| Hash::from_hex("€a").is_err());
	regress(cx, "util-from-hex-char-boundary", matches!(r, Ok(true)), format!("Hash::from_hex(\"€a\") -> {:?}", r.map_err(|p| format!("PANIC {}", p.replace('\n', " ")))));
	// 3. MerkleProof::from_hex on non-hex / odd length / non-ASCII
	for h in ["zz", "0", "€a"] {
		let hs = h.to_string();
		let (r, _) = measured(move || MerkleProof::from_hex(&hs).is_err());
		regress(cx, "merkleproof-from-hex-unwrap", matches!(r, Ok(true)), format!("MerkleProof::from_hex({:?}) -> {:?}", h, r.map_err(|p| format!("PANIC {}", p.replace('\n', " ")))));
	}
	// 4. Segment::validate on an unsolicited identifier whose range holds no position: must be Err
	for (h, idx) in [(0u8, 1u64 << 40), (11, 5), (200, 1), (63, 3)] {
		let mut b = vec![h];
		b.extend_from_slice(&be64(idx));
		b.extend_from_slice(&be64(0)); // no hashes
		b.extend_from_slice(&be64(0)); // no leaves
		b.extend_from_slice(&be64(0)); // empty proof
		let seg: Segment<TxKernel> = ser::deserialize(&mut &b[..], ProtocolVersion(1), DeserializationMode::default()).unwrap();
		let (r, _) = measured(move || seg.validate(10, None, Hash::from_vec(&[0u8; 32])).is_err());
		regress(cx, "segment-validate-unwrap", matches!(r, Ok(true)), format!(
			"Segment::<TxKernel>::validate(10, None, _) for identifier (height={}, idx={}) from {} -> {:?}",
			h, idx, hex(&b), r.map_err(|p| format!("PANIC {}", p.replace('\n', " ")))
		));
	}
}

// ---------------------------------------------------------------------------------------------

fn child_main(mode: &str) {
	quiet_panics();
	global::set_local_chain_type(ChainTypes::AutomatedTesting);
	// watchdog: no progress for 20 s = hang
	std::thread::spawn(|| {
		let mut last = HEARTBEAT.load(Ordering::Relaxed);
		let mut idle = 0;
		loop {
			std::thread::sleep(std::time::Duration::from_secs(2));
			let now = HEARTBEAT.load(Ordering::Relaxed);
			if now == last {
				idle += 1;
			} else {
				idle = 0;
				last = now;
			}
			if idle >= 10 {
				println!("\n#ORACLE-FAIL C11 hang: no progress for 20 s after case #{}", now);
				std::process::exit(3);
			}
		}
	});
	let mut cx = Ctx {
		out: Out::stdout(),
		rng: Rng::new(seed_from_env()),
		thorough: tier_thorough(),
		stats: BTreeMap::new(),
		oracle_fails: 0,
	};
	match mode {
		"main" => {
			hdr_stream(&mut cx);
			native_streams(&mut cx);
			segment_streams(&mut cx);
			merkle_stream(&mut cx);
			hex_streams(&mut cx);
			payload_streams(&mut cx);
			probe_in_process(&mut cx);
		}
		_ => {}
	}
	let stats = std::mem::take(&mut cx.stats);
	for (d, s) in stats {
		let kinds: Vec<String> = s.kinds.iter().map(|(k, v)| format!("{}={}", k, v)).collect();
		cx.out.raw(&format!(
			"#STAT decoder {}: cases={} ok={} err={} panic={} max_request={} max_request/len={}.{:03} errors[{}]",
			d, s.cases, s.ok, s.err, s.panic, s.max_req, s.max_ratio_milli / 1000, s.max_ratio_milli % 1000, kinds.join(",")
		));
	}
	cx.out.raw(&format!("#STAT oracle failures: {}", cx.oracle_fails));
	cx.out.flush();
	HEARTBEAT.fetch_add(1, Ordering::Relaxed);
}

/// run a child, copy its stdout through; returns (exit status description, stderr text, last line)
fn run_child(mode: &str, sink: &mut dyn Write) -> (Option<i32>, Option<i32>, String, String) {
	use std::os::unix::process::ExitStatusExt;
	let exe = std::env::current_exe().unwrap();
	let mut ch = std::process::Command::new(exe)
		.arg("child")
		.arg(mode)
		.stdout(std::process::Stdio::piped())
		.stderr(std::process::Stdio::piped())
		.spawn()
		.expect("spawn child");
	let so = ch.stdout.take().unwrap();
	let mut se = ch.stderr.take().unwrap();
	let t = std::thread::spawn(move || {
		let mut s = String::new();
		let _ = std::io::Read::read_to_string(&mut se, &mut s);
		s
	});
	let mut last = String::new();
	let rd = std::io::BufReader::new(so);
	for line in rd.lines() {
		match line {
			Ok(l) => {
				let _ = writeln!(sink, "{}", l);
				if !l.starts_with('#') && !l.is_empty() {
					last = l;
				}
			}
			Err(_) => break,
		}
	}
	let st = ch.wait().unwrap();
	let err = t.join().unwrap_or_default();
	(st.code(), st.signal(), err, last)
}

fn main() {
	let args: Vec<String> = std::env::args().collect();
	if args.len() >= 3 && args[1] == "child" {
		child_main(&args[2]);
		return;
	}
	let stdout = std::io::stdout();
	let mut sink = std::io::BufWriter::new(stdout.lock());
	// 1. the main stream in a child: an abort / hang of the real code is observed here
	let (code, sig, err, last) = run_child("main", &mut sink);
	if code != Some(0) {
		let tail: String = err.chars().rev().take(300).collect::<String>().chars().rev().collect();
		if code == Some(3) {
			// the child printed its own #ORACLE-FAIL hang line
		} else {
			let _ = writeln!(
				sink,
				"#ORACLE-FAIL C11 abort: decoder process died (exit {:?} signal {:?}) after line [{}]; stderr tail: {}",
				code,
				sig,
				last.chars().take(400).collect::<String>(),
				tail.replace('\n', " | ")
			);
		}
	}
	let _ = sink.flush();
}
